(* machine_refines_nquery: the frame machine (GenMachine / IRMachine: generator objects, suspension,
   destructive bindings undone by `finally`) running ALL of YP.query - dynamic facts first, API names
   never called, then eval_context.get('<name>_<k>', eval_context.get('<name>_n')): a registered Python
   predicate, the generator function of the loaded program, a builtin - yields exactly the answers of
   Sem/Native.nquery (the big-step engine of C20 and of evaluate_bounded, C17), ends as it says
   (StopIteration / an exception), and leaves the initial heap.

   A registered Python predicate is, on the machine side, ARBITRARY machine code (`ucode`: it may loop over
   unifications, call back into the engine, raise anywhere); on the big-step side it is its answer
   function (Native.nfun).  The two are tied by `realizes u f`: run as a generator object under any heap the
   code yields the answers of f, in order, and then ends as f says.  The theorem is compositional: IF every
   registered predicate's generator object behaves as its answer function says THEN so does every query of
   every compiled program around them (conjunction, cut, if-then-else, negation, findall, once, call/N,
   next to dynamic facts).  `pyrows_realizes`: the Python predicates of property C20,
        def p( *args ):
            for row in rows:
                for _ in unify_arrays(args, row): yield v
            [raise E]
   are realized by the literal machine code of that text - also the raising ones. *)
From Coq Require Import String.
From Coq Require Import List Arith Bool Lia ZArith NArith.
Import ListNotations.
From YP Require Import Base.Str Term.Term Term.Fast Term.Dfast Unify.Unify Unify.Fast Unify.UnifyGen Unify.UnifyGenFast Comp.IR Comp.CompileBody
  Comp.CompileClause Sem.IRSem Sem.Machine Sem.Native Sem.NativeThms
  Engine.GenMachine Engine.Restore Engine.MachineMono Engine.IRMachine Engine.QueryFacts Engine.Refine Engine.RefineCompiled.
From YP Require Engine.Resolve.
Local Open Scope string_scope.
Local Open Scope list_scope.

Notation mcode := (code lx fr callp).

(* a registered Python predicate: called with the actual arguments while the cell counter is nx, it is a
   frame with this body and these initial locals *)
Definition ucode := list term -> nat -> mcode * env.

(* the names / arities under which engine.py registers a builtin (Sem/Machine.builtin is Some) *)
Definition is_builtin (name : str) (args : list term) : bool :=
  if str_eqb name (s_ "=") then match args with [_; _] => true | _ => false end
  else if str_eqb name (s_ "\=") then match args with [_; _] => true | _ => false end
  else if str_eqb name (s_ "call") then true
  else if str_eqb name (s_ "once") then match args with [_] => true | _ => false end
  else if str_eqb name (s_ "findall") then match args with [_; _; _] => true | _ => false end
  else false.

Lemma is_builtin_spec call name args s :
  match builtin call name args s with Some _ => is_builtin name args = true | None => is_builtin name args = false end.
Proof.
  unfold builtin, is_builtin.
  destruct (str_eqb name (s_ "=")). { destruct args as [|a [|b [|c r]]]; reflexivity. }
  destruct (str_eqb name (s_ "\=")). { destruct args as [|a [|b [|c r]]]; reflexivity. }
  destruct (str_eqb name (s_ "call")). { destruct args; reflexivity. }
  destruct (str_eqb name (s_ "once")). { destruct args as [|a [|b r]]; reflexivity. }
  destruct (str_eqb name (s_ "findall")). { destruct args as [|a [|b [|c [|e r]]]]; reflexivity. }
  reflexivity.
Qed.

(* match_dynamic / a Python predicate over rows:
     for row in rows: for _ in unify_arrays(args, <row with new variables>): yield
   the row's variables are the cells nx .. nx + r_nv - 1 (a new copy per row; the counter follows the
   search path: it is back at nx when the next row is tried - Native.match_rows) *)
Definition set_row (nx : nat) (r : frow) : nat -> fr -> heap -> fr :=
  fun _ e _ => {| f_env := f_env e; f_nxt := nx + r_nv r; f_fl := f_fl e;
                  f_acc := map (tshift nx) (r_vals r); f_aux := f_aux e |}.
Definition reset_row (nx : nat) : nat -> fr -> heap -> fr :=
  fun _ e _ => {| f_env := f_env e; f_nxt := nx; f_fl := f_fl e; f_acc := []; f_aux := f_aux e |}.
Definition arr_expr (args : list term) : nat -> fr -> heap -> iexpr lx callp :=
  fun _ e _ => ELeaf (XArrays args (f_acc e)).
Fixpoint rows_code (rows : list frow) (args : list term) (nx : nat) : mcode :=
  match rows with
  | [] => CAssign (reset_row nx)
  | r :: rest => CSeq (CAssign (set_row nx r)) (CSeq (CFor (arr_expr args) CYield) (rows_code rest args nx))
  end.

(* the Python predicate of the property, optionally raising after its last row *)
Definition pyrows (rows : list frow) (raises : bool) : ucode :=
  fun args nx => (CSeq (rows_code rows args nx) (if raises then CRaise else CSkip), []).
(* ... and its answer function *)
Definition pyrows_fun (rows : list frow) (vals : list bool) (raises : bool) : nfun :=
  fun args s => let '(xs, e) := native_rows rows vals args s in (xs, e || raises).

Section WProg.
  Variable ir : ir_program.
  Variable dyn : str -> nat -> list frow.               (* the fact database *)
  Variable ufix : str -> nat -> option ucode.           (* registered under '<name>_<k>' *)
  Variable uvar : str -> option ucode.                  (* registered under '<name>_n' *)

  (* eval_context.get(f'{name}_{len(args)}', eval_context.get(f'{name}_n'))( *args ) *)
  Definition fun_part (name : str) (args : list term) (nx : nat) : mcode * env :=
    match ufix name (length args) with
    | Some u => u args nx
    | None =>
        match find_func ir name (length args) with
        | Some f => (fun_code (fn_body f), bind_args 0 args)
        | None =>
            if str_eqb name (s_ "call") then
              match uvar name with Some u => u args nx | None => builtin_code name args end
            else if is_builtin name args then builtin_code name args
            else match uvar name with Some u => u args nx | None => (CSkip, []) end
        end
    end.

  (* YP.query as one frame *)
  Definition wprog (p : callp) : mcode * fr :=
    let '(name, args, nx) := p in
    let ce := if Resolve.reserved name then (CSkip, []) else fun_part name args nx in
    (CSeq (rows_code (dyn name (length args)) args nx) (fst ce), fr0 (snd ce) nx).

  Definition w_nexts := nexts mkleaf lnext lclose wprog f_nxt.
  Definition w_query (name : str) (args : list term) (nx : nat) : GenMachine.iter leaf lx fr callp :=
    mq wprog name args nx.
  Definition w_iclose := iclose (L:=leaf) (X:=lx) (E:=fr) (P:=callp) lclose.

  (* restoration holds for this machine program as for any other (Restore.v) *)
  Theorem world_query_restores n d k h name args nx hf itf ys r :
    w_nexts n d k h (w_query name args nx) = Some (hf, itf, ys, r) ->
    w_iclose hf itf = h
    /\ ithrow lclose hf itf = (h, IDone, RRaise)
    /\ (r <> RYield -> hf = h)
    /\ Forall (fun y => exists nw, y = nw ++ h) ys.
  Proof.
    intros H. unfold w_nexts, w_query, mq in H.
    destruct (query_restores mkleaf lnext lclose wprog f_nxt linv L_new L_next L_close L_ext _ _ _ _ _ _ H) as [A [B C]].
    repeat split; auto. unfold ithrow. unfold w_iclose in A. rewrite A. reflexivity.
  Qed.

  Notation mexec := (exec mkleaf lnext lclose wprog f_nxt).
  Notation minext := (inext mkleaf lnext lclose wprog f_nxt).
  Notation FSpec := (FSpec wprog).
  Notation mkont := (kont leaf lx fr callp).

  (* the generator object of the code yields the answers of the function and ends as it says *)
  Definition realizes (u : ucode) (f : nfun) : Prop :=
    forall d g0 args nx h, wf h ->
      FSpec (S d) g0 (fst (drop (f args (mkst h nx)))) (rend (snd (drop (f args (mkst h nx)))))
            (fun n => mexec n d h (fst (u args nx)) KNil (fr0 (snd (u args nx)) nx)).
  Definition orealizes (ou : option ucode) (of : option nfun) : Prop :=
    match ou, of with
    | Some u, Some f => realizes u f
    | None, None => True
    | _, _ => False
    end.

  Lemma realizes_ext u f g : (forall args s, f args s = g args s) -> realizes u f -> realizes u g.
  Proof. intros E H d g0 args nx h W. rewrite <- E. apply H. exact W. Qed.

  (* ---------------------------------------------------------------- rows *)
  Lemma rows_sim d (c : mcode) h g0 args (r_env : env) nx : wf h ->
    forall rows (e : fr) fa fe ys rf,
      f_env e = r_env -> f_fl e = flags0 -> f_aux e = 0 ->
      match_rows rows args (mkst h nx) = (fa, fe) ->
      (if fe then ys = [] /\ rf = RRaise
       else FSpec (S d) g0 ys rf (fun n => mexec n d h c KNil (fr0 r_env nx))) ->
      FSpec (S d) g0 (fa ++ ys) rf (fun n => mexec n d h (rows_code rows args nx) (KSeq c KNil) e).
  Proof.
    intros W. induction rows as [|r rest IH]; intros e fa fe ys rf E1 E2 E3 HA HK.
    - cbn [match_rows] in HA. inversion HA; subst fa fe. cbn [app rows_code] in *.
      eapply FSpec_ev; [|exact HK]. exists 0, 2, 0. intros n _. cbn [Nat.add]. rewrite exec_S, cont_S.
      f_equal. unfold reset_row, fr0. destruct e; cbn in *. subst. reflexivity.
    - cbn [match_rows sto nxt mkst] in HA. cbn [rows_code].
      set (e1 := set_row nx r 0 e h).
      set (K := (KSeq (rows_code rest args nx) (KSeq c KNil) : mkont)).
      eapply FSpec_ev; [exists 0, 4, 0; intros n _; cbn [Nat.add]; rewrite exec_S, exec_S, cont_S, exec_S; reflexivity|].
      change (set_row nx r (knxt f_nxt (KSeq (CSeq (CFor (arr_expr args) CYield) (rows_code rest args nx)) (KSeq c KNil)) e) e h) with e1.
      fold K.
      pose proof (ispec_arrays wprog d h (f_nxt e1) args (f_acc e1) W) as HI.
      unfold arrays_st in HI. cbn [f_nxt f_acc e1 set_row] in HI.
      unfold row_terms in HA. cbn [nxt mkst] in HA.
      assert (F1: f_env e1 = r_env /\ f_fl e1 = flags0 /\ f_aux e1 = 0) by (unfold e1, set_row; cbn; auto).
      destruct F1 as [F1 [F2 F3]].
      destruct (unify_arrays_fast ufuel h args (map (tshift nx) (r_vals r))) as [s'| | |] eqn:U.
      + destruct (match_rows rest args (mkst h nx)) as [zs ze] eqn:R1.
        inversion HA; subst fa fe.
        change (({| sto := s'; nxt := nx + r_nv r |} :: zs) ++ ys) with
               (map snd [(f_env e1, mkst s' (nx + r_nv r))] ++ (zs ++ ys)).
        apply (for_sim wprog d (arr_expr args) CYield K _ (fun it' => sim_yield wprog d _)
                 g0 e1 h [mkst s' (nx + r_nv r)] false _ CNorm (f_fl e1) (zs ++ ys) rf W HI (loop_yield _ _ _)).
        cbn [Kont]. eapply FSpec_S; [intros n; apply cont_S|]. cbn beta iota. rewrite setfl_same.
        apply (IH e1 zs ze ys rf F1 F2 F3 eq_refl HK).
      + change (fa ++ ys) with (map snd (@nil cfg) ++ (fa ++ ys)).
        apply (for_sim wprog d (arr_expr args) CYield K _ (fun it' => sim_yield wprog d _)
                 g0 e1 h [] false _ CNorm (f_fl e1) (fa ++ ys) rf W HI (loop_yield _ _ _)).
        cbn [Kont]. eapply FSpec_S; [intros n; apply cont_S|]. cbn beta iota. rewrite setfl_same.
        apply (IH e1 fa fe ys rf F1 F2 F3 HA HK).
      + inversion HA; subst fa fe. destruct HK as [-> ->].
        change ([] ++ []) with (map snd (@nil cfg) ++ (@nil st)).
        apply (for_sim wprog d (arr_expr args) CYield K _ (fun it' => sim_yield wprog d _)
                 g0 e1 h [] true _ CErr (f_fl e1) [] RRaise W HI (loop_yield _ _ _)). cbn [Kont]. auto.
      + inversion HA; subst fa fe. destruct HK as [-> ->].
        change ([] ++ []) with (map snd (@nil cfg) ++ (@nil st)).
        apply (for_sim wprog d (arr_expr args) CYield K _ (fun it' => sim_yield wprog d _)
                 g0 e1 h [] true _ CErr (f_fl e1) [] RRaise W HI (loop_yield _ _ _)). cbn [Kont]. auto.
  Qed.

  (* the Python predicates of the property are realized by the machine code of their text *)
  Theorem pyrows_realizes rows vals raises : realizes (pyrows rows raises) (pyrows_fun rows vals raises).
  Proof.
    intros d g0 args nx h W. unfold pyrows, pyrows_fun. cbn [fst snd].
    pose proof (drop_native_rows rows vals args (mkst h nx)) as D.
    destruct (native_rows rows vals args (mkst h nx)) as [xs e] eqn:N. unfold drop in *. cbn [fst snd] in *.
    eapply FSpec_S; [intros n; apply exec_S|]. cbn beta iota.
    rewrite <- (app_nil_r (map fst xs)).
    apply (rows_sim d _ h g0 args [] nx W rows (fr0 [] nx) (map fst xs) e [] _ eq_refl eq_refl eq_refl (eq_sym D)).
    destruct e; cbn [orb rend]; [auto|].
    destruct raises; cbn [rend].
    - exists 1, h, IDone. intros n L. destruct n as [|n]; [lia|]. reflexivity.
    - apply skip_spec.
  Qed.

  (* ---------------------------------------------------------------- the engine *)
  Variable w : world.
  Hypothesis Wir : w_ir w = ir.
  Hypothesis Wdyn : forall name k, w_dyn w name k = dyn name k.
  Hypothesis Wfix : forall name k, orealizes (ufix name k) (w_fix w name k).
  Hypothesis Wvar : forall name, orealizes (uvar name) (w_var w name).
  Hypothesis OK : ir_ok ir.

  Notation CallOK := (CallOK wprog (fun d => nquery d w)).

  Lemma fun_part_sim d : CallOK d -> forall name args nx h g0, wf h ->
    FSpec (S d) g0 (fst (call_function (nquery d w) w name args (mkst h nx)))
          (rend (snd (call_function (nquery d w) w name args (mkst h nx))))
          (fun n => mexec n d h (fst (fun_part name args nx)) KNil (fr0 (snd (fun_part name args nx)) nx)).
  Proof.
    intros HC name args nx h g0 W. unfold call_function, fun_part. rewrite Wir.
    pose proof (Wfix name (length args)) as HF. unfold orealizes in HF.
    destruct (ufix name (length args)) as [u|], (w_fix w name (length args)) as [f|]; try contradiction.
    { apply (HF d g0 args nx h W). }
    clear HF.
    destruct (find_func ir name (length args)) as [f|] eqn:Ef.
    { destruct (run_function (Machine.iter (nquery d w)) assign (fn_body f) (bind_args 0 args, mkst h nx)) as [ys kf] eqn:ER.
      cbn [fst snd]. apply (fun_sim wprog (fun d => nquery d w) d HC (fn_body f) _ nx h g0 ys kf W); [|exact ER].
      apply OK. eapply find_func_in; eauto. }
    pose proof (Wvar name) as HV. unfold orealizes in HV.
    pose proof (is_builtin_spec (nquery d w) name args (mkst h nx)) as IB.
    pose proof (builtin_sim wprog (fun d => nquery d w) d HC name args nx h g0 W) as HB. cbn beta in HB.
    destruct (str_eqb name (s_ "call")) eqn:Ec.
    - destruct (uvar name) as [u|], (w_var w name) as [fv|]; try contradiction.
      + apply (HV d g0 args nx h W).
      + destruct (builtin (nquery d w) name args (mkst h nx)) as [r|]; exact HB.
    - destruct (builtin (nquery d w) name args (mkst h nx)) as [r|]; rewrite IB.
      + exact HB.
      + destruct (uvar name) as [u|], (w_var w name) as [fv|]; try contradiction.
        * apply (HV d g0 args nx h W).
        * apply skip_spec.
  Qed.

  Theorem call_ok_w : forall d, CallOK d.
  Proof.
    induction d as [|d IH]; intros g0 name args nx h W; (split; [|constructor]).
    - cbn [nquery fst snd Refine.FSpec]. exists 1, h, (mq wprog name args nx). intros n L.
      destruct n as [|n]; [lia|]. reflexivity.
    - eapply FSpec_S; [intros n; unfold mq; apply inext_S|]. cbn beta iota.
      cbn [nquery]. unfold nstep. rewrite Wdyn. unfold wprog. cbn [fst snd].
      eapply FSpec_S; [intros n; apply exec_S|]. cbn beta iota.
      destruct (match_rows (dyn name (length args)) args (mkst h nx)) as [ds de] eqn:MR.
      set (ce := if Resolve.reserved name then (CSkip, []) else fun_part name args nx).
      assert (G: forall ys rf, (if de then ys = [] /\ rf = RRaise else
                    FSpec (S d) g0 ys rf (fun n => mexec n d h (fst ce) KNil (fr0 (snd ce) nx))) ->
                 FSpec (S d) g0 (ds ++ ys) rf
                   (fun n => mexec n d h (rows_code (dyn name (length args)) args nx) (KSeq (fst ce) KNil) (fr0 (snd ce) nx))).
      { intros ys rf HK.
        apply (rows_sim d (fst ce) h g0 args (snd ce) nx W (dyn name (length args))
                 (fr0 (snd ce) nx) ds de ys rf eq_refl eq_refl eq_refl MR HK). }
      destruct de; cbn [fst snd rend].
      + rewrite <- (app_nil_r ds). apply G. auto.
      + unfold ce. destruct (Resolve.reserved name); cbn [fst snd rend].
        * rewrite <- (app_nil_r ds) at 1. apply G. apply skip_spec.
        * pose proof (fun_part_sim d IH name args nx h g0 W) as HP.
          destruct (call_function (nquery d w) w name args (mkst h nx)) as [fs fe]. cbn [fst snd] in *.
          apply G. exact HP.
  Qed.

  (* THE REFINEMENT THEOREM for the whole of YP.query.  For every abandonment point k: the generator object
     of the query, resumed at most k times (each time under the heap the previous resumption left), yields
     exactly the first k answer stores of Sem/Native.nquery, in order; past the last answer it ends by
     StopIteration / by an exception exactly as nquery says (also when the exception is raised by a
     registered Python predicate after it delivered j answers), and the heap is then the initial one. *)
  Theorem machine_refines_nquery d name args nx h k : wf h ->
    exists N hf itf, forall n, N <= n ->
      w_nexts n d k h (w_query name args nx) =
      Some (hf, itf, map sto (firstn k (fst (nquery d w name args (mkst h nx)))),
            if Nat.leb k (length (fst (nquery d w name args (mkst h nx)))) then RYield
            else rend (snd (nquery d w name args (mkst h nx))))
      /\ (length (fst (nquery d w name args (mkst h nx))) < k -> hf = h).
  Proof. intros W. exact (gen_refines wprog (fun d => nquery d w) d name args nx h k (call_ok_w d) W). Qed.

  (* ... for WHATEVER fuel the machine returns a value at *)
  Theorem machine_refines_nquery_fuel d name args nx h k n hf itf ys r : wf h ->
    w_nexts n d k h (w_query name args nx) = Some (hf, itf, ys, r) ->
    ys = map sto (firstn k (fst (nquery d w name args (mkst h nx)))) /\
    r = (if Nat.leb k (length (fst (nquery d w name args (mkst h nx)))) then RYield
         else rend (snd (nquery d w name args (mkst h nx)))).
  Proof. intros W. exact (gen_refines_fuel wprog (fun d => nquery d w) d name args nx h k n hf itf ys r (call_ok_w d) W). Qed.

  (* ... with the cell counters: the i-th suspension carries the counter of the i-th answer *)
  Theorem machine_refines_nquery_steps d name args nx h : wf h ->
    FSpec d 0 (fst (nquery d w name args (mkst h nx))) (rend (snd (nquery d w name args (mkst h nx))))
          (fun n => minext n d h (w_query name args nx)).
  Proof. intros W. apply (call_ok_w d 0 name args nx h W). Qed.
End WProg.

(* ------------------------------------------------------------------------------------------------
   for every COMPILED program (RefineCompiled.compiled_ir_ok), stated over the parts of the world *)
Definition mkw (ir : ir_program) (ffix : str -> nat -> option nfun) (fvar : str -> option nfun)
    (dyn : str -> nat -> list frow) : world := {| w_ir := ir; w_fix := ffix; w_var := fvar; w_dyn := dyn |}.

Theorem compiled_machine_refines_nquery p ir : compile_program p = Some ir ->
  forall (dyn : str -> nat -> list frow) (ufix : str -> nat -> option ucode) (uvar : str -> option ucode)
         (ffix : str -> nat -> option nfun) (fvar : str -> option nfun),
  (forall name k, orealizes ir dyn ufix uvar (ufix name k) (ffix name k)) ->
  (forall name, orealizes ir dyn ufix uvar (uvar name) (fvar name)) ->
  forall d name args nx h k, wf h ->
  exists N hf itf, forall n, N <= n ->
    w_nexts ir dyn ufix uvar n d k h (w_query ir dyn ufix uvar name args nx) =
    Some (hf, itf, map sto (firstn k (fst (nquery d (mkw ir ffix fvar dyn) name args (mkst h nx)))),
          if Nat.leb k (length (fst (nquery d (mkw ir ffix fvar dyn) name args (mkst h nx)))) then RYield
          else rend (snd (nquery d (mkw ir ffix fvar dyn) name args (mkst h nx))))
    /\ (length (fst (nquery d (mkw ir ffix fvar dyn) name args (mkst h nx))) < k -> hf = h).
Proof.
  intros HC dyn ufix uvar ffix fvar Hf Hv.
  apply (machine_refines_nquery ir dyn ufix uvar (mkw ir ffix fvar dyn) eq_refl (fun _ _ => eq_refl) Hf Hv).
  eapply compiled_ir_ok; eauto.
Qed.

Theorem compiled_machine_refines_nquery_fuel p ir : compile_program p = Some ir ->
  forall (dyn : str -> nat -> list frow) (ufix : str -> nat -> option ucode) (uvar : str -> option ucode)
         (ffix : str -> nat -> option nfun) (fvar : str -> option nfun),
  (forall name k, orealizes ir dyn ufix uvar (ufix name k) (ffix name k)) ->
  (forall name, orealizes ir dyn ufix uvar (uvar name) (fvar name)) ->
  forall d name args nx h k n hf itf ys r, wf h ->
  w_nexts ir dyn ufix uvar n d k h (w_query ir dyn ufix uvar name args nx) = Some (hf, itf, ys, r) ->
  ys = map sto (firstn k (fst (nquery d (mkw ir ffix fvar dyn) name args (mkst h nx)))) /\
  r = (if Nat.leb k (length (fst (nquery d (mkw ir ffix fvar dyn) name args (mkst h nx)))) then RYield
       else rend (snd (nquery d (mkw ir ffix fvar dyn) name args (mkst h nx)))).
Proof.
  intros HC dyn ufix uvar ffix fvar Hf Hv d name args nx h k n hf itf ys r.
  apply (machine_refines_nquery_fuel ir dyn ufix uvar (mkw ir ffix fvar dyn) eq_refl (fun _ _ => eq_refl) Hf Hv).
  eapply compiled_ir_ok; eauto.
Qed.
