(* The raising predicate of property C20 at machine level: Native.raising f j = "raises instead of delivering its answer
   number j (counted from 0)", for f = native_rows rows vals.  Its text

       def p( *args ):
           n = 0
           for row in rows:
               for _ in unify_arrays(args, row):
                   if n == j: raise E
                   yield v
                   n += 1

   is the machine code pyrows_at rows j (the counter n is the frame-local f_aux), and that code REALIZES
   raising (native_rows rows vals) j  (RefineNative.realizes) - so machine_refines_nquery / machine_exception_passthrough
   apply to the worlds Native.with_raising_fix of C20's exception_passthrough. *)
From Coq Require Import String.
From Coq Require Import List Arith Bool Lia ZArith NArith.
Import ListNotations.
From YP Require Import Base.Str Term.Term Term.Fast Term.Dfast Unify.Unify Unify.Fast Unify.UnifyGen Unify.UnifyGenFast Comp.IR Comp.CompileBody
  Sem.IRSem Sem.Machine Sem.Native Sem.NativeThms
  Engine.GenMachine Engine.Restore Engine.MachineMono Engine.IRMachine Engine.QueryFacts Engine.Refine Engine.RefineNative.
Local Open Scope list_scope.

Definition at_j (j : nat) : fr -> bool := fun e => Nat.eqb (f_aux e) j.
Definition add_aux (n : nat) (e : fr) : fr :=
  {| f_env := f_env e; f_nxt := f_nxt e; f_fl := f_fl e; f_acc := f_acc e; f_aux := f_aux e + n |}.
Definition incr_aux : nat -> fr -> heap -> fr := fun _ e _ => add_aux 1 e.
Definition ybody (j : nat) : mcode := CSeq (CIf (at_j j) CRaise) (CSeq CYield (CAssign incr_aux)).
Fixpoint rows_code_at (rows : list frow) (args : list term) (nx j : nat) : mcode :=
  match rows with
  | [] => CSkip
  | r :: rest => CSeq (CAssign (set_row nx r)) (CSeq (CFor (arr_expr args) (ybody j)) (rows_code_at rest args nx j))
  end.
Definition pyrows_at (rows : list frow) (j : nat) : ucode := fun args nx => (rows_code_at rows args nx j, []).

(* big-step: c = number of answers delivered so far *)
Fixpoint rows_at (rows : list frow) (args : list term) (s : st) (c j : nat) : list st * bool :=
  match rows with
  | [] => ([], false)
  | r :: rest =>
      match unify_arrays_fast ufuel (sto s) args (row_terms r s) with
      | UOk s' => if Nat.eqb c j then ([], true)
                  else let '(zs, e) := rows_at rest args s (S c) j in ({| sto := s'; nxt := nxt s + r_nv r |} :: zs, e)
      | UFail => rows_at rest args s c j
      | UOof | UCyc => ([], true)
      end
  end.

Lemma rows_at_spec rows args s j : forall c, c <= j ->
  rows_at rows args s c j =
  (let '(xs, e) := match_rows rows args s in if Nat.ltb (j - c) (length xs) then (firstn (j - c) xs, true) else (xs, e)).
Proof.
  induction rows as [|r rest IH]; intros c L; cbn [rows_at match_rows]; [reflexivity|].
  destruct (unify_arrays_fast ufuel (sto s) args (row_terms r s)) as [s'| | |]; try reflexivity.
  - destruct (Nat.eqb c j) eqn:E.
    + apply Nat.eqb_eq in E. subst c. rewrite Nat.sub_diag.
      destruct (match_rows rest args s) as [zs e]. reflexivity.
    + apply Nat.eqb_neq in E. rewrite (IH (S c)) by lia.
      destruct (match_rows rest args s) as [zs e]. cbn [length].
      replace (j - c) with (S (j - S c)) by lia. cbn [firstn].
      change (Nat.ltb (S (j - S c)) (S (length zs))) with (Nat.ltb (j - S c) (length zs)).
      destruct (Nat.ltb (j - S c) (length zs)); reflexivity.
  - apply IH. exact L.
Qed.

Lemma raising_rows rows vals j args s :
  drop (raising (native_rows rows vals) j args s) = rows_at rows args s 0 j.
Proof.
  rewrite rows_at_spec by lia. rewrite Nat.sub_0_r. rewrite <- (drop_native_rows rows vals args s).
  unfold raising, drop. destruct (native_rows rows vals args s) as [xs e]. cbn [fst snd]. rewrite map_length.
  destruct (Nat.ltb j (length xs)); cbn [fst snd]; [|reflexivity]. rewrite firstn_map. reflexivity.
Qed.

Section At.
  Variable ir : ir_program.
  Variable dyn : str -> nat -> list frow.
  Variable ufix : str -> nat -> option ucode.
  Variable uvar : str -> option ucode.
  Notation wprog := (wprog ir dyn ufix uvar).
  Notation mexec := (exec mkleaf lnext lclose wprog f_nxt).
  Notation mcont := (cont mkleaf lnext lclose wprog f_nxt).
  Notation mloop := (loop mkleaf lnext lclose wprog f_nxt).
  Notation minext := (inext mkleaf lnext lclose wprog f_nxt).
  Notation FSpec := (FSpec wprog).
  Notation ISpec := (ISpec wprog).
  Notation mkont := (kont leaf lx fr callp).
  Notation kn := (knxt (L:=leaf) (X:=lx) (P:=callp) f_nxt).
  Notation munwind := (unwind (L:=leaf) (X:=lx) (E:=fr) (P:=callp) lclose).
  Notation mclose := (iclose (L:=leaf) (X:=lx) (E:=fr) (P:=callp) lclose).

  Lemma add_aux_S n e : add_aux n (add_aux 1 e) = add_aux (S n) e.
  Proof. unfold add_aux. cbn. f_equal. lia. Qed.
  Lemma add_aux_0 e : add_aux 0 e = e.
  Proof. unfold add_aux. destruct e; cbn. f_equal. lia. Qed.

  (* the loop `for _ in <it>: if n == j: raise; yield; n += 1` over an iterator that yields xs_it *)
  Lemma at_loop d j (k : mkont) g0 h0 : wf h0 -> forall xs_it err e hcur itcur ys rf,
    ISpec d h0 (kn k e) (xs_it, err) hcur itcur ->
    f_aux e <= j ->
    (if Nat.ltb (j - f_aux e) (length xs_it) then ys = [] /\ rf = RRaise
     else if err then ys = [] /\ rf = RRaise
     else FSpec (S d) g0 ys rf (fun n => mcont n d h0 k (add_aux (length xs_it) e))) ->
    FSpec (S d) g0 (firstn (j - f_aux e) xs_it ++ ys) rf (fun n => mloop n d hcur itcur (ybody j) k e).
  Proof.
    intros W0. induction xs_it as [|x r IH]; intros err e hcur itcur ys rf [HF HI] Lj HK.
    - cbn [fst snd Refine.FSpec] in HF. destruct HF as [N [hf [it' HF]]].
      destruct (restore_next wprog _ _ _ _ _ _ _ _ HI (HF N (le_n N))) as [I' [S' C']].
      rewrite firstn_nil. cbn [app length] in *. change (Nat.ltb (j - f_aux e) 0) with false in HK.
      destruct err.
      + destruct HK as [-> ->]. cbn [Refine.FSpec]. exists (S N), (munwind (mclose hf it') k), IDone. intros n L.
        destruct n as [|n]; [lia|]. rewrite loop_S, (HF n) by lia. reflexivity.
      + rewrite (S' eq_refl) in HF. rewrite add_aux_0 in HK.
        eapply FSpec_ev; [|exact HK]. exists N, 1, 0. intros n L. cbn [Nat.add]. rewrite loop_S, (HF n) by lia. reflexivity.
    - cbn [fst snd Refine.FSpec] in HF. destruct HF as [N [it' [HF [Gn [Wx HR]]]]].
      destruct (restore_next wprog _ _ _ _ _ _ _ _ HI (HF N (le_n N))) as [I' [_ C']].
      set (K' := (KLoop it' (ybody j) k : mkont)).
      destruct (Nat.eqb (f_aux e) j) eqn:E.
      + (* n == j: raise *)
        apply Nat.eqb_eq in E. rewrite E, Nat.sub_diag in *. cbn [firstn app length] in *.
        change (Nat.ltb 0 (S (length r))) with true in HK. destruct HK as [-> ->]. cbn [Refine.FSpec].
        exists (N + 4), (munwind (sto x) (KSeq (CSeq CYield (CAssign incr_aux)) K')), IDone. intros n L.
        destruct n as [|[|[|[|n]]]]; try lia. rewrite loop_S, (HF (S (S (S n)))) by lia. fold K'. unfold ybody.
        rewrite exec_S, exec_S. unfold at_j. rewrite E, Nat.eqb_refl. rewrite exec_S. reflexivity.
      + apply Nat.eqb_neq in E.
        replace (j - f_aux e) with (S (j - S (f_aux e))) in * by lia. cbn [firstn app length] in *.
        change (Nat.ltb (S (j - S (f_aux e))) (S (length r))) with (Nat.ltb (j - S (f_aux e)) (length r)) in HK.
        cbn [Refine.FSpec].
        exists (N + 6), (ISusp (KSeq (CAssign incr_aux) K') e). repeat split.
        * intros n L. destruct n as [|[|[|[|[|[|n]]]]]]; try lia. rewrite loop_S, (HF (S (S (S (S (S n)))))) by lia. fold K'. unfold ybody.
          rewrite exec_S, exec_S. unfold at_j. apply Nat.eqb_neq in E. rewrite E. rewrite cont_S, exec_S, exec_S. reflexivity.
        * cbn [it_nxt knxt]. fold (it_nxt (kn k e) it'). exact Gn.
        * exact Wx.
        * eapply FSpec_ev; [exists 0, 4, 0; intros n _; cbn [Nat.add]; rewrite inext_S, cont_S, exec_S, cont_S; reflexivity|].
          cbn [knxt]. unfold incr_aux.
          pose proof (IH err (add_aux 1 e) (sto x) it' ys rf) as G. cbn [f_aux add_aux] in G.
          replace (f_aux e + 1) with (S (f_aux e)) in G by lia.
          apply G.
          -- split; [|exact I']. rewrite (kn_nxt k _ e) by reflexivity. exact HR.
          -- lia.
          -- fold (add_aux 1 e). rewrite add_aux_S. exact HK.
  Qed.

  Lemma rows_at_sim d j h g0 args nx : wf h ->
    forall rows (e : fr) fa fe, f_aux e <= j ->
      rows_at rows args (mkst h nx) (f_aux e) j = (fa, fe) ->
      FSpec (S d) g0 fa (rend fe) (fun n => mexec n d h (rows_code_at rows args nx j) KNil e).
  Proof.
    intros W. induction rows as [|r rest IH]; intros e fa fe Lj HA.
    - cbn [rows_at] in HA. inversion HA; subst. apply skip_spec.
    - cbn [rows_at rows_code_at] in *. unfold row_terms in HA. cbn [sto nxt mkst] in HA.
      set (e1 := set_row nx r 0 e h).
      set (K := (KSeq (rows_code_at rest args nx j) KNil : mkont)).
      eapply FSpec_ev; [exists 0, 5, 0; intros n _; cbn [Nat.add]; rewrite exec_S, exec_S, cont_S, exec_S, exec_S; reflexivity|].
      change (set_row nx r (knxt f_nxt (KSeq (CSeq (CFor (arr_expr args) (ybody j)) (rows_code_at rest args nx j)) KNil) e) e h) with e1.
      fold K. cbn [mkiter arr_expr].
      pose proof (ispec_arrays wprog d h (f_nxt e1) args (f_acc e1) W) as HI.
      unfold arrays_st in HI. cbn [f_nxt f_acc e1 set_row] in HI.
      set (IT := ILeaf (mkleaf (XArrays args (map (tshift nx) (r_vals r))) h) : GenMachine.iter leaf lx fr callp) in *.
      assert (F3: f_aux e1 = f_aux e) by reflexivity.
      assert (KN: kn K e1 = nx + r_nv r) by reflexivity.
      rewrite <- (app_nil_r fa).
      destruct (unify_arrays_fast ufuel h args (map (tshift nx) (r_vals r))) as [s'| | |] eqn:U.
      + destruct (Nat.eqb (f_aux e) j) eqn:E.
        * inversion HA; subst fa fe. apply Nat.eqb_eq in E.
          pose proof (at_loop d j K g0 h W [mkst s' (nx + r_nv r)] false e1 h IT [] RRaise) as G.
          rewrite F3, E, Nat.sub_diag in G. cbn [firstn app] in G. apply G; [rewrite KN; exact HI|lia|].
          cbn. auto.
        * apply Nat.eqb_neq in E.
          destruct (rows_at rest args (mkst h nx) (S (f_aux e)) j) as [zs ze] eqn:R1. inversion HA; subst fa fe.
          pose proof (at_loop d j K g0 h W [mkst s' (nx + r_nv r)] false e1 h IT zs (rend ze)) as G.
          rewrite F3 in G. replace (j - f_aux e) with (S (j - S (f_aux e))) in G by lia. cbn [firstn app length] in G.
          rewrite firstn_nil in G. rewrite app_nil_r. apply G; [rewrite KN; exact HI|lia|].
          change (Nat.ltb (S (j - S (f_aux e))) 1) with false. cbn iota.
          eapply FSpec_S; [intros n; apply cont_S|]. cbn beta iota.
          apply (IH (add_aux 1 e1) zs ze).
          -- cbn [f_aux add_aux]. rewrite F3. lia.
          -- cbn [f_aux add_aux]. rewrite F3, Nat.add_1_r. exact R1.
      + pose proof (at_loop d j K g0 h W [] false e1 h IT fa (rend fe)) as G.
        rewrite firstn_nil in G. cbn [app length] in G. rewrite app_nil_r. apply G; [rewrite KN; exact HI|rewrite F3; lia|].
        change (Nat.ltb (j - f_aux e1) 0) with false. cbn iota. rewrite add_aux_0.
        eapply FSpec_S; [intros n; apply cont_S|]. cbn beta iota.
        apply (IH e1 fa fe); [rewrite F3; exact Lj|rewrite F3; exact HA].
      + inversion HA; subst fa fe.
        pose proof (at_loop d j K g0 h W [] true e1 h IT [] RRaise) as G.
        rewrite firstn_nil in G. cbn [app length] in G. apply G; [rewrite KN; exact HI|rewrite F3; lia|].
        change (Nat.ltb (j - f_aux e1) 0) with false. cbn iota. auto.
      + inversion HA; subst fa fe.
        pose proof (at_loop d j K g0 h W [] true e1 h IT [] RRaise) as G.
        rewrite firstn_nil in G. cbn [app length] in G. apply G; [rewrite KN; exact HI|rewrite F3; lia|].
        change (Nat.ltb (j - f_aux e1) 0) with false. cbn iota. auto.
  Qed.

  (* the raising predicate of C20 is realized by the machine code of its text *)
  Theorem pyrows_at_realizes rows vals j :
    realizes ir dyn ufix uvar (pyrows_at rows j) (raising (native_rows rows vals) j).
  Proof.
    intros d g0 args nx h W. unfold pyrows_at. cbn [fst snd].
    rewrite raising_rows.
    destruct (rows_at rows args (mkst h nx) 0 j) as [fa fe] eqn:R. cbn [fst snd].
    apply (rows_at_sim d j h g0 args nx W rows (fr0 [] nx) fa fe); [cbn; lia|exact R].
  Qed.
End At.
