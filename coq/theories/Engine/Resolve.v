(* Call resolution and script loading of engine.py (YP.query, eval_context, eval_blacklist,
   register_function, load_script_from_string, chain_functions, clear) - the model for C08.

   What is modelled exactly as the code does it
     - the context is a dictionary keyed by the STRINGS  '<name>_<arity>'  and  '<name>_n'
       (mkkey), values are the chains built by chain_functions (a list of definitions, in
       chain order); the fact store is keyed by (name, arity);
     - YP.query is a generator: creating it runs nothing; on its first `next` it tests the
       blacklist and looks '<name>_<N>' (default '<name>_n') up in the context as it is AT
       THAT MOMENT, takes the fact list of name/N as it is then (a snapshot) and yields the
       matching facts; when they are exhausted it calls the function it looked up at the
       start (whatever the context holds by then); the chain creates the generators of
       all its members at once (so a member that cannot take N arguments raises, after the
       facts and before any definition answers), a member that returns (cut) or ends
       normally is followed by the next member;
     - load_script_from_string: exec in a copy, then merge every key of the copy whose value
       differs (`!=`) from what the context holds (replace / chain after the old value);
       a script that cannot be compiled or raises while it is exec'd leaves the engine as
       it was; the merge itself cannot raise (chain_functions does not look at what it
       chains), so a load either raises and changes nothing or returns and has merged
       everything.  Scripts are Python: besides `def` they can bind a key to a constant
       (not callable: a call that reaches it raises TypeError after the facts), to None
       (an exact-arity key bound to None hides the variadic registration), delete a key
       of the copy, fail half-way.

   A generator is a value of type  engine -> step : it is resumed under the engine as it is
   at that moment and either ends (Done) or yields an answer and the generator to resume
   (Yield).  So every lookup is made in the engine that is current when the code reaches
   it, also for calls that were suspended while the engine was changed.

   What is abstract: a definition is a list of clauses over a mini language (unify a variable
   with an atom, call, cut, raise); terms are atoms; a binding store maps variables to atoms.
   That is enough to identify which definition produced which answer, in which order. *)
From Coq Require Import String.
From Coq Require Import List Arith NArith ZArith Bool Lia.
Import ListNotations.
From YP Require Import Base.Str.

(* ------------------------------------------------------------------ keys *)

Inductive arity := AFix (n : nat) | AVar.

Definition suffix (a : arity) : str :=
  match a with AFix n => dec_of_nat n | AVar => [110%N] end.          (* "n" *)

(* f'{name}_{arity}'  /  f'{name}_n' *)
Definition mkkey (name : str) (a : arity) : str := name ++ 95%N :: suffix a.

(* the names of the default eval_context = eval_blacklist (after fix D20) *)
Local Open Scope string_scope.
Definition api_names : list str :=
  [ d "__builtins__"; d "variable"; d "atom"; d "functor"; d "functor1"; d "functor2";
    d "functor3"; d "listpair"; d "makelist"; d "ATOM_NIL"; d "unify"; d "match_dynamic";
    d "query"; d "True"; d "False" ].
Local Close Scope string_scope.

Definition reserved (name : str) : bool := existsb (str_eqb name) api_names.

(* ------------------------------------------------------------------ definitions *)

Inductive goal :=
| GUnify (v : nat) (a : str)            (* V = a *)
| GCall (name : str) (args : list nat)  (* name(V..) through YP.query *)
| GCut                                  (* ! *)
| GRaise.                               (* a Python predicate that raises *)

Record clause := mkClause { c_nlocals : nat; c_goals : list goal }.

(* A Python object that a context key can be bound to / that can be a member of a chain.
   d_const = None: a function object (d_params: number of its parameters, None = def f( *args );
   every `def` / lambda creates a NEW one - a function is equal to itself only).
   d_const = Some z: the constant number z (an int, a string, a list ..: NOT callable; two
   constants are equal when their numbers are). *)
Record def := mkObj { d_params : option nat; d_clauses : list clause; d_const : option N }.

Definition mkDef (p : option nat) (cs : list clause) : def := mkObj p cs None.
Definition mkConst (z : N) : def := mkObj None [] (Some z).

(* can the object be called with n arguments?  (a constant: TypeError "not callable") *)
Definition params_ok (n : nat) (d : def) : bool :=
  match d_const d with
  | Some _ => false
  | None => match d_params d with None => true | Some m => Nat.eqb m n end
  end.

(* ------------------------------------------------------------------ engine state *)

Definition fact := list str.
Definition db := list ((str * nat) * list fact).

(* the value a context key is bound to: None, an object (what `def`, an assignment or
   register_function put there), or a closure made by chain_functions (its members, flattened:
   a chain calls ALL its members when it is called, nested or not) *)
Inductive cval := VNone | VObj (d : def) | VChain (ds : list def).

Definition members (v : cval) : list def :=
  match v with VNone => [] | VObj d => [d] | VChain ds => ds end.

Definition ctx := list (str * cval).

Record engine := mkEngine { e_db : db; e_ctx : ctx }.

Definition dbkey_eqb (a b : str * nat) : bool := str_eqb (fst a) (fst b) && Nat.eqb (snd a) (snd b).

Fixpoint db_get (m : db) (k : str * nat) : list fact :=
  match m with
  | [] => []
  | (k', v) :: r => if dbkey_eqb k k' then v else db_get r k
  end.

Fixpoint db_set (m : db) (k : str * nat) (v : list fact) : db :=
  match m with
  | [] => [(k, v)]
  | (k', v') :: r => if dbkey_eqb k k' then (k', v) :: r else (k', v') :: db_set r k v
  end.

(* dictionaries as association lists (first match; assignment never duplicates a key) *)
Fixpoint aget {A} (c : list (str * A)) (k : str) : option A :=
  match c with
  | [] => None
  | (k', v) :: r => if str_eqb k k' then Some v else aget r k
  end.

(* dict assignment: an existing key keeps its position, a new key goes to the end *)
Fixpoint aset {A} (c : list (str * A)) (k : str) (v : A) : list (str * A) :=
  match c with
  | [] => [(k, v)]
  | (k', v') :: r => if str_eqb k k' then (k', v) :: r else (k', v') :: aset r k v
  end.

(* del d[k] *)
Fixpoint adel {A} (c : list (str * A)) (k : str) : list (str * A) :=
  match c with
  | [] => []
  | (k', v') :: r => if str_eqb k k' then adel r k else (k', v') :: adel r k
  end.

Definition ctx_val (c : ctx) (k : str) : option cval := aget c k.
Definition ctx_set (c : ctx) (k : str) (v : cval) : ctx := aset c k v.

(* what a call finds under k: the objects it will call, in order (eval_context.get(k): a key
   bound to None and an unbound key both give None there - but see resolve) *)
Definition ctx_get (c : ctx) (k : str) : option (list def) := option_map members (ctx_val c k).

(* eval_context.get(f'{name}_{n}', eval_context.get(f'{name}_n')): the default is used only
   when the exact key is NOT BOUND; bound to None = nothing to call (Some []) *)
Definition resolve (c : ctx) (name : str) (n : nat) : option (list def) :=
  match ctx_get c (mkkey name (AFix n)) with
  | Some ds => Some ds
  | None => ctx_get c (mkkey name AVar)
  end.

(* ------------------------------------------------------------------ stores *)

Definition store := list (nat * str).

Fixpoint slookup (s : store) (v : nat) : option str :=
  match s with
  | [] => None
  | (w, a) :: r => if Nat.eqb v w then Some a else slookup r v
  end.

Definition unify_atom (s : store) (v : nat) (a : str) : option store :=
  match slookup s v with
  | None => Some ((v, a) :: s)
  | Some b => if str_eqb a b then Some s else None
  end.

(* Answer.match = unify_arrays(args, values): sequential, different lengths never match *)
Fixpoint match_fact (s : store) (args : list nat) (vals : fact) : option store :=
  match args, vals with
  | [], [] => Some s
  | v :: ar, a :: vr =>
      match unify_atom s v a with Some s' => match_fact s' ar vr | None => None end
  | _, _ => None
  end.

Definition prune (nx : nat) (s : store) : store := filter (fun p => Nat.ltb (fst p) nx) s.

(* ------------------------------------------------------------------ generators *)

Inductive fin := Norm | Cut | Raise | Oof.

Inductive step :=
| Done (f : fin)
| Yield (s : store) (k : engine -> step).

Definition gen := engine -> step.

(* st, and when it has ended: after *)
Fixpoint append (st : step) (after : fin -> gen) (e : engine) : step :=
  match st with
  | Done f => after f e
  | Yield s k => Yield s (fun e' => append (k e') after e')
  end.

(* for s in st: yield from f(s); a cut / error inside f ends the loop *)
Fixpoint bind (st : step) (f : store -> gen) (e : engine) : step :=
  match st with
  | Done fi => Done fi
  | Yield s k =>
      append (f s e) (fun fi e' => match fi with Norm => bind (k e') f e' | x => Done x end) e
  end.

Fixpoint smap (h : store -> store) (st : step) : step :=
  match st with
  | Done f => Done f
  | Yield s k => Yield (h s) (fun e => smap h (k e))
  end.

Definition env_args (env : list nat) (vs : list nat) : list nat :=
  flat_map (fun v => match nth_error env v with Some g => [g] | None => [] end) vs.

Section Body.
  (* the meaning of a call made from a body: YP.query at the next smaller depth *)
  Variable call : str -> list nat -> nat -> store -> gen.

  Fixpoint goals_gen (gs : list goal) (env : list nat) (nx : nat) (s : store) (e : engine) : step :=
    match gs with
    | [] => Yield s (fun _ => Done Norm)
    | GUnify v a :: r =>
        match nth_error env v with
        | None => goals_gen r env nx s e
        | Some g =>
            match unify_atom s g a with
            | Some s' => goals_gen r env nx s' e
            | None => Done Norm
            end
        end
    | GCall nm vs :: r =>
        bind (call nm (env_args env vs) nx s e) (fun s' e' => goals_gen r env nx s' e') e
    | GCut :: r =>
        append (goals_gen r env nx s e)
               (fun fi _ => Done (match fi with Norm => Cut | x => x end)) e
    | GRaise :: _ => Done Raise
    end.

  Definition clause_gen (c : clause) (args : list nat) (nx : nat) (s : store) : gen :=
    goals_gen (c_goals c) (args ++ seq nx (c_nlocals c)) (nx + c_nlocals c) s.

  (* one generator function: its clauses in order; return (cut) ends the function *)
  Fixpoint clauses_gen (cs : list clause) (args : list nat) (nx : nat) (s : store) (e : engine) : step :=
    match cs with
    | [] => Done Norm
    | c :: r =>
        append (clause_gen c args nx s e)
               (fun fi e' => match fi with Norm => clauses_gen r args nx s e' | x => Done x end) e
    end.

  Definition def_gen (d : def) : list nat -> nat -> store -> gen := clauses_gen (d_clauses d).

  (* itertools.chain over the members: a member that returned (Cut) or ended is followed
     by the next one; an exception ends the chain *)
  Fixpoint chain_gen (ds : list def) (args : list nat) (nx : nat) (s : store) (e : engine) : step :=
    match ds with
    | [] => Done Norm
    | d :: r =>
        append (def_gen d args nx s e)
               (fun fi e' => match fi with Norm | Cut => chain_gen r args nx s e' | x => Done x end) e
    end.

  (* first statements of YP.query: blacklist test and
     eval_context.get(f'{name}_{N}', eval_context.get(f'{name}_n')); None = nothing to call *)
  Definition lookup_phase (c : ctx) (name : str) (n : nat) : option (list def) :=
    if reserved name then None else resolve c name n.

  (* last statements of YP.query: `if function is not None: yield from function( *args )` with
     the function that was looked up when the call started *)
  Definition call_phase (fn : option (list def)) (args : list nat) (nx : nat) (s : store) (e : engine) : step :=
    match fn with
    | None => Done Norm
    | Some ds =>
        if forallb (params_ok (length args)) ds then chain_gen ds args nx s e
        else Done Raise                  (* TypeError when the chain calls its members *)
    end.

  (* lookup and call in one and the same engine (what a call does that has no facts to yield) *)
  Definition fun_phase (name : str) (args : list nat) (nx : nat) (s : store) (e : engine) : step :=
    call_phase (lookup_phase (e_ctx e) name (length args)) args nx s e.

  (* _match_all_clauses over the list that was current when the query started *)
  Fixpoint facts_gen (fs : list fact) (args : list nat) (s : store) (after : gen) (e : engine) : step :=
    match fs with
    | [] => after e
    | f :: r =>
        match match_fact s args f with
        | Some s' => Yield s' (fun e' => facts_gen r args s after e')
        | None => facts_gen r args s after e
        end
    end.

  (* the body of YP.query, entered at the first `next` under the engine e of that moment:
     lookup in e, fact list of e, facts, then the call of what was looked up *)
  Definition query_body (name : str) (args : list nat) (nx : nat) (s : store) (e : engine) : step :=
    let fn := lookup_phase (e_ctx e) name (length args) in
    smap (prune nx)
         (facts_gen (db_get (e_db e) (name, length args)) args s (call_phase fn args nx s) e).
End Body.

(* YP.query; fuel = depth of nested calls still allowed (Oof = the recursion limit) *)
Fixpoint query_gen (fuel : nat) (name : str) (args : list nat) (nx : nat) (s : store) (e : engine) : step :=
  match fuel with
  | O => Done Oof
  | S f => query_body (query_gen f) name args nx s e
  end.

(* running a generator to its end while the engine stays e *)
Fixpoint drain (e : engine) (st : step) : list store * fin :=
  match st with
  | Done f => ([], f)
  | Yield s k => let (l, f) := drain e (k e) in (s :: l, f)
  end.

(* at most k answers; None: stopped by the limit *)
Fixpoint take (k : nat) (e : engine) (st : step) : list store * option fin :=
  match st with
  | Done f => ([], Some f)
  | Yield s g =>
      match k with
      | O => ([], None)
      | S k' => let (l, f) := take k' e (g e) in (s :: l, f)
      end
  end.

(* ------------------------------------------------------------------ operations *)

Inductive regstyle := RInfer | RExplicit (n : nat) | RVariadic.

(* register_function: arity None -> len(inspect.signature(func).parameters) (a *args function
   has ONE parameter), arity >= 0 -> that arity, arity < 0 -> '<name>_n'; plain assignment *)
Definition reg_arity (st : regstyle) (d : def) : arity :=
  match st with
  | RInfer => AFix (match d_params d with Some m => m | None => 1 end)
  | RExplicit n => AFix n
  | RVariadic => AVar
  end.

Definition register (c : ctx) (name : str) (st : regstyle) (d : def) : ctx :=
  ctx_set c (mkkey name (reg_arity st d)) (VObj d).

(* register_function(name, <a constant>, arity=None): inspect.signature raises TypeError
   before anything is assigned *)
Definition register_raises (st : regstyle) (d : def) : bool :=
  match st, d_const d with RInfer, Some _ => true | _, _ => false end.

(* a script: what `exec` does with it, statement by statement *)
Inductive stmt :=
| SDef (key : str) (d : def)     (* def key(...): ... / key = lambda ..: .. (d a function: a NEW object)
                                    or key = <constant> (d = mkConst z) *)
| SNone (key : str)              (* key = None *)
| SDel (key : str)               (* del key        (NameError when key is not bound) *)
| SSelf (key : str)              (* key = key      (NameError when key is not bound) *)
| SFail.                         (* a statement that raises (1/0, import .., class .., ...) *)

Record script := mkScript { s_broken : bool; s_stmts : list stmt }.   (* broken: compile() raises *)

(* new_context = eval_context.copy(): what a key of the copy is bound to *)
Inductive nval :=
| NOld                           (* still the very object eval_context holds under this key *)
| NNew (v : cval).               (* bound by the script *)

Definition nctx := list (str * nval).

Definition copy_ctx (c : ctx) : nctx := map (fun p => (fst p, NOld)) c.

(* exec(code, new_context): None = raised *)
Fixpoint exec_stmts (ss : list stmt) (nc : nctx) : option nctx :=
  match ss with
  | [] => Some nc
  | SDef k d :: r => exec_stmts r (aset nc k (NNew (VObj d)))
  | SNone k :: r => exec_stmts r (aset nc k (NNew VNone))
  | SDel k :: r => match aget nc k with Some _ => exec_stmts r (adel nc k) | None => None end
  | SSelf k :: r => match aget nc k with Some _ => exec_stmts r nc | None => None end
  | SFail :: _ => None
  end.

(* the keys a script mentions *)
Definition bound_keys (ss : list stmt) : list str :=
  flat_map (fun st => match st with SDef k _ | SNone k | SDel k | SSelf k => [k] | SFail => [] end) ss.

(* `eval_context.get(k) != v` is False: v (bound by the script) is None and k is unbound or
   bound to None, or v is a constant and k is bound to that constant itself (not to a chain
   around it).  A function made by the script differs from everything. *)
Definition same_value (old : option cval) (v : cval) : bool :=
  match v with
  | VNone => match old with None | Some VNone => true | _ => false end
  | VObj d =>
      match d_const d, old with
      | Some z, Some (VObj d') => match d_const d' with Some z' => N.eqb z z' | None => false end
      | _, _ => false
      end
  | VChain _ => false
  end.

Definition old_members (c : ctx) (k : str) : list def :=
  match ctx_get c k with Some l => l | None => [] end.

(* one round of  for k, v in new_context.items(): if eval_context.get(k) != v: replace / chain.
   chain_functions(old, v) = a closure over those of old, v that are not None; it does not
   look at them - nothing in the merge can raise. *)
Definition merge_key (nc : nctx) (overwrite : bool) (c : ctx) (k : str) : ctx :=
  match aget nc k with
  | Some (NNew v) =>
      if same_value (ctx_val c k) v then c
      else if overwrite then ctx_set c k v
      else ctx_set c k (VChain (old_members c k ++ members v))
  | _ => c
  end.

Fixpoint merge (keys : list str) (nc : nctx) (overwrite : bool) (c : ctx) : ctx :=
  match keys with
  | [] => c
  | k :: r => merge r nc overwrite (merge_key nc overwrite c k)
  end.

Fixpoint dedup (ks : list str) : list str :=
  match ks with
  | [] => []
  | k :: r => if existsb (str_eqb k) r then dedup r else k :: dedup r
  end.

(* compile (raises: nothing happened), exec in a copy (raises: only the copy was touched),
   merge of the copy's keys (cannot raise) *)
Definition load (c : ctx) (sc : script) (overwrite : bool) : option ctx :=
  if s_broken sc then None
  else match exec_stmts (s_stmts sc) (copy_ctx c) with
       | None => None
       | Some nc => Some (merge (dedup (map fst nc)) nc overwrite c)
       end.

Definition assert_fact (m : db) (name : str) (vals : fact) (app : bool) : db :=
  let k := (name, length vals) in
  db_set m k (if app then db_get m k ++ [vals] else vals :: db_get m k).

Definition empty_engine : engine := mkEngine [] [].
