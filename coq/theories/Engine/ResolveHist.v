(* For EVERY history of engine operations (register in its three styles, loads that succeed
   or raise with either overwrite flag, assert_fact, clear, queries started / resumed / closed
   in between) the dictionaries of the engine are the ones the property text describes:
   a total map  key -> list of definitions  and a total map  name/arity -> list of facts,
   updated by the readable rules of spec_step.  One-step simulation lifted over fold_left. *)
From Coq Require Import String.
From Coq Require Import List Arith NArith Bool Lia.
Import ListNotations.
From YP Require Import Base.Str Engine.Resolve Engine.ResolveProofs Engine.ResolveLate Engine.RunResolve.

Definition sctx := str -> list def.
Definition sdb := (str * nat) -> list fact.

Definition load_fails (sc : script) : bool := s_broken sc || existsb is_fail (s_stmts sc).

(* the property text, one operation at a time *)
Definition spec_step (o : op) (sp : sctx * sdb) : sctx * sdb :=
  let (sc, sd) := sp in
  match o with
  | ORegister name st d =>                                  (* exactly one key is assigned *)
      ((fun k => if str_eqb k (mkkey name (reg_arity st d)) then [d] else sc k), sd)
  | OLoad s ow =>
      if load_fails s then sp                               (* a load that raises: unchanged *)
      else ((fun k => match last_def (s_stmts s) k with
                      | None => sc k                        (* not mentioned: unaffected *)
                      | Some d => if ow then [d]            (* overwrite: replaced *)
                                  else sc k ++ [d]          (* combine: appended, load order *)
                      end), sd)
  | OAssert name vals app =>
      (sc, fun k => if dbkey_eqb k (name, length vals)
                    then (if app then sd (name, length vals) ++ [vals] else vals :: sd (name, length vals))
                    else sd k)
  | OClear => ((fun _ => []), (fun _ => []))
  | OStart _ _ | ONext _ | OClose _ => sp                   (* queries change nothing *)
  end.

(* which definitions a call name/N uses, on the spec side *)
Definition spec_defs (sc : sctx) (name : str) (n : nat) : list def :=
  match sc (mkkey name (AFix n)) with
  | [] => sc (mkkey name AVar)
  | ds => ds
  end.

Definition abs_ok (e : engine) (sp : sctx * sdb) : Prop :=
  (forall k, chain_of (e_ctx e) k = fst sp k) /\
  (forall k, db_get (e_db e) k = snd sp k) /\
  (forall k, ctx_get (e_ctx e) k <> Some []).

(* the operations the property text speaks about: what is registered / loaded are functions
   (scripts made of definitions and raising statements, broken text included) *)
Definition plain_op (o : op) : bool :=
  match o with
  | ORegister _ _ d => match d_const d with None => true | Some _ => false end
  | OLoad sc _ => plain_script sc
  | _ => true
  end.

Lemma load_fails_iff c sc ow : plain_script sc = true -> (load_fails sc = true <-> load c sc ow = None).
Proof.
  intros Hp. unfold load_fails. split.
  - intros H. apply load_fail_atomic. apply orb_true_iff in H. destruct H as [H|H]; [left; exact H|right].
    apply existsb_exists in H. destruct H as [st [Hin Hf]]. destruct st; try discriminate. exact Hin.
  - intros H. destruct (s_broken sc) eqn:Eb; [reflexivity|]. simpl.
    destruct (existsb is_fail (s_stmts sc)) eqn:Ef; [reflexivity|]. exfalso.
    assert (Hex : exists c', load c sc ow = Some c').
    { apply load_ok_iff. split; [exact Eb|]. rewrite (exec_ok_plain _ Hp), Ef. reflexivity. }
    destruct Hex as [c' Hc']. congruence.
Qed.

Lemma queries_keep_engine fuel o st :
  match o with OStart _ _ | ONext _ | OClose _ => True | _ => False end ->
  st_eng (snd (do_op fuel o st)) = st_eng st.
Proof.
  destruct o as [name sty d | sc ow | name vals app | | name n | i | i]; intros H; try destruct H; simpl.
  - reflexivity.
  - destruct (nth_error (st_susp st) i) as [[[g|] n]|]; try reflexivity.
    destruct (g (st_eng st)) as [[| | |]|s k]; reflexivity.
  - destruct (nth_error (st_susp st) i) as [[g n]|]; reflexivity.
Qed.

Lemma step_simulation fuel o st sp :
  plain_op o = true ->
  abs_ok (st_eng st) sp -> abs_ok (st_eng (snd (do_op fuel o st))) (spec_step o sp).
Proof.
  intros Hp [Hc [Hd Hne]]. destruct sp as [sc sd]. simpl in Hc, Hd.
  destruct o as [name sty d | s ow | name vals app | | name n | i | i].
  - (* register *)
    cbn [plain_op] in Hp.
    assert (Hrr : register_raises sty d = false).
    { unfold register_raises. destruct sty; try reflexivity. destruct (d_const d); [discriminate | reflexivity]. }
    cbn [do_op]. rewrite Hrr.
    simpl. unfold abs_ok. simpl. split; [|split].
    + intros k. unfold chain_of. rewrite register_get.
      destruct (str_eqb k (mkkey name (reg_arity sty d))); [reflexivity | apply Hc].
    + exact Hd.
    + intros k. rewrite register_get.
      destruct (str_eqb k (mkkey name (reg_arity sty d))); [discriminate | apply Hne].
  - (* load *)
    cbn [plain_op] in Hp.
    cbn [spec_step do_op]. destruct (load (e_ctx (st_eng st)) s ow) as [c'|] eqn:El.
    + assert (Hf : load_fails s = false).
      { destruct (load_fails s) eqn:E; [|reflexivity].
        apply (load_fails_iff (e_ctx (st_eng st)) s ow Hp) in E. congruence. }
      rewrite Hf. unfold abs_ok. simpl. split; [|split].
      * intros k. unfold chain_of. rewrite (load_get _ _ _ _ k El).
        destruct (plain_last_eff (s_stmts s) k Hp) as [He Hfun]. rewrite He.
        destruct (last_def (s_stmts s) k) as [d|]; [|apply Hc].
        rewrite (same_value_fun _ d (Hfun d eq_refl)). cbn [members].
        destruct ow; [reflexivity|]. rewrite <- Hc. reflexivity.
      * exact Hd.
      * intros k. rewrite (load_get _ _ _ _ k El).
        destruct (plain_last_eff (s_stmts s) k Hp) as [He Hfun]. rewrite He.
        destruct (last_def (s_stmts s) k) as [d|]; [|apply Hne].
        rewrite (same_value_fun _ d (Hfun d eq_refl)). cbn [members].
        destruct ow; [discriminate|]. unfold old_members.
        destruct (ctx_get (e_ctx (st_eng st)) k) as [[|x old]|]; discriminate.
    + assert (Hf : load_fails s = true) by (apply (load_fails_iff (e_ctx (st_eng st)) s ow Hp); exact El).
      rewrite Hf. simpl. unfold abs_ok. simpl. auto.
  - (* assert_fact *)
    simpl. unfold abs_ok. simpl. split; [exact Hc|]. split; [|exact Hne].
    intros k. rewrite assert_fact_get, !Hd. reflexivity.
  - (* clear *)
    simpl. unfold abs_ok. simpl. split; [reflexivity|]. split; [reflexivity | discriminate].
  - rewrite queries_keep_engine by exact I. unfold abs_ok. simpl. auto.
  - rewrite queries_keep_engine by exact I. unfold abs_ok. simpl. auto.
  - rewrite queries_keep_engine by exact I. unfold abs_ok. simpl. auto.
Qed.

(* the states the history runner goes through *)
Definition exec_ops (fuel : nat) (ops : list op) (st : state) : state :=
  fold_left (fun st o => snd (do_op fuel o st)) ops st.

Definition spec_run (ops : list op) (sp : sctx * sdb) : sctx * sdb :=
  fold_left (fun sp o => spec_step o sp) ops sp.

Lemma history_simulation fuel ops : forall st sp,
  forallb plain_op ops = true ->
  abs_ok (st_eng st) sp -> abs_ok (st_eng (exec_ops fuel ops st)) (spec_run ops sp).
Proof.
  induction ops as [|o ops IH]; intros st sp Hp H; [exact H|].
  cbn [forallb] in Hp. apply andb_true_iff in Hp. destruct Hp as [Hp1 Hp2].
  simpl. apply IH; [exact Hp2|]. apply step_simulation; assumption.
Qed.

Definition spec_init : sctx * sdb := ((fun _ => []), (fun _ => [])).

Theorem history_refines_spec fuel ops :
  forallb plain_op ops = true ->
  abs_ok (st_eng (exec_ops fuel ops (mkState empty_engine []))) (spec_run ops spec_init).
Proof.
  intros Hp. apply history_simulation; [exact Hp|]. unfold abs_ok, spec_init. simpl.
  split; [reflexivity|]. split; [reflexivity | discriminate].
Qed.

(* ... and a call uses exactly the definitions the spec map gives for exactly its arity, the
   variadic ones only when there is none *)
Theorem defs_of_spec e sp name n :
  abs_ok e sp -> defs_of (e_ctx e) name n = spec_defs (fst sp) name n.
Proof.
  intros [Hc [_ Hne]]. unfold defs_of, resolve, spec_defs. rewrite <- !Hc. unfold chain_of.
  destruct (ctx_get (e_ctx e) (mkkey name (AFix n))) as [[|d ds]|] eqn:E1.
  - exfalso. exact (Hne _ E1).
  - reflexivity.
  - reflexivity.
Qed.

(* A LOAD IS ATOMIC, for every script (whatever it binds: functions, constants, None; deletions;
   statements that raise half-way; text that does not compile) and in every state: either it
   raises and the state is the SAME state - nothing of what the script did before it raised is
   visible -, or it returns and every key is bound as load_val says (all of the script merged). *)
Theorem load_op_atomic fuel sc ow st :
  (load (e_ctx (st_eng st)) sc ow = None /\ do_op fuel (OLoad sc ow) st = (otag "raised" [], st)) \/
  (exists c', load (e_ctx (st_eng st)) sc ow = Some c' /\
     do_op fuel (OLoad sc ow) st = (otag "ok" [], mkState (mkEngine (e_db (st_eng st)) c') (st_susp st)) /\
     forall k, ctx_val c' k =
       match last_eff (s_stmts sc) k with
       | Some (Some v) =>
           if same_value (ctx_val (e_ctx (st_eng st)) k) v then ctx_val (e_ctx (st_eng st)) k
           else if ow then Some v
           else Some (VChain (old_members (e_ctx (st_eng st)) k ++ members v))
       | _ => ctx_val (e_ctx (st_eng st)) k
       end).
Proof.
  cbn [do_op]. destruct (load (e_ctx (st_eng st)) sc ow) as [c'|] eqn:El.
  - right. exists c'. split; [reflexivity|]. split; [reflexivity|]. intros k. apply (load_val _ _ _ _ k El).
  - left. split; reflexivity.
Qed.

(* ... so after a load that raised every call resolves as before, and a later load combines with
   the chains as they were *)
Theorem raised_load_resolves_as_before fuel sc ow st :
  fst (do_op fuel (OLoad sc ow) st) = otag "raised" [] -> snd (do_op fuel (OLoad sc ow) st) = st.
Proof.
  destruct (load_op_atomic fuel sc ow st) as [[_ H]|[c' [_ [H _]]]]; rewrite H; [reflexivity|].
  cbn [fst]. intros Hx. vm_compute in Hx. discriminate.
Qed.

(* the observations of run_ops are made in exactly these states *)
Lemma run_ops_states fuel lim probes ops : forall st,
  length (run_ops fuel lim probes ops st) = length ops.
Proof.
  induction ops as [|o ops IH]; intros st; [reflexivity|].
  simpl. destruct (do_op fuel o st) as [ob st']. simpl. rewrite IH. reflexivity.
Qed.

(* ------------------------------------------------------------------ created but not started *)

(* Creating a query object runs nothing (a Python generator function only runs at the first
   `next`): the object holds the name and the arguments, no fact list and no definition.  So
   before its first resumption nothing is fixed: whatever is done to the engine between
   `q = yp.query(..)` and the first `next(q)` - and whatever the engine was when q was
   created - the first `next` is computed from the engine of THAT moment (and from then on
   Engine/ResolveLate.v resolution_at_first_resumption applies). *)

(* operations that neither resume nor close the suspended query number i *)
Definition leaves (i : nat) (o : op) : bool :=
  match o with ONext j | OClose j => negb (Nat.eqb i j) | _ => true end.

Lemma set_nth_other {A} (l : list A) : forall j i x, i <> j -> nth_error (set_nth l j x) i = nth_error l i.
Proof.
  induction l as [|y l IH]; intros j i x Hne; [destruct j; reflexivity|].
  destruct j as [|j]; destruct i as [|i]; simpl; try reflexivity; [congruence|].
  apply IH. congruence.
Qed.

Lemma do_op_keeps_susp fuel o st i x :
  leaves i o = true -> nth_error (st_susp st) i = Some x ->
  nth_error (st_susp (snd (do_op fuel o st))) i = Some x.
Proof.
  intros Hl Hn.
  destruct o as [name sty d | sc ow | name vals app | | name n | j | j]; cbn [do_op].
  - destruct (register_raises sty d); exact Hn.
  - destruct (load (e_ctx (st_eng st)) sc ow); exact Hn.
  - exact Hn.
  - exact Hn.
  - cbn [snd st_susp]. rewrite nth_error_app1; [exact Hn|]. apply nth_error_Some. congruence.
  - cbn [leaves] in Hl. apply negb_true_iff, Nat.eqb_neq in Hl.
    destruct (nth_error (st_susp st) j) as [[[g|] n]|]; try exact Hn.
    destruct (g (st_eng st)) as [[| | |]|s k]; cbn [snd st_susp]; rewrite set_nth_other by exact Hl; exact Hn.
  - cbn [leaves] in Hl. apply negb_true_iff, Nat.eqb_neq in Hl.
    destruct (nth_error (st_susp st) j) as [[g n]|]; try exact Hn.
    cbn [snd st_susp]. rewrite set_nth_other by exact Hl. exact Hn.
Qed.

Lemma exec_ops_keeps_susp fuel i x ops : forall st,
  forallb (leaves i) ops = true -> nth_error (st_susp st) i = Some x ->
  nth_error (st_susp (exec_ops fuel ops st)) i = Some x.
Proof.
  induction ops as [|o ops IH]; intros st Hl Hn; [exact Hn|].
  cbn [forallb] in Hl. apply andb_true_iff in Hl. destruct Hl as [Ho Hl].
  unfold exec_ops. cbn [fold_left]. apply IH; [exact Hl|]. apply do_op_keeps_susp; assumption.
Qed.

(* what `next` reports for a step of the generator *)
Definition step_obs (n : nat) (st : step) : obs :=
  match st with
  | Done Norm => otag "stop" []
  | Done Cut => otag "cut" []
  | Done Raise => otag "raised" []
  | Done Oof => otag "oof" []
  | Yield s _ => otag "ans" [ans_obs n s]
  end.

(* the query object created by `start` in ANY state is the same closed object - it does not
   mention the engine it was created in - and it is still that object after any operations
   (engine changes, other queries) that do not resume it *)
Theorem created_query_unresolved fuel name n st ops :
  let i := length (st_susp st) in
  forallb (leaves i) ops = true ->
  nth_error (st_susp (exec_ops fuel ops (snd (do_op fuel (OStart name n) st)))) i =
  Some (Some (query_gen fuel name (seq 0 n) n []), n).
Proof.
  intros i Hl. apply exec_ops_keeps_susp; [exact Hl|].
  cbn [do_op snd st_susp]. unfold i. rewrite nth_error_app2 by lia. rewrite Nat.sub_diag. reflexivity.
Qed.

(* a `next` applies the suspended generator to the engine of the moment of the `next` *)
Theorem next_uses_current_engine fuel i st g n :
  nth_error (st_susp st) i = Some (Some g, n) ->
  fst (do_op fuel (ONext i) st) = step_obs n (g (st_eng st)).
Proof.
  intros Hn. cbn [do_op]. rewrite Hn. destruct (g (st_eng st)) as [[| | |]|s k]; reflexivity.
Qed.

(* together: the first `next` of a query created earlier sees the engine of the first `next` *)
Theorem unstarted_query_sees_engine_of_first_next fuel name n st ops :
  let i := length (st_susp st) in
  forallb (leaves i) ops = true ->
  let st' := exec_ops fuel ops (snd (do_op fuel (OStart name n) st)) in
  fst (do_op fuel (ONext i) st') = step_obs n (query_gen fuel name (seq 0 n) n [] (st_eng st')).
Proof.
  intros i Hl st'. apply next_uses_current_engine. apply created_query_unresolved. exact Hl.
Qed.

(* witness: p(f) and p(old) exist when q is created; before its first next p(g) is put in front
   of the facts and p(old) is replaced by p(new): q answers g, f, new *)
Local Open Scope string_scope.
Example unstarted_query_witness :
  let df (a : string) := mkDef (Some 1) [mkClause 0 [GUnify 0 (d a)]] in
  let ld (a : string) := OLoad (mkScript false [SDef (mkkey (d "p") (AFix 1)) (df a)]) true in
  run_history 3 5 []
    [OAssert (d "p") [d "f"] true; ld "old"; OStart (d "p") 1; ld "new"; OAssert (d "p") [d "g"] false;
     ONext 0; ONext 0; ONext 0; ONext 0] =
  OL (map (fun o => OL [o; OL []])
       [otag "ok" []; otag "ok" []; otag "ok" []; otag "ok" []; otag "ok" [];
        otag "ans" [OL [OS (d "g")]]; otag "ans" [OL [OS (d "f")]]; otag "ans" [OL [OS (d "new")]]; otag "stop" []]).
Proof. vm_compute. reflexivity. Qed.

(* ------------------------------------------------------------------ histories and schedules *)

(* The theorems of Engine/ResolveLate.v speak about run_sched (a generator resumed under a list of
   engines); the correspondence check runs HISTORIES (run_ops).  They are the same thing: the
   results of the `next` operations on suspended query i in a history are the run of its generator
   under the schedule made of the engines current at these `next`. *)

Definition is_close (i : nat) (o : op) : bool := match o with OClose j => Nat.eqb i j | _ => false end.
Definition is_next (i : nat) (o : op) : bool := match o with ONext j => Nat.eqb i j | _ => false end.

(* results of the `next i` operations of a history, in order / the engines they were made in *)
Fixpoint nexts_of (fuel i : nat) (ops : list op) (st : state) : list obs :=
  match ops with
  | [] => []
  | o :: r => if is_next i o then fst (do_op fuel o st) :: nexts_of fuel i r (snd (do_op fuel o st))
              else nexts_of fuel i r (snd (do_op fuel o st))
  end.

Fixpoint engines_at (fuel i : nat) (ops : list op) (st : state) : list engine :=
  match ops with
  | [] => []
  | o :: r => if is_next i o then st_eng st :: engines_at fuel i r (snd (do_op fuel o st))
              else engines_at fuel i r (snd (do_op fuel o st))
  end.

(* what a sequence of `next` reports for a generator (None = it has ended) under a schedule *)
Fixpoint sched_obs (n : nat) (es : list engine) (g : option gen) : list obs :=
  match es with
  | [] => []
  | e :: r =>
      match g with
      | None => otag "stop" [] :: sched_obs n r None
      | Some g => match g e with
                  | Done f => step_obs n (Done f) :: sched_obs n r None
                  | Yield s k => otag "ans" [ans_obs n s] :: sched_obs n r (Some k)
                  end
      end
  end.

Lemma set_nth_same {A} (l : list A) : forall i x y, nth_error l i = Some y -> nth_error (set_nth l i x) i = Some x.
Proof.
  induction l as [|z l IH]; intros [|i] x y H; simpl in *; try discriminate; [reflexivity|].
  eapply IH. exact H.
Qed.

Lemma leaves_of i o : is_next i o = false -> is_close i o = false -> leaves i o = true.
Proof.
  destruct o; simpl; intros H1 H2; try reflexivity; [rewrite H1 | rewrite H2]; reflexivity.
Qed.

Theorem nexts_are_schedule fuel i n ops : forall st g,
  nth_error (st_susp st) i = Some (g, n) ->
  forallb (fun o => negb (is_close i o)) ops = true ->
  nexts_of fuel i ops st = sched_obs n (engines_at fuel i ops st) g.
Proof.
  induction ops as [|o ops IH]; intros st g Hn Hc; [reflexivity|].
  cbn [forallb] in Hc. apply andb_true_iff in Hc. destruct Hc as [Ho Hc]. apply negb_true_iff in Ho.
  cbn [nexts_of engines_at]. destruct (is_next i o) eqn:En.
  - destruct o as [| | | | | j | j]; try discriminate. cbn [is_next] in En. apply Nat.eqb_eq in En. subst j.
    cbn [sched_obs]. cbn [do_op]. rewrite Hn. destruct g as [g|].
    + destruct (g (st_eng st)) as [fi|s k] eqn:Eg.
      * assert (Hst : nexts_of fuel i ops (mkState (st_eng st) (set_nth (st_susp st) i (None, n))) =
                      sched_obs n (engines_at fuel i ops (mkState (st_eng st) (set_nth (st_susp st) i (None, n)))) None).
        { apply IH; [|exact Hc]. cbn [st_susp]. eapply set_nth_same. exact Hn. }
        destruct fi; cbn [fst snd step_obs]; f_equal; exact Hst.
      * cbn [fst snd]. f_equal. apply IH; [|exact Hc]. cbn [st_susp]. eapply set_nth_same. exact Hn.
    + cbn [fst snd]. f_equal. apply IH; assumption.
  - apply IH; [|exact Hc]. apply do_op_keeps_susp; [|exact Hn]. apply leaves_of; assumption.
Qed.

Definition run_obs (n len : nat) (r : list store * option fin) : list obs :=
  map (fun s => otag "ans" [ans_obs n s]) (fst r) ++
  match snd r with
  | None => []
  | Some f => step_obs n (Done f) :: repeat (otag "stop" []) (len - S (length (fst r)))
  end.

Lemma sched_obs_none n es : sched_obs n es None = repeat (otag "stop" []) (length es).
Proof. induction es as [|e r IH]; simpl; [reflexivity|]. rewrite IH. reflexivity. Qed.

Lemma sched_obs_run n es : forall g, sched_obs n es (Some g) = run_obs n (length es) (run_sched es g).
Proof.
  induction es as [|e r IH]; intros g; [reflexivity|].
  cbn [sched_obs run_sched]. destruct (g e) as [f|s k].
  - unfold run_obs. cbn [fst snd map app length]. rewrite sched_obs_none.
    replace (S (length r) - 1) with (length r) by lia. reflexivity.
  - rewrite IH. destruct (run_sched r k) as [l fo]. unfold run_obs. cbn [fst snd map app length]. reflexivity.
Qed.

(* CALL-TIME RESOLUTION OVER HISTORIES.  Take the query object q of a call name/n (created by
   `start`, not yet resumed) in two states and let two arbitrary histories run (never closing q).
   If the FIRST `next` of q finds the same engine e0 in both, the definitions e0 holds for name/n
   make no calls, and q is resumed equally often, then every `next` of q reports the same in both
   histories - whatever else the histories do to the engine before, between and after. *)
Theorem history_call_time_resolution f name n i1 i2 ops1 ops2 st1 st2 e0 es1 es2 :
  let q := query_gen (S f) name (seq 0 n) n [] in
  nth_error (st_susp st1) i1 = Some (Some q, n) -> nth_error (st_susp st2) i2 = Some (Some q, n) ->
  forallb (fun o => negb (is_close i1 o)) ops1 = true -> forallb (fun o => negb (is_close i2 o)) ops2 = true ->
  engines_at (S f) i1 ops1 st1 = e0 :: es1 -> engines_at (S f) i2 ops2 st2 = e0 :: es2 ->
  length es1 = length es2 ->
  forallb callfree (call_defs e0 name n) = true ->
  nexts_of (S f) i1 ops1 st1 = nexts_of (S f) i2 ops2 st2.
Proof.
  intros q H1 H2 Hc1 Hc2 He1 He2 Hl Hcf.
  rewrite (nexts_are_schedule _ _ _ _ _ _ H1 Hc1), (nexts_are_schedule _ _ _ _ _ _ H2 Hc2), He1, He2.
  rewrite !sched_obs_run. cbn [length]. rewrite Hl. f_equal.
  apply call_time_resolution; [|exact Hl]. rewrite seq_length. exact Hcf.
Qed.

(* witness: after `assert p(f); load p(old); q = query p(X)` the history that replaces p(old) by
   p(new) and asserts p(g) while q is suspended on the fact, and the history that leaves the
   engine alone, report the same three `next` of q: f, old, stop *)
Example history_call_time_witness :
  let df (a : string) := mkDef (Some 1) [mkClause 0 [GUnify 0 (d a)]] in
  let ld (a : string) := OLoad (mkScript false [SDef (mkkey (d "p") (AFix 1)) (df a)]) true in
  let st := exec_ops 3 [OAssert (d "p") [d "f"] true; ld "old"; OStart (d "p") 1] (mkState empty_engine []) in
  nth_error (st_susp st) 0 = Some (Some (query_gen 3 (d "p") (seq 0 1) 1 []), 1) /\
  nexts_of 3 0 [ONext 0; ld "new"; OAssert (d "p") [d "g"] false; ONext 0; OClear; ONext 0] st =
    [otag "ans" [OL [OS (d "f")]]; otag "ans" [OL [OS (d "old")]]; otag "stop" []] /\
  nexts_of 3 0 [ONext 0; ONext 0; ONext 0] st =
    [otag "ans" [OL [OS (d "f")]]; otag "ans" [OL [OS (d "old")]]; otag "stop" []].
Proof. repeat split; vm_compute; reflexivity. Qed.
