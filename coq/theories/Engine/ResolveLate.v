(* Late binding: a call consults the context that is current when it is made.
   1. answers depend on the engine only through the dictionaries' contents (so two load orders
      that produce the same contents are indistinguishable), and loads of scripts with
      disjoint keys commute;
   2. schedules: a generator is resumed under a sequence of engines (the engine may be changed
      between two answers).  A call is made at its first resumption: its facts AND its
      definitions are those of the engine of that moment, whatever happens to the engine
      while the call is suspended (on a fact or inside a definition).  Calls made from the
      body of a definition are new calls, made when the body reaches them. *)
From Coq Require Import String.
From Coq Require Import List Arith NArith Bool Lia.
Import ListNotations.
From YP Require Import Base.Str Engine.Resolve Engine.ResolveProofs.

(* ------------------------------------------------------------------ 1. extensionality *)

Definition eng_equiv (e1 e2 : engine) : Prop :=
  (forall k, db_get (e_db e1) k = db_get (e_db e2) k) /\
  (forall k, ctx_get (e_ctx e1) k = ctx_get (e_ctx e2) k).

Section Ext.
  Variables call1 call2 : str -> list nat -> nat -> store -> gen.
  Variables e1 e2 : engine.
  Hypothesis Heq : eng_equiv e1 e2.
  Hypothesis Hcall : forall nm args nx s,
    drain e1 (call1 nm args nx s e1) = drain e2 (call2 nm args nx s e2).

  Lemma goals_ext gs : forall env nx s,
    drain e1 (goals_gen call1 gs env nx s e1) = drain e2 (goals_gen call2 gs env nx s e2).
  Proof.
    induction gs as [|g gs IH]; intros env nx s; [reflexivity|].
    destruct g as [v a | nm vs | | ]; cbn [goals_gen].
    - destruct (nth_error env v) as [gv|]; [|apply IH].
      destruct (unify_atom s gv a); [apply IH | reflexivity].
    - rewrite !drain_bind, Hcall. destruct (drain e2 (call2 nm (env_args env vs) nx s e2)) as [l fi].
      apply res_bind_ext. intros s'. apply IH.
    - rewrite !drain_append, IH. apply res_app_ext. reflexivity.
    - reflexivity.
  Qed.

  Lemma clauses_ext cs : forall args nx s,
    drain e1 (clauses_gen call1 cs args nx s e1) = drain e2 (clauses_gen call2 cs args nx s e2).
  Proof.
    induction cs as [|c cs IH]; intros args nx s; [reflexivity|].
    cbn [clauses_gen]. rewrite !drain_append. unfold clause_gen. rewrite goals_ext.
    apply res_app_ext. intros [| | |]; try reflexivity. apply IH.
  Qed.

  Lemma chain_ext ds : forall args nx s,
    drain e1 (chain_gen call1 ds args nx s e1) = drain e2 (chain_gen call2 ds args nx s e2).
  Proof.
    induction ds as [|d ds IH]; intros args nx s; [reflexivity|].
    rewrite !drain_chain_cons. unfold def_gen. rewrite clauses_ext.
    apply res_app_ext. intros [| | |]; try reflexivity; apply IH.
  Qed.

  Lemma query_body_ext name args nx s :
    drain e1 (query_body call1 name args nx s e1) = drain e2 (query_body call2 name args nx s e2).
  Proof.
    rewrite !drain_query_body, !drain_fun_phase.
    destruct Heq as [Hdb Hctx].
    assert (Hd : defs_of (e_ctx e1) name (length args) = defs_of (e_ctx e2) name (length args)).
    { unfold defs_of, resolve. rewrite !Hctx. reflexivity. }
    rewrite Hd, Hdb. destruct (reserved name); [reflexivity|].
    destruct (forallb (params_ok (length args)) (defs_of (e_ctx e2) name (length args))); [|reflexivity].
    rewrite chain_ext. reflexivity.
  Qed.
End Ext.

Theorem query_ext e1 e2 : eng_equiv e1 e2 -> forall fuel name args nx s,
  drain e1 (query_gen fuel name args nx s e1) = drain e2 (query_gen fuel name args nx s e2).
Proof.
  intros Heq. induction fuel as [|f IH]; intros name args nx s; [reflexivity|].
  cbn [query_gen]. apply query_body_ext; [exact Heq | exact IH].
Qed.

(* whether a script runs to its end depends only on which of the keys IT MENTIONS are bound *)
Lemma exec_ok_local ss : forall p1 p2,
  (forall x, In x (bound_keys ss) -> p1 x = p2 x) -> exec_ok ss p1 = exec_ok ss p2.
Proof.
  induction ss as [|st ss IH]; intros p1 p2 H; [reflexivity|].
  assert (Ht : forall x, In x (bound_keys ss) -> In x (bound_keys (st :: ss))).
  { intros x Hx. unfold bound_keys in *. simpl. apply in_or_app. right. exact Hx. }
  assert (Hh : forall k, match st with SDef k' _ | SNone k' | SDel k' | SSelf k' => k = k' | SFail => False end ->
                         In k (bound_keys (st :: ss))).
  { intros k Hk. unfold bound_keys. simpl. apply in_or_app. left.
    destruct st; simpl; try (left; symmetry; exact Hk); destruct Hk. }
  destruct st as [k d|k|k|k|]; simpl; try reflexivity.
  - apply IH. intros x Hx. rewrite (H x (Ht x Hx)). reflexivity.
  - apply IH. intros x Hx. rewrite (H x (Ht x Hx)). reflexivity.
  - rewrite (H k (Hh k eq_refl)). f_equal. apply IH. intros x Hx. rewrite (H x (Ht x Hx)). reflexivity.
  - rewrite (H k (Hh k eq_refl)). f_equal. apply IH. intros x Hx. apply H. exact (Ht x Hx).
Qed.

Lemma old_members_ext c c' k : ctx_val c k = ctx_val c' k -> old_members c k = old_members c' k.
Proof. intros H. unfold old_members, ctx_get. rewrite H. reflexivity. Qed.

Lemma bound_in_ext (c c' : ctx) k : ctx_val c k = ctx_val c' k -> bound_in c k = bound_in c' k.
Proof. unfold bound_in, ctx_val. intros ->. reflexivity. Qed.

(* loads of scripts that mention different keys commute (whatever their overwrite flags, and
   whatever the scripts bind: functions, constants, None, deletions) *)
Theorem load_commute c sc1 ow1 sc2 ow2 c1 c12 :
  (forall k, In k (bound_keys (s_stmts sc1)) -> ~ In k (bound_keys (s_stmts sc2))) ->
  load c sc1 ow1 = Some c1 -> load c1 sc2 ow2 = Some c12 ->
  exists c2 c21, load c sc2 ow2 = Some c2 /\ load c2 sc1 ow1 = Some c21 /\
                 forall k, ctx_val c12 k = ctx_val c21 k.
Proof.
  intros Hdis H1 H12.
  assert (Hok1 : s_broken sc1 = false /\ exec_ok (s_stmts sc1) (bound_in c) = true) by (apply (load_ok_iff c sc1 ow1); eauto).
  assert (Hok2 : s_broken sc2 = false /\ exec_ok (s_stmts sc2) (bound_in c1) = true) by (apply (load_ok_iff c1 sc2 ow2); eauto).
  assert (Hok2' : exec_ok (s_stmts sc2) (bound_in c) = true).
  { destruct Hok2 as [_ <-]. apply exec_ok_local. intros x Hx. apply bound_in_ext. symmetry.
    apply (load_frame _ _ _ _ _ H1). intros Hi. exact (Hdis x Hi Hx). }
  destruct (proj2 (load_ok_iff c sc2 ow2) (conj (proj1 Hok2) Hok2')) as [c2 H2].
  assert (Hok1' : exec_ok (s_stmts sc1) (bound_in c2) = true).
  { destruct Hok1 as [_ <-]. apply exec_ok_local. intros x Hx. apply bound_in_ext.
    apply (load_frame _ _ _ _ _ H2). exact (Hdis x Hx). }
  destruct (proj2 (load_ok_iff c2 sc1 ow1) (conj (proj1 Hok1) Hok1')) as [c21 H21].
  exists c2, c21. split; [exact H2|]. split; [exact H21|]. intros k.
  destruct (in_dec (list_eq_dec N.eq_dec) k (bound_keys (s_stmts sc1))) as [Hi1|Hi1].
  - assert (Hn2 := Hdis k Hi1).
    assert (E2 : ctx_val c2 k = ctx_val c k) by (apply (load_frame _ _ _ _ _ H2 Hn2)).
    rewrite (load_frame _ _ _ _ _ H12 Hn2).
    rewrite (load_val _ _ _ _ k H1), (load_val _ _ _ _ k H21), E2, (old_members_ext _ _ _ E2). reflexivity.
  - assert (E1 : ctx_val c1 k = ctx_val c k) by (apply (load_frame _ _ _ _ _ H1 Hi1)).
    rewrite (load_frame _ _ _ _ _ H21 Hi1).
    rewrite (load_val _ _ _ _ k H12), (load_val _ _ _ _ k H2), E1, (old_members_ext _ _ _ E1). reflexivity.
Qed.

(* ... so every query answers the same after either load order: references between the
   scripts are looked up when the call is made, not when the script is loaded *)
Theorem load_order_irrelevant m c sc1 ow1 sc2 ow2 c1 c12 :
  (forall k, In k (bound_keys (s_stmts sc1)) -> ~ In k (bound_keys (s_stmts sc2))) ->
  load c sc1 ow1 = Some c1 -> load c1 sc2 ow2 = Some c12 ->
  exists c2 c21, load c sc2 ow2 = Some c2 /\ load c2 sc1 ow1 = Some c21 /\
    forall fuel name args nx s,
      drain (mkEngine m c12) (query_gen fuel name args nx s (mkEngine m c12)) =
      drain (mkEngine m c21) (query_gen fuel name args nx s (mkEngine m c21)).
Proof.
  intros Hdis H1 H12. destruct (load_commute _ _ _ _ _ _ _ Hdis H1 H12) as [c2 [c21 [H2 [H21 Hk]]]].
  exists c2, c21. split; [exact H2|]. split; [exact H21|].
  apply query_ext. split; [reflexivity|]. intros k. cbn [e_ctx]. unfold ctx_get. rewrite Hk. reflexivity.
Qed.

(* ------------------------------------------------------------------ 2. schedules *)

(* resume g under e1, the generator it yields under e2, ...; None = still suspended *)
Fixpoint run_sched (es : list engine) (g : gen) : list store * option fin :=
  match es with
  | [] => ([], None)
  | e :: r =>
      match g e with
      | Done f => ([], Some f)
      | Yield s k => let (l, f) := run_sched r k in (s :: l, f)
      end
  end.

Lemma run_sched_first e r g g' : g e = g' e -> run_sched (e :: r) g = run_sched (e :: r) g'.
Proof. intros H. simpl. rewrite H. reflexivity. Qed.

Lemma run_sched_ext es g g' : (forall e, g e = g' e) -> run_sched es g = run_sched es g'.
Proof. intros H. destruct es as [|e r]; [reflexivity|]. apply run_sched_first. apply H. Qed.

Lemma run_sched_smap h es : forall g,
  run_sched es (fun e => smap h (g e)) = (map h (fst (run_sched es g)), snd (run_sched es g)).
Proof.
  induction es as [|e r IH]; intros g; [reflexivity|].
  simpl. destruct (g e) as [f|s k]; simpl; [reflexivity|].
  rewrite IH. destruct (run_sched r k). reflexivity.
Qed.

(* the fact phase under ANY schedule: one resumption per matching fact, the continuation gets
   what is left of the schedule; a schedule that ends earlier leaves the call suspended *)
Lemma facts_sched fs : forall args s after es,
  run_sched es (facts_gen fs args s after) =
  let fa := fact_answers fs args s in
  if length es <=? length fa then (firstn (length es) fa, None)
  else let r := run_sched (skipn (length fa) es) after in (fa ++ fst r, snd r).
Proof.
  induction fs as [|f fs IH]; intros args s after es.
  - cbn [fact_answers flat_map length skipn app].
    rewrite (run_sched_ext es (facts_gen [] args s after) after) by reflexivity.
    destruct es as [|e r]; [reflexivity|]. cbn [length Nat.leb].
    destruct (run_sched (e :: r) after); reflexivity.
  - unfold fact_answers in *. cbn [flat_map].
    destruct (match_fact s args f) as [s'|] eqn:Em.
    + destruct es as [|e r]; [reflexivity|].
      cbn [run_sched facts_gen]. rewrite Em.
      change (fun e'0 : engine => facts_gen fs args s after e'0) with (facts_gen fs args s after).
      rewrite (IH args s after r). cbn [app length Nat.leb firstn skipn].
      destruct (length r <=? _); reflexivity.
    + cbn [app]. rewrite <- (IH args s after es). apply run_sched_ext.
      intros e. cbn [facts_gen]. rewrite Em. reflexivity.
Qed.

(* THE MOMENT OF RESOLUTION, for every schedule e0 :: es.  Everything a call takes from the
   engine it takes from e0, the engine of its FIRST resumption: the fact list of name/N and the
   result of the lookup (blacklist, '<name>_<N>', else '<name>_n').  The later engines are only
   handed on: to nobody while the facts are yielded, then to the bodies of the definitions that
   were looked up in e0 (a body that makes a call makes it in the engine of that moment). *)
Theorem resolution_at_first_resumption f name args nx s e0 es :
  let facts := fact_answers (db_get (e_db e0) (name, length args)) args s in
  let fn := lookup_phase (e_ctx e0) name (length args) in
  run_sched (e0 :: es) (query_gen (S f) name args nx s) =
  if length es <? length facts
  then (map (prune nx) (firstn (S (length es)) facts), None)        (* still in the facts *)
  else let r := run_sched (skipn (length facts) (e0 :: es)) (call_phase (query_gen f) fn args nx s) in
       (map (prune nx) (facts ++ fst r), snd r).
Proof.
  intros facts fn.
  rewrite (run_sched_first e0 es (query_gen (S f) name args nx s)
             (fun e => smap (prune nx) (facts_gen (db_get (e_db e0) (name, length args)) args s
                                           (call_phase (query_gen f) fn args nx s) e))) by reflexivity.
  rewrite run_sched_smap, facts_sched. fold facts. cbv zeta.
  change (length (e0 :: es) <=? length facts) with (length es <? length facts).
  destruct (length es <? length facts); reflexivity.
Qed.

(* the same, split at the moment the facts run out: es0 has one engine per fact answer, e' is the
   engine current when the call of the definitions happens - it gets the definitions of the
   engine of the first resumption (hd e' es0), not those of e' *)
Theorem resolution_moment f name args nx s es0 e' es :
  let e0 := hd e' es0 in
  let facts := fact_answers (db_get (e_db e0) (name, length args)) args s in
  let fn := lookup_phase (e_ctx e0) name (length args) in
  length es0 = length facts ->
  run_sched (es0 ++ e' :: es) (query_gen (S f) name args nx s) =
  let r := run_sched (e' :: es) (call_phase (query_gen f) fn args nx s) in
  (map (prune nx) (facts ++ fst r), snd r).
Proof.
  intros e0 facts fn Hlen.
  assert (Hsplit : exists tl, es0 ++ e' :: es = e0 :: tl /\ length tl = length es0 + length es).
  { unfold e0. destruct es0 as [|x es0]; simpl.
    - exists es. auto.
    - exists (es0 ++ e' :: es). split; [reflexivity|]. rewrite app_length. simpl. lia. }
  destruct Hsplit as [tl [Htl Hl]].
  rewrite Htl, resolution_at_first_resumption. fold facts. fold fn.
  assert (Hlt : length tl <? length facts = false) by (apply Nat.ltb_ge; lia).
  rewrite Hlt, <- Htl, <- Hlen.
  assert (Hskip : skipn (length es0) (es0 ++ e' :: es) = e' :: es).
  { rewrite skipn_app, skipn_all, Nat.sub_diag. reflexivity. }
  rewrite Hskip. reflexivity.
Qed.

(* engine-independent generators *)
Inductive sim : step -> step -> Prop :=
| sim_done f : sim (Done f) (Done f)
| sim_yield s k1 k2 : (forall e1 e2, sim (k1 e1) (k2 e2)) -> sim (Yield s k1) (Yield s k2).

Lemma sim_run es1 : forall es2 g1 g2,
  (forall e1 e2, sim (g1 e1) (g2 e2)) -> length es1 = length es2 -> run_sched es1 g1 = run_sched es2 g2.
Proof.
  induction es1 as [|e1 r1 IH]; intros [|e2 r2] g1 g2 Hs Hl; try discriminate; [reflexivity|].
  simpl. specialize (Hs e1 e2). inversion Hs as [f Hf1 Hf2 | s k1 k2 Hk Hy1 Hy2]; [reflexivity|].
  rewrite (IH r2 k1 k2 Hk); [reflexivity|]. simpl in Hl. congruence.
Qed.

Lemma sim_yield_inv s1 s2 k1 k2 :
  sim (Yield s1 k1) (Yield s2 k2) -> forall e1 e2, sim (k1 e1) (k2 e2).
Proof. intros H. inversion H; subst. assumption. Qed.

(* a generator whose first step, taken under e0, no longer depends on the engine *)
Lemma sim_run_after_first e0 es1 es2 g :
  sim (g e0) (g e0) -> length es1 = length es2 -> run_sched (e0 :: es1) g = run_sched (e0 :: es2) g.
Proof.
  intros Hs Hl. simpl. destruct (g e0) as [f|s k]; [reflexivity|].
  rewrite (sim_run es1 es2 k k); [reflexivity | | exact Hl].
  exact (sim_yield_inv s s k k Hs).
Qed.

Lemma sim_append st1 st2 : sim st1 st2 -> forall a1 a2,
  (forall fi e1 e2, sim (a1 fi e1) (a2 fi e2)) ->
  forall e1 e2, sim (append st1 a1 e1) (append st2 a2 e2).
Proof.
  induction 1 as [f | s k1 k2 Hk IH]; intros a1 a2 Ha e1 e2; simpl.
  - apply Ha.
  - constructor. intros e1' e2'. apply IH. exact Ha.
Qed.

Lemma sim_smap h st1 st2 : sim st1 st2 -> sim (smap h st1) (smap h st2).
Proof.
  induction 1 as [f | s k1 k2 Hk IH]; simpl; constructor. intros e1 e2. apply IH.
Qed.

Lemma sim_facts fs args s after1 after2 :
  (forall e1 e2, sim (after1 e1) (after2 e2)) ->
  forall e1 e2, sim (facts_gen fs args s after1 e1) (facts_gen fs args s after2 e2).
Proof.
  intros Ha. induction fs as [|f fs IH]; intros e1 e2; cbn [facts_gen]; [apply Ha|].
  destruct (match_fact s args f) as [s'|]; [|apply IH].
  constructor. exact IH.
Qed.

Definition callfree_goal (g : goal) : bool := match g with GCall _ _ => false | _ => true end.
Definition callfree (d : def) : bool :=
  forallb (fun c => forallb callfree_goal (c_goals c)) (d_clauses d).

Section Indep.
  Variables call1 call2 : str -> list nat -> nat -> store -> gen.

  Lemma goals_sim gs : forallb callfree_goal gs = true -> forall env nx s e1 e2,
    sim (goals_gen call1 gs env nx s e1) (goals_gen call2 gs env nx s e2).
  Proof.
    induction gs as [|g gs IH]; intros Hcf env nx s e1 e2.
    - simpl. constructor. intros. constructor.
    - cbn [forallb] in Hcf. apply andb_true_iff in Hcf. destruct Hcf as [Hg Hcf].
      destruct g as [v a | nm vs | | ]; cbn [goals_gen]; try discriminate.
      + destruct (nth_error env v) as [gv|]; [|apply IH; exact Hcf].
        destruct (unify_atom s gv a); [apply IH; exact Hcf | constructor].
      + apply sim_append; [apply IH; exact Hcf|]. intros fi _ _. constructor.
      + constructor.
  Qed.

  Lemma clauses_sim cs :
    forallb (fun c => forallb callfree_goal (c_goals c)) cs = true -> forall args nx s e1 e2,
    sim (clauses_gen call1 cs args nx s e1) (clauses_gen call2 cs args nx s e2).
  Proof.
    induction cs as [|c cs IH]; intros Hcf args nx s e1 e2; [constructor|].
    cbn [forallb] in Hcf. apply andb_true_iff in Hcf. destruct Hcf as [Hc Hcf].
    cbn [clauses_gen]. apply sim_append.
    - unfold clause_gen. apply goals_sim. exact Hc.
    - intros [| | |] e1' e2'; try constructor. apply IH. exact Hcf.
  Qed.

  Lemma chain_sim ds : forallb callfree ds = true -> forall args nx s e1 e2,
    sim (chain_gen call1 ds args nx s e1) (chain_gen call2 ds args nx s e2).
  Proof.
    induction ds as [|d ds IH]; intros Hcf args nx s e1 e2; [constructor|].
    cbn [forallb] in Hcf. apply andb_true_iff in Hcf. destruct Hcf as [Hd Hcf].
    cbn [chain_gen]. apply sim_append.
    - unfold def_gen. apply clauses_sim. exact Hd.
    - intros [| | |] e1' e2'; try constructor; apply IH; exact Hcf.
  Qed.

  (* what a call took from the context, as a list of definitions *)
  Definition fn_defs (fn : option (list def)) : list def := match fn with Some ds => ds | None => [] end.

  Lemma call_phase_sim fn : forallb callfree (fn_defs fn) = true -> forall args nx s e1 e2,
    sim (call_phase call1 fn args nx s e1) (call_phase call2 fn args nx s e2).
  Proof.
    intros Hcf args nx s e1 e2. destruct fn as [ds|]; cbn [call_phase]; [|constructor].
    destruct (forallb (params_ok (length args)) ds); [|constructor].
    apply chain_sim. exact Hcf.
  Qed.
End Indep.

(* A SUSPENDED CALL KEEPS WHAT IT RESOLVED.  Once the chain ds has been taken from the context,
   its answers are the same under every later history of the engine (loads with or without
   overwrite, register, clear, assert).  Stated for definitions whose bodies make no calls -
   calls made from a body are new calls and are resolved when they are made. *)
Theorem resolved_call_keeps_definitions call ds args nx s es1 es2 :
  forallb callfree ds = true -> length es1 = length es2 ->
  run_sched es1 (chain_gen call ds args nx s) = run_sched es2 (chain_gen call ds args nx s).
Proof.
  intros Hcf Hl. apply sim_run; [|exact Hl]. intros e1 e2. apply chain_sim. exact Hcf.
Qed.

(* the big-step reading is the schedule in which the engine never changes *)
Lemma run_sched_const e st : forall n,
  length (fst (drain e st)) < n ->
  forall g, g e = st -> run_sched (repeat e n) g = (fst (drain e st), Some (snd (drain e st))).
Proof.
  induction st as [f | s k IH]; intros n Hn g Hg.
  - destruct n; [inversion Hn|]. simpl. rewrite Hg. reflexivity.
  - destruct n; [inversion Hn|]. simpl. rewrite Hg. simpl in Hn.
    destruct (drain e (k e)) as [l fi] eqn:Ed. simpl in Hn.
    rewrite (IH e n); [| rewrite Ed; simpl; lia | reflexivity].
    rewrite Ed. reflexivity.
Qed.

(* the definitions the call name/N takes from the engine (none for an API name) *)
Definition call_defs (e : engine) (name : str) (n : nat) : list def :=
  fn_defs (lookup_phase (e_ctx e) name n).

(* CALL-TIME RESOLUTION.  "A call resolves at the moment it is made": a call whose definitions
   (those of the engine e0 of its first resumption) make no calls gives the same answers under
   EVERY later history of the engine - es1, es2 are arbitrary: facts asserted, definitions
   replaced / combined / registered, everything cleared, while the call is suspended on one of
   its facts or inside one of its definitions.  (A definition that makes calls makes new calls;
   each of them is resolved in the same way at its own first resumption:
   resolution_at_first_resumption has no call-free hypothesis.) *)
Theorem call_time_resolution f name args nx s e0 es1 es2 :
  forallb callfree (call_defs e0 name (length args)) = true ->
  length es1 = length es2 ->
  run_sched (e0 :: es1) (query_gen (S f) name args nx s) =
  run_sched (e0 :: es2) (query_gen (S f) name args nx s).
Proof.
  intros Hcf Hl. apply sim_run_after_first; [|exact Hl].
  cbn [query_gen]. unfold query_body. apply sim_smap. apply sim_facts.
  intros e1 e2. apply call_phase_sim. exact Hcf.
Qed.

(* ... so they are the answers computed in e0 alone: the facts of name/N in e0, in order, then
   the answers of the definitions e0 holds for name/N (lookup_spec), as soon as the schedule
   is long enough to reach the end of the call *)
Theorem call_time_resolution_answers f name args nx s e0 es :
  forallb callfree (call_defs e0 name (length args)) = true ->
  let r := drain e0 (query_gen (S f) name args nx s e0) in
  length (fst r) <= length es ->
  run_sched (e0 :: es) (query_gen (S f) name args nx s) = (fst r, Some (snd r)).
Proof.
  intros Hcf r Hlen.
  rewrite (call_time_resolution f name args nx s e0 es (repeat e0 (length es)) Hcf)
    by (rewrite repeat_length; reflexivity).
  change (e0 :: repeat e0 (length es)) with (repeat e0 (S (length es))).
  apply run_sched_const; [fold r; lia | reflexivity].
Qed.

(* The history that used to refute call-time resolution (before the repair of YP.query the
   definitions were looked up when the facts ran out): p/1 has the fact p(f) and the definition
   p(old); the call is started and yields f; the definition is replaced by p(new) (load with
   overwrite); the call is resumed: it answers old, and a call made now answers new. *)
Local Open Scope string_scope.
Definition wit_def (a : string) : def := mkDef (Some 1) [mkClause 0 [GUnify 0 (d a)]].
Definition wit_e0 : engine := mkEngine [((d "p", 1), [[d "f"]])] [(mkkey (d "p") (AFix 1), VObj (wit_def "old"))].
Definition wit_e1 : engine := mkEngine [((d "p", 1), [[d "f"]])] [(mkkey (d "p") (AFix 1), VObj (wit_def "new"))].

Example call_time_resolution_witness :
  forallb callfree (call_defs wit_e0 (d "p") 1) = true /\
  run_sched [wit_e0; wit_e1; wit_e1] (query_gen 2 (d "p") [0] 1 []) = ([[(0, d "f")]; [(0, d "old")]], Some Norm) /\
  run_sched [wit_e1; wit_e1; wit_e1] (query_gen 2 (d "p") [0] 1 []) = ([[(0, d "f")]; [(0, d "new")]], Some Norm).
Proof. repeat split; vm_compute; reflexivity. Qed.
