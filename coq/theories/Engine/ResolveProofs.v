(* Proofs about the resolution model: big-step reading of the generators (the engine does not
   change while a query runs), lookup, chains, loading. *)
From Coq Require Import String.
From Coq Require Import List Arith NArith Bool Lia.
Import ListNotations.
From YP Require Import Base.Str Engine.Resolve.

(* ------------------------------------------------------------------ dictionaries *)

Lemma ctx_get_set_same c k v : ctx_get (ctx_set c k v) k = Some v.
Proof.
  induction c as [|[k' v'] c IH]; simpl.
  - rewrite str_eqb_refl. reflexivity.
  - destruct (str_eqb k k') eqn:E; simpl; rewrite E; auto.
Qed.

Lemma ctx_get_set_other c k v k2 : k2 <> k -> ctx_get (ctx_set c k v) k2 = ctx_get c k2.
Proof.
  intros Hne. induction c as [|[k' v'] c IH]; simpl.
  - destruct (str_eqb k2 k) eqn:E; [apply str_eqb_eq in E; congruence | reflexivity].
  - destruct (str_eqb k k') eqn:E; simpl.
    + apply str_eqb_eq in E. subst k'.
      destruct (str_eqb k2 k) eqn:E2; [apply str_eqb_eq in E2; congruence | reflexivity].
    + rewrite IH. reflexivity.
Qed.

Lemma ctx_get_set c k v k2 :
  ctx_get (ctx_set c k v) k2 = if str_eqb k2 k then Some v else ctx_get c k2.
Proof.
  destruct (str_eqb k2 k) eqn:E.
  - apply str_eqb_eq in E. subst. apply ctx_get_set_same.
  - apply ctx_get_set_other. apply str_eqb_neq. exact E.
Qed.

(* ------------------------------------------------------------------ big-step reading *)

Definition res := (list store * fin)%type.

Definition res_app (r : res) (after : fin -> res) : res :=
  let (l, f) := r in let (l2, f2) := after f in (l ++ l2, f2).

Fixpoint res_bind (l : list store) (f : store -> res) (fi : fin) : res :=
  match l with
  | [] => ([], fi)
  | s :: r =>
      let (a, fa) := f s in
      match fa with
      | Norm => let (b, fb) := res_bind r f fi in (a ++ b, fb)
      | x => (a, x)
      end
  end.

Lemma drain_append st : forall after e,
  drain e (append st after e) = res_app (drain e st) (fun fi => drain e (after fi e)).
Proof.
  induction st as [f | s k IH]; intros after e; simpl.
  - destruct (drain e (after f e)); reflexivity.
  - rewrite IH. destruct (drain e (k e)) as [l f]. simpl.
    destruct (drain e (after f e)); reflexivity.
Qed.

Lemma drain_bind st : forall f e,
  drain e (bind st f e) = let (l, fi) := drain e st in res_bind l (fun s => drain e (f s e)) fi.
Proof.
  induction st as [fi | s k IH]; intros f e; simpl.
  - reflexivity.
  - rewrite drain_append. destruct (drain e (k e)) as [l fi] eqn:Ek. simpl.
    destruct (drain e (f s e)) as [a fa]. simpl.
    destruct fa; simpl; try (rewrite app_nil_r; reflexivity).
    rewrite IH. rewrite Ek. destruct (res_bind l _ fi). reflexivity.
Qed.

Lemma drain_smap h st : forall e, drain e (smap h st) = (map h (fst (drain e st)), snd (drain e st)).
Proof.
  induction st as [f | s k IH]; intros e; simpl.
  - reflexivity.
  - rewrite IH. destruct (drain e (k e)); reflexivity.
Qed.

Lemma res_bind_ext l f g fi : (forall s, f s = g s) -> res_bind l f fi = res_bind l g fi.
Proof.
  intros H. induction l as [|s l IH]; simpl; [reflexivity|].
  rewrite H, IH. reflexivity.
Qed.

Lemma res_app_ext r f g : (forall fi, f fi = g fi) -> res_app r f = res_app r g.
Proof. intros H. destruct r as [l fi]. simpl. rewrite H. reflexivity. Qed.

Lemma res_app_assoc r f g :
  res_app (res_app r f) g = res_app r (fun fi => res_app (f fi) g).
Proof.
  destruct r as [l fi]. simpl. destruct (f fi) as [l2 f2]. simpl.
  destruct (g f2) as [l3 f3]. rewrite app_assoc. reflexivity.
Qed.

(* ------------------------------------------------------------------ facts, chain, lookup *)

Definition fact_answers (fs : list fact) (args : list nat) (s : store) : list store :=
  flat_map (fun f => match match_fact s args f with Some s' => [s'] | None => [] end) fs.

Lemma drain_facts_gen fs : forall args s after e,
  drain e (facts_gen fs args s after e) =
  (fact_answers fs args s ++ fst (drain e (after e)), snd (drain e (after e))).
Proof.
  induction fs as [|f fs IH]; intros args s after e; simpl.
  - destruct (drain e (after e)); reflexivity.
  - destruct (match_fact s args f) as [s'|]; simpl.
    + rewrite IH. reflexivity.
    + apply IH.
Qed.

Section BigStep.
  Variable call : str -> list nat -> nat -> store -> gen.

  (* one member of a chain, then the others: a cut (return) in d is local to d *)
  Lemma drain_chain_cons d r args nx s e :
    drain e (chain_gen call (d :: r) args nx s e) =
    res_app (drain e (def_gen call d args nx s e))
            (fun fi => match fi with
                       | Norm | Cut => drain e (chain_gen call r args nx s e)
                       | x => ([], x)
                       end).
  Proof.
    simpl. rewrite drain_append. apply res_app_ext. intros [| | |]; reflexivity.
  Qed.

  Lemma chain_cut_local d r args nx s e l fi :
    drain e (def_gen call d args nx s e) = (l, fi) -> fi = Norm \/ fi = Cut ->
    drain e (chain_gen call (d :: r) args nx s e) =
    (l ++ fst (drain e (chain_gen call r args nx s e)), snd (drain e (chain_gen call r args nx s e))).
  Proof.
    intros Hd Hfi. rewrite drain_chain_cons, Hd. simpl.
    destruct (drain e (chain_gen call r args nx s e)) as [l2 f2].
    destruct Hfi; subst fi; reflexivity.
  Qed.

  (* an exception in a member ends the call: the later members are not consulted *)
  Lemma chain_raise_stops d r args nx s e l :
    drain e (def_gen call d args nx s e) = (l, Raise) ->
    drain e (chain_gen call (d :: r) args nx s e) = (l, Raise).
  Proof.
    intros Hd. rewrite drain_chain_cons, Hd. simpl. rewrite app_nil_r. reflexivity.
  Qed.

  (* the chain of definitions whose members all end normally or by cut: concatenation in chain order *)
  Lemma chain_concat ds args nx s e :
    Forall (fun d => snd (drain e (def_gen call d args nx s e)) = Norm \/
                     snd (drain e (def_gen call d args nx s e)) = Cut) ds ->
    drain e (chain_gen call ds args nx s e) =
    (flat_map (fun d => fst (drain e (def_gen call d args nx s e))) ds, Norm).
  Proof.
    induction 1 as [|d ds Hd _ IH]; [reflexivity|].
    destruct (drain e (def_gen call d args nx s e)) as [l fi] eqn:Ed.
    rewrite (chain_cut_local d ds args nx s e l fi Ed Hd), IH. simpl. rewrite Ed. reflexivity.
  Qed.

  Lemma chain_app ds1 ds2 args nx s e :
    drain e (chain_gen call (ds1 ++ ds2) args nx s e) =
    res_app (drain e (chain_gen call ds1 args nx s e))
            (fun fi => match fi with
                       | Norm => drain e (chain_gen call ds2 args nx s e)
                       | x => ([], x)
                       end).
  Proof.
    induction ds1 as [|d ds1 IH].
    - simpl. destruct (drain e (chain_gen call ds2 args nx s e)); reflexivity.
    - rewrite <- app_comm_cons. rewrite !drain_chain_cons. rewrite res_app_assoc.
      apply res_app_ext. intros [| | |]; try exact IH; reflexivity.
  Qed.

  Definition defs_of (c : ctx) (name : str) (n : nat) : list def :=
    match resolve c name n with Some ds => ds | None => [] end.

  (* the function half of a call *)
  Lemma drain_fun_phase name args nx s e :
    drain e (fun_phase call name args nx s e) =
    if reserved name then ([], Norm)
    else if forallb (params_ok (length args)) (defs_of (e_ctx e) name (length args))
         then drain e (chain_gen call (defs_of (e_ctx e) name (length args)) args nx s e)
         else ([], Raise).
  Proof.
    unfold fun_phase, lookup_phase, call_phase, defs_of. destruct (reserved name); [reflexivity|].
    destruct (resolve (e_ctx e) name (length args)) as [ds|]; simpl; [|reflexivity].
    destruct (forallb (params_ok (length args)) ds); reflexivity.
  Qed.

  Lemma drain_query_body name args nx s e :
    drain e (query_body call name args nx s e) =
    let r := drain e (fun_phase call name args nx s e) in
    (map (prune nx) (fact_answers (db_get (e_db e) (name, length args)) args s ++ fst r), snd r).
  Proof.
    unfold query_body. rewrite drain_smap, drain_facts_gen. reflexivity.
  Qed.
End BigStep.

(* C08, first sentence: facts of name/N in order, then the definitions registered for exactly N
   (the variadic one only when there is none), all in chain order. *)
Theorem lookup_spec f name args nx s e :
  reserved name = false ->
  let n := length args in
  let facts := fact_answers (db_get (e_db e) (name, n)) args s in
  let ds := match ctx_get (e_ctx e) (mkkey name (AFix n)) with
            | Some ds => ds
            | None => match ctx_get (e_ctx e) (mkkey name AVar) with Some ds => ds | None => [] end
            end in
  drain e (query_gen (S f) name args nx s e) =
  if forallb (params_ok n) ds
  then let r := drain e (chain_gen (query_gen f) ds args nx s e) in
       (map (prune nx) (facts ++ fst r), snd r)
  else (map (prune nx) facts, Raise).
Proof.
  intros Hres n facts ds. cbn [query_gen]. rewrite drain_query_body, drain_fun_phase, Hres.
  assert (Hds : defs_of (e_ctx e) name (length args) = ds).
  { unfold defs_of, resolve, ds, n. destruct (ctx_get (e_ctx e) (mkkey name (AFix (length args)))); reflexivity. }
  rewrite Hds. fold n. destruct (forallb (params_ok n) ds); cbn [fst snd]; [reflexivity|].
  rewrite app_nil_r. reflexivity.
Qed.

(* an unknown predicate simply fails *)
Theorem unknown_fails f name args nx s e :
  db_get (e_db e) (name, length args) = [] ->
  ctx_get (e_ctx e) (mkkey name (AFix (length args))) = None ->
  ctx_get (e_ctx e) (mkkey name AVar) = None ->
  drain e (query_gen (S f) name args nx s e) = ([], Norm).
Proof.
  intros Hdb H1 H2. cbn [query_gen]. rewrite drain_query_body, drain_fun_phase.
  rewrite Hdb. unfold defs_of, resolve. rewrite H1, H2. simpl.
  destruct (reserved name); reflexivity.
Qed.

(* API names: the facts, and nothing else, whatever the context holds *)
Theorem reserved_only_facts f name args nx s e :
  reserved name = true ->
  drain e (query_gen (S f) name args nx s e) =
  (map (prune nx) (fact_answers (db_get (e_db e) (name, length args)) args s), Norm).
Proof.
  intros Hres. cbn [query_gen]. rewrite drain_query_body, drain_fun_phase, Hres.
  cbn [fst snd]. rewrite app_nil_r. reflexivity.
Qed.

Lemma reserved_iff name : reserved name = true <-> In name api_names.
Proof.
  unfold reserved. rewrite existsb_exists. split.
  - intros [x [Hin Heq]]. apply str_eqb_eq in Heq. subst. exact Hin.
  - intros Hin. exists name. split; [exact Hin | apply str_eqb_refl].
Qed.

(* the call made with N arguments never reaches a definition filed under another key *)
Theorem resolve_only_two_keys c1 c2 name n :
  ctx_get c1 (mkkey name (AFix n)) = ctx_get c2 (mkkey name (AFix n)) ->
  ctx_get c1 (mkkey name AVar) = ctx_get c2 (mkkey name AVar) ->
  resolve c1 name n = resolve c2 name n.
Proof. intros H1 H2. unfold resolve. rewrite H1, H2. reflexivity. Qed.

Theorem exact_over_variadic c name n ds :
  ctx_get c (mkkey name (AFix n)) = Some ds -> resolve c name n = Some ds.
Proof. intros H. unfold resolve. rewrite H. reflexivity. Qed.

Theorem variadic_only_without_exact c name n :
  ctx_get c (mkkey name (AFix n)) = None -> resolve c name n = ctx_get c (mkkey name AVar).
Proof. intros H. unfold resolve. rewrite H. reflexivity. Qed.

(* ------------------------------------------------------------------ loading *)

Lemma exec_stmts_none_of_fail ss : forall nc, In SFail ss -> exec_stmts ss nc = None.
Proof.
  induction ss as [|st ss IH]; intros nc Hin; [destruct Hin|].
  destruct st as [k d|]; simpl; [|reflexivity].
  apply IH. destruct Hin as [H|H]; [discriminate | exact H].
Qed.

(* a load that raises (compile error, or any statement raising while the script runs,
   whatever was defined before it) leaves the context unchanged: there is no new context *)
Theorem load_fail_atomic c sc ow :
  s_broken sc = true \/ In SFail (s_stmts sc) -> load c sc ow = None.
Proof.
  intros [H|H]; unfold load.
  - rewrite H. reflexivity.
  - destruct (s_broken sc); [reflexivity|]. rewrite exec_stmts_none_of_fail by exact H. reflexivity.
Qed.

Theorem load_ok_iff c sc ow :
  (exists c', load c sc ow = Some c') <-> (s_broken sc = false /\ ~ In SFail (s_stmts sc)).
Proof.
  split.
  - intros [c' H]. destruct (s_broken sc) eqn:Eb.
    + unfold load in H. rewrite Eb in H. discriminate.
    + split; [reflexivity|]. intros Hin.
      rewrite (load_fail_atomic c sc ow (or_intror Hin)) in H. discriminate.
  - intros [Hb Hnf]. unfold load. rewrite Hb.
    assert (forall ss nc, ~ In SFail ss -> exists nc', exec_stmts ss nc = Some nc') as Hex.
    { induction ss as [|st ss IH]; intros nc Hn; simpl; [eauto|].
      destruct st as [k d|]; [apply IH; intros Hi; apply Hn; right; exact Hi|].
      exfalso. apply Hn. left. reflexivity. }
    destruct (Hex (s_stmts sc) c Hnf) as [nc' ->]. eauto.
Qed.

(* the last definition a script gives to key k *)
Fixpoint last_def (ss : list stmt) (k : str) : option def :=
  match ss with
  | [] => None
  | SDef k' d :: r => match last_def r k with Some d' => Some d' | None => if str_eqb k k' then Some d else None end
  | SFail :: r => last_def r k
  end.

Lemma last_def_none_iff ss k : last_def ss k = None <-> ~ In k (bound_keys ss).
Proof.
  induction ss as [|st ss IH]; simpl; [tauto|].
  destruct st as [k' d|]; simpl; [|exact IH].
  destruct (last_def ss k) eqn:El.
  - split; [discriminate|]. intros Hn. exfalso. apply Hn. right.
    destruct (in_dec (list_eq_dec N.eq_dec) k (bound_keys ss)) as [Hi|Hi]; [exact Hi|].
    apply IH in Hi. discriminate.
  - destruct (str_eqb_spec k k') as [->|Hne].
    + split; [discriminate|]. intros Hn. exfalso. apply Hn. left. reflexivity.
    + split; [|reflexivity]. intros _ [H|H]; [congruence|]. apply IH in H; [exact H|reflexivity].
Qed.

Lemma exec_stmts_get ss : forall nc nc' k,
  exec_stmts ss nc = Some nc' ->
  ctx_get nc' k = match last_def ss k with Some d => Some [d] | None => ctx_get nc k end.
Proof.
  induction ss as [|st ss IH]; intros nc nc' k H; simpl in *.
  - inversion H. reflexivity.
  - destruct st as [k' d|]; [|discriminate].
    rewrite (IH _ _ k H). destruct (last_def ss k); [reflexivity|].
    rewrite ctx_get_set. destruct (str_eqb k k'); reflexivity.
Qed.

Lemma dedup_in ks k : In k (dedup ks) <-> In k ks.
Proof.
  induction ks as [|x ks IH]; simpl; [tauto|].
  destruct (existsb (str_eqb x) ks) eqn:E.
  - rewrite IH. split; [auto|]. intros [->|H]; [|exact H].
    apply existsb_exists in E. destruct E as [y [Hy Hxy]]. apply str_eqb_eq in Hxy. subst. exact Hy.
  - simpl. rewrite IH. tauto.
Qed.

Lemma dedup_nodup ks : NoDup (dedup ks).
Proof.
  induction ks as [|x ks IH]; simpl; [constructor|].
  destruct (existsb (str_eqb x) ks) eqn:E; [exact IH|].
  constructor; [|exact IH]. rewrite dedup_in. intros Hin.
  assert (existsb (str_eqb x) ks = true) as Ht; [|congruence].
  apply existsb_exists. exists x. split; [exact Hin | apply str_eqb_refl].
Qed.

(* merge touches exactly the listed keys *)
Lemma merge_get keys : forall nc ow c k, NoDup keys ->
  ctx_get (merge keys nc ow c) k =
  if existsb (str_eqb k) keys
  then match ctx_get nc k with
       | None => ctx_get c k
       | Some v => if ow then Some v
                   else Some (match ctx_get c k with Some old => old ++ v | None => v end)
       end
  else ctx_get c k.
Proof.
  induction keys as [|k0 keys IH]; intros nc ow c k Hnd; simpl; [reflexivity|].
  inversion Hnd as [|? ? Hnotin Hnd']; subst.
  rewrite IH by exact Hnd'.
  destruct (str_eqb_spec k k0) as [->|Hne]; simpl.
  - assert (existsb (str_eqb k0) keys = false) as ->.
    { destruct (existsb (str_eqb k0) keys) eqn:E; [|reflexivity].
      apply existsb_exists in E. destruct E as [y [Hy Hxy]]. apply str_eqb_eq in Hxy. subst. contradiction. }
    destruct (ctx_get nc k0) as [v|]; [|reflexivity].
    destruct ow; rewrite ctx_get_set_same; reflexivity.
  - destruct (ctx_get nc k0) as [v0|]; [|reflexivity].
    assert (forall v, ctx_get (ctx_set c k0 v) k = ctx_get c k) as Hs
      by (intros; apply ctx_get_set_other; exact Hne).
    destruct ow; rewrite Hs; reflexivity.
Qed.

(* the complete description of a successful load *)
Theorem load_get c sc ow c' k :
  load c sc ow = Some c' ->
  ctx_get c' k =
  match last_def (s_stmts sc) k with
  | None => ctx_get c k                                   (* not mentioned: unaffected *)
  | Some d => if ow then Some [d]                         (* overwrite: exactly the new one *)
              else Some (match ctx_get c k with Some old => old ++ [d] | None => [d] end)
  end.
Proof.
  unfold load. destruct (s_broken sc); [discriminate|].
  destruct (exec_stmts (s_stmts sc) c) as [nc|] eqn:Ex; [|discriminate].
  intros H. inversion H; subst c'; clear H.
  rewrite merge_get by apply dedup_nodup.
  rewrite (exec_stmts_get _ _ _ k Ex).
  destruct (existsb (str_eqb k) (dedup (bound_keys (s_stmts sc)))) eqn:E.
  - destruct (last_def (s_stmts sc) k) as [d|] eqn:El; [reflexivity|].
    destruct (ctx_get c k) eqn:Ec; [|reflexivity].
    exfalso. apply last_def_none_iff in El. apply El.
    apply existsb_exists in E. destruct E as [y [Hy Hxy]]. apply str_eqb_eq in Hxy. subst y.
    apply dedup_in. exact Hy.
  - destruct (last_def (s_stmts sc) k) as [d|] eqn:El; [|reflexivity].
    exfalso. assert (In k (bound_keys (s_stmts sc))) as Hin.
    { destruct (in_dec (list_eq_dec N.eq_dec) k (bound_keys (s_stmts sc))) as [Hi|Hi]; [exact Hi|].
      apply last_def_none_iff in Hi. congruence. }
    apply dedup_in in Hin.
    assert (existsb (str_eqb k) (dedup (bound_keys (s_stmts sc))) = true) as Ht; [|congruence].
    apply existsb_exists. exists k. split; [exact Hin | apply str_eqb_refl].
Qed.

Theorem load_overwrite_exact c sc c' k d :
  load c sc true = Some c' -> last_def (s_stmts sc) k = Some d -> ctx_get c' k = Some [d].
Proof. intros H Hl. rewrite (load_get _ _ _ _ k H), Hl. reflexivity. Qed.

Theorem load_frame c sc ow c' k :
  load c sc ow = Some c' -> ~ In k (bound_keys (s_stmts sc)) -> ctx_get c' k = ctx_get c k.
Proof.
  intros H Hn. rewrite (load_get _ _ _ _ k H).
  apply last_def_none_iff in Hn. rewrite Hn. reflexivity.
Qed.

Theorem load_combine_appends c sc c' k d :
  load c sc false = Some c' -> last_def (s_stmts sc) k = Some d ->
  ctx_get c' k = Some (match ctx_get c k with Some old => old ++ [d] | None => [d] end).
Proof. intros H Hl. rewrite (load_get _ _ _ _ k H), Hl. reflexivity. Qed.

(* any number of combining loads: the chain of k is the old chain followed by the scripts'
   definitions of k in load order *)
Fixpoint load_all (c : ctx) (scs : list script) : option ctx :=
  match scs with
  | [] => Some c
  | sc :: r => match load c sc false with Some c' => load_all c' r | None => None end
  end.

Definition chain_of (c : ctx) (k : str) : list def := match ctx_get c k with Some l => l | None => [] end.

Theorem load_chain_order scs : forall c c' k,
  load_all c scs = Some c' ->
  chain_of c' k = chain_of c k ++ flat_map (fun sc => match last_def (s_stmts sc) k with Some d => [d] | None => [] end) scs.
Proof.
  induction scs as [|sc scs IH]; intros c c' k H; simpl in *.
  - inversion H. rewrite app_nil_r. reflexivity.
  - destruct (load c sc false) as [c1|] eqn:El; [|discriminate].
    rewrite (IH _ _ k H). unfold chain_of at 1. rewrite (load_get _ _ _ _ k El).
    destruct (last_def (s_stmts sc) k) as [d|]; simpl.
    + unfold chain_of. destruct (ctx_get c k); simpl; rewrite <- ?app_assoc; reflexivity.
    + unfold chain_of. reflexivity.
Qed.

(* register_function: plain assignment of one key *)
Theorem register_get c name st d k :
  ctx_get (register c name st d) k =
  if str_eqb k (mkkey name (reg_arity st d)) then Some [d] else ctx_get c k.
Proof. unfold register. apply ctx_get_set. Qed.

(* ------------------------------------------------------------------ the fact store *)

Lemma dbkey_eqb_eq a b : dbkey_eqb a b = true <-> a = b.
Proof.
  destruct a as [n1 a1], b as [n2 a2]. unfold dbkey_eqb. simpl.
  rewrite andb_true_iff, str_eqb_eq, Nat.eqb_eq. split.
  - intros [-> ->]. reflexivity.
  - intros H. inversion H. auto.
Qed.

Lemma dbkey_eqb_refl a : dbkey_eqb a a = true.
Proof. apply dbkey_eqb_eq. reflexivity. Qed.

Lemma db_get_set m k v k2 :
  db_get (db_set m k v) k2 = if dbkey_eqb k2 k then v else db_get m k2.
Proof.
  induction m as [|[k' v'] m IH]; simpl.
  - reflexivity.
  - destruct (dbkey_eqb k k') eqn:E; simpl.
    + apply dbkey_eqb_eq in E. subst k'. destruct (dbkey_eqb k2 k); reflexivity.
    + rewrite IH. destruct (dbkey_eqb k2 k') eqn:E2; [|reflexivity].
      apply dbkey_eqb_eq in E2. subst k'.
      destruct (dbkey_eqb k2 k) eqn:E3; [|reflexivity].
      apply dbkey_eqb_eq in E3. subst k2. rewrite dbkey_eqb_refl in E. discriminate.
Qed.

(* assert_fact: the new fact goes to the end (append) or to the front of name/N, nothing else changes *)
Theorem assert_fact_get m name vals app k :
  db_get (assert_fact m name vals app) k =
  if dbkey_eqb k (name, length vals)
  then (if app then db_get m (name, length vals) ++ [vals] else vals :: db_get m (name, length vals))
  else db_get m k.
Proof. unfold assert_fact. apply db_get_set. Qed.

Lemma match_fact_extends vals : forall args s s',
  match_fact s args vals = Some s' -> forall x b, slookup s x = Some b -> slookup s' x = Some b.
Proof.
  induction vals as [|a vals IH]; intros args s s' H x b Hx; destruct args as [|v args]; simpl in H; try discriminate.
  - inversion H. subst. exact Hx.
  - unfold unify_atom in H. destruct (slookup s v) as [c|] eqn:El.
    + destruct (str_eqb a c); [|discriminate]. eapply IH; eauto.
    + eapply IH; [exact H|]. simpl. destruct (Nat.eqb_spec x v) as [->|]; [congruence | exact Hx].
Qed.

(* all-variable query of the facts: a stored fact of matching length answers, binding the
   i-th variable to its i-th value *)
Lemma match_fact_fresh vals : forall args s,
  length args = length vals -> NoDup args -> (forall v, In v args -> slookup s v = None) ->
  exists s', match_fact s args vals = Some s' /\
             (forall i v a, nth_error args i = Some v -> nth_error vals i = Some a -> slookup s' v = Some a).
Proof.
  induction vals as [|a vals IH]; intros args s Hl Hnd Hfree; destruct args as [|v args]; try discriminate.
  - exists s. split; [reflexivity|]. intros [|i] v a H; discriminate.
  - simpl. unfold unify_atom. rewrite (Hfree v (or_introl eq_refl)).
    inversion Hnd as [|? ? Hnotin Hnd']; subst.
    destruct (IH args ((v, a) :: s)) as [s' [Hm Hs']].
    + simpl in Hl. congruence.
    + exact Hnd'.
    + intros w Hw. simpl. destruct (Nat.eqb_spec w v) as [->|Hne]; [contradiction|].
      apply Hfree. right. exact Hw.
    + exists s'. split; [exact Hm|]. intros [|i] w b Hn Hv; simpl in Hn, Hv.
      * inversion Hn; inversion Hv; subst.
        eapply match_fact_extends; [exact Hm|]. simpl. rewrite Nat.eqb_refl. reflexivity.
      * eapply Hs'; eauto.
Qed.

Lemma map_lookup_eq (s' : store) args : forall vals,
  length args = length vals ->
  (forall i v a, nth_error args i = Some v -> nth_error vals i = Some a -> slookup s' v = Some a) ->
  map (slookup s') args = map Some vals.
Proof.
  induction args as [|v args IH]; intros vals Hl H; destruct vals as [|a vals]; try discriminate; [reflexivity|].
  simpl. rewrite (H 0 v a eq_refl eq_refl). f_equal. apply IH.
  - simpl in Hl. congruence.
  - intros i w b Hn Hv. apply (H (S i) w b); assumption.
Qed.

(* the fact answers of a call with distinct unbound variables, read through these variables,
   are exactly the stored facts of name/N in their stored order *)
Theorem fact_answers_fresh fs args s :
  Forall (fun f => length f = length args) fs -> NoDup args ->
  (forall v, In v args -> slookup s v = None) ->
  map (fun s' => map (slookup s') args) (fact_answers fs args s) = map (map Some) fs.
Proof.
  intros Hlen Hnd Hfree. induction Hlen as [|f fs Hf _ IH]; [reflexivity|].
  unfold fact_answers in *. cbn [flat_map map].
  destruct (match_fact_fresh f args s (eq_sym Hf) Hnd Hfree) as [s' [Hm Hs']].
  rewrite Hm. cbn [app map]. rewrite IH. f_equal.
  apply map_lookup_eq; [symmetry; exact Hf | exact Hs'].
Qed.
