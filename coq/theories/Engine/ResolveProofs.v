(* Proofs about the resolution model: big-step reading of the generators (the engine does not
   change while a query runs), lookup, chains, loading. *)
From Coq Require Import String.
From Coq Require Import List Arith NArith Bool Lia.
Import ListNotations.
From YP Require Import Base.Str Engine.Resolve.

(* ------------------------------------------------------------------ dictionaries *)

Lemma aget_aset {A} (c : list (str * A)) k v k2 :
  aget (aset c k v) k2 = if str_eqb k2 k then Some v else aget c k2.
Proof.
  induction c as [|[k' v'] c IH]; simpl.
  - reflexivity.
  - destruct (str_eqb_spec k k') as [->|Hne]; simpl.
    + destruct (str_eqb k2 k'); reflexivity.
    + rewrite IH. destruct (str_eqb_spec k2 k') as [->|Hne2]; [|reflexivity].
      destruct (str_eqb_spec k' k) as [->|]; [congruence | reflexivity].
Qed.

Lemma aget_adel {A} (c : list (str * A)) k k2 :
  aget (adel c k) k2 = if str_eqb k2 k then None else aget c k2.
Proof.
  induction c as [|[k' v'] c IH]; simpl.
  - destruct (str_eqb k2 k); reflexivity.
  - destruct (str_eqb_spec k k') as [->|Hne]; simpl.
    + rewrite IH. destruct (str_eqb k2 k'); reflexivity.
    + rewrite IH. destruct (str_eqb_spec k2 k') as [->|Hne2]; [|reflexivity].
      destruct (str_eqb_spec k' k) as [->|]; [congruence | reflexivity].
Qed.

Lemma aget_in {A} (c : list (str * A)) k v : aget c k = Some v -> In k (map fst c).
Proof.
  induction c as [|[k' v'] c IH]; simpl; [discriminate|].
  destruct (str_eqb_spec k k') as [->|Hne]; [left; reflexivity | right; auto].
Qed.

Lemma ctx_val_set c k v k2 :
  ctx_val (ctx_set c k v) k2 = if str_eqb k2 k then Some v else ctx_val c k2.
Proof. apply aget_aset. Qed.

Lemma ctx_get_set c k v k2 :
  ctx_get (ctx_set c k v) k2 = if str_eqb k2 k then Some (members v) else ctx_get c k2.
Proof. unfold ctx_get. rewrite ctx_val_set. destruct (str_eqb k2 k); reflexivity. Qed.

Lemma ctx_get_set_same c k v : ctx_get (ctx_set c k v) k = Some (members v).
Proof. rewrite ctx_get_set, str_eqb_refl. reflexivity. Qed.

Lemma ctx_get_set_other c k v k2 : k2 <> k -> ctx_get (ctx_set c k v) k2 = ctx_get c k2.
Proof. intros Hne. rewrite ctx_get_set. apply str_eqb_neq in Hne. rewrite Hne. reflexivity. Qed.

(* ------------------------------------------------------------------ big-step reading *)

Definition res := (list store * fin)%type.

Definition res_app (r : res) (after : fin -> res) : res :=
  let (l, f) := r in let (l2, f2) := after f in (l ++ l2, f2).

Fixpoint res_bind (l : list store) (f : store -> res) (fi : fin) : res :=
  match l with
  | [] => ([], fi)
  | s :: r =>
      let (a, fa) := f s in
      match fa with
      | Norm => let (b, fb) := res_bind r f fi in (a ++ b, fb)
      | x => (a, x)
      end
  end.

Lemma drain_append st : forall after e,
  drain e (append st after e) = res_app (drain e st) (fun fi => drain e (after fi e)).
Proof.
  induction st as [f | s k IH]; intros after e; simpl.
  - destruct (drain e (after f e)); reflexivity.
  - rewrite IH. destruct (drain e (k e)) as [l f]. simpl.
    destruct (drain e (after f e)); reflexivity.
Qed.

Lemma drain_bind st : forall f e,
  drain e (bind st f e) = let (l, fi) := drain e st in res_bind l (fun s => drain e (f s e)) fi.
Proof.
  induction st as [fi | s k IH]; intros f e; simpl.
  - reflexivity.
  - rewrite drain_append. destruct (drain e (k e)) as [l fi] eqn:Ek. simpl.
    destruct (drain e (f s e)) as [a fa]. simpl.
    destruct fa; simpl; try (rewrite app_nil_r; reflexivity).
    rewrite IH. rewrite Ek. destruct (res_bind l _ fi). reflexivity.
Qed.

Lemma drain_smap h st : forall e, drain e (smap h st) = (map h (fst (drain e st)), snd (drain e st)).
Proof.
  induction st as [f | s k IH]; intros e; simpl.
  - reflexivity.
  - rewrite IH. destruct (drain e (k e)); reflexivity.
Qed.

Lemma res_bind_ext l f g fi : (forall s, f s = g s) -> res_bind l f fi = res_bind l g fi.
Proof.
  intros H. induction l as [|s l IH]; simpl; [reflexivity|].
  rewrite H, IH. reflexivity.
Qed.

Lemma res_app_ext r f g : (forall fi, f fi = g fi) -> res_app r f = res_app r g.
Proof. intros H. destruct r as [l fi]. simpl. rewrite H. reflexivity. Qed.

Lemma res_app_assoc r f g :
  res_app (res_app r f) g = res_app r (fun fi => res_app (f fi) g).
Proof.
  destruct r as [l fi]. simpl. destruct (f fi) as [l2 f2]. simpl.
  destruct (g f2) as [l3 f3]. rewrite app_assoc. reflexivity.
Qed.

(* ------------------------------------------------------------------ facts, chain, lookup *)

Definition fact_answers (fs : list fact) (args : list nat) (s : store) : list store :=
  flat_map (fun f => match match_fact s args f with Some s' => [s'] | None => [] end) fs.

Lemma drain_facts_gen fs : forall args s after e,
  drain e (facts_gen fs args s after e) =
  (fact_answers fs args s ++ fst (drain e (after e)), snd (drain e (after e))).
Proof.
  induction fs as [|f fs IH]; intros args s after e; simpl.
  - destruct (drain e (after e)); reflexivity.
  - destruct (match_fact s args f) as [s'|]; simpl.
    + rewrite IH. reflexivity.
    + apply IH.
Qed.

Section BigStep.
  Variable call : str -> list nat -> nat -> store -> gen.

  (* one member of a chain, then the others: a cut (return) in d is local to d *)
  Lemma drain_chain_cons d r args nx s e :
    drain e (chain_gen call (d :: r) args nx s e) =
    res_app (drain e (def_gen call d args nx s e))
            (fun fi => match fi with
                       | Norm | Cut => drain e (chain_gen call r args nx s e)
                       | x => ([], x)
                       end).
  Proof.
    simpl. rewrite drain_append. apply res_app_ext. intros [| | |]; reflexivity.
  Qed.

  Lemma chain_cut_local d r args nx s e l fi :
    drain e (def_gen call d args nx s e) = (l, fi) -> fi = Norm \/ fi = Cut ->
    drain e (chain_gen call (d :: r) args nx s e) =
    (l ++ fst (drain e (chain_gen call r args nx s e)), snd (drain e (chain_gen call r args nx s e))).
  Proof.
    intros Hd Hfi. rewrite drain_chain_cons, Hd. simpl.
    destruct (drain e (chain_gen call r args nx s e)) as [l2 f2].
    destruct Hfi; subst fi; reflexivity.
  Qed.

  (* an exception in a member ends the call: the later members are not consulted *)
  Lemma chain_raise_stops d r args nx s e l :
    drain e (def_gen call d args nx s e) = (l, Raise) ->
    drain e (chain_gen call (d :: r) args nx s e) = (l, Raise).
  Proof.
    intros Hd. rewrite drain_chain_cons, Hd. simpl. rewrite app_nil_r. reflexivity.
  Qed.

  (* the chain of definitions whose members all end normally or by cut: concatenation in chain order *)
  Lemma chain_concat ds args nx s e :
    Forall (fun d => snd (drain e (def_gen call d args nx s e)) = Norm \/
                     snd (drain e (def_gen call d args nx s e)) = Cut) ds ->
    drain e (chain_gen call ds args nx s e) =
    (flat_map (fun d => fst (drain e (def_gen call d args nx s e))) ds, Norm).
  Proof.
    induction 1 as [|d ds Hd _ IH]; [reflexivity|].
    destruct (drain e (def_gen call d args nx s e)) as [l fi] eqn:Ed.
    rewrite (chain_cut_local d ds args nx s e l fi Ed Hd), IH. simpl. rewrite Ed. reflexivity.
  Qed.

  Lemma chain_app ds1 ds2 args nx s e :
    drain e (chain_gen call (ds1 ++ ds2) args nx s e) =
    res_app (drain e (chain_gen call ds1 args nx s e))
            (fun fi => match fi with
                       | Norm => drain e (chain_gen call ds2 args nx s e)
                       | x => ([], x)
                       end).
  Proof.
    induction ds1 as [|d ds1 IH].
    - simpl. destruct (drain e (chain_gen call ds2 args nx s e)); reflexivity.
    - rewrite <- app_comm_cons. rewrite !drain_chain_cons. rewrite res_app_assoc.
      apply res_app_ext. intros [| | |]; try exact IH; reflexivity.
  Qed.

  Definition defs_of (c : ctx) (name : str) (n : nat) : list def :=
    match resolve c name n with Some ds => ds | None => [] end.

  (* the function half of a call *)
  Lemma drain_fun_phase name args nx s e :
    drain e (fun_phase call name args nx s e) =
    if reserved name then ([], Norm)
    else if forallb (params_ok (length args)) (defs_of (e_ctx e) name (length args))
         then drain e (chain_gen call (defs_of (e_ctx e) name (length args)) args nx s e)
         else ([], Raise).
  Proof.
    unfold fun_phase, lookup_phase, call_phase, defs_of. destruct (reserved name); [reflexivity|].
    destruct (resolve (e_ctx e) name (length args)) as [ds|]; simpl; [|reflexivity].
    destruct (forallb (params_ok (length args)) ds); reflexivity.
  Qed.

  Lemma drain_query_body name args nx s e :
    drain e (query_body call name args nx s e) =
    let r := drain e (fun_phase call name args nx s e) in
    (map (prune nx) (fact_answers (db_get (e_db e) (name, length args)) args s ++ fst r), snd r).
  Proof.
    unfold query_body. rewrite drain_smap, drain_facts_gen. reflexivity.
  Qed.
End BigStep.

(* C08, first sentence: facts of name/N in order, then the definitions registered for exactly N
   (the variadic one only when there is none), all in chain order. *)
Theorem lookup_spec f name args nx s e :
  reserved name = false ->
  let n := length args in
  let facts := fact_answers (db_get (e_db e) (name, n)) args s in
  let ds := match ctx_get (e_ctx e) (mkkey name (AFix n)) with
            | Some ds => ds
            | None => match ctx_get (e_ctx e) (mkkey name AVar) with Some ds => ds | None => [] end
            end in
  drain e (query_gen (S f) name args nx s e) =
  if forallb (params_ok n) ds
  then let r := drain e (chain_gen (query_gen f) ds args nx s e) in
       (map (prune nx) (facts ++ fst r), snd r)
  else (map (prune nx) facts, Raise).
Proof.
  intros Hres n facts ds. cbn [query_gen]. rewrite drain_query_body, drain_fun_phase, Hres.
  assert (Hds : defs_of (e_ctx e) name (length args) = ds).
  { unfold defs_of, resolve, ds, n. destruct (ctx_get (e_ctx e) (mkkey name (AFix (length args)))); reflexivity. }
  rewrite Hds. fold n. destruct (forallb (params_ok n) ds); cbn [fst snd]; [reflexivity|].
  rewrite app_nil_r. reflexivity.
Qed.

(* an unknown predicate simply fails *)
Theorem unknown_fails f name args nx s e :
  db_get (e_db e) (name, length args) = [] ->
  ctx_get (e_ctx e) (mkkey name (AFix (length args))) = None ->
  ctx_get (e_ctx e) (mkkey name AVar) = None ->
  drain e (query_gen (S f) name args nx s e) = ([], Norm).
Proof.
  intros Hdb H1 H2. cbn [query_gen]. rewrite drain_query_body, drain_fun_phase.
  rewrite Hdb. unfold defs_of, resolve. rewrite H1, H2. simpl.
  destruct (reserved name); reflexivity.
Qed.

(* API names: the facts, and nothing else, whatever the context holds *)
Theorem reserved_only_facts f name args nx s e :
  reserved name = true ->
  drain e (query_gen (S f) name args nx s e) =
  (map (prune nx) (fact_answers (db_get (e_db e) (name, length args)) args s), Norm).
Proof.
  intros Hres. cbn [query_gen]. rewrite drain_query_body, drain_fun_phase, Hres.
  cbn [fst snd]. rewrite app_nil_r. reflexivity.
Qed.

Lemma reserved_iff name : reserved name = true <-> In name api_names.
Proof.
  unfold reserved. rewrite existsb_exists. split.
  - intros [x [Hin Heq]]. apply str_eqb_eq in Heq. subst. exact Hin.
  - intros Hin. exists name. split; [exact Hin | apply str_eqb_refl].
Qed.

(* the call made with N arguments never reaches a definition filed under another key *)
Theorem resolve_only_two_keys c1 c2 name n :
  ctx_get c1 (mkkey name (AFix n)) = ctx_get c2 (mkkey name (AFix n)) ->
  ctx_get c1 (mkkey name AVar) = ctx_get c2 (mkkey name AVar) ->
  resolve c1 name n = resolve c2 name n.
Proof. intros H1 H2. unfold resolve. rewrite H1, H2. reflexivity. Qed.

Theorem exact_over_variadic c name n ds :
  ctx_get c (mkkey name (AFix n)) = Some ds -> resolve c name n = Some ds.
Proof. intros H. unfold resolve. rewrite H. reflexivity. Qed.

Theorem variadic_only_without_exact c name n :
  ctx_get c (mkkey name (AFix n)) = None -> resolve c name n = ctx_get c (mkkey name AVar).
Proof. intros H. unfold resolve. rewrite H. reflexivity. Qed.

(* ------------------------------------------------------------------ loading *)

Lemma exec_stmts_none_of_fail ss : forall nc, In SFail ss -> exec_stmts ss nc = None.
Proof.
  induction ss as [|st ss IH]; intros nc Hin; [destruct Hin|].
  destruct Hin as [H|H]; [subst st; reflexivity|].
  destruct st as [k d|k|k|k|]; simpl; try (apply IH; exact H); try reflexivity.
  - destruct (aget nc k); [apply IH; exact H | reflexivity].
  - destruct (aget nc k); [apply IH; exact H | reflexivity].
Qed.

(* a load that raises (compile error, or any statement raising while the script runs,
   whatever was defined before it) leaves the context unchanged: there is no new context *)
Theorem load_fail_atomic c sc ow :
  s_broken sc = true \/ In SFail (s_stmts sc) -> load c sc ow = None.
Proof.
  intros [H|H]; unfold load.
  - rewrite H. reflexivity.
  - destruct (s_broken sc); [reflexivity|]. rewrite exec_stmts_none_of_fail by exact H. reflexivity.
Qed.

(* does the script run to its end?  It depends on the context only through WHICH keys are
   bound (del / self-assignment of an unbound name raise NameError) *)
Fixpoint exec_ok (ss : list stmt) (pres : str -> bool) : bool :=
  match ss with
  | [] => true
  | SDef k _ :: r | SNone k :: r => exec_ok r (fun x => str_eqb x k || pres x)
  | SDel k :: r => pres k && exec_ok r (fun x => negb (str_eqb x k) && pres x)
  | SSelf k :: r => pres k && exec_ok r pres
  | SFail :: _ => false
  end.

Lemma exec_ok_ext ss : forall p1 p2, (forall x, p1 x = p2 x) -> exec_ok ss p1 = exec_ok ss p2.
Proof.
  induction ss as [|st ss IH]; intros p1 p2 H; [reflexivity|].
  destruct st as [k d|k|k|k|]; simpl; try reflexivity.
  - apply IH. intros x. rewrite H. reflexivity.
  - apply IH. intros x. rewrite H. reflexivity.
  - rewrite H. f_equal. apply IH. intros x. rewrite H. reflexivity.
  - rewrite H. f_equal. apply IH. exact H.
Qed.

Definition bound_in {A} (c : list (str * A)) (k : str) : bool :=
  match aget c k with Some _ => true | None => false end.

Lemma exec_stmts_ok ss : forall nc,
  (exists nc', exec_stmts ss nc = Some nc') <-> exec_ok ss (bound_in nc) = true.
Proof.
  induction ss as [|st ss IH]; intros nc; simpl.
  - split; [reflexivity | eauto].
  - destruct st as [k d|k|k|k|].
    + rewrite IH. erewrite exec_ok_ext; [reflexivity|]. intros x. unfold bound_in.
      rewrite aget_aset. destruct (str_eqb x k); reflexivity.
    + rewrite IH. erewrite exec_ok_ext; [reflexivity|]. intros x. unfold bound_in.
      rewrite aget_aset. destruct (str_eqb x k); reflexivity.
    + unfold bound_in at 1. destruct (aget nc k) eqn:E; simpl.
      * rewrite IH. erewrite exec_ok_ext; [reflexivity|]. intros x. unfold bound_in.
        rewrite aget_adel. destruct (str_eqb x k); reflexivity.
      * split; [intros [? H]; discriminate | discriminate].
    + unfold bound_in at 1. destruct (aget nc k) eqn:E; simpl.
      * apply IH.
      * split; [intros [? H]; discriminate | discriminate].
    + split; [intros [? H]; discriminate | discriminate].
Qed.

Lemma aget_copy c k : aget (copy_ctx c) k = match ctx_val c k with Some _ => Some NOld | None => None end.
Proof.
  unfold copy_ctx, ctx_val. induction c as [|[k' v'] c IH]; simpl; [reflexivity|].
  destruct (str_eqb k k'); [reflexivity | exact IH].
Qed.

Lemma bound_in_copy c k : bound_in (copy_ctx c) k = bound_in c k.
Proof. unfold bound_in. rewrite aget_copy. unfold ctx_val. destruct (aget c k); reflexivity. Qed.

(* when does a load return?  exactly when the text compiles and every statement runs *)
Theorem load_ok_iff c sc ow :
  (exists c', load c sc ow = Some c') <-> (s_broken sc = false /\ exec_ok (s_stmts sc) (bound_in c) = true).
Proof.
  unfold load. destruct (s_broken sc).
  - split; [intros [? H]; discriminate | intros [H _]; discriminate].
  - rewrite (exec_ok_ext _ _ _ (fun x => eq_sym (bound_in_copy c x))), <- exec_stmts_ok.
    split.
    + intros [c' H]. split; [reflexivity|]. destruct (exec_stmts (s_stmts sc) (copy_ctx c)); [eauto | discriminate].
    + intros [_ [nc' ->]]. eauto.
Qed.

Lemma exec_ok_no_fail ss pres : exec_ok ss pres = true -> ~ In SFail ss.
Proof.
  revert pres. induction ss as [|st ss IH]; intros pres H Hin; [exact Hin|].
  destruct Hin as [->|Hin]; [discriminate|].
  destruct st as [k d|k|k|k|]; simpl in H; try discriminate.
  - exact (IH _ H Hin).
  - exact (IH _ H Hin).
  - apply andb_true_iff in H. destruct H as [_ H]. exact (IH _ H Hin).
  - apply andb_true_iff in H. destruct H as [_ H]. exact (IH _ H Hin).
Qed.

(* scripts of definitions and raising statements only (what the compiler emits, plus failures) *)
Definition plain_stmt (st : stmt) : bool :=
  match st with SDef _ d => match d_const d with None => true | Some _ => false end | SFail => true | _ => false end.

Definition is_fail (st : stmt) : bool := match st with SFail => true | _ => false end.

Lemma exec_ok_plain ss : forallb plain_stmt ss = true -> forall pres,
  exec_ok ss pres = negb (existsb is_fail ss).
Proof.
  induction ss as [|st ss IH]; intros Hp pres; [reflexivity|].
  simpl in Hp. apply andb_true_iff in Hp. destruct Hp as [H1 H2].
  destruct st as [k d|k|k|k|]; simpl in *; try discriminate; [apply IH; exact H2 | reflexivity].
Qed.

(* the last thing a script does to key k: None = nothing (not mentioned, or only `k = k`),
   Some None = deleted from the copy, Some (Some v) = bound to the new value v *)
Definition stmt_eff (st : stmt) (k : str) : option (option cval) :=
  match st with
  | SDef k' d => if str_eqb k k' then Some (Some (VObj d)) else None
  | SNone k' => if str_eqb k k' then Some (Some VNone) else None
  | SDel k' => if str_eqb k k' then Some None else None
  | SSelf _ | SFail => None
  end.

Fixpoint last_eff (ss : list stmt) (k : str) : option (option cval) :=
  match ss with
  | [] => None
  | st :: r => match last_eff r k with Some e => Some e | None => stmt_eff st k end
  end.

(* the (last) object a script binds k to *)
Definition last_def (ss : list stmt) (k : str) : option def :=
  match last_eff ss k with Some (Some (VObj d)) => Some d | _ => None end.

Lemma last_eff_none ss k : ~ In k (bound_keys ss) -> last_eff ss k = None.
Proof.
  induction ss as [|st ss IH]; intros Hn; [reflexivity|].
  simpl. rewrite IH.
  - destruct st as [k' d|k'|k'|k'|]; simpl; try reflexivity;
      (destruct (str_eqb_spec k k') as [->|Hne]; [|reflexivity]; exfalso; apply Hn; simpl; left; reflexivity).
  - intros Hi. apply Hn. unfold bound_keys in *. simpl. apply in_or_app. right. exact Hi.
Qed.

Lemma last_def_none ss k : ~ In k (bound_keys ss) -> last_def ss k = None.
Proof. intros H. unfold last_def. rewrite last_eff_none by exact H. reflexivity. Qed.

Lemma last_def_some_in ss k d : last_def ss k = Some d -> In k (bound_keys ss).
Proof.
  intros H. destruct (in_dec (list_eq_dec N.eq_dec) k (bound_keys ss)) as [Hi|Hi]; [exact Hi|].
  rewrite last_def_none in H by exact Hi. discriminate.
Qed.

Definition apply_eff (e : option (option cval)) (cur : option nval) : option nval :=
  match e with None => cur | Some None => None | Some (Some v) => Some (NNew v) end.

Lemma exec_stmts_get ss : forall nc nc' k,
  exec_stmts ss nc = Some nc' -> aget nc' k = apply_eff (last_eff ss k) (aget nc k).
Proof.
  induction ss as [|st ss IH]; intros nc nc' k H; simpl in *.
  - inversion H. reflexivity.
  - destruct st as [k' d|k'|k'|k'|]; simpl.
    + rewrite (IH _ _ k H). destruct (last_eff ss k) as [e|]; [reflexivity|]. simpl.
      rewrite aget_aset. destruct (str_eqb k k'); reflexivity.
    + rewrite (IH _ _ k H). destruct (last_eff ss k) as [e|]; [reflexivity|]. simpl.
      rewrite aget_aset. destruct (str_eqb k k'); reflexivity.
    + destruct (aget nc k') eqn:E; [|discriminate].
      rewrite (IH _ _ k H). destruct (last_eff ss k) as [e|]; [reflexivity|]. simpl.
      rewrite aget_adel. destruct (str_eqb k k'); reflexivity.
    + destruct (aget nc k') eqn:E; [|discriminate].
      rewrite (IH _ _ k H). destruct (last_eff ss k) as [e|]; reflexivity.
    + discriminate.
Qed.

Lemma dedup_in ks k : In k (dedup ks) <-> In k ks.
Proof.
  induction ks as [|x ks IH]; simpl; [tauto|].
  destruct (existsb (str_eqb x) ks) eqn:E.
  - rewrite IH. split; [auto|]. intros [->|H]; [|exact H].
    apply existsb_exists in E. destruct E as [y [Hy Hxy]]. apply str_eqb_eq in Hxy. subst. exact Hy.
  - simpl. rewrite IH. tauto.
Qed.

Lemma dedup_nodup ks : NoDup (dedup ks).
Proof.
  induction ks as [|x ks IH]; simpl; [constructor|].
  destruct (existsb (str_eqb x) ks) eqn:E; [exact IH|].
  constructor; [|exact IH]. rewrite dedup_in. intros Hin.
  assert (existsb (str_eqb x) ks = true) as Ht; [|congruence].
  apply existsb_exists. exists x. split; [exact Hin | apply str_eqb_refl].
Qed.

Lemma merge_key_other nc ow c k0 k : k <> k0 -> ctx_val (merge_key nc ow c k0) k = ctx_val c k.
Proof.
  intros Hne. unfold merge_key. destruct (aget nc k0) as [[|v]|]; try reflexivity.
  destruct (same_value (ctx_val c k0) v); [reflexivity|].
  apply str_eqb_neq in Hne. destruct ow; rewrite ctx_val_set, Hne; reflexivity.
Qed.

Lemma merge_key_nonew nc ow c k : (forall v, aget nc k <> Some (NNew v)) -> merge_key nc ow c k = c.
Proof.
  unfold merge_key. destruct (aget nc k) as [[|v]|]; try reflexivity.
  intros H; exfalso; exact (H v eq_refl).
Qed.

(* the rounds of the merge are independent: the outcome for key k is that of its own round *)
Lemma merge_val keys : forall nc ow c k, NoDup keys ->
  ctx_val (merge keys nc ow c) k =
  if existsb (str_eqb k) keys then ctx_val (merge_key nc ow c k) k else ctx_val c k.
Proof.
  induction keys as [|k0 keys IH]; intros nc ow c k Hnd; simpl; [reflexivity|].
  inversion Hnd as [|? ? Hnotin Hnd']; subst.
  rewrite IH by exact Hnd'.
  destruct (str_eqb_spec k k0) as [->|Hne]; simpl.
  - assert (existsb (str_eqb k0) keys = false) as ->; [|reflexivity].
    destruct (existsb (str_eqb k0) keys) eqn:E; [|reflexivity].
    apply existsb_exists in E. destruct E as [y [Hy Hxy]]. apply str_eqb_eq in Hxy. subst. contradiction.
  - destruct (existsb (str_eqb k) keys).
    + unfold merge_key at 1 3. rewrite !(merge_key_other nc ow c k0 k Hne).
      assert (Hom : old_members (merge_key nc ow c k0) k = old_members c k).
      { unfold old_members, ctx_get. rewrite (merge_key_other nc ow c k0 k Hne). reflexivity. }
      rewrite Hom.
      destruct (aget nc k) as [[|v]|]; try (apply merge_key_other; exact Hne).
      destruct (same_value (ctx_val c k) v); [apply merge_key_other; exact Hne|].
      destruct ow; rewrite !ctx_val_set, str_eqb_refl; reflexivity.
    + apply merge_key_other. exact Hne.
Qed.

(* THE description of a load that returns, for every key k, at the level of what the key is bound to *)
Theorem load_val c sc ow c' k :
  load c sc ow = Some c' ->
  ctx_val c' k =
  match last_eff (s_stmts sc) k with
  | Some (Some v) =>                                        (* bound by the script to the new value v *)
      if same_value (ctx_val c k) v then ctx_val c k        (* `!=` is False: skipped *)
      else if ow then Some v                                (* overwrite: exactly the new one *)
      else Some (VChain (old_members c k ++ members v))     (* combine: old members, then the new *)
  | _ => ctx_val c k                                        (* not mentioned, `k = k`, or deleted in the copy: unaffected *)
  end.
Proof.
  unfold load. destruct (s_broken sc); [discriminate|].
  destruct (exec_stmts (s_stmts sc) (copy_ctx c)) as [nc|] eqn:Ex; [|discriminate].
  intros H. inversion H; subst c'; clear H.
  rewrite merge_val by apply dedup_nodup.
  pose proof (exec_stmts_get _ _ _ k Ex) as Hg. rewrite aget_copy in Hg.
  assert (Hmk : ctx_val (merge_key nc ow c k) k =
                match last_eff (s_stmts sc) k with
                | Some (Some v) => if same_value (ctx_val c k) v then ctx_val c k
                                   else if ow then Some v else Some (VChain (old_members c k ++ members v))
                | _ => ctx_val c k end).
  { destruct (last_eff (s_stmts sc) k) as [[v|]|]; simpl in Hg.
    - unfold merge_key. rewrite Hg. destruct (same_value (ctx_val c k) v); [reflexivity|].
      destruct ow; rewrite ctx_val_set, str_eqb_refl; reflexivity.
    - rewrite merge_key_nonew; [reflexivity|]. intros v. rewrite Hg. discriminate.
    - rewrite merge_key_nonew; [reflexivity|]. intros v. rewrite Hg. destruct (ctx_val c k); discriminate. }
  destruct (existsb (str_eqb k) (dedup (map fst nc))) eqn:E; [exact Hmk|].
  (* k is not a key of the copy: then the script left nothing under k *)
  destruct (last_eff (s_stmts sc) k) as [[v|]|] eqn:El; try reflexivity.
  exfalso. simpl in Hg. apply aget_in in Hg. apply dedup_in in Hg.
  assert (existsb (str_eqb k) (dedup (map fst nc)) = true) as Ht; [|congruence].
  apply existsb_exists. exists k. split; [exact Hg | apply str_eqb_refl].
Qed.

(* what a call finds after the load: for a script-made FUNCTION d (the case of the property text) *)
Theorem load_get c sc ow c' k :
  load c sc ow = Some c' ->
  ctx_get c' k =
  match last_eff (s_stmts sc) k with
  | Some (Some v) =>
      if same_value (ctx_val c k) v then ctx_get c k
      else if ow then Some (members v)
      else Some (old_members c k ++ members v)
  | _ => ctx_get c k
  end.
Proof.
  intros H. unfold ctx_get at 1. rewrite (load_val _ _ _ _ k H).
  destruct (last_eff (s_stmts sc) k) as [[v|]|]; try reflexivity.
  destruct (same_value (ctx_val c k) v); [reflexivity|]. destruct ow; reflexivity.
Qed.

Lemma same_value_fun old d : d_const d = None -> same_value old (VObj d) = false.
Proof. intros H. simpl. rewrite H. reflexivity. Qed.

Theorem load_get_def c sc ow c' k d :
  load c sc ow = Some c' -> last_def (s_stmts sc) k = Some d -> d_const d = None ->
  ctx_get c' k = if ow then Some [d] else Some (old_members c k ++ [d]).
Proof.
  intros H Hl Hd. rewrite (load_get _ _ _ _ k H). unfold last_def in Hl.
  destruct (last_eff (s_stmts sc) k) as [[[|d'|]|]|]; try discriminate.
  inversion Hl; subst d'. rewrite same_value_fun by exact Hd. reflexivity.
Qed.

Theorem load_overwrite_exact c sc c' k d :
  load c sc true = Some c' -> last_def (s_stmts sc) k = Some d -> d_const d = None -> ctx_get c' k = Some [d].
Proof. intros H Hl Hd. rewrite (load_get_def _ _ _ _ k d H Hl Hd). reflexivity. Qed.

Theorem load_frame c sc ow c' k :
  load c sc ow = Some c' -> ~ In k (bound_keys (s_stmts sc)) -> ctx_val c' k = ctx_val c k.
Proof.
  intros H Hn. rewrite (load_val _ _ _ _ k H). rewrite last_eff_none by exact Hn. reflexivity.
Qed.

(* deleting a key in the script, or assigning it to itself, does nothing to the engine *)
Theorem load_del_unaffected c sc ow c' k :
  load c sc ow = Some c' -> last_eff (s_stmts sc) k = Some None -> ctx_val c' k = ctx_val c k.
Proof. intros H Hl. rewrite (load_val _ _ _ _ k H), Hl. reflexivity. Qed.

Theorem load_combine_appends c sc c' k d :
  load c sc false = Some c' -> last_def (s_stmts sc) k = Some d -> d_const d = None ->
  ctx_get c' k = Some (old_members c k ++ [d]).
Proof. intros H Hl Hd. rewrite (load_get_def _ _ _ _ k d H Hl Hd). reflexivity. Qed.

(* any number of combining loads: the chain of k is the old chain followed by the scripts'
   definitions of k in load order *)
Fixpoint load_all (c : ctx) (scs : list script) : option ctx :=
  match scs with
  | [] => Some c
  | sc :: r => match load c sc false with Some c' => load_all c' r | None => None end
  end.

Definition chain_of (c : ctx) (k : str) : list def := match ctx_get c k with Some l => l | None => [] end.

Definition plain_script (sc : script) : bool := forallb plain_stmt (s_stmts sc).

Lemma plain_last_eff ss k : forallb plain_stmt ss = true ->
  last_eff ss k = match last_def ss k with Some d => Some (Some (VObj d)) | None => None end /\
  (forall d, last_def ss k = Some d -> d_const d = None).
Proof.
  induction ss as [|st ss IH]; intros Hp; [split; [reflexivity | discriminate]|].
  simpl in Hp. apply andb_true_iff in Hp. destruct Hp as [H1 H2]. destruct (IH H2) as [IHa IHb].
  unfold last_def in *. simpl. destruct (last_eff ss k) as [e|] eqn:El.
  - split; [exact IHa | exact IHb].
  - destruct st as [k' d|k'|k'|k'|]; simpl in *; try discriminate.
    + destruct (str_eqb k k'); [|split; [reflexivity | discriminate]].
      split; [reflexivity|]. intros d0 Hd0. inversion Hd0; subst. destruct (d_const d0); [discriminate | reflexivity].
    + split; [reflexivity | discriminate].
Qed.

Theorem load_chain_order scs : forall c c' k,
  forallb plain_script scs = true ->
  load_all c scs = Some c' ->
  chain_of c' k = chain_of c k ++ flat_map (fun sc => match last_def (s_stmts sc) k with Some d => [d] | None => [] end) scs.
Proof.
  induction scs as [|sc scs IH]; intros c c' k Hp H; simpl in *.
  - inversion H. rewrite app_nil_r. reflexivity.
  - apply andb_true_iff in Hp. destruct Hp as [Hp1 Hp2].
    destruct (load c sc false) as [c1|] eqn:El; [|discriminate].
    rewrite (IH _ _ k Hp2 H). unfold chain_of at 1. rewrite (load_get _ _ _ _ k El).
    destruct (plain_last_eff (s_stmts sc) k Hp1) as [He Hd]. rewrite He.
    destruct (last_def (s_stmts sc) k) as [d|]; simpl.
    + rewrite (Hd d eq_refl). unfold chain_of, old_members. rewrite <- app_assoc. reflexivity.
    + unfold chain_of. reflexivity.
Qed.

(* register_function: plain assignment of one key *)
Theorem register_get c name st d k :
  ctx_get (register c name st d) k =
  if str_eqb k (mkkey name (reg_arity st d)) then Some [d] else ctx_get c k.
Proof. unfold register. apply ctx_get_set. Qed.

(* ---- scripts that bind other things than functions *)

(* a key bound to a constant, or a chain with a constant in it: every call that resolves to it
   raises - after the facts, before any definition answers (call_phase) *)
Lemma params_ok_const n z : params_ok n (mkConst z) = false.
Proof. reflexivity. Qed.

(* `k = None` under overwrite: the key stays BOUND (to None): nothing to call, and the variadic
   registration of the same name is not consulted any more *)
Theorem load_none_hides_variadic c sc c' name n :
  load c sc true = Some c' -> last_eff (s_stmts sc) (mkkey name (AFix n)) = Some (Some VNone) ->
  ctx_get c (mkkey name (AFix n)) <> None -> ctx_get c (mkkey name (AFix n)) <> Some [] ->
  resolve c' name n = Some [].
Proof.
  intros H Hl Hb Hne. unfold resolve. rewrite (load_get _ _ _ _ _ H), Hl.
  unfold ctx_get in *. destruct (ctx_val c (mkkey name (AFix n))) as [[|d|ds]|]; simpl in *; try reflexivity; congruence.
Qed.

(* `k = None` for a key that is not bound: the load does not bind it *)
Theorem load_none_unbound c sc ow c' k :
  load c sc ow = Some c' -> last_eff (s_stmts sc) k = Some (Some VNone) -> ctx_val c k = None ->
  ctx_val c' k = None.
Proof. intros H Hl Hc. rewrite (load_val _ _ _ _ k H), Hl, Hc. reflexivity. Qed.

(* ------------------------------------------------------------------ the fact store *)

Lemma dbkey_eqb_eq a b : dbkey_eqb a b = true <-> a = b.
Proof.
  destruct a as [n1 a1], b as [n2 a2]. unfold dbkey_eqb. simpl.
  rewrite andb_true_iff, str_eqb_eq, Nat.eqb_eq. split.
  - intros [-> ->]. reflexivity.
  - intros H. inversion H. auto.
Qed.

Lemma dbkey_eqb_refl a : dbkey_eqb a a = true.
Proof. apply dbkey_eqb_eq. reflexivity. Qed.

Lemma db_get_set m k v k2 :
  db_get (db_set m k v) k2 = if dbkey_eqb k2 k then v else db_get m k2.
Proof.
  induction m as [|[k' v'] m IH]; simpl.
  - reflexivity.
  - destruct (dbkey_eqb k k') eqn:E; simpl.
    + apply dbkey_eqb_eq in E. subst k'. destruct (dbkey_eqb k2 k); reflexivity.
    + rewrite IH. destruct (dbkey_eqb k2 k') eqn:E2; [|reflexivity].
      apply dbkey_eqb_eq in E2. subst k'.
      destruct (dbkey_eqb k2 k) eqn:E3; [|reflexivity].
      apply dbkey_eqb_eq in E3. subst k2. rewrite dbkey_eqb_refl in E. discriminate.
Qed.

(* assert_fact: the new fact goes to the end (append) or to the front of name/N, nothing else changes *)
Theorem assert_fact_get m name vals app k :
  db_get (assert_fact m name vals app) k =
  if dbkey_eqb k (name, length vals)
  then (if app then db_get m (name, length vals) ++ [vals] else vals :: db_get m (name, length vals))
  else db_get m k.
Proof. unfold assert_fact. apply db_get_set. Qed.

Lemma match_fact_extends vals : forall args s s',
  match_fact s args vals = Some s' -> forall x b, slookup s x = Some b -> slookup s' x = Some b.
Proof.
  induction vals as [|a vals IH]; intros args s s' H x b Hx; destruct args as [|v args]; simpl in H; try discriminate.
  - inversion H. subst. exact Hx.
  - unfold unify_atom in H. destruct (slookup s v) as [c|] eqn:El.
    + destruct (str_eqb a c); [|discriminate]. eapply IH; eauto.
    + eapply IH; [exact H|]. simpl. destruct (Nat.eqb_spec x v) as [->|]; [congruence | exact Hx].
Qed.

(* all-variable query of the facts: a stored fact of matching length answers, binding the
   i-th variable to its i-th value *)
Lemma match_fact_fresh vals : forall args s,
  length args = length vals -> NoDup args -> (forall v, In v args -> slookup s v = None) ->
  exists s', match_fact s args vals = Some s' /\
             (forall i v a, nth_error args i = Some v -> nth_error vals i = Some a -> slookup s' v = Some a).
Proof.
  induction vals as [|a vals IH]; intros args s Hl Hnd Hfree; destruct args as [|v args]; try discriminate.
  - exists s. split; [reflexivity|]. intros [|i] v a H; discriminate.
  - simpl. unfold unify_atom. rewrite (Hfree v (or_introl eq_refl)).
    inversion Hnd as [|? ? Hnotin Hnd']; subst.
    destruct (IH args ((v, a) :: s)) as [s' [Hm Hs']].
    + simpl in Hl. congruence.
    + exact Hnd'.
    + intros w Hw. simpl. destruct (Nat.eqb_spec w v) as [->|Hne]; [contradiction|].
      apply Hfree. right. exact Hw.
    + exists s'. split; [exact Hm|]. intros [|i] w b Hn Hv; simpl in Hn, Hv.
      * inversion Hn; inversion Hv; subst.
        eapply match_fact_extends; [exact Hm|]. simpl. rewrite Nat.eqb_refl. reflexivity.
      * eapply Hs'; eauto.
Qed.

Lemma map_lookup_eq (s' : store) args : forall vals,
  length args = length vals ->
  (forall i v a, nth_error args i = Some v -> nth_error vals i = Some a -> slookup s' v = Some a) ->
  map (slookup s') args = map Some vals.
Proof.
  induction args as [|v args IH]; intros vals Hl H; destruct vals as [|a vals]; try discriminate; [reflexivity|].
  simpl. rewrite (H 0 v a eq_refl eq_refl). f_equal. apply IH.
  - simpl in Hl. congruence.
  - intros i w b Hn Hv. apply (H (S i) w b); assumption.
Qed.

(* the fact answers of a call with distinct unbound variables, read through these variables,
   are exactly the stored facts of name/N in their stored order *)
Theorem fact_answers_fresh fs args s :
  Forall (fun f => length f = length args) fs -> NoDup args ->
  (forall v, In v args -> slookup s v = None) ->
  map (fun s' => map (slookup s') args) (fact_answers fs args s) = map (map Some) fs.
Proof.
  intros Hlen Hnd Hfree. induction Hlen as [|f fs Hf _ IH]; [reflexivity|].
  unfold fact_answers in *. cbn [flat_map map].
  destruct (match_fact_fresh f args s (eq_sym Hf) Hnd Hfree) as [s' [Hm Hs']].
  rewrite Hm. cbn [app map]. rewrite IH. f_equal.
  apply map_lookup_eq; [symmetry; exact Hf | exact Hs'].
Qed.

(* a key bound to something that is not callable (a module constant), directly or inside a chain:
   every call that resolves to it raises, after the facts and before any definition answers *)
Theorem noncallable_member_raises f name args nx s e ds d z :
  reserved name = false ->
  resolve (e_ctx e) name (length args) = Some ds -> In d ds -> d_const d = Some z ->
  drain e (query_gen (S f) name args nx s e) =
  (map (prune nx) (fact_answers (db_get (e_db e) (name, length args)) args s), Raise).
Proof.
  intros Hres Hr Hin Hc. rewrite lookup_spec by exact Hres. cbv zeta.
  assert (Hds : match ctx_get (e_ctx e) (mkkey name (AFix (length args))) with
                | Some ds0 => ds0
                | None => match ctx_get (e_ctx e) (mkkey name AVar) with Some ds0 => ds0 | None => [] end
                end = ds).
  { unfold resolve in Hr. destruct (ctx_get (e_ctx e) (mkkey name (AFix (length args)))).
    - inversion Hr. reflexivity.
    - rewrite Hr. reflexivity. }
  rewrite Hds.
  assert (Hf : forallb (params_ok (length args)) ds = false).
  { destruct (forallb (params_ok (length args)) ds) eqn:E; [|reflexivity].
    rewrite forallb_forall in E. specialize (E d Hin). unfold params_ok in E. rewrite Hc in E. discriminate. }
  rewrite Hf. reflexivity.
Qed.
