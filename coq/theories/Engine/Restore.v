(* Restoration theorems for the frame machine of GenMachine.v (property C03), proved
   compositionally over ANY leaf iterator that satisfies the restoring contract, and the
   instance of the contract for the unification generators of UnifyGen.v. *)
From Coq Require Import List Arith Bool Lia.
Import ListNotations.
From YP Require Import Base.Str Term.Term Unify.UnifyGen Engine.GenMachine.
Set Implicit Arguments.

Section Restore.
  Variable L X E P : Type.
  Variable mkleaf : X -> heap -> L.
  Variable lnext : nat -> heap -> L -> option (heap * L * res).
  Variable lclose : heap -> L -> heap.
  Variable prog : P -> code X E P * E.
  Variable gho : E -> nat.

  (* THE RESTORING CONTRACT of a leaf iterator.  LInv h0 l hc: "l was created under the heap h0
     and, with the heap now being hc, is consistent with it". *)
  Variable LInv : heap -> L -> heap -> Prop.
  Hypothesis L_new : forall x h, LInv h (mkleaf x h) h.
  Hypothesis L_next : forall n h0 l hc h' l' r, LInv h0 l hc -> lnext n hc l = Some (h', l', r) ->
      LInv h0 l' h' /\ (r = RStop -> h' = h0).
  Hypothesis L_close : forall h0 l hc, LInv h0 l hc -> lclose hc l = h0.
  Hypothesis L_ext : forall h0 l hc, LInv h0 l hc -> exists nw, hc = nw ++ h0.

  Notation iter := (iter L X E P).
  Notation kont := (kont L X E P).
  Notation code := (code X E P).
  Notation iclose := (iclose lclose).
  Notation unwind := (unwind lclose).
  Notation exec := (exec mkleaf lnext lclose prog gho).
  Notation cont := (cont mkleaf lnext lclose prog gho).
  Notation loop := (loop mkleaf lnext lclose prog gho).
  Notation inext := (inext mkleaf lnext lclose prog gho).
  Notation nexts := (nexts mkleaf lnext lclose prog gho).

  (* the same notion for every iterator and for a frame's stack of open loops: each open
     iterator was created under the heap at which the enclosing one is suspended *)
  Inductive Inv : heap -> iter -> heap -> Prop :=
  | Inv_leaf h0 l hc : LInv h0 l hc -> Inv h0 (ILeaf l) hc
  | Inv_fresh h0 c e : Inv h0 (IFresh c e) h0
  | Inv_done h0 : Inv h0 (IDone) h0
  | Inv_susp h0 k e hc : KInv h0 k hc -> Inv h0 (ISusp k e) hc
  with KInv : heap -> kont -> heap -> Prop :=
  | KInv_nil h0 : KInv h0 (KNil) h0
  | KInv_seq h0 c k hc : KInv h0 k hc -> KInv h0 (KSeq c k) hc
  | KInv_loop h0 k h1 it body hc : KInv h0 k h1 -> Inv h1 it hc -> KInv h0 (KLoop it body k) hc.

  Scheme Inv_mut := Induction for Inv Sort Prop
  with KInv_mut := Induction for KInv Sort Prop.
  Combined Scheme Inv_KInv_ind from Inv_mut, KInv_mut.

  (* close() / drop / an exception passing through: back to the heap of creation *)
  Lemma close_restores_both :
    (forall h0 it hc, Inv h0 it hc -> iclose hc it = h0) /\
    (forall h0 k hc, KInv h0 k hc -> unwind hc k = h0).
  Proof.
    apply Inv_KInv_ind.
    - intros h0 l hc Hl. change (lclose hc l = h0). eapply L_close; eauto.
    - reflexivity.
    - reflexivity.
    - intros h0 k e hc K IH. exact IH.
    - reflexivity.
    - intros h0 c k hc K IH. exact IH.
    - intros h0 k h1 it body hc K IHk I IHi. change (unwind (iclose hc it) k = h0).
      rewrite IHi. exact IHk.
  Qed.
  Definition iclose_restores := proj1 close_restores_both.
  Definition unwind_restores := proj2 close_restores_both.

  (* at every suspension the heap is the heap of creation plus newer bindings on top *)
  Lemma ext_both :
    (forall h0 it hc, Inv h0 it hc -> exists nw, hc = nw ++ h0) /\
    (forall h0 k hc, KInv h0 k hc -> exists nw, hc = nw ++ h0).
  Proof.
    apply Inv_KInv_ind; intros; try (exists []; reflexivity); auto.
    - eapply L_ext; eauto.
    - destruct H as [n1 E1]. destruct H0 as [n2 E2]. exists (n2 ++ n1). subst. apply app_assoc.
  Qed.

  Lemma pop_loop_inv h0 k hc it k' : KInv h0 k hc -> pop_loop k = Some (it, k') ->
    exists h1, KInv h0 k' h1 /\ Inv h1 it hc.
  Proof.
    induction 1 as [h0|h0 c k hc K IH|h0 k h1 it0 body hc K _ I]; cbn [pop_loop]; intros H.
    - discriminate.
    - auto.
    - inversion H; subst. eauto.
  Qed.
  Lemma pop_loop_none h0 k hc : KInv h0 k hc -> pop_loop k = None -> hc = h0.
  Proof.
    induction 1 as [h0|h0 c k hc K IH|h0 k h1 it0 body hc K _ I]; cbn [pop_loop]; intros H; auto. discriminate.
  Qed.

  (* outcome of running a frame: suspended consistently, or finished/raised with the heap of creation *)
  Definition is_frame (it:iter) : Prop := match it with ILeaf _ => False | _ => True end.
  Definition post_frame (h0:heap) (r:heap * iter * res) : Prop :=
    let '(h', it', rr) := r in
    Inv h0 it' h' /\ is_frame it' /\ (rr <> RYield -> h' = h0 /\ it' = IDone).
  (* outcome of __next__ on any iterator *)
  Definition post_next (h0:heap) (r:heap * iter * res) : Prop :=
    let '(h', it', rr) := r in
    Inv h0 it' h' /\ (rr = RStop -> h' = h0).

  Lemma post_frame_next h0 r : post_frame h0 r -> post_next h0 r.
  Proof.
    destruct r as [[h' it'] rr]. intros [A [_ B]]. split; auto. intros ->. apply B. discriminate.
  Qed.

  Definition step_ok (n:nat) : Prop :=
    (forall d h c k e h0 r, KInv h0 k h -> exec n d h c k e = Some r -> post_frame h0 r) /\
    (forall d h k e h0 r, KInv h0 k h -> cont n d h k e = Some r -> post_frame h0 r) /\
    (forall d h it body k e h0 h1 r, KInv h0 k h1 -> Inv h1 it h ->
        loop n d h it body k e = Some r -> post_frame h0 r) /\
    (forall d h it h0 r, Inv h0 it h -> inext n d h it = Some r -> post_next h0 r) /\
    (forall d h it h0 r, Inv h0 it h -> is_frame it -> d <> 0 ->
        inext n d h it = Some r -> post_frame h0 r).

  Lemma done_post h0 rr : post_frame h0 (h0, IDone, rr).
  Proof. split; [constructor|split; [exact I|auto]]. Qed.

  Lemma machine_step n : step_ok n.
  Proof.
    induction n as [|n [IHe [IHc [IHl [IHn IHf]]]]].
    { repeat split; intros; discriminate. }
    assert (He: forall d h c k e h0 r, KInv h0 k h -> exec (S n) d h c k e = Some r -> post_frame h0 r).
    { intros d h c k e h0 r K H. rewrite exec_S in H. destruct c as [| |a b|ex body| | | |f|c a].
      - eapply IHc; eauto.
      - inversion H; subst. split; [constructor; exact K|split; [exact I|intros N; congruence]].
      - eapply IHe; [|exact H]. constructor. exact K.
      - eapply IHl; [exact K| |exact H]. unfold mkiter. destruct (ex (knxt gho k e) e h); constructor. apply L_new.
      - destruct (pop_loop k) as [[it k']|] eqn:Pk.
        + destruct (pop_loop_inv K Pk) as [h1 [K1 I1]].
          rewrite (iclose_restores I1) in H. eapply IHc; eauto.
        + inversion H; subst. rewrite (pop_loop_none K Pk). apply done_post.
      - inversion H; subst. rewrite (unwind_restores K). apply done_post.
      - inversion H; subst. rewrite (unwind_restores K). apply done_post.
      - eapply IHc; eauto.
      - destruct (c e); [eapply IHe|eapply IHc]; eauto. }
    assert (Hc: forall d h k e h0 r, KInv h0 k h -> cont (S n) d h k e = Some r -> post_frame h0 r).
    { intros d h k e h0 r K H. rewrite cont_S in H. inversion K; subst.
      - inversion H; subst. apply done_post.
      - eapply IHe; eauto.
      - eapply IHl; eauto. }
    assert (Hl: forall d h it body k e h0 h1 r, KInv h0 k h1 -> Inv h1 it h ->
        loop (S n) d h it body k e = Some r -> post_frame h0 r).
    { intros d h it body k e h0 h1 r K I H. rewrite loop_S in H.
      destruct (inext n d h it) as [[[h' it'] rr]|] eqn:N; [|discriminate].
      destruct (IHn _ _ _ _ _ I N) as [I' S'].
      destruct rr.
      - eapply IHe; [|exact H]. econstructor; eauto.
      - rewrite (S' eq_refl) in H. eapply IHc; eauto.
      - inversion H; subst. rewrite (iclose_restores I'), (unwind_restores K). apply done_post. }
    assert (Hf: forall d h it h0 r, Inv h0 it h -> is_frame it -> d <> 0 ->
        inext (S n) d h it = Some r -> post_frame h0 r).
    { intros d h it h0 r I NL ND H. rewrite inext_S in H. destruct d as [|d']; [congruence|].
      inversion I; subst.
      - contradiction.
      - eapply IHe; [|exact H]. constructor.
      - inversion H; subst. apply done_post.
      - eapply IHc; eauto. }
    repeat split; auto.
    intros d h it h0 r I H. destruct d as [|d'].
    - rewrite inext_S in H. inversion I; subst.
      + destruct (lnext n h l) as [[[h' l'] rr]|] eqn:N; [|discriminate]. inversion H; subst.
        destruct (L_next H0 N) as [A B]. split; [constructor; exact A|exact B].
      + inversion H; subst. split; [constructor|discriminate].
      + inversion H; subst. split; [constructor|auto].
      + inversion H; subst. split; [constructor; auto|discriminate].
    - inversion I; subst.
      + rewrite inext_S in H.
        destruct (lnext n h l) as [[[h' l'] rr]|] eqn:N; [|discriminate]. inversion H; subst.
        destruct (L_next H0 N) as [A B]. split; [constructor; exact A|exact B].
      + apply post_frame_next. exact (Hf (S d') _ _ _ r I Logic.I (Nat.neq_succ_0 d') H).
      + apply post_frame_next. exact (Hf (S d') _ _ _ r I Logic.I (Nat.neq_succ_0 d') H).
      + apply post_frame_next. exact (Hf (S d') _ _ _ r I Logic.I (Nat.neq_succ_0 d') H).
  Qed.

  (* ---------------------------------------------------------------- the theorems *)

  (* one __next__ of any iterator (a query, a call, a builtin, a user predicate, a unification),
     under any fuel and recursion limit for which it returns:
     - it stays consistent with the heap h0 of its creation (so that closing or dropping it, now
       or later, gives back h0 - frame_close_restores);
     - if it is exhausted, the heap is h0 again;
     - if it raised (a `raise` in a user predicate at any step, at any depth; a leaf that raises;
       the recursion limit) and is then dropped, the heap is h0 again. *)
  Theorem frame_next_restores n d h0 it h h' it' r :
    Inv h0 it h -> inext n d h it = Some (h', it', r) ->
    Inv h0 it' h' /\ (r = RStop -> h' = h0) /\ iclose h' it' = h0.
  Proof.
    intros I H. destruct (machine_step n) as [_ [_ [_ [A _]]]].
    destruct (A _ _ _ _ _ I H) as [I' S']. repeat split; auto. apply (iclose_restores I').
  Qed.

  Theorem frame_close_restores h0 it hc : Inv h0 it hc -> iclose hc it = h0.
  Proof. apply iclose_restores. Qed.

  (* the consumer throws an exception into a suspended (or not yet started) generator object:
     every open loop is unwound on the way out, the heap is h0 when the exception comes back *)
  Theorem consumer_throw_restores h0 it hc : Inv h0 it hc -> ithrow lclose hc it = (h0, IDone, RRaise).
  Proof. intros I. unfold ithrow. rewrite (iclose_restores I). reflexivity. Qed.

  (* ANY consumer behaviour: after an arbitrary sequence of next / close / throw operations the
     generator object is still consistent with the heap h0 of its creation, so closing or dropping it
     gives back h0; directly after a close or throw the heap IS h0 *)
  Theorem fdrive_restores n d : forall ops h0 it h hf itf rs,
    Inv h0 it h -> fdrive mkleaf lnext lclose prog gho n d h it ops = Some (hf, itf, rs) ->
    Inv h0 itf hf /\ iclose hf itf = h0 /\
    (match rev ops with (FClose | FThrow) :: _ => hf = h0 | _ => True end).
  Proof.
    induction ops as [|o r IH]; intros h0 it h hf itf rs I H; cbn [fdrive] in H.
    - inversion H; subst. repeat split; auto. apply (iclose_restores I).
    - assert (T: forall x, match rev r with (FClose | FThrow) :: _ => x = h0 | _ => True end ->
                 (r = [] -> match o with FNext => True | _ => x = h0 end) ->
                 match rev (o :: r) with (FClose | FThrow) :: _ => x = h0 | _ => True end).
      { intros x A B. cbn [rev]. destruct (rev r) as [|y ys] eqn:Er.
        - assert (r = []) by (destruct r; auto; cbn in Er; destruct (rev r); discriminate). cbn [app].
          destruct o; auto; apply B; auto.
        - cbn [app]. exact A. }
      destruct o.
      + destruct (inext n d h it) as [[[h' it'] rr]|] eqn:N; [|discriminate].
        destruct (fdrive mkleaf lnext lclose prog gho n d h' it' r) as [[[hf' itf'] rs']|] eqn:D; [|discriminate].
        inversion H; subst. destruct (frame_next_restores _ _ I N) as [I' _].
        destruct (IH _ _ _ _ _ _ I' D) as [A [B C]]. repeat split; auto. apply T; auto.
      + destruct (fdrive mkleaf lnext lclose prog gho n d (iclose h it) IDone r) as [[[hf' itf'] rs']|] eqn:D; [|discriminate].
        inversion H; subst. rewrite (iclose_restores I) in D.
        destruct (IH _ _ _ _ _ _ (Inv_done h0) D) as [A [B C]]. repeat split; auto. apply T; auto.
        intros ->. cbn [fdrive] in D. inversion D; reflexivity.
      + destruct (fdrive mkleaf lnext lclose prog gho n d (iclose h it) IDone r) as [[[hf' itf'] rs']|] eqn:D; [|discriminate].
        inversion H; subst. rewrite (iclose_restores I) in D.
        destruct (IH _ _ _ _ _ _ (Inv_done h0) D) as [A [B C]]. repeat split; auto. apply T; auto.
        intros ->. cbn [fdrive] in D. inversion D; reflexivity.
  Qed.

  (* a frame (not a leaf) that is entered (recursion limit not yet reached) and does not yield
     has ALREADY restored the heap when it returns or when the exception leaves it: every
     enclosing loop was unwound on the way out *)
  Theorem throw_restores n d h0 it h h' it' r :
    Inv h0 it h -> is_frame it -> d <> 0 ->
    inext n d h it = Some (h', it', r) -> r <> RYield -> h' = h0 /\ it' = IDone.
  Proof.
    intros I NL ND H NY. destruct (machine_step n) as [_ [_ [_ [_ A]]]].
    destruct (A _ _ _ _ _ I NL ND H) as [_ [_ B]]. auto.
  Qed.

  Theorem yield_extends h0 it hc : Inv h0 it hc -> exists nw, hc = nw ++ h0.
  Proof. apply (proj1 ext_both). Qed.

  (* a consumer that takes up to k answers and then stops in any way *)
  Theorem frame_restores n d : forall k h0 it h hf itf ys r,
    Inv h0 it h -> nexts n d k h it = Some (hf, itf, ys, r) ->
    Inv h0 itf hf
    /\ iclose hf itf = h0                                   (* close(), del, consumer raises and drops *)
    /\ (r = RStop -> hf = h0)                               (* run to exhaustion *)
    /\ Forall (fun y => exists nw, y = nw ++ h0) ys          (* at every answer: h0 untouched underneath *)
    /\ length ys <= k.
  Proof.
    induction k as [|k IH]; intros h0 it h hf itf ys r I H; cbn [GenMachine.nexts] in H.
    - inversion H; subst. repeat split; auto. + apply (iclose_restores I). + discriminate.
    - destruct (inext n d h it) as [[[h' it'] rr]|] eqn:N; [|discriminate].
      destruct (frame_next_restores _ _ I N) as [I' [S' C']].
      destruct rr.
      + destruct (nexts n d k h' it') as [[[[hf' itf'] ys'] r']|] eqn:D; [|discriminate].
        inversion H; subst. destruct (IH _ _ _ _ _ _ _ I' D) as [A [B [C [F Ln]]]].
        repeat split; auto.
        * constructor; auto. eapply yield_extends; eauto.
        * simpl. lia.
      + inversion H; subst. repeat split; auto; simpl; lia.
      + inversion H; subst. repeat split; auto; try discriminate; simpl; lia.
  Qed.

  Lemma nexts_frame n d : d <> 0 -> forall k h0 it h hf itf ys r,
    Inv h0 it h -> is_frame it -> nexts n d k h it = Some (hf, itf, ys, r) -> r <> RYield ->
    hf = h0 /\ itf = IDone.
  Proof.
    intros ND. induction k as [|k IH]; intros h0 it h hf itf ys r I F H NY; cbn [GenMachine.nexts] in H.
    - inversion H; subst. congruence.
    - destruct (inext n d h it) as [[[h' it'] rr]|] eqn:N; [|discriminate].
      destruct (machine_step n) as [_ [_ [_ [_ A]]]].
      destruct (A _ _ _ _ _ I F ND N) as [I' [F' B]].
      destruct rr.
      + destruct (nexts n d k h' it') as [[[[hf' itf'] ys'] r']|] eqn:D; [|discriminate].
        inversion H; subst. eapply IH; eauto.
      + inversion H; subst. apply B. discriminate.
      + inversion H; subst. apply B. discriminate.
  Qed.

  (* a query = a fresh generator object of a call, started under h: however it ends - exhausted,
     raised (anywhere below it), or abandoned after k answers and closed/dropped - the heap is h *)
  Corollary query_restores n d k h c e hf itf ys r :
    nexts n d k h (IFresh c e) = Some (hf, itf, ys, r) ->
    iclose hf itf = h /\ (r <> RYield -> hf = h)
    /\ Forall (fun y => exists nw, y = nw ++ h) ys.
  Proof.
    intros H. destruct (frame_restores _ _ _ (Inv_fresh h c e) H) as [I' [C [S' [F _]]]].
    repeat split; auto. intros NY. destruct d as [|d'].
    - (* recursion limit reached before the frame is entered: nothing happened *)
      destruct k as [|k]; cbn [GenMachine.nexts] in H; [inversion H; congruence|].
      destruct n as [|n']; [discriminate|]. rewrite inext_S in H. inversion H; reflexivity.
    - eapply nexts_frame; [apply Nat.neq_succ_0|apply Inv_fresh|exact Logic.I|exact H|exact NY].
  Qed.

  (* re-running the same query on the heap it left gives the same answers again
     (the machine is a function of heap and generator object, and the heap is restored) *)
  Corollary rerun_same n d k h c e hf itf ys r :
    r <> RYield ->
    nexts n d k h (IFresh c e) = Some (hf, itf, ys, r) ->
    nexts n d k hf (IFresh c e) = Some (hf, itf, ys, r).
  Proof.
    intros NY H. destruct (query_restores _ _ _ _ _ _ H) as [_ [A _]].
    pose proof (A NY) as Eh. subst hf. exact H.
  Qed.
End Restore.

(* ------------------------------------------------------------------ *)
(* The unification generators of UnifyGen.v satisfy the contract. *)
Definition ulnext (n:nat) (h:heap) (g:gen) : option (heap * gen * res) :=
  match next n h g with
  | None => None
  | Some (h', g', y) => Some (h', g', if y then RYield else RStop)
  end.
Definition ulclose (h:heap) (g:gen) : heap := fst (close h g).
Definition umkleaf (x:term * term) (h:heap) : gen := mk_unify h (fst x) (snd x).

Lemma U_new x h : inv h (umkleaf x h) h.
Proof. left. split; [apply mk_unify_fresh|reflexivity]. Qed.

Lemma U_next n h0 l hc h' l' r : inv h0 l hc -> ulnext n hc l = Some (h', l', r) ->
  inv h0 l' h' /\ (r = RStop -> h' = h0).
Proof.
  unfold ulnext. intros J H. destruct (next n hc l) as [[[h1 g1] y]|] eqn:N; [|discriminate].
  inversion H; subst. destruct J as [[F Eh]|Ho].
  - subst hc. pose proof (@next_fresh n h0 l _ F N) as [Ho Hn]. split; [right; exact Ho|].
    destruct y; [discriminate|]. intros _. apply Hn. reflexivity.
  - destruct (@held_over_next n _ _ _ _ _ _ Ho N) as [Y [Eh Ho']]. subst. split; [right; exact Ho'|auto].
Qed.

Lemma U_close h0 l hc : inv h0 l hc -> ulclose hc l = h0.
Proof. intros J. apply (close_state J). Qed.

Lemma U_ext h0 l hc : inv h0 l hc -> exists nw, hc = nw ++ h0.
Proof.
  intros [[F Eh]|[Q [nw [Eh _]]]]; [exists []; subst; reflexivity|exists nw; exact Eh].
Qed.

(* The machine whose leaves are unification generators: every query of every program, under
   every heap, fuel, recursion limit and abandonment point k. *)
Section UnifyMachine.
  Variable E P : Type.
  Variable prog : P -> code (term * term) E P * E.
  Variable gho : E -> nat.
  Notation unexts := (nexts umkleaf ulnext ulclose prog gho).
  Notation uinext := (inext umkleaf ulnext ulclose prog gho).
  Notation uiclose := (iclose (L:=gen) (X:=term*term) (E:=E) (P:=P) ulclose).

  Theorem query_restores_unify n d k h c e hf itf ys r :
    unexts n d k h (IFresh c e) = Some (hf, itf, ys, r) ->
    uiclose hf itf = h /\ (r <> RYield -> hf = h)
    /\ Forall (fun y => exists nw, y = nw ++ h) ys.
  Proof. apply (@query_restores gen _ E P umkleaf ulnext ulclose prog gho inv U_new U_next U_close U_ext). Qed.

  Theorem rerun_same_unify n d k h c e hf itf ys r :
    r <> RYield ->
    unexts n d k h (IFresh c e) = Some (hf, itf, ys, r) ->
    unexts n d k hf (IFresh c e) = Some (hf, itf, ys, r).
  Proof. apply (@rerun_same gen _ E P umkleaf ulnext ulclose prog gho inv U_new U_next U_close U_ext). Qed.
End UnifyMachine.

Section UnifyMachine2.
  Variable E P : Type.
  Variable prog : P -> code (term * term) E P * E.
  Variable gho : E -> nat.
  Notation uinext := (inext umkleaf ulnext ulclose prog gho).
  Notation uiclose := (iclose (L:=gen) (X:=term*term) (E:=E) (P:=P) ulclose).
  Notation UInv := (@Inv gen (term*term) E P inv).

  Theorem frame_next_restores_unify n d h0 it h h' it' r :
    UInv h0 it h -> uinext n d h it = Some (h', it', r) ->
    UInv h0 it' h' /\ (r = RStop -> h' = h0) /\ uiclose h' it' = h0.
  Proof. apply (@frame_next_restores gen _ E P umkleaf ulnext ulclose prog gho inv U_new U_next U_close). Qed.

  Theorem throw_restores_unify n d h0 it h h' it' r :
    UInv h0 it h -> is_frame it -> d <> 0 ->
    uinext n d h it = Some (h', it', r) -> r <> RYield -> h' = h0 /\ it' = IDone.
  Proof. apply (@throw_restores gen _ E P umkleaf ulnext ulclose prog gho inv U_new U_next U_close). Qed.
End UnifyMachine2.
