(* Executable entry point for the C15 correspondence check, mode 'prog' (harness/props/c15_prog.py): the answers
   (deep dereference of every query variable at every answer, in order) of queries against a program given as
   source TEXT, computed by the machine of compiled programs (Sem/Machine.v, the function that
   Sem/ProgramCorrect.v proves equal to the clause semantics).  Same shape as Sem/RunSem.v run_both_src, without
   the second (auxiliary SLD) evaluation. *)
From Coq Require Import String.
From Coq Require Import List Arith Bool ZArith NArith.
Import ListNotations.
From YP Require Import Base.Str Term.Term Term.Show Lang.Ast Lang.Front Sem.RunSem.
Local Open Scope string_scope.
Local Open Scope list_scope.

Definition run_ir_src (depth : nat) (src : str) (qs : list (str * list term * nat)) (limit : nat) : obs :=
  match front src with
  | Some p => OL (map (fun q => let '(name, args, nq) := q in run_ir depth p name args nq limit) qs)
  | None => otag "front-rejects" []
  end.
