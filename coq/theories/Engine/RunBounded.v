(* Executable entry point of the evaluate_bounded model for the correspondence check of C17.

   The query is an SLD query (Engine/BoundedQuery.v) over a clause list; the depth the interpreter's
   limit corresponds to is not modelled, so the machine is evaluated at a conservative lower bound
   dlo and at an upper bound dhi of that depth: by prefix-monotonicity the implementation's result
   must lie between the two. *)
From Coq Require Import String.
From Coq Require Import List ZArith NArith Arith Bool.
Import ListNotations.
Local Open Scope string_scope.
From YP Require Import Base.Str Term.Term Unify.Unify Engine.Bounded Engine.BoundedQuery.

(* fingerprint of an answer (mirrored by harness/props/c17.py: fp); variables are not distinguished *)
Definition fpM : N := 2305843009213693951%N.
Definition hstr (s : str) : N := fold_left (fun acc c => ((acc * 131 + c + 1) mod fpM)%N) s 7%N.
Fixpoint fp (t : term) : N :=
  match t with
  | TAtom a => ((hstr a * 31 + 1) mod fpM)%N
  | TInt z => ((Z.abs_N z * 62 + (if (z <? 0)%Z then 33 else 2)) mod fpM)%N
  | TStr s => ((hstr s * 31 + 3) mod fpM)%N
  | TVar _ => 5%N
  | TFun f args =>
      (fix go (l : list term) (acc : N) : N :=
         match l with [] => acc | a :: r => go r ((acc * 1000003 + fp a) mod fpM)%N end)
        args ((hstr f * 31 + 4) mod fpM)%N
  end.

Definition exc_obs (e : exc) : obs :=
  match e with
  | ERuntime => otag "RuntimeError" []
  | EStop => otag "StopIteration" []
  | EOther n => otag "Other" [onat n]
  end.

Definition fin_obs (f : fin) : obs := match f with Norm => otag "norm" [] | Err => otag "err" [] end.

Definition oN (n : N) : obs := OZ (Z.of_N n).

Definition outcome_obs (x : outcome N * istate) : obs :=
  OL [ match fst x with
       | Return r => otag "return" [OL (map oN r)]
       | Propagate e => otag "raise" [exc_obs e]
       end;
       onat (rl (snd x));
       obool (match gs (snd x) with Done => true | Susp _ => false end) ].

(* projection function of a case: raises e at answer k0 (if given); at answer kn (if given) it runs a
   nested evaluate_bounded over a finite query with answers `facts`, limit limit2, depth d2 and an
   inner projection that raises e2 at k2 (if given), and returns 1000 + the length of its result;
   otherwise it returns the fingerprint of the answer *)
Definition raise_spec := option (nat * exc).
Definition nest_spec := option (nat * list term * nat * nat * raise_spec).

Definition simple_proj (kr : raise_spec) : nat -> term -> nat -> pout N * nat :=
  fun k a r =>
    match kr with
    | Some (k0, e) => if Nat.eqb k k0 then (PRaise e, r) else (PVal (fp a), r)
    | None => (PVal (fp a), r)
    end.

Definition facts_ans (facts : list term) : nat -> res term :=
  fun n => match n with O => ([], Err) | S _ => (facts, Norm) end.

Definition case_proj (cur : nat) (kr : raise_spec) (nest : nest_spec) : nat -> term -> nat -> pout N * nat :=
  fun k a r =>
    match (match kr with Some (k0, e) => if Nat.eqb k k0 then Some e else None | None => None end) with
    | Some e => (PRaise e, r)
    | None =>
        match nest with
        | Some (kn, facts, limit2, d2, kr2) =>
            if Nat.eqb k kn then
              match evaluate_bounded (facts_ans facts) (fun _ => ERuntime) (simple_proj kr2) (fun _ _ => d2) (cur + 2) true
                                     {| rl := r; gs := Susp 0 |} limit2 with
              | (Return x, st') => (PVal (1000 + N.of_nat (length x))%N, rl st')
              | (Propagate e, st') => (PRaise e, rl st')
              end
            else (PVal (fp a), r)
        | None => (PVal (fp a), r)
        end
    end.

Definition run_bounded (P : list clause) (q : term) (fu : nat) (cur limit rl0 dlo dhi : nat)
    (kr : raise_spec) (nest : nest_spec) (cap : nat) : obs :=
  let thi := sld_ans P fu q dhi in
  let tlo := sld_ans P fu q dlo in
  let ans := fun n => if Nat.eqb n dhi then thi else if Nat.eqb n dlo then tlo else sld_ans P fu q n in
  let m := fun d => evaluate_bounded ans (fun _ => ERuntime) (case_proj cur kr nest) (fun _ _ => d) cur true
                                     {| rl := rl0; gs := Susp 0 |} limit in
  OL [ OL (map (fun t => oN (fp t)) (firstn cap (fst thi))); onat (length (fst thi)); fin_obs (snd thi);
       onat (length (fst tlo)); fin_obs (snd tlo);
       outcome_obs (m dlo); outcome_obs (m dhi) ].
