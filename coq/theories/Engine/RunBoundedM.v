(* Executable entry point of the C17 correspondence check: YP.evaluate_bounded (Engine/Bounded.v) applied to
   a query of the engine model for compiled programs (Sem/Machine.v: `query n ir name args st`, n = nesting
   depth of YP.query calls that fits under the recursion limit).

   How many Python frames one unit of depth costs is not modelled, so every case is evaluated at a
   conservative lower bound dlo and at an upper bound dhi of the depth that the interpreter's limit
   corresponds to: by prefix-monotonicity (Engine/BoundedMachine.v: query_mono) the implementation's result
   must lie between the two. *)
From Coq Require Import String.
From Coq Require Import List ZArith NArith Arith Bool.
Import ListNotations.
Local Open Scope string_scope.
From YP Require Import Base.Str Term.Term Term.Show Term.Fast Unify.Unify Lang.Ast Comp.IR Comp.CompileClause
  Sem.Machine Sem.RunSem Engine.Bounded.

Definition fin_of_bool (e : bool) : fin := if e then Err else Norm.

(* an answer as the caller sees it: the query variables (cells 0..nq-1) resolved in the answer's store *)
Definition answer_of (nq : nat) (x : st) : list term :=
  map (fun v => den_fast (sto x) (TVar v)) (seq 0 nq).

(* the query as a depth-indexed answer sequence *)
Definition machine_ans (ir : ir_program) (name : str) (args : list term) (nq : nat) (n : nat) : res (list term) :=
  let r := query n ir name args (st0 nq) in (map (answer_of nq) (fst r), fin_of_bool (snd r)).

Definition exc_obs (e : exc) : obs :=
  match e with
  | ERuntime => otag "RuntimeError" []
  | EStop => otag "StopIteration" []
  | EOther n => otag "Other" [onat n]
  end.

Definition fin_obs (f : fin) : obs := match f with Norm => otag "norm" [] | Err => otag "err" [] end.

Definition tuple_obs (a : list term) : obs := OL (map term_obs a).

Definition outcome_obs (x : outcome nat * istate) : obs :=
  OL [ match fst x with
       | Return r => otag "return" [OL (map onat r)]
       | Propagate e => otag "raise" [exc_obs e]
       end;
       onat (rl (snd x));
       obool (match gs (snd x) with Done => true | Susp _ => false end) ].

(* the projection function of a case: raises e at answer k0 (if given); at answer kn (if given) it runs a
   nested evaluate_bounded (interpreter depth cur + 1) over a finite query with `nfacts` answers, limit limit2,
   available depth d2 and an inner projection that raises e2 at k2 (if given), and returns
   5000 + length of the inner result; otherwise it returns the index k of the answer (the harness
   looks the answer up in the printed answer sequence: printing every result list in full is too slow) *)
Definition raise_spec := option (nat * exc).
Definition nest_spec := option (nat * nat * nat * nat * raise_spec).

Definition simple_proj (kr : raise_spec) : nat -> nat -> nat -> pout nat * nat :=
  fun k a r =>
    match kr with
    | Some (k0, e) => if Nat.eqb k k0 then (PRaise e, r) else (PVal a, r)
    | None => (PVal a, r)
    end.

Definition facts_ans (nfacts : nat) : nat -> res nat :=
  fun n => match n with O => ([], Err) | S _ => (seq 0 nfacts, Norm) end.

Definition case_proj (cur : nat) (kr : raise_spec) (nest : nest_spec) : nat -> list term -> nat -> pout nat * nat :=
  fun k a r =>
    match (match kr with Some (k0, e) => if Nat.eqb k k0 then Some e else None | None => None end) with
    | Some e => (PRaise e, r)
    | None =>
        match nest with
        | Some (kn, nfacts, limit2, d2, kr2) =>
            if Nat.eqb k kn then
              match evaluate_bounded (facts_ans nfacts) (fun _ => ERuntime) (simple_proj kr2) (fun _ _ => d2) (cur + 1) true
                                     {| rl := r; gs := Susp 0 |} limit2 with
              | (Return x, st') => (PVal (5000 + length x), rl st')
              | (Propagate e, st') => (PRaise e, rl st')
              end
            else (PVal k, r)
        | None => (PVal k, r)
        end
    end.

Definition run_bounded_m (p : program) (name : str) (args : list term) (nq : nat)
    (cur limit rl0 dlo dhi dchk : nat) (kr : raise_spec) (nest : nest_spec) (cap : nat) : obs :=
  match compile_program p with
  | None => otag "stuck" []
  | Some ir =>
      let thi := machine_ans ir name args nq dhi in
      let tlo := machine_ans ir name args nq dlo in
      let ans := fun n => if Nat.eqb n dhi then thi else if Nat.eqb n dlo then tlo else machine_ans ir name args nq n in
      let m := fun d => evaluate_bounded ans (fun _ => ERuntime) (case_proj cur kr nest) (fun _ _ => d) cur true
                                         {| rl := rl0; gs := Susp 0 |} limit in
      OL [ OL (map tuple_obs (firstn cap (fst thi))); onat (length (fst thi)); fin_obs (snd thi);
           onat (length (fst tlo)); fin_obs (snd tlo);
           outcome_obs (m dlo); outcome_obs (m dhi);
           (* out-of-domain detector: an error that is still there at a depth known to suffice is not a depth error
              (cyclic unification, goal that is not callable) *)
           fin_obs (match dchk with O => Norm | _ => snd (machine_ans ir name args nq dchk) end) ]
  end.
