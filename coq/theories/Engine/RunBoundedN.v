(* Entry point of the C17 check for engines with registered Python predicates and dynamic facts: as RunBoundedM.v, over
   Sem/NativeExc.nqueryE (worlds built as in Sem/RunNative.v). *)
From Coq Require Import String.
From Coq Require Import List ZArith NArith Arith Bool.
Import ListNotations.
Local Open Scope string_scope.
From YP Require Import Base.Str Term.Term Term.Show Term.Fast Unify.Unify Lang.Ast Comp.IR Comp.CompileClause
  Sem.Machine Sem.RunSem Sem.Native Sem.NativeExc Sem.RunNative Engine.Bounded Engine.RunBoundedM Engine.BoundedNative.

Definition run_bounded_n (p : program) (nats : list nspec) (dyn : list (str * nat * list frow))
    (name : str) (args : list term) (nq : nat)
    (cur limit rl0 dlo dhi dchk : nat) (kr : raise_spec) (nest : nest_spec) (cap : nat) : obs :=
  match compile_program p with
  | None => otag "stuck" []
  | Some ir =>
      let w := mk_worldE ir (fix_table 0 nats) (var_table 0 nats) dyn in
      let thi := world_ans w name args nq dhi in
      let tlo := world_ans w name args nq dlo in
      let ghi := world_gexc w name args nq dhi in
      let glo := world_gexc w name args nq dlo in
      let ans := fun n => if Nat.eqb n dhi then thi else if Nat.eqb n dlo then tlo else world_ans w name args nq n in
      let gexc := fun n => if Nat.eqb n dhi then ghi else if Nat.eqb n dlo then glo else world_gexc w name args nq n in
      let m := fun d => evaluate_bounded ans gexc (case_proj cur kr nest) (fun _ _ => d) cur true
                                         {| rl := rl0; gs := Susp 0 |} limit in
      OL [ OL (map tuple_obs (firstn cap (fst thi))); onat (length (fst thi)); fin_obs (snd thi);
           onat (length (fst tlo)); fin_obs (snd tlo);
           outcome_obs (m dlo); outcome_obs (m dhi);
           fin_obs (match dchk with O => Norm | _ => snd (world_ans w name args nq dchk) end);
           exn_obs (snd (nqueryE dhi w name args (st0 nq))); exn_obs (snd (nqueryE dlo w name args (st0 nq))) ]
  end.
