(* Executable entry points of the database models for the correspondence checks of C07, C14 (cursor
   machine, DbCursor.v) and C13 (heap machine, DbHeap.v). *)
From Coq Require Import String.
From Coq Require Import List ZArith Arith.
Import ListNotations.
Local Open Scope string_scope.
From YP Require Import Base.Str Term.Term Term.Show Unify.Unify Engine.Db Engine.DbCursor Engine.DbFacts Engine.DbHeap Engine.DbOpen.

Definition args_obs (a : list term) : obs := OL (map term_obs a).

Definition out_obs (o : out) : obs :=
  match o with
  | OIns _ _ _ => otag "ok" []
  | ONop => otag "ok" []
  | ORAll _ _ => otag "ok" []
  | OFailed => otag "fail" []
  | OClr => otag "ok" []
  | OStart => otag "ok" []
  | OClosed => otag "ok" []
  | OEnd => otag "end" []
  | OBad => otag "bad" []
  | OAns _ a => otag "ans" [args_obs a]
  | ORet _ _ a => otag "ans" [args_obs a]
  | OAll l => otag "all" [OL (map args_obs l)]
  end.

(* the observations of a history, event by event; a stuck step (a match outside the specified
   domain) ends the list with the marker "stuck" *)
Fixpoint run_obs (mt : list term -> list term -> mres) (s : st) (evs : list ev) : list obs :=
  match evs with
  | [] => []
  | e :: r =>
      match step mt s e with
      | None => [otag "stuck" []]
      | Some (s1, o) => out_obs o :: run_obs mt s1 r
      end
  end.

Definition run_events (fuel : nat) (evs : list ev) : obs := OL (run_obs (match_fact fuel) init evs).

Lemma run_obs_run mt s evs s' outs : run mt s evs = Some (s', outs) -> run_obs mt s evs = map out_obs outs.
Proof.
  revert s s' outs. induction evs as [|e r IH]; intros s s' outs H; simpl in *.
  - inversion H; reflexivity.
  - destruct (step mt s e) as [[s1 o]|]; [|discriminate].
    destruct (run mt s1 r) as [[s2 os]|] eqn:E; [|discriminate]. inversion H; subst. simpl. f_equal. eauto.
Qed.

(* histories with operations over the variables of open cursors (DbOpen.v) *)
Fixpoint xrun_obs (fuel : nat) (x : xst) (xs : list xev) : list obs :=
  match xs with
  | [] => []
  | xe :: r =>
      match xstep fuel x xe with
      | None => [otag "stuck" []]
      | Some (x1, _, o) => out_obs o :: xrun_obs fuel x1 r
      end
  end.

Definition run_xevents (fuel : nat) (xs : list xev) : obs := OL (xrun_obs fuel xinit xs).

Lemma xrun_obs_xrun fuel x xs x' es outs : xrun fuel x xs = Some (x', es, outs) -> xrun_obs fuel x xs = map out_obs outs.
Proof.
  revert x x' es outs. induction xs as [|xe r IH]; intros x x' es outs H; simpl in *.
  - inversion H; reflexivity.
  - destruct (xstep fuel x xe) as [[[x1 e] o]|]; [|discriminate].
    destruct (xrun fuel x1 r) as [[[x2 es2] os]|] eqn:E; [|discriminate]. inversion H; subst. simpl. f_equal. eauto.
Qed.

(* ------------------------------------------------------------------ heap machine (C13) *)
Definition hout_obs (o : hout) : obs :=
  match o with
  | HOk => otag "ok" []
  | HFail => otag "fail" []
  | HEnd => otag "end" []
  | HBad => otag "bad" []
  | HAns a => otag "ans" [args_obs a]
  | HSeen a => otag "seen" [args_obs a]
  | HAll l => otag "all" [OL (map args_obs l)]
  end.

Fixpoint hrun_obs (fuel : nat) (h : hst) (ops : list hop) : list obs :=
  match ops with
  | [] => []
  | o :: r =>
      match hstep fuel h o with
      | None => [otag "stuck" []]
      | Some (h1, x) => hout_obs x :: hrun_obs fuel h1 r
      end
  end.

(* p = number of program variables (cells 0..p-1) *)
Definition run_heap (fuel : nat) (p : nat) (ops : list hop) : obs := OL (hrun_obs fuel (hinit p) ops).
