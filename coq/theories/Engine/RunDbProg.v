(* Executable entry point of DbProg.v for the correspondence checks (C07, C14): a program, a list of
   queries run one after the other to exhaustion on the same engine, and the predicates whose stored
   facts are printed at the end. *)
From Coq Require Import String.
From Coq Require Import List ZArith Arith.
Import ListNotations.
Local Open Scope string_scope.
From YP Require Import Base.Str Term.Term Term.Fast Term.Show Unify.Unify Engine.Db Engine.DbCursor Engine.DbFacts Engine.RunDb Engine.DbProg.

(* a query: name, arguments over its own variables 0 .. nq-1, nq *)
Definition qspec := (str * list term * nat)%type.

Fixpoint run_queries (uf fuel : nat) (prog : program) (qs : list qspec) (g : glob) : list obs * option glob :=
  match qs with
  | [] => ([], Some g)
  | (name, args, nq) :: r =>
      let k := gn g in
      let args' := map (shift k) args in
      match solve uf prog fuel [GCall name args'] [] (set_n g (k + nq)) with
      | None => ([otag "stuck" []], None)
      | Some (g1, answers, _, _) =>
          let (os, gf) := run_queries uf fuel prog r g1 in
          (otag "answers" [OL (map (fun s => args_obs (map (den_fast s) args')) answers)] :: os, gf)
      end
  end.

(* work: budget of search activations for the whole run; the last component is the number of Answer
   objects created (asserts performed) *)
Definition run_prog (uf fuel work : nat) (prog : program) (qs : list qspec) (reads : list key) : obs :=
  let (os, gf) := run_queries uf fuel prog qs (ginit 0 work) in
  OL [OL os;
      match gf with
      | None => otag "stuck" []
      | Some g => OL (map (fun k => OL (map (fun f => args_obs (fargs f)) (gdb g k))) reads)
      end;
      match gf with None => otag "stuck" [] | Some g => onat (gid g) end].
