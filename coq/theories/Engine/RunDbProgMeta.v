(* Executable entry point of DbProgMeta.v for the correspondence checks (C07, C14): as RunDbProg.run_prog, the search
   being DbProgMeta.msolve (call/N, once/1, findall/3, =, \= dispatched by name as YP.query does). *)
From Coq Require Import String.
From Coq Require Import List ZArith Arith.
Import ListNotations.
Local Open Scope string_scope.
From YP Require Import Base.Str Term.Term Term.Fast Term.Show Unify.Unify Engine.Db Engine.DbCursor Engine.DbFacts Engine.RunDb Engine.DbProg
  Engine.RunDbProg Engine.DbProgMeta.

Fixpoint run_queries_meta (uf fuel : nat) (prog : program) (qs : list qspec) (g : glob) : list obs * option glob :=
  match qs with
  | [] => ([], Some g)
  | (name, args, nq) :: r =>
      let k := gn g in
      let args' := map (shift k) args in
      match msolve uf prog fuel [GCall name args'] [] (set_n g (k + nq)) with
      | None => ([otag "stuck" []], None)
      | Some (g1, answers, _, _) =>
          let (os, gf) := run_queries_meta uf fuel prog r g1 in
          (otag "answers" [OL (map (fun s => args_obs (map (den_fast s) args')) answers)] :: os, gf)
      end
  end.

Definition run_prog_meta (uf fuel work : nat) (prog : program) (qs : list qspec) (reads : list key) : obs :=
  let (os, gf) := run_queries_meta uf fuel prog qs (ginit 0 work) in
  OL [OL os;
      match gf with
      | None => otag "stuck" []
      | Some g => OL (map (fun k => OL (map (fun f => args_obs (fargs f)) (gdb g k))) reads)
      end;
      match gf with None => otag "stuck" [] | Some g => onat (gid g) end].
