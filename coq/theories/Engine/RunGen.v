(* Executable entry points for the correspondence check of C03 and the non-vacuity examples.
   (1) run_gen: a bare engine.unify / unify_arrays / Variable.unify generator object driven by a
       sequence of next/close operations under a stack of earlier, still suspended unifications;
       observation after every operation: did it yield, and for every cell whether it is bound
       and what it dereferences to.
   (2) a small concrete program for the frame machine. *)
From Coq Require Import String.
From Coq Require Import List ZArith Arith Bool.
Import ListNotations.
Local Open Scope string_scope.
From YP Require Import Base.Str Term.Term Term.Show Unify.Unify Unify.RunUnify Unify.UnifyGen Engine.GenMachine Engine.Restore.

Inductive target :=
| TgUnify (a b:term)                 (* engine.unify(a, b) *)
| TgArrays (xs ys:list term)         (* engine.unify_arrays(xs, ys) *)
| TgVar (v:nat) (t:term).            (* Variable.unify(v, t) called directly, v possibly bound *)

Definition mk_target (h:heap) (t:target) : gen :=
  match t with
  | TgUnify a b => mk_unify h a b
  | TgArrays xs ys => GArrFresh xs ys
  | TgVar v t => GVarFresh v t
  end.

(* would Unify.unify need a cyclic term here?  (unspecified by the properties; the engine's
   get_value does not terminate on such heaps) *)
Definition target_res (fuel:nat) (h:heap) (t:target) : ures :=
  match t with
  | TgUnify a b => unify fuel h a b
  | TgArrays xs ys => unify_arrays fuel h xs ys
  | TgVar v t => unify fuel h (TVar v) t
  end.

Definition snapshot (h:heap) (nvars:nat) : obs :=
  OL (map (fun v => OL [obool (match lookup v h with Some _ => true | None => false end);
                        term_obs (den h (TVar v))]) (seq 0 nvars)).

Fixpoint run_ops (fuel:nat) (h:heap) (g:gen) (ops:list op) (nvars:nat) : option (list obs) :=
  match ops with
  | [] => Some []
  | ONext :: r =>
      match next fuel h g with
      | None => None
      | Some (h1, g1, y) =>
          match run_ops fuel h1 g1 r nvars with
          | None => None
          | Some l => Some (OL [obool y; snapshot h1 nvars] :: l)
          end
      end
  | OClose :: r =>
      let h1 := fst (close h g) in
      match run_ops fuel h1 (snd (close h g)) r nvars with
      | None => None
      | Some l => Some (OL [obool false; snapshot h1 nvars] :: l)
      end
  end.

Fixpoint gen_stack (fuel:nat) (h:heap) (stk:list (term * term)) : option (option heap) :=
  match stk with
  | [] => Some (Some h)
  | (a, b) :: r =>
      match next fuel h (mk_unify h a b) with
      | None => None
      | Some (h1, _, true) => gen_stack fuel h1 r
      | Some (_, _, false) => Some None
      end
  end.

Definition run_gen (fuel:nat) (stk:list (term * term)) (t:target) (ops:list op) (nvars:nat) : obs :=
  match run_stack fuel [] stk with
  | UFail => otag "stack" []
  | UOof => otag "oof" []
  | UCyc => otag "cyc" []
  | UOk s =>
      match gen_stack fuel [] stk with
      | None => otag "oof" []
      | Some None => otag "stackmismatch" []
      | Some (Some h) =>
          match target_res fuel h t with
          | UCyc => otag "cyc" []
          | UOof => otag "oof" []
          | _ =>
              match run_ops fuel h (mk_target h t) ops nvars with
              | None => otag "oof" []
              | Some l => otag "ok" [snapshot h nvars; OL l]
              end
          end
      end
  end.

(* ------------------------------------------------------------------ *)
(* A concrete program for the machine with unification leaves.
     q(a). q(b).                       P = 0   (cell 0 is its argument)
     r(Y) :- q(X), boom(X), Y = f(X).  P = 1   (cells: X = 1, Y = 2); the query variable is 0
   boom/1 is a user predicate written in Python that raises when X is bound to b and otherwise
   yields once.  E = unit. *)
Definition A (s:string) := TAtom (d s).
Definition ex_prog (p:nat) : code (term * term) unit nat * unit :=
  match p with
  | 0 => (CSeq (CFor (fun _ _ _ => ELeaf (TVar 1, A "a")) CYield)
               (CFor (fun _ _ _ => ELeaf (TVar 1, A "b")) CYield), tt)
  | 1 => (CFor (fun _ _ _ => ECall 0)
            (CFor (fun _ _ _ => ECall 2)
               (CFor (fun _ _ _ => ELeaf (TVar 2, TFun (d "f") [TVar 1])) CYield)), tt)
  | _ => (* boom *)
         (CFor (fun _ _ _ => ELeaf (TVar 1, A "b")) (CSeq CRaise CYield), tt)
  end.
(* boom as written above: `for l in unify(X, b): raise` then (X is not b) falls through without
   yielding; to let the first answer through we use: if X unifies with a: yield *)
Definition ex_prog2 (p:nat) : code (term * term) unit nat * unit :=
  match p with
  | 2 => (CSeq (CFor (fun _ _ _ => ELeaf (TVar 1, A "b")) CRaise)
               (CFor (fun _ _ _ => ELeaf (TVar 1, A "a")) CYield), tt)
  | _ => ex_prog p
  end.

Definition ex_run (k:nat) :=
  nexts umkleaf ulnext ulclose ex_prog2 (fun _ => 0) 100 10 k [(7, A "keep")] (IFresh (fst (ex_prog2 1)) tt).

(* first answer: X = a, Y = f(a) on top of the initial heap; closing there restores it *)
Example ex_first :
  exists it, ex_run 1 = Some ([(2, TFun (d "f") [A "a"]); (1, A "a"); (7, A "keep")], it,
                              [[(2, TFun (d "f") [A "a"]); (1, A "a"); (7, A "keep")]], RYield)
  /\ iclose ulclose [(2, TFun (d "f") [A "a"]); (1, A "a"); (7, A "keep")] it = [(7, A "keep")].
Proof. eexists. split; vm_compute; reflexivity. Qed.

(* asking for a second answer makes boom raise three frames down: the exception leaves the
   query with the initial heap *)
Example ex_raise :
  ex_run 2 = Some ([(7, A "keep")], IDone, [[(2, TFun (d "f") [A "a"]); (1, A "a"); (7, A "keep")]], RRaise).
Proof. vm_compute. reflexivity. Qed.

(* recursion limit 1: the call of q cannot be entered; RecursionError unwinds everything *)
Example ex_reclimit :
  nexts umkleaf ulnext ulclose ex_prog2 (fun _ => 0) 100 1 1 [(7, A "keep")] (IFresh (fst (ex_prog2 1)) tt)
  = Some ([(7, A "keep")], IDone, [], RRaise).
Proof. vm_compute. reflexivity. Qed.

(* ------------------------------------------------------------------ *)
(* (3) SCHEDULES over several generator objects: creation (unify(..) / unify_arrays(..) / v.unify(..)
   is CALLED), first and later __next__, close()/drop are separate events, in any interleaving -
   in particular "created early, started late": what a generator object does is decided partly when
   it is created (both sides are dereferenced, the dispatch on their types) and partly when it is
   started (is the variable still unbound? its value is dereferenced again).  Observation after
   every event: did it yield, and the whole heap. *)
Inductive ev := EvCreate (i : nat) (t : target) | EvNext (i : nat) | EvClose (i : nat).

Fixpoint slot_get (i : nat) (sl : list (nat * gen)) : option gen :=
  match sl with [] => None | (j, g) :: r => if Nat.eqb i j then Some g else slot_get i r end.
Definition slot_set (i : nat) (g : gen) (sl : list (nat * gen)) : list (nat * gen) :=
  (i, g) :: filter (fun p => negb (Nat.eqb i (fst p))) sl.

(* is the heap still a triangular, acyclic store with one binding per cell?  (otherwise the case
   needs a cyclic term or is outside the engine's discipline: reported as such and not compared) *)
Fixpoint heap_ok (h : heap) : bool :=
  match h with
  | [] => true
  | (v, t) :: r => negb (occurs v (den r t)) && (match lookup v r with None => true | Some _ => false end) && heap_ok r
  end.

(* would starting this generator object bind a cell to a term that contains it? *)
Definition gen_cyc (fuel : nat) (h : heap) (g : gen) : bool :=
  match g with
  | GVarFresh v t => match unify fuel h (TVar v) t with UCyc => true | _ => false end
  | GArrFresh xs ys => match unify_arrays fuel h xs ys with UCyc => true | _ => false end
  | _ => false
  end.

Fixpoint run_sched (fuel : nat) (h : heap) (sl : list (nat * gen)) (evs : list ev) (nvars : nat) : option (list obs) :=
  match evs with
  | [] => Some []
  | e :: r =>
      let step (y : bool) (h1 : heap) (sl1 : list (nat * gen)) :=
        if heap_ok h1 then
          match run_sched fuel h1 sl1 r nvars with
          | None => None
          | Some l => Some (OL [obool y; snapshot h1 nvars] :: l)
          end
        else Some [otag "cyc" []] in
      match e with
      | EvCreate i t => step false h (slot_set i (mk_target h t) sl)
      | EvNext i =>
          match slot_get i sl with
          | None => step false h sl
          | Some g =>
              if gen_cyc fuel h g then Some [otag "cyc" []] else
              match next fuel h g with
              | None => None
              | Some (h1, g1, y) => step y h1 (slot_set i g1 sl)
              end
          end
      | EvClose i =>
          match slot_get i sl with
          | None => step false h sl
          | Some g => step false (fst (close h g)) (slot_set i (snd (close h g)) sl)
          end
      end
  end.

Definition run_schedule (fuel : nat) (evs : list ev) (nvars : nat) : obs :=
  match run_sched fuel [] [] evs nvars with
  | None => otag "oof" []
  | Some l => otag "ok" [OL l]
  end.
