(* Executable entry point of the get_value / to_python model for the correspondence check of C15.
   A case is a list of alternatives (clauses); each alternative is a sequence of unifications that
   are performed in order and stay active (the engine's generators are held open); at the answer
   the probes are observed. *)
From Coq Require Import String.
From Coq Require Import List ZArith Arith Bool.
Import ListNotations.
Local Open Scope string_scope.
From YP Require Import Base.Str Term.Term Term.Show Unify.Unify Unify.RunUnify Engine.GetValue.

Fixpoint py_obs (v : pyval) : obs :=
  match v with
  | PStr x => otag "s" [OS x]
  | PInt z => otag "i" [OZ z]
  | PNone => otag "n" []
  | PList l => otag "l" [OL (map py_obs l)]
  | PPair f l => otag "t" [OS f; OL (map py_obs l)]
  end.

Definition pres_obs (r : pres) : obs :=
  match r with
  | POk v => otag "ok" [py_obs v]
  | PErr TypeError => otag "TypeError" []
  | PErr IndexError => otag "IndexError" []
  | POof => otag "oof" []
  end.

Definition gv_obs (o : option term) : obs :=
  match o with Some r => otag "ok" [term_obs r] | None => otag "oof" [] end.

(* the same bindings listed in another order *)
Definition shuffle (k : nat) (s : store) : store :=
  let j := match length s with O => O | S _ => k mod (length s) end in
  let r := (skipn j s ++ firstn j s)%list in
  if Nat.even k then r else rev r.

(* every variable bound to the atom zz: what the saved value denotes after all variables have
   been re-bound by a later query *)
Fixpoint zap (t : term) : term :=
  match t with
  | TVar _ => TAtom (d "zz")
  | TFun f args => TFun f (map zap args)
  | _ => t
  end.

Fixpoint obs_eqb (a b : obs) : bool :=
  match a, b with
  | OS x, OS y => str_eqb x y
  | OZ x, OZ y => Z.eqb x y
  | OL l, OL m => (fix go (l m : list obs) : bool :=
                     match l, m with
                     | [], [] => true
                     | x :: l', y :: m' => andb (obs_eqb x y) (go l' m')
                     | _, _ => false
                     end) l m
  | _, _ => false
  end.

Fixpoint has_var (t : term) : bool :=
  match t with TVar _ => true | TFun _ args => existsb has_var args | _ => false end.

(* per probe: get_value, to_python, [den agrees], [get_value on the re-ordered store agrees],
   what the saved value denotes / converts to after every variable was re-bound to zz (empty if
   the value is ground: then it must be unchanged), [to_python = py_of (get_value)] *)
Definition probe_obs (fuel : nat) (k : nat) (s : store) (t : term) : obs :=
  let r := gv fuel s t in
  let py := to_python fuel s t in
  OL [ gv_obs r;
       pres_obs py;
       obool (obs_eqb (gv_obs r) (gv_obs (Some (den s t))));
       obool (obs_eqb (gv_obs r) (gv_obs (gv fuel (shuffle k s) t)));
       match r with
       | Some r' => if has_var r' then OL [term_obs (zap r'); pres_obs (py_of (zap r'))] else OL []
       | None => OL [] end;
       match r with Some r' => obool (obs_eqb (pres_obs py) (pres_obs (py_of r'))) | None => OL [] end ].

Definition run_alt (fuel : nat) (k : nat) (probes : list term) (steps : list (term * term)) : obs :=
  match run_stack fuel [] steps with
  | UOk s => otag "ok" [OL (map (probe_obs fuel k s) probes)]
  | UFail => otag "fail" []
  | UOof => otag "oof" []
  | UCyc => otag "cyc" []
  end.

Definition run_gv (fuel : nat) (k : nat) (alts : list (list (term * term))) (probes : list term) : obs :=
  OL (map (run_alt fuel k probes) alts).
