(* Executable entry point for the correspondence check of C03 on COMPILED PROGRAMS: the program
   (Prolog AST) is compiled by the model compiler, loaded into the frame machine of IRMachine.v
   together with a fact database and the harness's Python predicate pyp/1, and a query is driven
   like a Python consumer drives the generator object: __next__ up to kmax times, observing at
   every answer the values of the query's arguments / variables and the NUMBER OF BOUND CELLS;
   then how it ended; then, separately, abandonment after k answers by close() and by throw(). *)
From Coq Require Import String.
From Coq Require Import List ZArith Arith Bool.
Import ListNotations.
Local Open Scope string_scope.
Local Open Scope list_scope.
From YP Require Import Base.Str Term.Term Term.Show Term.Fast Term.Dfast Unify.Unify Unify.Fast Unify.UnifyGen Unify.UnifyGenFast Lang.Ast Comp.IR
  Comp.CompileBody Comp.CompileClause Sem.Machine Engine.GenMachine Engine.Restore Engine.RunGen Engine.IRMachine Engine.QueryFacts Sem.Native Engine.Refine Engine.RefineNative Engine.RefineExc Engine.RefineRaising.

(* def pyp(x): for v in (atom('a'), atom('c')): for _ in unify(x, v): yield False *)
Definition pyp_user (name : str) (args : list term) : option (code lx fr callp * fr) :=
  if str_eqb name (d "pyp") then
    match args with
    | [x] => Some (CSeq (CFor (fun _ _ _ => ELeaf (XUnify x (TAtom (d "a")))) CYield)
                        (CFor (fun _ _ _ => ELeaf (XUnify x (TAtom (d "c")))) CYield), fr0 [] 0)
    | _ => None end
  else None.

(* the same predicate as the machine code of its text over rows (RefineNative.pyrows), registered under the key 'pyp_1' *)
Definition pyp_rows : list frow := [ {| r_vals := [TAtom (d "a")]; r_nv := 0 |}; {| r_vals := [TAtom (d "c")]; r_nv := 0 |} ].
Definition pyp_fix (raises : bool) (name : str) (k : nat) : option ucode :=
  if str_eqb name (d "pyp") && Nat.eqb k 1 then Some (pyrows pyp_rows raises) else None.
Definition novar : str -> option ucode := fun _ => None.

Definition facts_of (db : list (str * nat * list fact)) (name : str) (ar : nat) : list fact :=
  match find (fun e => str_eqb (fst (fst e)) name && Nat.eqb (snd (fst e)) ar) db with
  | Some e => snd e | None => [] end.

Definition rows_of (db : list (str * nat * list fact)) (name : str) (ar : nat) : list frow :=
  map (fun f : fact => {| r_vals := snd f; r_nv := fst f |}) (facts_of db name ar).

Definition res_obs (r : GenMachine.res) : obs :=
  match r with RYield => otag "more" [] | RStop => otag "done" [] | RRaise => otag "raised" [] end.

Definition answer_obs (h0 h : heap) (watch : list term) : obs :=
  let r := rstore h in
  OL [OL (map (fun t => term_obs (aseq r t)) watch); onat (length h - length h0);
      (* the value of every cell bound since the query started (the heap is nw ++ h0) *)
      OL (map (fun p : nat * term => term_obs (aseq r (TVar (fst p)))) (firstn (length h - length h0) h))].

Definition snapshot_x (h : heap) (nvars : nat) : obs :=
  let r := rstore h in
  OL (map (fun v => OL [obool (match lookup v h with Some _ => true | None => false end);
                        term_obs (aseq r (TVar v))]) (seq 0 nvars)).

(* Only to CLASSIFY cases: the same machine whose unify leaves never refuse (no depth / occurs
   pre-check).  When the run of the real machine ends by an exception and this one ends differently,
   the exception came from a unification that needs a cyclic term: unspecified behaviour, the case
   is reported as "cyc" and not compared. *)
Definition mkleaf_nc (x : lx) (h : heap) : leaf :=
  match x with
  | XUnify a b => LGen (UnifyGenFast.mk_unify_x h a b)
  | XArrays xs ys => LGen (GArrFresh xs ys)
  | _ => mkleaf x h end.

(* the machine is RefineNative.wprog: ALL of YP.query (dynamic facts, reserved names, registered Python predicate,
   generator function, builtins) - the machine program of machine_refines_nquery *)
Definition run_machine (fuel d : nat) (p : program) (db : list (str * nat * list fact)) (stk : list (term * term))
    (name : str) (args : list term) (nq kmax k : nat) (pyraises : bool) : obs :=
  let pyp_fix := pyp_fix pyraises in
  match compile_program p with
  | None => otag "stuck" []
  | Some ir =>
      match gen_stack 400 [] stk with
      | None => otag "oof" []
      | Some None => otag "stack" []
      | Some (Some h0) =>
          let watch := args ++ map TVar (seq 0 nq) in
          let q := w_query ir (rows_of db) pyp_fix novar name args nq in
          match w_nexts ir (rows_of db) pyp_fix novar fuel d kmax h0 q with
          | None => otag "oof" []
          | Some (hf, itf, ys, r) =>
              if (match r with
                  | RRaise =>
                      match nexts mkleaf_nc lnext lclose (wprog ir (rows_of db) pyp_fix novar) f_nxt fuel d kmax h0 q with
                      | Some (_, _, ys', RRaise) => negb (Nat.eqb (length ys') (length ys))
                      | _ => true end
                  | _ => false end)
              then otag "cyc" [] else
              match w_nexts ir (rows_of db) pyp_fix novar fuel d k h0 q with
              | None => otag "oof" []
              | Some (hk, itk, ysk, rk) =>
                  let fin (h : heap) := OL [onat (length h); snapshot_x h nq] in
                  otag "ok" [fin h0; OL (map (fun h => answer_obs h0 h watch) ys); res_obs r; fin hf;
                             onat (length ysk); res_obs rk; fin (w_iclose hk itk);
                             fin (let '(ht, _, _) := ithrow lclose hk itk in ht)]
              end
          end
      end
  end.

(* a concrete instance of machine_refines_irsem, evaluated *)
Definition ex_mem : list clause :=
  let V x := SVar (d x) in let A x := SAtom (d x) in
  let cons h t := SFun (d ".") [h; t] in
  let lst := fix lst (l : list sterm) := match l with [] => A "[]" | x :: r => cons x (lst r) end in
  [ {| c_name := d "mem"; c_args := [V "X"; cons (V "X") (V "T")]; c_body := BTrue |};
    {| c_name := d "mem"; c_args := [V "X"; cons (V "H") (V "T")]; c_body := BCall (d "mem") [V "X"; V "T"] |};
    {| c_name := d "r"; c_args := [V "X"; V "L"];
       c_body := BAnd (BCall (d "mem") [V "X"; lst [A "a"; A "b"; A "c"]])
                  (BAnd (BCall (d "findall") [V "Y"; SFun (d "mem") [V "Y"; lst [V "X"; A "d"]]; V "L"])
                        (BNot (BCall (d "=") [V "X"; A "b"]))) |} ].

Definition obs_eqb (a b : obs) : bool := str_eqb (show_obs_str a) (show_obs_str b).

Definition refine_example : bool :=
  match compile_program ex_mem with
  | None => false
  | Some ir =>
      let big := query 20 ir (d "r") [TVar 0; TVar 1] (mkst [] 2) in
      match m_nexts ir (fun _ _ => []) (fun _ _ => None) 2000 20 5 [] (m_query ir (fun _ _ => []) (fun _ _ => None) (d "r") [TVar 0; TVar 1] 2) with
      | Some (hf, IDone, ys, RStop) =>
          Nat.eqb (length ys) 2 && Nat.eqb (length hf) 0 && negb (snd big) &&
          Nat.eqb (length (fst big)) 2 &&
          forallb (fun p => obs_eqb (OL (map (fun b => OL [onat (fst b); term_obs (snd b)]) (fst p)))
                                    (OL (map (fun b => OL [onat (fst b); term_obs (snd b)]) (sto (snd p)))))
                  (combine ys (fst big)) &&
          match ys with
          | h1 :: h2 :: _ => obs_eqb (term_obs (dfast h1 (TVar 0))) (term_obs (TAtom (d "a"))) &&
                             obs_eqb (term_obs (dfast h2 (TVar 0))) (term_obs (TAtom (d "c")))
          | _ => false end
      | _ => false
      end
  end.

(* the same with a database of dynamic facts  d0(f(_)).  d0([]).   and   w(X,Y) :- d0(X), d0(Y). *)
Definition ex_db : list (str * nat * list fact) :=
  [ (d "d0", 1, [ (1, [TFun (d "f") [TVar 0]]); (0, [TAtom (d "[]")]) ]) ].
Definition ex_w : list clause :=
  [ {| c_name := d "w"; c_args := [SVar (d "X"); SVar (d "Y")];
       c_body := BAnd (BCall (d "d0") [SVar (d "X")]) (BCall (d "d0") [SVar (d "Y")]) |} ].

Definition refine_example_facts : bool :=
  match compile_program ex_w with
  | None => false
  | Some ir =>
      let big := QueryFacts.queryF ir (facts_of ex_db) 20 (d "w") [TVar 0; TVar 1] (mkst [] 2) in
      match m_nexts ir (facts_of ex_db) (fun _ _ => None) 2000 20 9 [] (m_query ir (facts_of ex_db) (fun _ _ => None) (d "w") [TVar 0; TVar 1] 2) with
      | Some (hf, IDone, ys, RStop) =>
          Nat.eqb (length ys) 4 && Nat.eqb (length hf) 0 && negb (snd big) && Nat.eqb (length (fst big)) 4 &&
          forallb (fun p => obs_eqb (OL (map (fun b => OL [onat (fst b); term_obs (snd b)]) (fst p)))
                                    (OL (map (fun b => OL [onat (fst b); term_obs (snd b)]) (sto (snd p)))))
                  (combine ys (fst big))
      | _ => false
      end
  end.


(* ---- a concrete instance of machine_refines_nquery / machine_exception_passthrough, evaluated:
        t(X,Y) :- pyq(X), d0(Y).     d0(f(_)). d0([]).  are dynamic facts,
        def pyq(x): for v in (a, c): for _ in unify_arrays([x],[v]): yield True     and then   raise E     (E = XPy 7) *)
Definition ex_t : list clause :=
  [ {| c_name := d "t"; c_args := [SVar (d "X"); SVar (d "Y")];
       c_body := BAnd (BCall (d "pyq") [SVar (d "X")]) (BCall (d "d0") [SVar (d "Y")]) |} ].
Definition ex_ufix (name : str) (k : nat) : option ucode :=
  if str_eqb name (d "pyq") && Nat.eqb k 1 then Some (pyrows pyp_rows (is_some (Some 7))) else None.
Definition ex_efix (name : str) (k : nat) : option NE.nfunE :=
  if str_eqb name (d "pyq") && Nat.eqb k 1 then Some (pyrows_funE pyp_rows [true; true] (Some 7)) else None.
Definition ex_evar : str -> option NE.nfunE := fun _ => None.

(* the hypotheses of the theorems are inhabited: every entry of this table is realized by its machine code *)
Lemma ex_table_ok ir dyn : forall name k, orealizes ir dyn ex_ufix novar (ex_ufix name k) (option_map NE.erf (ex_efix name k)).
Proof.
  intros name k. unfold ex_ufix, ex_efix. destruct (str_eqb name (d "pyq") && Nat.eqb k 1); cbn [option_map orealizes]; [|exact I].
  apply pyrows_realizesE.
Qed.
Lemma ex_table_var_ok ir dyn : forall name, orealizes ir dyn ex_ufix novar (novar name) (option_map NE.erf (ex_evar name)).
Proof. intros name. exact I. Qed.

Definition refine_example_native : bool :=
  match compile_program ex_t with
  | None => false
  | Some ir =>
      let dyn := rows_of ex_db in
      let big := NE.nqueryE 20 (mkwE ir ex_efix ex_evar dyn) (d "t") [TVar 0; TVar 1] (mkst [] 2) in
      match w_nexts ir dyn ex_ufix novar 2000 20 9 [] (w_query ir dyn ex_ufix novar (d "t") [TVar 0; TVar 1] 2) with
      | Some (hf, IDone, ys, RRaise) =>
          Nat.eqb (length ys) 4 && Nat.eqb (length hf) 0 && Nat.eqb (length (fst big)) 4 &&
          match snd big with Some (NE.XPy 7) => true | _ => false end &&
          forallb (fun p => obs_eqb (OL (map (fun b => OL [onat (fst b); term_obs (snd b)]) (fst p)))
                                    (OL (map (fun b => OL [onat (fst b); term_obs (snd b)]) (sto (snd p)))))
                  (combine ys (fst big)) &&
          match ys with
          | h1 :: _ :: h3 :: _ => obs_eqb (term_obs (dfast h1 (TVar 0))) (term_obs (TAtom (d "a"))) &&
                                  obs_eqb (term_obs (dfast h3 (TVar 0))) (term_obs (TAtom (d "c")))
          | _ => false end
      | _ => false
      end
  end.

(* the same program with pyq raising INSTEAD OF its answer number 1 (Native.raising, the predicate of C20's
   exception_passthrough): the machine code pyrows_at against nquery of the world with `raising (native_rows ..) 1` *)
Definition ex_ufix_at (name : str) (k : nat) : option ucode :=
  if str_eqb name (d "pyq") && Nat.eqb k 1 then Some (pyrows_at pyp_rows 1) else None.
Definition ex_ffix_at (name : str) (k : nat) : option nfun :=
  if str_eqb name (d "pyq") && Nat.eqb k 1 then Some (raising (native_rows pyp_rows [true; true]) 1) else None.
Lemma ex_table_at_ok ir dyn : forall name k, orealizes ir dyn ex_ufix_at novar (ex_ufix_at name k) (ex_ffix_at name k).
Proof.
  intros name k. unfold ex_ufix_at, ex_ffix_at. destruct (str_eqb name (d "pyq") && Nat.eqb k 1); cbn [orealizes]; [|exact I].
  apply pyrows_at_realizes.
Qed.
Definition refine_example_raising : bool :=
  match compile_program ex_t with
  | None => false
  | Some ir =>
      let dyn := rows_of ex_db in
      let big := nquery 20 (mkw ir ex_ffix_at (fun _ => None) dyn) (d "t") [TVar 0; TVar 1] (mkst [] 2) in
      match w_nexts ir dyn ex_ufix_at novar 2000 20 9 [] (w_query ir dyn ex_ufix_at novar (d "t") [TVar 0; TVar 1] 2) with
      | Some (hf, IDone, ys, RRaise) =>
          Nat.eqb (length ys) 2 && Nat.eqb (length hf) 0 && Nat.eqb (length (fst big)) 2 && snd big &&
          forallb (fun p => obs_eqb (OL (map (fun b => OL [onat (fst b); term_obs (snd b)]) (fst p)))
                                    (OL (map (fun b => OL [onat (fst b); term_obs (snd b)]) (sto (snd p)))))
                  (combine ys (fst big))
      | _ => false
      end
  end.
