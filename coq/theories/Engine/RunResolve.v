(* Executable entry point of the resolution model for the correspondence check of C08:
   a history of engine operations; after every operation every name/arity "in play" is
   queried (at most `lim` answers each); queries can also be started, resumed one answer
   at a time and left suspended across later operations. *)
From Coq Require Import String.
From Coq Require Import List Arith NArith ZArith Bool.
Import ListNotations.
Local Open Scope string_scope.
From YP Require Import Base.Str Engine.Resolve.

Inductive op :=
| ORegister (name : str) (st : regstyle) (d : def)
| OLoad (sc : script) (ow : bool)
| OAssert (name : str) (vals : fact) (app : bool)
| OClear
| OStart (name : str) (nargs : nat)
| ONext (i : nat)
| OClose (i : nat).

Record state := mkState { st_eng : engine; st_susp : list (option gen * nat) }.

Definition ans_obs (n : nat) (s : store) : obs :=
  OL (map (fun v => match slookup s v with Some a => OS a | None => OL [] end) (seq 0 n)).

Definition fin_obs (f : option fin) : obs :=
  match f with
  | Some Norm => otag "done" []
  | Some Cut => otag "cut" []
  | Some Raise => otag "raised" []
  | Some Oof => otag "oof" []
  | None => otag "more" []
  end.

Definition probe (fuel lim : nat) (e : engine) (p : str * nat) : obs :=
  let n := snd p in
  let (l, f) := take lim e (query_gen fuel (fst p) (seq 0 n) n [] e) in
  OL [OL (map (ans_obs n) l); fin_obs f].

Fixpoint set_nth {A} (l : list A) (i : nat) (x : A) : list A :=
  match l, i with
  | [], _ => []
  | _ :: r, O => x :: r
  | y :: r, S j => y :: set_nth r j x
  end.

Definition do_op (fuel : nat) (o : op) (st : state) : obs * state :=
  let e := st_eng st in
  match o with
  | ORegister name sty d =>
      if register_raises sty d then (otag "raised" [], st)
      else (otag "ok" [], mkState (mkEngine (e_db e) (register (e_ctx e) name sty d)) (st_susp st))
  | OLoad sc ow =>
      match load (e_ctx e) sc ow with
      | None => (otag "raised" [], st)
      | Some c => (otag "ok" [], mkState (mkEngine (e_db e) c) (st_susp st))
      end
  | OAssert name vals app =>
      (otag "ok" [], mkState (mkEngine (assert_fact (e_db e) name vals app) (e_ctx e)) (st_susp st))
  | OClear => (otag "ok" [], mkState empty_engine (st_susp st))
  | OStart name n =>
      (otag "ok" [], mkState e (st_susp st ++ [(Some (query_gen fuel name (seq 0 n) n []), n)]))
  | ONext i =>
      match nth_error (st_susp st) i with
      | Some (Some g, n) =>
          match g e with
          | Done Norm => (otag "stop" [], mkState e (set_nth (st_susp st) i (None, n)))
          | Done Cut => (otag "cut" [], mkState e (set_nth (st_susp st) i (None, n)))
          | Done Raise => (otag "raised" [], mkState e (set_nth (st_susp st) i (None, n)))
          | Done Oof => (otag "oof" [], mkState e (set_nth (st_susp st) i (None, n)))
          | Yield s k => (otag "ans" [ans_obs n s], mkState e (set_nth (st_susp st) i (Some k, n)))
          end
      | Some (None, _) => (otag "stop" [], st)
      | None => (otag "nosuch" [], st)
      end
  | OClose i =>
      match nth_error (st_susp st) i with
      | Some (_, n) => (otag "ok" [], mkState e (set_nth (st_susp st) i (None, n)))
      | None => (otag "nosuch" [], st)
      end
  end.

Fixpoint run_ops (fuel lim : nat) (probes : list (str * nat)) (ops : list op) (st : state) : list obs :=
  match ops with
  | [] => []
  | o :: r =>
      let (ob, st') := do_op fuel o st in
      OL [ob; OL (map (probe fuel lim (st_eng st')) probes)] :: run_ops fuel lim probes r st'
  end.

Definition run_history (fuel lim : nat) (probes : list (str * nat)) (ops : list op) : obs :=
  OL (run_ops fuel lim probes ops (mkState empty_engine [])).
