(* Executable entry point of the world model for the correspondence check of C04:
   n engines in their initial state, an empty heap, one schedule; the observation is the
   trace (engine id, observation of the operation) in schedule order. *)
From Coq Require Import String.
From Coq Require Import List ZArith Arith.
Import ListNotations.
From YP Require Import Base.Str Term.Term Term.Show Unify.Unify Engine.World.

Definition trace_obs (tr : list (nat * obs)) : obs :=
  OL (map (fun x => OL [onat (fst x); snd x]) tr).

Definition run_world (fuel n : nat) (sched : list (nat * op)) : obs :=
  trace_obs (snd (wrun fuel (init_world n) sched)).
