(* C04, round 4: the SAME inputs given to two engines.  In the model an argument of an operation is a value, so "the same
   function object registered on two engines" is the same rows in two ORegister operations; what differs is the arity each
   engine registers it under.  Non-vacuity of interleave_alone on this class of histories: engine 0 registers the rows with
   variable arity (register_function(.., arity=-1)), engine 1 under arity 1 (what arity=None has to infer for a `*args` function);
   w/2 and w/1 are then queried on both.  Engine 0 answers both arities, engine 1 only w/1 - whatever the interleaving, and
   exactly as when each engine runs alone. *)
From Coq Require Import String.
From Coq Require Import List Arith Bool Lia ZArith.
Import ListNotations.
From YP Require Import Base.Str Term.Term Term.Show Unify.Unify Engine.Db Engine.World Engine.Isolation Engine.IsolationExamples.
Local Open Scope string_scope.

Definition sw := of_string "w".
Definition srow2 : list term := [TInt 7; TInt 1].
Definition srow1 : list term := [TInt 42].
Definition srows : list (list term) := [srow2; srow1].
Definition ssched : list (nat * op) :=
  [ (0, ORegister sw None srows); (1, ORegister sw (Some 1) srows);
    (0, OStart 0 sw [TVar 0; TVar 1]); (1, OStart 0 sw [TVar 0; TVar 1]); (0, ODrain 0); (1, ODrain 0);
    (1, OStart 1 sw [TVar 2]); (0, OStart 1 sw [TVar 2]); (1, ODrain 1); (0, ODrain 1) ].
(* the same two histories, engine 1 first and back to back *)
Definition ssched' : list (nat * op) := only 1 ssched ++ only 0 ssched.

Definition sall (rows : list (list term)) : obs := otag "all" [OL (map (fun r => OL (map term_obs r)) rows); OL []].

Lemma ex_shared_inputs :
  proj 0 (snd (wrun 100 (init_world 2) ssched))
  = [otag "ok" []; otag "started" []; sall [srow2]; otag "started" []; sall [srow1]]
  /\ proj 1 (snd (wrun 100 (init_world 2) ssched))
  = [otag "ok" []; otag "started" []; sall []; otag "started" []; sall [srow1]]
  /\ proj 0 (snd (wrun 100 (init_world 2) ssched')) = proj 0 (snd (wrun 100 (init_world 2) ssched))
  /\ proj 1 (snd (wrun 100 (init_world 2) ssched')) = proj 1 (snd (wrun 100 (init_world 2) ssched))
  /\ proj 0 (snd (wrun 100 (init_world 2) ssched)) = snd (erun 2 0 100 (map snd (only 0 ssched)) init_engine [])
  /\ proj 1 (snd (wrun 100 (init_world 2) ssched)) = snd (erun 2 1 100 (map snd (only 1 ssched)) init_engine []).
Proof. vm_compute. repeat split; reflexivity. Qed.
