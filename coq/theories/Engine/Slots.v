(* C04, second half: several query generators of ONE engine, suspended at the same time.

   PQ q = the cells of the generator in slot q (the variables of its query and the cells it allocates),
   pairwise disjoint.  Clause bodies may write the fact store (asserta / assertz / retract / retractall), so
   generators of one engine can influence each other through the store - and through nothing else:
   K = a set of keys (name, arity).  For EVERY sequence of next / close / drain operations on the slots and every slot q:
   if every step on slot q touches (reads or writes) only keys in K and every step on another slot writes only keys
   outside K (foot_ok, read off the logs of the steps of the run), then what is observed on q, the generator left in q
   and q's part of the heap are those of running the operations on q alone (the other generators are never advanced) on
   q's part of the heap, and the fact stores of the two runs agree on K.
   Read-only queries are the special case in which no step writes at all (nowrite; K = all keys).
   Without the condition the statement is false (SlotsExamples.v: a reader of p/1 next to assertz(p(b))). *)
From Coq Require Import String.
From Coq Require Import List Arith Bool Lia ZArith.
Import ListNotations.
From YP Require Import Base.Str Term.Term Unify.Unify Engine.Deref Engine.Frame Engine.Db Engine.World Engine.CursorFrame
  Engine.Isolation Engine.Footprint.

Definition is_slot (q : nat) (o : op) : bool :=
  match slot_of o with Some q' => Nat.eqb q' q | None => false end.
Definition qop (o : op) : Prop := slot_of o <> None.

(* the observations that belong to the operations on slot q *)
Fixpoint pick (q : nat) (ops : list op) (bs : list obs) : list obs :=
  match ops, bs with
  | o :: r, b :: s => if is_slot q o then b :: pick q r s else pick q r s
  | _, _ => []
  end.

(* the accesses to the fact store made by one operation (only next and drain run clause bodies) *)
Definition step_log (fuel n i : nat) (o : op) (e : engine) (h : store) : list ev :=
  match o with
  | ONext q => match aget Nat.eqb q (cursors e) with
               | Some c => snd (fst (cnext fuel (edb e) (ccell n i (cown c)) h c))
               | None => [] end
  | ODrain q => match aget Nat.eqb q (cursors e) with
                | Some c => snd (fst (cdrain fuel fuel (edb e) (ccell n i (cown c)) h c [] []))
                | None => [] end
  | _ => []
  end.

Section Slots.
Variables n i : nat.
Variable PQ : nat -> nat -> bool.
Hypothesis PQ_disj : forall q q' v, q <> q' -> PQ q v = true -> PQ q' v = false.

Definition sinv (e : engine) (h : store) : Prop :=
  (forall q, closed (PQ q) h) /\
  forall q c, aget Nat.eqb q (cursors e) = Some c ->
    cgood (PQ q) c /\ forall k, PQ q (ccell n i (cown c) k) = true.

(* one operation on slot q0 in the middle of the others *)
Lemma qstep_local fuel o q0 e h e' h' ob : slot_of o = Some q0 -> sinv e h ->
  estep fuel n i o e h = (e', h', ob) ->
  estep fuel n i o e (fP (PQ q0) h) = (e', fP (PQ q0) h', ob)
  /\ step_log fuel n i o e (fP (PQ q0) h) = step_log fuel n i o e h
  /\ sinv e' h'
  /\ (forall q, q <> q0 -> aget Nat.eqb q (cursors e') = aget Nat.eqb q (cursors e))
  /\ (forall q, q <> q0 -> fP (PQ q) h' = fP (PQ q) h).
Proof.
  intros So [HC HQ] E.
  destruct (qop_frame (PQ q0) n i fuel o q0 e h e' h' ob So (HC q0) (HQ q0) E) as [A [EN [C1 [N1 [_ M]]]]].
  assert (Hget : forall q, q <> q0 -> aget Nat.eqb q (cursors e') = aget Nat.eqb q (cursors e)).
  { intros q Nq. destruct (aget Nat.eqb q0 (cursors e)) as [c|].
    - destruct M as [c' [Ec _]]. rewrite Ec. apply aget_aset_neq. auto.
    - subst. reflexivity. }
  assert (D : forall q, q <> q0 -> forall v, PQ q v = true -> PQ q0 v = false).
  { intros q Nq v Hv. apply (PQ_disj q q0 v Nq Hv). }
  assert (EL : step_log fuel n i o e (fP (PQ q0) h) = step_log fuel n i o e h).
  { destruct o as [nm|app nm args|nm args|nm ar rows|ov script| |q1 nm args|q1|q1|q1|ts]; try reflexivity;
      inversion So; subst q1; cbn [step_log]; destruct (aget Nat.eqb q0 (cursors e)) as [c|] eqn:Eq; try reflexivity;
      destruct (HQ q0 c Eq) as [G Hf].
    - destruct (cnext fuel (edb e) (ccell n i (cown c)) h c) as [[[[c1 h1] r] lg] d1] eqn:E1.
      destruct (@cnext_frame (PQ q0) _ Hf fuel (edb e) _ _ _ _ _ _ _ (HC q0) G E1) as [A1 _]. rewrite A1. reflexivity.
    - destruct (cdrain fuel fuel (edb e) (ccell n i (cown c)) h c [] []) as [[[[[c1 h1] ans] err] lg] d1] eqn:E1.
      destruct (cdrain_frame _ _ Hf _ _ _ _ _ _ _ _ _ _ _ _ _ (HC q0) G E1) as [A1 _]. rewrite A1. reflexivity. }
  refine (conj A (conj EL (conj _ (conj Hget _)))).
  - split.
    + intros q. destruct (Nat.eq_dec q q0) as [->|Nq]; [exact C1|].
      apply (@closed_other (PQ q0) (PQ q) h h'); auto.
      intros v Hv. apply (PQ_disj q0 q v); auto.
    + intros q c Hq. destruct (Nat.eq_dec q q0) as [->|Nq].
      * destruct (aget Nat.eqb q0 (cursors e)) as [c0|] eqn:E0.
        -- destruct M as [c' [Ec [G' Ow]]]. rewrite Ec, aget_aset_eq in Hq. inversion Hq; subst.
           split; [exact G'|]. rewrite Ow. apply (HQ q0 c0 E0).
        -- subst. rewrite E0 in Hq. discriminate.
      * rewrite (Hget q Nq) in Hq. apply HQ. exact Hq.
  - intros q Nq. apply (@fP_disjoint (PQ q0) (PQ q)); auto. apply D; exact Nq.
Qed.

Section Foot.
Variable K : fkey -> bool.

(* two engine records whose fact stores agree on K (same definitions) and that hold the same generator in slot q *)
Definition simK (q : nat) (e1 e2 : engine) : Prop :=
  dbK K (edb e1) (edb e2) /\ aget Nat.eqb q (cursors e1) = aget Nat.eqb q (cursors e2).

Lemma simK_refl q e : simK q e e.
Proof. split; [apply dbK_refl|reflexivity]. Qed.

(* an operation on slot q that touches only keys of K reads the engine record only through slot q and the K part of
   the fact store *)
Lemma qstep_sim fuel o q e1 e2 h e1' h' ob : slot_of o = Some q -> simK q e1 e2 ->
  estep fuel n i o e1 h = (e1', h', ob) -> Forall (inK K) (step_log fuel n i o e1 h) ->
  exists e2', estep fuel n i o e2 h = (e2', h', ob) /\ simK q e1' e2'.
Proof.
  intros So [Ed Ec] E HL.
  destruct o as [nm|app nm args|nm args|nm ar rows|ov script| |q0 nm args|q0|q0|q0|ts]; try discriminate;
    inversion So; subst q0; cbn [estep step_log] in *; rewrite <- Ec;
    destruct (aget Nat.eqb q (cursors e1)) as [c|] eqn:Eq;
    try (inversion E; subst; eexists; split; [reflexivity|split; [exact Ed|congruence]]).
  - destruct (cnext fuel (edb e1) (ccell n i (cown c)) h c) as [[[[c1 h1] r] lg] d1] eqn:E1. cbn [fst snd] in HL.
    destruct (cnext_agree K fuel (edb e1) (edb e2) _ h c _ _ _ _ _ Ed E1 HL) as [d2 [E2 Hd]]. rewrite E2.
    inversion E; subst. eexists. split; [reflexivity|].
    split; [destruct e1, e2; exact Hd|]. destruct e1, e2; cbn. rewrite !aget_aset_eq. reflexivity.
  - destruct (cclose h c) as [c1 h1].
    inversion E; subst. eexists. split; [reflexivity|].
    split; [destruct e1, e2; exact Ed|]. destruct e1, e2; cbn. rewrite !aget_aset_eq. reflexivity.
  - destruct (cdrain fuel fuel (edb e1) (ccell n i (cown c)) h c [] []) as [[[[[c1 h1] answers] err] lg] d1] eqn:E1.
    cbn [fst snd] in HL.
    destruct (cdrain_agree K _ _ _ _ _ _ _ _ _ _ _ _ _ _ _ Ed E1 HL) as [d2 [E2 Hd]]. rewrite E2.
    inversion E; subst. eexists. split; [reflexivity|].
    split; [destruct e1, e2; exact Hd|]. destruct e1, e2; cbn. rewrite !aget_aset_eq. reflexivity.
Qed.

(* an operation on a slot all of whose writes are outside K leaves the store as it was on K *)
Lemma qstep_writes fuel o q e h e' h' ob : slot_of o = Some q ->
  estep fuel n i o e h = (e', h', ob) -> Forall (wrOut K) (step_log fuel n i o e h) -> dbK K (edb e) (edb e').
Proof.
  intros So E HL.
  destruct o as [nm|app nm args|nm args|nm ar rows|ov script| |q0 nm args|q0|q0|q0|ts]; try discriminate;
    inversion So; subst q0; cbn [estep step_log] in *;
    destruct (aget Nat.eqb q (cursors e)) as [c|] eqn:Eq;
    try (inversion E; subst; apply dbK_refl).
  - destruct (cnext fuel (edb e) (ccell n i (cown c)) h c) as [[[[c1 h1] r] lg] d1] eqn:E1. cbn [fst snd] in HL.
    pose proof (cnext_writes K _ _ _ _ _ _ _ _ _ _ E1 HL) as W. inversion E; subst. destruct e; exact W.
  - destruct (cdrain fuel fuel (edb e) (ccell n i (cown c)) h c [] []) as [[[[[c1 h1] answers] err] lg] d1] eqn:E1.
    cbn [fst snd] in HL.
    pose proof (cdrain_writes K _ _ _ _ _ _ _ _ _ _ _ _ _ _ E1 HL) as W. inversion E; subst. destruct e; exact W.
Qed.

(* the footprint condition on a run, for slot q: its steps touch only K, the steps on the other slots write only
   outside K (read off the logs of the steps of this run) *)
Fixpoint foot_ok (q : nat) (fuel : nat) (ops : list op) (e : engine) (h : store) : Prop :=
  match ops with
  | [] => True
  | o :: r =>
      (if is_slot q o then Forall (inK K) (step_log fuel n i o e h) else Forall (wrOut K) (step_log fuel n i o e h))
      /\ foot_ok q fuel r (fst (fst (estep fuel n i o e h))) (snd (fst (estep fuel n i o e h)))
  end.

Theorem slots_alone_K fuel q : forall ops e h e' h' bs,
  Forall qop ops -> sinv e h -> erun n i fuel ops e h = (e', h', bs) -> foot_ok q fuel ops e h ->
  sinv e' h' /\
  forall ea, simK q e ea ->
    exists ea', erun n i fuel (filter (is_slot q) ops) ea (fP (PQ q) h) = (ea', fP (PQ q) h', pick q ops bs)
                /\ simK q e' ea'.
Proof.
  induction ops as [|o r IH]; intros e h e' h' bs F I E FO.
  - cbn [erun] in E. inversion E; subst. split; [exact I|]. intros ea S. exists ea. split; [reflexivity|exact S].
  - cbn [erun] in E. cbn [foot_ok] in FO. destruct FO as [FO1 FO2].
    destruct (estep fuel n i o e h) as [[e1 h1] ob] eqn:E1. cbn [fst snd] in FO2.
    destruct (erun n i fuel r e1 h1) as [[e2 h2] obs2] eqn:E2.
    inversion E; subst; clear E.
    pose proof (Forall_inv F) as Fo. pose proof (Forall_inv_tail F) as Fr.
    destruct (slot_of o) as [q0|] eqn:So; [|exfalso; apply Fo; exact So].
    destruct (qstep_local fuel o q0 e h e1 h1 ob So I E1) as [A [EL [I1 [Hget HP]]]].
    destruct (IH e1 h1 e' h' obs2 Fr I1 E2 FO2) as [I2 Hrest].
    split; [exact I2|]. intros ea S.
    assert (Es : is_slot q o = Nat.eqb q0 q) by (unfold is_slot; rewrite So; reflexivity).
    cbn [filter pick]. rewrite Es in FO1 |- *. clear Es.
    destruct (Nat.eqb_spec q0 q) as [Eq0|Nq]; [subst q0|].
    + rewrite <- EL in FO1.
      destruct (qstep_sim fuel o q e ea (fP (PQ q) h) e1 (fP (PQ q) h1) ob So S A FO1) as [ea1 [Ea S1]].
      destruct (Hrest ea1 S1) as [ea' [R' S']]. exists ea'. split; [|exact S'].
      cbn [erun]. rewrite Ea, R'. reflexivity.
    + assert (S1 : simK q e1 ea).
      { destruct S as [Sd Sc]. split.
        - eapply dbK_trans; [|exact Sd]. apply dbK_sym. exact (qstep_writes fuel o q0 e h e1 h1 ob So E1 FO1).
        - rewrite (Hget q (not_eq_sym Nq)). exact Sc. }
      destruct (Hrest ea S1) as [ea' [R' S']]. exists ea'. split; [|exact S'].
      rewrite (HP q (not_eq_sym Nq)) in R'. exact R'.
Qed.

(* the form of the property text: the answers seen on slot q are the answers of q run alone *)
Corollary same_engine_slots_K fuel ops e h q : Forall qop ops -> sinv e h -> foot_ok q fuel ops e h ->
  pick q ops (snd (erun n i fuel ops e h)) = snd (erun n i fuel (filter (is_slot q) ops) e (fP (PQ q) h)).
Proof.
  intros F I FO. destruct (erun n i fuel ops e h) as [[e' h'] bs] eqn:E.
  destruct (slots_alone_K fuel q ops e h e' h' bs F I E FO) as [_ H].
  destruct (H e (simK_refl q e)) as [ea' [R _]]. rewrite R. reflexivity.
Qed.

End Foot.

(* read-only queries: no step of the run writes the fact store *)
Fixpoint nowrite (fuel : nat) (ops : list op) (e : engine) (h : store) : Prop :=
  match ops with
  | [] => True
  | o :: r =>
      Forall (fun x => ewr x = false) (step_log fuel n i o e h)
      /\ nowrite fuel r (fst (fst (estep fuel n i o e h))) (snd (fst (estep fuel n i o e h)))
  end.

Lemma nowrite_foot fuel q : forall ops e h, nowrite fuel ops e h -> foot_ok (fun _ => true) q fuel ops e h.
Proof.
  induction ops as [|o r IH]; intros e h H; cbn [nowrite foot_ok] in *; [exact I|].
  destruct H as [H1 H2]. split; [|apply IH; exact H2].
  destruct (is_slot q o).
  - apply Forall_forall. intros x _. reflexivity.
  - eapply Forall_impl; [|exact H1]. intros x Hx Hw. congruence.
Qed.

Theorem slots_alone fuel : forall ops e h e' h' bs,
  Forall qop ops -> sinv e h -> erun n i fuel ops e h = (e', h', bs) -> nowrite fuel ops e h ->
  sinv e' h' /\
  forall q ea, simK (fun _ => true) q e ea ->
    exists ea', erun n i fuel (filter (is_slot q) ops) ea (fP (PQ q) h) = (ea', fP (PQ q) h', pick q ops bs)
                /\ simK (fun _ => true) q e' ea'.
Proof.
  intros ops e h e' h' bs F I E NW. split.
  - exact (proj1 (slots_alone_K (fun _ => true) fuel 0 ops e h e' h' bs F I E (nowrite_foot fuel 0 ops e h NW))).
  - intros q. exact (proj2 (slots_alone_K (fun _ => true) fuel q ops e h e' h' bs F I E (nowrite_foot fuel q ops e h NW))).
Qed.

Corollary same_engine_slots fuel ops e h q : Forall qop ops -> sinv e h -> nowrite fuel ops e h ->
  pick q ops (snd (erun n i fuel ops e h)) = snd (erun n i fuel (filter (is_slot q) ops) e (fP (PQ q) h)).
Proof.
  intros F I NW. apply (same_engine_slots_K (fun _ => true)); auto. apply nowrite_foot. exact NW.
Qed.

End Slots.

(* ---------------------------------------------------------------- how the hypothesis sinv comes about *)
Lemma sinv_nocursors n i PQ e h : cursors e = [] -> (forall q, closed (PQ q) h) -> sinv n i PQ e h.
Proof. intros Ec C. split; [exact C|]. intros q c H. rewrite Ec in H. discriminate. Qed.

(* starting a query in slot q whose argument terms are over Pnew (and whose allocations will be: the cells
   named after the engine's start counter) extends the family by PQ q := Pnew.  A generator that was in the
   slot is dropped (closed) first, exactly as in the code. *)
Lemma sinv_start fuel n i PQ q Pnew nm args e h e' h' ob :
  sinv n i PQ e h ->
  Forall (tin Pnew) (map (rn (ucell n i)) args) -> (forall k, Pnew (ccell n i (nstart e) k) = true) -> closed Pnew h ->
  estep fuel n i (OStart q nm args) e h = (e', h', ob) ->
  sinv n i (fun q' => if Nat.eqb q' q then Pnew else PQ q') e' h'.
Proof.
  intros [HC HQ] Ha Hf Cn E. cbn [estep] in E.
  assert (Hh : forall P, closed P h -> closed P h').
  { intros P CP. destruct (aget Nat.eqb q (cursors e)) as [c|]; inversion E; subst; auto.
    unfold cclose. cbn [snd]. apply unbind_closed. exact CP. }
  split.
  - intros q'. destruct (Nat.eqb q' q); apply Hh; auto.
  - intros q' c' H.
    assert (Ec : cursors e' = aset Nat.eqb q (cstart (nstart e) nm (map (rn (ucell n i)) args)) (cursors e)).
    { destruct (aget Nat.eqb q (cursors e)); inversion E; subst; destruct e; reflexivity. }
    rewrite Ec in H. destruct (Nat.eqb_spec q' q) as [->|Nq].
    + rewrite aget_aset_eq in H. inversion H; subst. split; [apply cstart_good'; exact Ha|exact Hf].
    + rewrite aget_aset_neq in H by auto. apply HQ. exact H.
Qed.
