(* C04, second half: several query generators of ONE engine, suspended at the same time.

   PQ q = the cells of the generator in slot q (the variables of its query and the cells it allocates),
   pairwise disjoint.  For EVERY sequence of next / close / drain operations on the slots and every slot q:
   what is observed on q, the generator left in q and q's part of the heap are those of running the
   operations on q alone (the other generators are never advanced) on q's part of the heap.
   The database is not written by these operations (the model's clause bodies only read: calls and =),
   so this is the read-only statement of the property text. *)
From Coq Require Import String.
From Coq Require Import List Arith Bool Lia ZArith.
Import ListNotations.
From YP Require Import Base.Str Term.Term Unify.Unify Engine.Deref Engine.Frame Engine.World Engine.CursorFrame
  Engine.Isolation.

Definition is_slot (q : nat) (o : op) : bool :=
  match slot_of o with Some q' => Nat.eqb q' q | None => false end.
Definition qop (o : op) : Prop := slot_of o <> None.

(* the observations that belong to the operations on slot q *)
Fixpoint pick (q : nat) (ops : list op) (bs : list obs) : list obs :=
  match ops, bs with
  | o :: r, b :: s => if is_slot q o then b :: pick q r s else pick q r s
  | _, _ => []
  end.

(* two engine records that agree on the database and on slot q *)
Definition sim (q : nat) (e1 e2 : engine) : Prop :=
  edb e1 = edb e2 /\ aget Nat.eqb q (cursors e1) = aget Nat.eqb q (cursors e2).

Lemma sim_refl q e : sim q e e.
Proof. split; reflexivity. Qed.

Section Slots.
Variables n i : nat.
Variable PQ : nat -> nat -> bool.
Hypothesis PQ_disj : forall q q' v, q <> q' -> PQ q v = true -> PQ q' v = false.

Definition sinv (e : engine) (h : store) : Prop :=
  (forall q, closed (PQ q) h) /\
  forall q c, aget Nat.eqb q (cursors e) = Some c ->
    cgood (PQ q) c /\ forall k, PQ q (ccell n i (cown c) k) = true.

(* an operation on slot q reads the engine record only through its database and slot q *)
Lemma qstep_sim fuel o q e1 e2 h e1' h' ob : slot_of o = Some q -> sim q e1 e2 ->
  estep fuel n i o e1 h = (e1', h', ob) ->
  exists e2', estep fuel n i o e2 h = (e2', h', ob) /\ sim q e1' e2'.
Proof.
  intros So [Ed Ec] E.
  destruct o as [nm|app nm args|nm args|nm ar rows|ov script| |q0 nm args|q0|q0|q0|ts]; try discriminate;
    inversion So; subst q0; cbn [estep] in *; rewrite <- Ec; try rewrite <- Ed;
    destruct (aget Nat.eqb q (cursors e1)) as [c|] eqn:Eq;
    try (inversion E; subst; eexists; split; [reflexivity|split; congruence]).
  - destruct (cnext fuel (edb e1) (ccell n i (cown c)) h c) as [[[c1 h1] r] nm].
    inversion E; subst. eexists. split; [reflexivity|].
    split; [destruct e1, e2; exact Ed|]. destruct e1, e2; cbn. rewrite !aget_aset_eq. reflexivity.
  - destruct (cclose h c) as [c1 h1].
    inversion E; subst. eexists. split; [reflexivity|].
    split; [destruct e1, e2; exact Ed|]. destruct e1, e2; cbn. rewrite !aget_aset_eq. reflexivity.
  - destruct (cdrain fuel fuel (edb e1) (ccell n i (cown c)) h c [] []) as [[[[c1 h1] answers] err] nm].
    inversion E; subst. eexists. split; [reflexivity|].
    split; [destruct e1, e2; exact Ed|]. destruct e1, e2; cbn. rewrite !aget_aset_eq. reflexivity.
Qed.

(* one operation on slot q0 in the middle of the others *)
Lemma qstep_local fuel o q0 e h e' h' ob : slot_of o = Some q0 -> sinv e h ->
  estep fuel n i o e h = (e', h', ob) ->
  estep fuel n i o e (fP (PQ q0) h) = (e', fP (PQ q0) h', ob)
  /\ sinv e' h' /\ edb e' = edb e
  /\ (forall q, q <> q0 -> aget Nat.eqb q (cursors e') = aget Nat.eqb q (cursors e))
  /\ (forall q, q <> q0 -> fP (PQ q) h' = fP (PQ q) h).
Proof.
  intros So [HC HQ] E.
  destruct (qop_frame (PQ q0) n i fuel o q0 e h e' h' ob So (HC q0) (HQ q0) E) as [A [EN [C1 [N1 [Ed [_ M]]]]]].
  assert (Hget : forall q, q <> q0 -> aget Nat.eqb q (cursors e') = aget Nat.eqb q (cursors e)).
  { intros q Nq. destruct (aget Nat.eqb q0 (cursors e)) as [c|].
    - destruct M as [c' [Ec _]]. rewrite Ec. apply aget_aset_neq. auto.
    - subst. reflexivity. }
  assert (D : forall q, q <> q0 -> forall v, PQ q v = true -> PQ q0 v = false).
  { intros q Nq v Hv. apply (PQ_disj q q0 v Nq Hv). }
  refine (conj A (conj _ (conj Ed (conj Hget _)))).
  - split.
    + intros q. destruct (Nat.eq_dec q q0) as [->|Nq]; [exact C1|].
      apply (@closed_other (PQ q0) (PQ q) h h'); auto.
      intros v Hv. apply (PQ_disj q0 q v); auto.
    + intros q c Hq. destruct (Nat.eq_dec q q0) as [->|Nq].
      * destruct (aget Nat.eqb q0 (cursors e)) as [c0|] eqn:E0.
        -- destruct M as [c' [Ec [G' Ow]]]. rewrite Ec, aget_aset_eq in Hq. inversion Hq; subst.
           split; [exact G'|]. rewrite Ow. apply (HQ q0 c0 E0).
        -- subst. rewrite E0 in Hq. discriminate.
      * rewrite (Hget q Nq) in Hq. apply HQ. exact Hq.
  - intros q Nq. apply (@fP_disjoint (PQ q0) (PQ q)); auto. apply D; exact Nq.
Qed.

Theorem slots_alone fuel : forall ops e h e' h' bs,
  Forall qop ops -> sinv e h -> erun n i fuel ops e h = (e', h', bs) ->
  sinv e' h' /\
  forall q ea, sim q e ea ->
    exists ea', erun n i fuel (filter (is_slot q) ops) ea (fP (PQ q) h) = (ea', fP (PQ q) h', pick q ops bs)
                /\ sim q e' ea'.
Proof.
  induction ops as [|o r IH]; intros e h e' h' bs F I E.
  - cbn [erun] in E. inversion E; subst. split; [exact I|]. intros q ea S. exists ea. split; [reflexivity|exact S].
  - cbn [erun] in E.
    destruct (estep fuel n i o e h) as [[e1 h1] ob] eqn:E1.
    destruct (erun n i fuel r e1 h1) as [[e2 h2] obs2] eqn:E2.
    inversion E; subst; clear E.
    pose proof (Forall_inv F) as Fo. pose proof (Forall_inv_tail F) as Fr.
    destruct (slot_of o) as [q0|] eqn:So; [|exfalso; apply Fo; exact So].
    destruct (qstep_local fuel o q0 e h e1 h1 ob So I E1) as [A [I1 [Ed [Hget HP]]]].
    destruct (IH e1 h1 e' h' obs2 Fr I1 E2) as [I2 Hrest].
    split; [exact I2|]. intros q ea S.
    assert (Es : is_slot q o = Nat.eqb q0 q) by (unfold is_slot; rewrite So; reflexivity).
    cbn [filter pick]. rewrite Es.
    destruct (Nat.eqb_spec q0 q) as [->|Nq].
    + destruct (qstep_sim fuel o q e ea (fP (PQ q) h) e1 (fP (PQ q) h1) ob So S A) as [ea1 [Ea S1]].
      destruct (Hrest q ea1 S1) as [ea' [R' S']]. exists ea'. split; [|exact S'].
      cbn [erun]. rewrite Ea, R'. reflexivity.
    + assert (S1 : sim q e1 ea).
      { destruct S as [Sd Sc]. split; [congruence|]. rewrite (Hget q (not_eq_sym Nq)). exact Sc. }
      destruct (Hrest q ea S1) as [ea' [R' S']]. exists ea'. split; [|exact S'].
      rewrite (HP q (not_eq_sym Nq)) in R'. exact R'.
Qed.

(* the form of the property text: the answers seen on slot q are the answers of q run alone *)
Corollary same_engine_slots fuel ops e h q : Forall qop ops -> sinv e h ->
  pick q ops (snd (erun n i fuel ops e h)) = snd (erun n i fuel (filter (is_slot q) ops) e (fP (PQ q) h)).
Proof.
  intros F I. destruct (erun n i fuel ops e h) as [[e' h'] bs] eqn:E.
  destruct (slots_alone fuel ops e h e' h' bs F I E) as [_ H].
  destruct (H q e (sim_refl q e)) as [ea' [R _]]. rewrite R. reflexivity.
Qed.

End Slots.

(* ---------------------------------------------------------------- how the hypothesis sinv comes about *)
Lemma sinv_nocursors n i PQ e h : cursors e = [] -> (forall q, closed (PQ q) h) -> sinv n i PQ e h.
Proof. intros Ec C. split; [exact C|]. intros q c H. rewrite Ec in H. discriminate. Qed.

(* starting a query in slot q whose argument terms are over Pnew (and whose allocations will be: the cells
   named after the engine's start counter) extends the family by PQ q := Pnew.  A generator that was in the
   slot is dropped (closed) first, exactly as in the code. *)
Lemma sinv_start fuel n i PQ q Pnew nm args e h e' h' ob :
  sinv n i PQ e h ->
  Forall (tin Pnew) (map (rn (ucell n i)) args) -> (forall k, Pnew (ccell n i (nstart e) k) = true) -> closed Pnew h ->
  estep fuel n i (OStart q nm args) e h = (e', h', ob) ->
  sinv n i (fun q' => if Nat.eqb q' q then Pnew else PQ q') e' h'.
Proof.
  intros [HC HQ] Ha Hf Cn E. cbn [estep] in E.
  assert (Hh : forall P, closed P h -> closed P h').
  { intros P CP. destruct (aget Nat.eqb q (cursors e)) as [c|]; inversion E; subst; auto.
    unfold cclose. cbn [snd]. apply unbind_closed. exact CP. }
  split.
  - intros q'. destruct (Nat.eqb q' q); apply Hh; auto.
  - intros q' c' H.
    assert (Ec : cursors e' = aset Nat.eqb q (cstart (nstart e) nm (map (rn (ucell n i)) args)) (cursors e)).
    { destruct (aget Nat.eqb q (cursors e)); inversion E; subst; destruct e; reflexivity. }
    rewrite Ec in H. destruct (Nat.eqb_spec q' q) as [->|Nq].
    + rewrite aget_aset_eq in H. inversion H; subst. split; [apply cstart_good'; exact Ha|exact Hf].
    + rewrite aget_aset_neq in H by auto. apply HQ. exact H.
Qed.
