(* C04, same engine, generators whose clause bodies write the fact store: non-vacuity of the footprint theorem
   (Slots.slots_alone_K) and refutation of the statement without the footprint condition. *)
From Coq Require Import String.
From Coq Require Import List Arith Bool Lia ZArith Cantor.
Import ListNotations.
From YP Require Import Base.Str Term.Term Term.Show Unify.Unify Engine.Deref Engine.Frame Engine.Db Engine.World Engine.CursorFrame
  Engine.Isolation Engine.Footprint Engine.Slots Engine.SlotsReach Engine.IsolationExamples.
Local Open Scope string_scope.

Definition xq := of_string "q".
Definition xw := of_string "w".
Definition xF (f : string) (args : list term) := TFun (of_string f) args.

(* w(X) :- p(X), assertz(q(X)), retract(q(c)).     reads p/1, writes q/1 *)
Definition wscript : list (str * nat * list clause) :=
  [ (xw, 1, [ ([TVar 0], [(xp, [TVar 0]); (of_string "assertz", [TFun xq [TVar 0]]); (of_string "retract", [TFun xq [xA "c"]])]) ]) ].

(* p(a). p(b). q(c). q(c).  slot 0: p(X0) (a reader of p/1);  slot 1: w(X1) (reads p/1, writes q/1) *)
Definition wprep : list op :=
  [ OAssert true xp [xA "a"]; OAssert true xp [xA "b"]; OAssert true xq [xA "c"]; OAssert true xq [xA "c"];
    OLoad true wscript; OStart 0 xp [TVar 0]; OStart 1 xw [TVar 1] ].
Definition we : engine := fst (fst (erun 1 0 80 wprep init_engine [])).
Definition wops : list op := [ONext 1; ONext 0; ONext 1; ONext 0; ONext 1; ONext 0; ONext 1].
Definition wK (k : fkey) : bool := fkey_eqb k (xp, 1).

Lemma ex_hist_ok_w : hist_ok 1 0 80 wprep init_engine [].
Proof.
  unfold wprep. cbn [hist_ok op_ok]. repeat (split; [exact I|]).
  split; [|split; [|exact I]].
  - intros q' c' N H. vm_compute in H. discriminate.
  - intros q' c' N H v Hv. vm_compute in H.
    destruct q' as [|q']; [|destruct q'; discriminate]. inversion H; subst c'. clear H.
    unfold argvar. cbn [cargs]. cbn [map rn existsb occurs] in *.
    rewrite orb_false_r in *. apply Nat.eqb_eq in Hv. subst v. vm_compute. reflexivity.
Qed.

(* the writer's steps assert q(a), retract the two q(c) (one per answer: retract leaves a choice point that is resumed
   on backtracking), assert q(b) and find no q(c) any more, while the reader is suspended between them; the reader sees a, b, done; the footprint
   condition holds for the reader (K = {p/1}); the fact store was really written *)
Lemma ex_foot :
  hist_ok 1 0 80 wprep init_engine [] /\ Forall qop wops
  /\ foot_ok 1 0 wK 0 80 wops we []
  /\ pick 0 wops (snd (erun 1 0 80 wops we [])) = [xans "a"; xans "b"; otag "done" []]
  /\ pick 1 wops (snd (erun 1 0 80 wops we [])) = [xans "a"; xans "a"; otag "done" []; otag "done" []]
  /\ map fargs (find_facts (edb we) xq 1) = [[xA "c"]; [xA "c"]]
  /\ map fargs (find_facts (edb (fst (fst (erun 1 0 80 wops we [])))) xq 1) = [[xA "a"]; [xA "b"]]
  /\ pick 0 wops (snd (erun 1 0 80 wops we [])) = snd (erun 1 0 80 (filter (is_slot 0) wops) we []).
Proof.
  split; [exact ex_hist_ok_w|]. split; [repeat constructor; discriminate|].
  split.
  { vm_compute.
    repeat match goal with
           | |- _ /\ _ => split
           | |- Forall _ _ => constructor
           | |- True => exact I
           | |- _ -> _ => let X := fresh in intro X; first [discriminate X|reflexivity]
           | |- _ = _ => reflexivity
           end. }
  vm_compute. repeat split; reflexivity.
Qed.

(* ---------------------------------------------------------------- without the footprint condition *)
(* p(a).  slot 0: p(X0);  slot 1: assertz(p(b)) called as a query.  Advancing slot 1 before slot 0 is resumed for the
   first time (the snapshot of p/1 is taken when the call starts) shows the reader a, b; alone it sees a. *)
Definition rprep : list op :=
  [ OAssert true xp [xA "a"]; OStart 0 xp [TVar 0]; OStart 1 (of_string "assertz") [TFun xp [xA "b"]] ].
Definition rops : list op := [ONext 1; ONext 0; ONext 0; ONext 0].

Lemma ex_hist_ok_r : hist_ok 1 0 50 rprep init_engine [].
Proof.
  unfold rprep. cbn [hist_ok op_ok]. repeat (split; [exact I|]).
  split; [|split; [|exact I]].
  - intros q' c' N H. vm_compute in H. discriminate.
  - intros q' c' N H v Hv. cbn [map rn existsb occurs orb] in Hv. discriminate.
Qed.

Lemma disjoint_queries_alone_writes_refuted :
  exists n i fuel pre ops e h bs0 q, i < n /\
    hist_ok n i fuel pre init_engine [] /\ erun n i fuel pre init_engine [] = (e, h, bs0) /\ Forall qop ops /\
    pick q ops (snd (erun n i fuel ops e h))
    <> snd (erun n i fuel (filter (is_slot q) ops) e (fP (PQ_of n i e q) h)).
Proof.
  exists 1, 0, 50, rprep, rops.
  destruct (erun 1 0 50 rprep init_engine []) as [[e h] bs0] eqn:E.
  exists e, h, bs0, 0. split; [lia|]. split; [exact ex_hist_ok_r|]. split; [reflexivity|].
  split; [repeat constructor; discriminate|].
  vm_compute in E. inversion E; subst. vm_compute. discriminate.
Qed.

(* what the two runs show *)
Lemma ex_refuted_values :
  let e := fst (fst (erun 1 0 50 rprep init_engine [])) in
  pick 0 rops (snd (erun 1 0 50 rops e [])) = [xans "a"; xans "b"; otag "done" []]
  /\ snd (erun 1 0 50 (filter (is_slot 0) rops) e []) = [xans "a"; otag "done" []; otag "done" []].
Proof. vm_compute. split; reflexivity. Qed.

(* the read-only hypothesis of same_engine_slots is inhabited by the run of IsolationExamples.ex_slots *)
Lemma ex_nowrite : nowrite 1 0 50 xops xe [] /\ Forall qop xops /\ sinv 1 0 xPQ xe [].
Proof.
  split; [|split; [repeat constructor; discriminate|exact ex_sinv]].
  vm_compute.
  repeat match goal with
         | |- _ /\ _ => split
         | |- Forall _ _ => constructor
         | |- True => exact I
         | |- _ = _ => reflexivity
         end.
Qed.
