(* C04, same engine: the hypothesis of Slots.slots_alone (sinv, for an abstract family of cell sets) holds in every
   engine state that is reached by a history in which each query is started over variables that do not occur in
   the queries held in the other slots at that moment ("simultaneously suspended queries over disjoint variables").

   PQc c = the cells of the generator c: the cells its query number names (everything it allocates) and the
   variables of its argument terms.  Invariant R of (engine record, heap):
     - every held generator has a query number below the start counter, argument variables that are user cells
       of this engine, and holds terms over PQc c only;
     - generators in different slots have different query numbers and no argument variable in common;
     - every binding of a cell of this engine that is in the heap is in the trail of a held generator.
   R holds initially, is kept by EVERY operation (a start must satisfy start_ok), and implies sinv. *)
From Coq Require Import String.
From Coq Require Import List Arith Bool Lia ZArith.
Import ListNotations.
From YP Require Import Base.Str Term.Term Unify.Unify Engine.Deref Engine.Frame Engine.Db Engine.World Engine.CursorFrame
  Engine.Isolation Engine.Footprint Engine.Slots.

(* ---------------------------------------------------------------- shape of the generator operations *)
Lemma occurs_rn f v t : occurs v (rn f t) = true -> exists k, v = f k.
Proof.
  induction t as [a|z|s|w|g args IH] using term_ind'; simpl; try discriminate.
  - intros H. apply Nat.eqb_eq in H. exists w. congruence.
  - intros H. apply existsb_exists in H as [x [Hx Ho]]. apply in_map_iff in Hx as [y [<- Hy]].
    rewrite Forall_forall in IH. exact (IH y Hy Ho).
Qed.
Lemma occurs_rn_list f v l : existsb (occurs v) (map (rn f) l) = true -> exists k, v = f k.
Proof.
  intros H. apply existsb_exists in H as [x [Hx Ho]]. apply in_map_iff in Hx as [y [<- _]].
  exact (occurs_rn f v y Ho).
Qed.

Lemma unbind_notin tr h v t : In (v, t) (unbind tr h) -> ~ In v (map fst tr).
Proof.
  unfold unbind. intros H Hin. apply filter_In in H as [_ H]. cbn [fst] in H.
  apply negb_true_iff in H. assert (E : existsb (Nat.eqb v) (map fst tr) = true).
  { apply existsb_exists. exists v. split; [exact Hin|apply Nat.eqb_refl]. }
  congruence.
Qed.

(* where the bindings of the new heap come from *)
Definition hrel (c : cursor) (h : store) (c' : cursor) (h' : store) : Prop :=
  forall v t, In (v, t) h' -> In (v, t) (ctrail c') \/ (In (v, t) h /\ ~ In v (map fst (ctrail c))).
Definition hstep (c : cursor) (h : store) (c' : cursor) (h' : store) : Prop :=
  (c' = c /\ h' = h) \/ hrel c h c' h'.

Lemma hstep_trans c h c1 h1 c2 h2 : hstep c h c1 h1 -> hstep c1 h1 c2 h2 -> hstep c h c2 h2.
Proof.
  intros [[-> ->]|A] [[-> ->]|B]; try (left; split; reflexivity); try (right; assumption).
  right. intros v t H. destruct (B v t H) as [H1|[H1 N1]]; [left; exact H1|].
  destruct (A v t H1) as [H2|H2]; [|right; exact H2].
  exfalso. apply N1. apply (in_map fst) in H2. exact H2.
Qed.

Lemma cnext_shape fuel d fresh h c c' h' r nm d' : cnext fuel d fresh h c = (c', h', r, nm, d') ->
  cown c' = cown c /\ cargs c' = cargs c /\ hstep c h c' h'.
Proof.
  unfold cnext. destruct (search fuel (unbind (ctrail c) h) fresh (qfid (cown c)) (mkms d (cnf c) (cfr c) [])) as [tr m|m|k m];
    intros E; inversion E; subst; clear E; cbn [cown cargs ctrail].
  - split; [reflexivity|]. split; [reflexivity|]. right. intros v t H. cbn [ctrail].
    apply in_app_or in H as [H|H]; [left; exact H|right].
    split; [eapply unbind_in; eauto|eapply unbind_notin; eauto].
  - split; [reflexivity|]. split; [reflexivity|]. right. intros v t H. right.
    split; [eapply unbind_in; eauto|eapply unbind_notin; eauto].
  - split; [reflexivity|]. split; [reflexivity|]. left. auto.
Qed.

Lemma cclose_shape h c : cown (fst (cclose h c)) = cown c /\ cargs (fst (cclose h c)) = cargs c
  /\ hstep c h (fst (cclose h c)) (snd (cclose h c)).
Proof.
  unfold cclose. cbn [fst snd cown cargs]. split; [reflexivity|]. split; [reflexivity|].
  right. intros v t H. right. split; [eapply unbind_in; eauto|eapply unbind_notin; eauto].
Qed.

Lemma cdrain_shape fresh : forall m fuel d h c acc names c' h' answers err names' d',
  cdrain m fuel d fresh h c acc names = (c', h', answers, err, names', d') ->
  cown c' = cown c /\ cargs c' = cargs c /\ hstep c h c' h'.
Proof.
  induction m as [|m IH]; intros fuel d h c acc names c' h' answers err names' d' E; cbn [cdrain] in E.
  - inversion E; subst. split; [reflexivity|]. split; [reflexivity|]. left. auto.
  - destruct (cnext fuel d fresh h c) as [[[[c1 h1] r] nm] d1] eqn:E1.
    destruct (cnext_shape _ _ _ _ _ _ _ _ _ _ E1) as [O1 [A1 S1]].
    destruct r as [vals| |k].
    + destruct (IH _ _ _ _ _ _ _ _ _ _ _ _ E) as [O2 [A2 S2]].
      split; [congruence|]. split; [congruence|]. eapply hstep_trans; eauto.
    + inversion E; subst. auto.
    + inversion E; subst. auto.
Qed.

Section Reach.
Variables n i : nat.
Hypothesis Hi : i < n.

Definition argvar (c : cursor) (v : nat) : bool := existsb (occurs v) (cargs c).
Definition PQc (c : cursor) (v : nat) : bool :=
  Pe n i v && (Nat.eqb (owner n v) (S (cown c)) || argvar c v).
Definition PQ_of (e : engine) (q : nat) : nat -> bool :=
  match aget Nat.eqb q (cursors e) with Some c => PQc c | None => fun _ => false end.

Record R (e : engine) (h : store) : Prop := mkR {
  R_cur : forall q c, aget Nat.eqb q (cursors e) = Some c ->
            cown c < nstart e
            /\ (forall v, argvar c v = true -> Pe n i v = true /\ owner n v = 0)
            /\ cgood (PQc c) c;
  R_dis : forall q1 q2 c1 c2, q1 <> q2 ->
            aget Nat.eqb q1 (cursors e) = Some c1 -> aget Nat.eqb q2 (cursors e) = Some c2 ->
            cown c1 <> cown c2 /\ (forall v, argvar c1 v = true -> argvar c2 v = false);
  R_heap : forall v t, In (v, t) h -> Pe n i v = true ->
            exists q c, aget Nat.eqb q (cursors e) = Some c /\ In (v, t) (ctrail c) }.

(* the condition on a start: its variables do not occur in the queries held in the other slots *)
Definition start_ok (e : engine) (q : nat) (args : list term) : Prop :=
  forall q' c', q' <> q -> aget Nat.eqb q' (cursors e) = Some c' ->
  forall v, existsb (occurs v) (map (rn (ucell n i)) args) = true -> argvar c' v = false.
Definition op_ok (e : engine) (o : op) : Prop :=
  match o with OStart q _ args => start_ok e q args | _ => True end.
Fixpoint hist_ok (fuel : nat) (ops : list op) (e : engine) (h : store) : Prop :=
  match ops with
  | [] => True
  | o :: r => op_ok e o /\ hist_ok fuel r (fst (fst (estep fuel n i o e h))) (snd (fst (estep fuel n i o e h)))
  end.

Lemma PQc_disj e h q1 q2 c1 c2 v : R e h -> q1 <> q2 ->
  aget Nat.eqb q1 (cursors e) = Some c1 -> aget Nat.eqb q2 (cursors e) = Some c2 ->
  PQc c1 v = true -> PQc c2 v = false.
Proof.
  intros Rr N H1 H2 P1. unfold PQc in *.
  apply andb_true_iff in P1 as [Pv P1]. rewrite Pv. cbn [andb].
  destruct (R_dis _ _ Rr q1 q2 c1 c2 N H1 H2) as [No Na].
  destruct (R_dis _ _ Rr q2 q1 c2 c1 (not_eq_sym N) H2 H1) as [_ Na'].
  destruct (R_cur _ _ Rr q1 c1 H1) as [_ [U1 _]]. destruct (R_cur _ _ Rr q2 c2 H2) as [_ [U2 _]].
  apply orb_true_iff in P1 as [P1|P1].
  - apply Nat.eqb_eq in P1. apply orb_false_iff. split.
    + apply Nat.eqb_neq. lia.
    + destruct (argvar c2 v) eqn:A2; auto. destruct (U2 v A2) as [_ O]. lia.
  - destruct (U1 v P1) as [_ O]. apply orb_false_iff. split.
    + apply Nat.eqb_neq. lia.
    + apply Na. exact P1.
Qed.

Lemma PQ_of_disj e h : R e h -> forall q q' v, q <> q' -> PQ_of e q v = true -> PQ_of e q' v = false.
Proof.
  intros Rr q q' v N H. unfold PQ_of in *.
  destruct (aget Nat.eqb q (cursors e)) as [c|] eqn:E1; [|discriminate].
  destruct (aget Nat.eqb q' (cursors e)) as [c'|] eqn:E2; [|reflexivity].
  eapply PQc_disj; eauto.
Qed.

Lemma PQc_fresh c k : PQc c (ccell n i (cown c) k) = true.
Proof.
  unfold PQc. rewrite (P_ccell n i Hi), (owner_ccell n i _ _ Hi), Nat.eqb_refl. reflexivity.
Qed.

(* the invariant gives the hypothesis of the slot theorem, for the family read off the engine record *)
Theorem R_sinv e h : R e h -> sinv n i (PQ_of e) e h.
Proof.
  intros Rr. split.
  - intros q v t Hin HP. unfold PQ_of in *.
    destruct (aget Nat.eqb q (cursors e)) as [c|] eqn:Eq; [|discriminate].
    assert (Pv : Pe n i v = true) by (unfold PQc in HP; apply andb_true_iff in HP; tauto).
    destruct (R_heap _ _ Rr v t Hin Pv) as [q' [c' [Eq' Ht]]].
    destruct (Nat.eq_dec q' q) as [->|N].
    + rewrite Eq in Eq'. inversion Eq'; subst c'.
      destruct (R_cur _ _ Rr q c Eq) as [_ [_ [_ [_ G]]]]. exact (proj2 (G v t Ht)).
    + destruct (R_cur _ _ Rr q' c' Eq') as [_ [_ [_ [_ G]]]].
      pose proof (proj1 (G v t Ht)) as P'.
      rewrite (PQc_disj e h q' q c' c v Rr N Eq' Eq P') in HP. discriminate.
  - intros q c Eq. unfold PQ_of. rewrite Eq.
    destruct (R_cur _ _ Rr q c Eq) as [_ [_ G]]. split; [exact G|apply PQc_fresh].
Qed.

Lemma PQc_ext c c' : cown c' = cown c -> cargs c' = cargs c -> PQc c' = PQc c.
Proof. intros O A. unfold PQc, argvar. rewrite O, A. reflexivity. Qed.

(* ---------------------------------------------------------------- every operation keeps R *)
Lemma R_same_cursors e h e' : cursors e' = cursors e -> nstart e <= nstart e' -> R e h -> R e' h.
Proof.
  intros Ec Hn [A B C]. split; rewrite ?Ec; auto.
  intros q c H. destruct (A q c H) as [L X]. split; [lia|exact X].
Qed.

Lemma R_slot_step e h q c c' e' h' :
  R e h -> aget Nat.eqb q (cursors e) = Some c ->
  cursors e' = aset Nat.eqb q c' (cursors e) -> nstart e' = nstart e ->
  cown c' = cown c -> cargs c' = cargs c -> cgood (PQc c) c' -> hstep c h c' h' ->
  R e' h'.
Proof.
  intros Rr Eq Ec En Ow Ar G Hs.
  pose proof (PQc_ext c c' Ow Ar) as EP.
  split.
  - intros q0 c0 H. rewrite Ec in H. destruct (Nat.eq_dec q q0) as [<-|N].
    + rewrite aget_aset_eq in H. inversion H; subst c0.
      destruct (R_cur _ _ Rr q c Eq) as [L [U _]]. rewrite En, Ow, EP. unfold argvar in *. rewrite Ar.
      split; [exact L|]. split; [exact U|exact G].
    + rewrite aget_aset_neq in H by exact N. rewrite En. exact (R_cur _ _ Rr q0 c0 H).
  - intros q1 q2 c1 c2 N H1 H2. rewrite Ec in H1, H2.
    destruct (Nat.eq_dec q q1) as [<-|N1]; destruct (Nat.eq_dec q q2) as [<-|N2]; try congruence.
    + rewrite aget_aset_eq in H1. inversion H1; subst c1. rewrite aget_aset_neq in H2 by exact N2.
      unfold argvar. rewrite Ow, Ar. exact (R_dis _ _ Rr q q2 c c2 N Eq H2).
    + rewrite aget_aset_eq in H2. inversion H2; subst c2. rewrite aget_aset_neq in H1 by exact N1.
      unfold argvar. rewrite Ow, Ar. exact (R_dis _ _ Rr q1 q c1 c N H1 Eq).
    + rewrite aget_aset_neq in H1 by exact N1. rewrite aget_aset_neq in H2 by exact N2.
      exact (R_dis _ _ Rr q1 q2 c1 c2 N H1 H2).
  - intros v t Hin Pv. rewrite Ec.
    assert (Old : In (v, t) h -> ~ In v (map fst (ctrail c)) ->
                  exists q0 c0, aget Nat.eqb q0 (aset Nat.eqb q c' (cursors e)) = Some c0 /\ In (v, t) (ctrail c0)).
    { intros Hh Nn. destruct (R_heap _ _ Rr v t Hh Pv) as [q0 [c0 [E0 T0]]].
      destruct (Nat.eq_dec q q0) as [<-|N0].
      - rewrite Eq in E0. inversion E0; subst c0. exfalso. apply Nn. apply (in_map fst) in T0. exact T0.
      - exists q0, c0. rewrite aget_aset_neq by exact N0. auto. }
    destruct Hs as [[-> ->]|Hs].
    + destruct (R_heap _ _ Rr v t Hin Pv) as [q0 [c0 [E0 T0]]].
      destruct (Nat.eq_dec q q0) as [<-|N0].
      * rewrite Eq in E0. inversion E0; subst c0. exists q, c. rewrite aget_aset_eq. auto.
      * exists q0, c0. rewrite aget_aset_neq by exact N0. auto.
    + destruct (Hs v t Hin) as [T|[Hh Nn]]; [|auto].
      exists q, c'. rewrite aget_aset_eq. auto.
Qed.

Lemma R_qop fuel o q e h e' h' ob : slot_of o = Some q -> R e h ->
  estep fuel n i o e h = (e', h', ob) -> R e' h'.
Proof.
  intros So Rr E.
  destruct (aget Nat.eqb q (cursors e)) as [c|] eqn:Eq.
  - destruct (R_cur _ _ Rr q c Eq) as [_ [_ G]].
    assert (Hc : forall c0, aget Nat.eqb q (cursors e) = Some c0 ->
                 cgood (PQc c) c0 /\ forall k, PQc c (ccell n i (cown c0) k) = true).
    { intros c0 H0. rewrite Eq in H0. inversion H0; subst c0. split; [exact G|apply PQc_fresh]. }
    (* closedness of the heap for PQc c comes from R *)
    pose proof (R_sinv e h Rr) as [HC _]. specialize (HC q). unfold PQ_of in HC. rewrite Eq in HC.
    destruct (qop_frame (PQc c) n i fuel o q e h e' h' ob So HC Hc E) as [_ [_ [_ [_ [En M]]]]].
    rewrite Eq in M. destruct M as [c' [Ec [G' Ow]]].
    (* the shape of the step *)
    assert (Sh : cargs c' = cargs c /\ hstep c h c' h').
    { destruct o as [nm|app nm args|nm args|nm ar rows|ov script| |q0 nm args|q0|q0|q0|ts]; try discriminate;
        inversion So; subst q0; cbn [estep] in E; rewrite Eq in E.
      - destruct (cnext fuel (edb e) (ccell n i (cown c)) h c) as [[[[c1 h1] r] nm] d1] eqn:E1.
        destruct (cnext_shape _ _ _ _ _ _ _ _ _ _ E1) as [_ [A1 S1]].
        inversion E; subst. destruct e; simpl in Ec.
        assert (c1 = c') by (apply (f_equal (aget Nat.eqb q)) in Ec; rewrite !aget_aset_eq in Ec; congruence).
        subst. auto.
      - pose proof (cclose_shape h c) as [_ [A1 S1]]. destruct (cclose h c) as [c1 h1]. cbn [fst snd] in *.
        inversion E; subst. destruct e; simpl in Ec.
        assert (c1 = c') by (apply (f_equal (aget Nat.eqb q)) in Ec; rewrite !aget_aset_eq in Ec; congruence).
        subst. auto.
      - destruct (cdrain fuel fuel (edb e) (ccell n i (cown c)) h c [] []) as [[[[[c1 h1] answers] err] nm] d1] eqn:E1.
        destruct (cdrain_shape _ _ _ _ _ _ _ _ _ _ _ _ _ _ E1) as [_ [A1 S1]].
        inversion E; subst. destruct e; simpl in Ec.
        assert (c1 = c') by (apply (f_equal (aget Nat.eqb q)) in Ec; rewrite !aget_aset_eq in Ec; congruence).
        subst. auto. }
    destruct Sh as [Ar Hs]. eapply R_slot_step; eauto.
  - assert (Ee : e' = e /\ h' = h).
    { destruct o as [nm|app nm args|nm args|nm ar rows|ov script| |q0 nm args|q0|q0|q0|ts]; try discriminate;
        inversion So; subst q0; cbn [estep] in E; rewrite Eq in E; inversion E; auto. }
    destruct Ee as [-> ->]. exact Rr.
Qed.

Lemma R_start fuel q nm args e h e' h' ob : R e h -> start_ok e q args ->
  estep fuel n i (OStart q nm args) e h = (e', h', ob) -> R e' h'.
Proof.
  intros Rr Ok E. cbn [estep] in E.
  set (c0 := cstart (nstart e) nm (map (rn (ucell n i)) args)) in *.
  assert (Ec : cursors e' = aset Nat.eqb q c0 (cursors e) /\ nstart e' = S (nstart e)).
  { destruct (aget Nat.eqb q (cursors e)); inversion E; subst; destruct e; auto. }
  destruct Ec as [Ec En].
  assert (U0 : forall v, argvar c0 v = true -> Pe n i v = true /\ owner n v = 0).
  { intros v H. unfold argvar, c0 in H. cbn [cargs cstart] in H.
    destruct (occurs_rn_list _ _ _ H) as [k ->]. split; [apply (P_ucell n i Hi)|apply owner_ucell; exact Hi]. }
  assert (G0 : cgood (PQc c0) c0).
  { apply cstart_good'. apply Forall_forall. intros x Hx w Hw. unfold PQc.
    assert (A : argvar c0 w = true).
    { unfold argvar, c0. cbn [cargs cstart]. apply existsb_exists. exists x. auto. }
    rewrite A, (proj1 (U0 w A)), orb_true_r. reflexivity. }
  (* the heap: the generator that was in the slot is closed *)
  assert (Hh : forall v t, In (v, t) h' -> In (v, t) h /\
               forall c, aget Nat.eqb q (cursors e) = Some c -> ~ In v (map fst (ctrail c))).
  { intros v t H. destruct (aget Nat.eqb q (cursors e)) as [c|]; inversion E; subst.
    - unfold cclose in H. cbn [snd] in H. split; [eapply unbind_in; eauto|].
      intros c1 E1. inversion E1; subst. eapply unbind_notin; eauto.
    - split; [exact H|]. intros c1 E1. discriminate. }
  split.
  - intros q1 c1 H. rewrite Ec in H. rewrite En. destruct (Nat.eq_dec q q1) as [<-|N].
    + rewrite aget_aset_eq in H. inversion H; subst c1. split; [cbn; lia|]. split; [exact U0|exact G0].
    + rewrite aget_aset_neq in H by exact N. destruct (R_cur _ _ Rr q1 c1 H) as [L X]. split; [lia|exact X].
  - intros q1 q2 c1 c2 N H1 H2. rewrite Ec in H1, H2.
    destruct (Nat.eq_dec q q1) as [<-|N1]; destruct (Nat.eq_dec q q2) as [<-|N2]; try congruence.
    + rewrite aget_aset_eq in H1. inversion H1; subst c1. rewrite aget_aset_neq in H2 by exact N2.
      destruct (R_cur _ _ Rr q2 c2 H2) as [L _]. split; [cbn [cown c0 cstart]; lia|].
      intros v Hv. apply (Ok q2 c2 (not_eq_sym N) H2 v). exact Hv.
    + rewrite aget_aset_eq in H2. inversion H2; subst c2. rewrite aget_aset_neq in H1 by exact N1.
      destruct (R_cur _ _ Rr q1 c1 H1) as [L _]. split; [cbn [cown c0 cstart]; lia|].
      intros v Hv. destruct (argvar c0 v) eqn:A0; auto.
      rewrite (Ok q1 c1 N H1 v A0) in Hv. discriminate.
    + rewrite aget_aset_neq in H1 by exact N1. rewrite aget_aset_neq in H2 by exact N2.
      exact (R_dis _ _ Rr q1 q2 c1 c2 N H1 H2).
  - intros v t Hin Pv. destruct (Hh v t Hin) as [Hold Nn].
    destruct (R_heap _ _ Rr v t Hold Pv) as [q1 [c1 [E1 T1]]]. rewrite Ec.
    destruct (Nat.eq_dec q q1) as [<-|N].
    + exfalso. apply (Nn c1 E1). apply (in_map fst) in T1. exact T1.
    + exists q1, c1. rewrite aget_aset_neq by exact N. auto.
Qed.

Theorem R_step fuel o e h e' h' ob : R e h -> op_ok e o -> estep fuel n i o e h = (e', h', ob) -> R e' h'.
Proof.
  intros Rr Ok E.
  destruct o as [nm|app nm args|nm args|nm ar rows|ov script| |q nm args|q|q|q|ts].
  - cbn [estep] in E. inversion E; subst. apply (R_same_cursors e h'); auto; destruct e; cbn; auto.
  - cbn [estep] in E. inversion E; subst. apply (R_same_cursors e h'); auto; destruct e; cbn; auto.
  - cbn [estep] in E.
    destruct (retract_list h (ccell n i (nstart e)) (map (rn (ucell n i)) args) (find_facts (edb e) nm (length args)));
      inversion E; subst; auto. apply (R_same_cursors e h'); auto; destruct e; cbn; auto.
  - cbn [estep] in E. inversion E; subst. apply (R_same_cursors e h'); auto; destruct e; cbn; auto.
  - cbn [estep] in E. inversion E; subst. apply (R_same_cursors e h'); auto; destruct e; cbn; auto.
  - cbn [estep] in E. inversion E; subst. apply (R_same_cursors e h'); auto.
  - eapply R_start; eauto.
  - eapply (R_qop fuel (ONext q) q); eauto.
  - eapply (R_qop fuel (OClose q) q); eauto.
  - eapply (R_qop fuel (ODrain q) q); eauto.
  - cbn [estep] in E. inversion E; subst. exact Rr.
Qed.

Theorem R_run fuel : forall ops e h e' h' bs,
  R e h -> hist_ok fuel ops e h -> erun n i fuel ops e h = (e', h', bs) -> R e' h'.
Proof.
  induction ops as [|o r IH]; intros e h e' h' bs Rr Ok E; cbn [erun] in E.
  - inversion E; subst. exact Rr.
  - destruct Ok as [Oo Or].
    destruct (estep fuel n i o e h) as [[e1 h1] ob] eqn:E1. cbn [fst snd] in Or.
    destruct (erun n i fuel r e1 h1) as [[e2 h2] bs2] eqn:E2. inversion E; subst.
    apply (IH e1 h1 e' h' bs2); auto. apply (R_step fuel o e h e1 h1 ob); auto.
Qed.

Lemma R_init h : (forall v t, In (v, t) h -> Pe n i v = false) -> R init_engine h.
Proof.
  intros Hh. split.
  - intros q c H. discriminate.
  - intros q1 q2 c1 c2 _ H. discriminate.
  - intros v t Hin Pv. rewrite (Hh v t Hin) in Pv. discriminate.
Qed.

(* the property text: from a new engine, after ANY history in which queries are started over variables that do not
   occur in the other queries held at that moment, and for ANY sequence of next / close / drain operations on
   the slots: what is observed on slot q is what is observed when only the operations on q are run - provided the steps on
   q touch only the keys K of the fact store and the steps on the other slots write only keys outside K *)
Theorem disjoint_queries_alone_K K fuel pre ops e h bs0 q :
  hist_ok fuel pre init_engine [] -> erun n i fuel pre init_engine [] = (e, h, bs0) -> Forall qop ops ->
  foot_ok n i K q fuel ops e h ->
  pick q ops (snd (erun n i fuel ops e h))
  = snd (erun n i fuel (filter (is_slot q) ops) e (fP (PQ_of e q) h)).
Proof.
  intros Ok E F FO.
  assert (Rr : R e h).
  { eapply R_run; eauto. apply R_init. intros v t []. }
  apply (same_engine_slots_K n i (PQ_of e) (PQ_of_disj e h Rr) K); auto. apply R_sinv. exact Rr.
Qed.

(* read-only queries (no step writes the fact store): every slot at once *)
Theorem disjoint_queries_alone fuel pre ops e h bs0 q :
  hist_ok fuel pre init_engine [] -> erun n i fuel pre init_engine [] = (e, h, bs0) -> Forall qop ops ->
  nowrite n i fuel ops e h ->
  pick q ops (snd (erun n i fuel ops e h))
  = snd (erun n i fuel (filter (is_slot q) ops) e (fP (PQ_of e q) h)).
Proof.
  intros Ok E F NW. eapply disjoint_queries_alone_K; eauto. apply nowrite_foot. exact NW.
Qed.

End Reach.

(* ---------------------------------------------------------------- both halves together, in a world *)
Lemma erun_app n i fuel a : forall b e h,
  erun n i fuel (a ++ b) e h =
  let '(e1, h1, o1) := erun n i fuel a e h in
  let '(e2, h2, o2) := erun n i fuel b e1 h1 in (e2, h2, o1 ++ o2).
Proof.
  induction a as [|o r IH]; intros b e h; cbn [app erun].
  - destruct (erun n i fuel b e h) as [[e2 h2] o2]. reflexivity.
  - destruct (estep fuel n i o e h) as [[e1 h1] ob]. rewrite IH.
    destruct (erun n i fuel r e1 h1) as [[e2 h2] o2]. destruct (erun n i fuel b e2 h2) as [[e3 h3] o3]. reflexivity.
Qed.
Lemma erun_length n i fuel : forall a e h, length (snd (erun n i fuel a e h)) = length a.
Proof.
  induction a as [|o r IH]; intros e h; cbn [erun]; [reflexivity|].
  destruct (estep fuel n i o e h) as [[e1 h1] ob]. specialize (IH e1 h1).
  destruct (erun n i fuel r e1 h1) as [[e2 h2] o2]. cbn [snd length] in *. rewrite IH. reflexivity.
Qed.

(* any number of engines, ANY schedule; the operations of engine i are a history pre (queries started over variables
   not occurring in the other queries held) followed by next / close / drain operations ops, interleaved in any way
   with the operations of the other engines: what engine i observes on slot q during ops is what the slot shows when
   it is the only one advanced, in an engine that ran alone (footprint condition as above) *)
Theorem world_disjoint_queries_alone_K K fuel n i sched pre ops e h bs0 q : i < n ->
  map snd (only i sched) = pre ++ ops ->
  hist_ok n i fuel pre init_engine [] -> erun n i fuel pre init_engine [] = (e, h, bs0) -> Forall qop ops ->
  foot_ok n i K q fuel ops e h ->
  pick q ops (skipn (length pre) (proj i (snd (wrun fuel (init_world n) sched))))
  = snd (erun n i fuel (filter (is_slot q) ops) e (fP (PQ_of n i e q) h)).
Proof.
  intros Hi Es Ok E F FO.
  rewrite (interleave_alone_init fuel n sched i Hi), Es, erun_app, E.
  pose proof (erun_length n i fuel pre init_engine []) as L. rewrite E in L. cbn [snd] in L.
  destruct (erun n i fuel ops e h) as [[e2 h2] o2] eqn:E2. cbn [snd].
  rewrite <- L, skipn_app, Nat.sub_diag, skipn_all. cbn [skipn app].
  pose proof (disjoint_queries_alone_K n i Hi K fuel pre ops e h bs0 q Ok E F FO) as D.
  rewrite E2 in D. exact D.
Qed.

Theorem world_disjoint_queries_alone fuel n i sched pre ops e h bs0 q : i < n ->
  map snd (only i sched) = pre ++ ops ->
  hist_ok n i fuel pre init_engine [] -> erun n i fuel pre init_engine [] = (e, h, bs0) -> Forall qop ops ->
  nowrite n i fuel ops e h ->
  pick q ops (skipn (length pre) (proj i (snd (wrun fuel (init_world n) sched))))
  = snd (erun n i fuel (filter (is_slot q) ops) e (fP (PQ_of n i e q) h)).
Proof.
  intros Hi Es Ok E F NW. eapply world_disjoint_queries_alone_K; eauto. apply nowrite_foot. exact NW.
Qed.
