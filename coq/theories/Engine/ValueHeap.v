(* C15, object level: WHO OWNS the argument lists of a value that get_value hands out.

   The term-level model (GetValue.v) treats terms as values; the Python objects are mutable (a Functor has a
   `_args` list that `+=` can extend in place).  Here the engine's objects live on a heap of cells addressed by
   position (the position is the object's identity):

     OConst t          an Atom / int / str object (never written)
     OVar b            a Variable object: b = None (unbound) or Some r (_is_bound, _value = the object r)
     OFun f args       a Functor object: _name, _args = the list of the argument objects

   [gvh] is get_value / Variable.get_value / Functor.get_value on objects as engine.py has them now:
   Functor.get_value builds `Functor(self._name, [get_value(a) for a in self._args])` - a NEW object with a NEW
   list - and nothing else is written.

   Theorems: get_value writes no existing object ([gvh_extends]); every compound node of the value it returns is
   new, i.e. shares no Functor object / argument list with anything that existed before ([gvh_fresh]); the
   structure of a value (Variables by identity) is the same in every later heap that was reached without writing
   Functor or constant objects - binding and unbinding variables, allocating objects, further get_value calls
   ([shape_stable], [evolve_*]); extending an argument list in place is not such a step ([extend_in_place_breaks]).
   The harness (props/c15_prog.py Watch) checks the conclusions of [gvh_fresh] and [shape_stable] on the running
   implementation: retained values are re-rendered after every engine operation, and the ids of their Functor /
   `_args` objects are compared with those of all live objects. *)
From Coq Require Import String.
From Coq Require Import List Arith Bool Lia ZArith.
Import ListNotations.
From YP Require Import Base.Str Term.Term Engine.GetValue.
Set Implicit Arguments.

Inductive obj :=
| OConst (t : term)
| OVar (b : option nat)
| OFun (f : str) (args : list nat).

Definition heap := list obj.

(* [get_value(a) for a in args], threading the heap *)
Fixpoint mapH (g : heap -> nat -> option (nat * heap)) (l : list nat) (h : heap) : option (list nat * heap) :=
  match l with
  | [] => Some ([], h)
  | a :: l' => match g h a with
               | Some (ra, h1) => match mapH g l' h1 with
                                  | Some (rs, h2) => Some (ra :: rs, h2)
                                  | None => None
                                  end
               | None => None
               end
  end.

Fixpoint gvh (n : nat) (h : heap) (r : nat) {struct n} : option (nat * heap) :=
  match n with
  | 0 => None
  | S n' =>
      match nth_error h r with
      | Some (OVar (Some v)) => gvh n' h v
      | Some (OFun f args) =>
          match mapH (gvh n') args h with
          | Some (rs, h') => Some (length h', h' ++ [OFun f rs])
          | None => None
          end
      | Some _ => Some (r, h)
      | None => None
      end
  end.

(* every reference points into the heap *)
Definition wfh (h : heap) : Prop :=
  forall p, match nth_error h p with
            | Some (OVar (Some v)) => v < length h
            | Some (OFun _ args) => Forall (fun a => a < length h) args
            | _ => True
            end.

(* the Functor objects inside a value: bindings are NOT followed *)
Inductive fnode (h : heap) : nat -> nat -> Prop :=
| fn_here r f args : nth_error h r = Some (OFun f args) -> fnode h r r
| fn_arg r f args a p : nth_error h r = Some (OFun f args) -> In a args -> fnode h a p -> fnode h r p.

(* ------------------------------------------------------------------ get_value writes nothing *)

Lemma mapH_extends g l : (forall h a r h', In a l -> g h a = Some (r, h') -> exists ext, h' = h ++ ext) ->
  forall h rs h', mapH g l h = Some (rs, h') -> exists ext, h' = h ++ ext.
Proof.
  induction l as [|a l IH]; intros Hg h rs h' E; simpl in E.
  - injection E as <- <-. exists []. now rewrite app_nil_r.
  - destruct (g h a) as [[ra h1]|] eqn:Ea; [|discriminate].
    destruct (mapH g l h1) as [[rs' h2]|] eqn:El; [|discriminate]. injection E as <- <-.
    destruct (Hg h a ra h1 (or_introl eq_refl) Ea) as [e1 ->].
    destruct (IH (fun h0 a0 r0 h0' Hin => Hg h0 a0 r0 h0' (or_intror Hin)) _ _ _ El) as [e2 ->].
    exists (e1 ++ e2). now rewrite app_assoc.
Qed.

Theorem gvh_extends n : forall h r r' h', gvh n h r = Some (r', h') -> exists ext, h' = h ++ ext.
Proof.
  induction n as [|n IH]; intros h r r' h' E; [discriminate|]. cbn [gvh] in E.
  destruct (nth_error h r) as [[t|[v|]|f args]|] eqn:En; try discriminate.
  - injection E as <- <-. exists []. now rewrite app_nil_r.
  - eapply IH; eauto.
  - injection E as <- <-. exists []. now rewrite app_nil_r.
  - destruct (mapH (gvh n) args h) as [[rs h1]|] eqn:Em; [|discriminate]. injection E as <- <-.
    destruct (@mapH_extends (gvh n) args (fun h0 a r0 h0' _ => IH h0 a r0 h0') h rs h1 Em) as [e ->].
    exists (e ++ [OFun f rs]). now rewrite app_assoc.
Qed.

(* ------------------------------------------------------------------ the value is made of new objects *)

Lemma wfh_app h ext : wfh h -> (forall o, In o ext -> match o with
                                                     | OVar (Some v) => v < length h + length ext
                                                     | OFun _ args => Forall (fun a => a < length h + length ext) args
                                                     | _ => True end) -> wfh (h ++ ext).
Proof.
  intros W He p. rewrite app_length. destruct (lt_dec p (length h)) as [L|L].
  - rewrite nth_error_app1 by exact L. specialize (W p). destruct (nth_error h p) as [[t|[v|]|f args]|]; auto; try lia.
    eapply Forall_impl; [|exact W]. simpl; intros; lia.
  - rewrite nth_error_app2 by lia. destruct (nth_error ext (p - length h)) as [o|] eqn:E; [|exact I].
    apply nth_error_In in E. exact (He o E).
Qed.

Lemma fnode_ext h ext : wfh h -> forall r p, r < length h -> fnode (h ++ ext) r p -> fnode h r p.
Proof.
  intros W r p L F. induction F as [r f args E | r f args a p E Hin F IH].
  - rewrite nth_error_app1 in E by exact L. econstructor; eauto.
  - rewrite nth_error_app1 in E by exact L. pose proof (W r) as Wr. rewrite E in Wr.
    rewrite Forall_forall in Wr. eapply fn_arg; eauto.
Qed.

Definition fresh_result (h : heap) (r' : nat) (h' : heap) : Prop :=
  wfh h' /\ r' < length h' /\ length h <= length h' /\ forall p, fnode h' r' p -> length h <= p.

Lemma mapH_fresh g l : (forall h a r h', In a l -> wfh h -> a < length h -> g h a = Some (r, h') -> fresh_result h r h') ->
  (forall h a r h', In a l -> g h a = Some (r, h') -> exists ext, h' = h ++ ext) ->
  forall h rs h', wfh h -> Forall (fun a => a < length h) l -> mapH g l h = Some (rs, h') ->
    wfh h' /\ length h <= length h' /\ Forall (fun ra => ra < length h' /\ forall p, fnode h' ra p -> length h <= p) rs.
Proof.
  induction l as [|a l IH]; intros Hg Hx h rs h' W Fl E; simpl in E.
  - injection E as <- <-. auto.
  - destruct (g h a) as [[ra h1]|] eqn:Ea; [|discriminate].
    destruct (mapH g l h1) as [[rs' h2]|] eqn:El; [|discriminate]. injection E as <- <-.
    inversion Fl as [|a0 l0 La Fl']; subst.
    destruct (Hg h a ra h1 (or_introl eq_refl) W La Ea) as (W1 & L1 & Le1 & Fr1).
    assert (Fl1 : Forall (fun a => a < length h1) l) by (eapply Forall_impl; [|exact Fl']; simpl; intros; lia).
    destruct (IH (fun h0 a0 r0 h0' Hin => Hg h0 a0 r0 h0' (or_intror Hin))
                 (fun h0 a0 r0 h0' Hin => Hx h0 a0 r0 h0' (or_intror Hin)) _ _ _ W1 Fl1 El) as (W2 & Le2 & F2).
    destruct (@mapH_extends g l (fun h0 a0 r0 h0' Hin => Hx h0 a0 r0 h0' (or_intror Hin)) h1 rs' h2 El) as [e2 ->].
    split; [exact W2|]. split; [lia|]. constructor.
    + split; [rewrite app_length; lia|]. intros p Fp. apply Fr1. eapply fnode_ext; eauto.
    + eapply Forall_impl; [|exact F2]. simpl. intros r0 [Lr Fr]. split; [exact Lr|]. intros p Fp. specialize (Fr p Fp). lia.
Qed.

Theorem gvh_fresh n : forall h r r' h', wfh h -> r < length h -> gvh n h r = Some (r', h') -> fresh_result h r' h'.
Proof.
  induction n as [|n IH]; intros h r r' h' W L E; [discriminate|]. cbn [gvh] in E.
  destruct (nth_error h r) as [[t|[v|]|f args]|] eqn:En; try discriminate.
  - injection E as <- <-. repeat split; auto. intros p F. inversion F; congruence.
  - pose proof (W r) as Wr. rewrite En in Wr. eapply IH; eauto.
  - injection E as <- <-. repeat split; auto. intros p F. inversion F; congruence.
  - destruct (mapH (gvh n) args h) as [[rs h1]|] eqn:Em; [|discriminate]. injection E as <- <-.
    pose proof (W r) as Wr. rewrite En in Wr.
    destruct (@mapH_fresh (gvh n) args (fun h0 a r0 h0' _ => IH h0 a r0 h0') (fun h0 a r0 h0' _ => @gvh_extends n h0 a r0 h0') h rs h1 W Wr Em)
      as (W1 & Le1 & F1).
    assert (W2 : wfh (h1 ++ [OFun f rs])).
    { apply wfh_app; [exact W1|]. intros o [<-|[]]. simpl. eapply Forall_impl; [|exact F1]. simpl. intros a [La _]. lia. }
    split; [exact W2|]. split; [rewrite app_length; simpl; lia|]. split; [rewrite app_length; lia|].
    intros p F. inversion F as [r0 f0 args0 E0 | r0 f0 args0 a p0 E0 Hin Fa]; subst; [lia|].
    rewrite nth_error_app2 in E0 by lia. rewrite Nat.sub_diag in E0. simpl in E0. injection E0 as <- <-.
    rewrite Forall_forall in F1. destruct (F1 a Hin) as [La Fr]. apply Fr. eapply fnode_ext; eauto.
Qed.

(* ------------------------------------------------------------------ a value that was handed out stays the same *)

(* the structure of a value: Variables by identity, bindings not followed *)
Inductive val := VConst (t : term) | VRef (p : nat) | VFun (f : str) (l : list val).

Fixpoint shape (n : nat) (h : heap) (r : nat) : option val :=
  match n with
  | 0 => None
  | S n' => match nth_error h r with
            | Some (OConst t) => Some (VConst t)
            | Some (OVar _) => Some (VRef r)
            | Some (OFun f args) => match mapM (shape n' h) args with Some l => Some (VFun f l) | None => None end
            | None => None
            end
  end.

(* what the engine's operations do to the heap: objects are allocated, Variables are bound and unbound;
   Functor objects and constants are never written *)
Definition evolve (h h2 : heap) : Prop :=
  forall p o, nth_error h p = Some o ->
    match o with
    | OVar _ => exists b, nth_error h2 p = Some (OVar b)
    | _ => nth_error h2 p = Some o
    end.

Theorem shape_stable n : forall h h2 r v, evolve h h2 -> shape n h r = Some v -> shape n h2 r = Some v.
Proof.
  induction n as [|n IH]; intros h h2 r v Ev E; [discriminate|]. cbn [shape] in *.
  destruct (nth_error h r) as [[t|b|f args]|] eqn:En; try discriminate; pose proof (Ev r _ En) as Er; simpl in Er.
  - rewrite Er. exact E.
  - destruct Er as [b' ->]. exact E.
  - rewrite Er. destruct (mapM (shape n h) args) as [l|] eqn:Em; [|discriminate].
    erewrite mapM_weaken; [exact E | | exact Em]. intros x y _ Hx. eapply IH; eauto.
Qed.

Lemma evolve_refl h : evolve h h.
Proof. intros p o E. destruct o; eauto. Qed.

Lemma evolve_trans h1 h2 h3 : evolve h1 h2 -> evolve h2 h3 -> evolve h1 h3.
Proof.
  intros A B p o E. specialize (A p o E). destruct o as [t|b|f args].
  - exact (B p _ A).
  - destruct A as [b' A]. exact (B p _ A).
  - exact (B p _ A).
Qed.

Lemma evolve_app h ext : evolve h (h ++ ext).
Proof.
  intros p o E. assert (L : p < length h) by (apply nth_error_Some; congruence).
  rewrite nth_error_app1 by exact L. destruct o; eauto.
Qed.

Theorem gvh_evolve n h r r' h' : gvh n h r = Some (r', h') -> evolve h h'.
Proof. intros E. destruct (gvh_extends n h r E) as [ext ->]. apply evolve_app. Qed.

(* Variable.unify binding a variable / the finally clause unbinding it *)
Fixpoint set_nth (h : heap) (p : nat) (o : obj) : heap :=
  match h, p with
  | [], _ => []
  | _ :: r, 0 => o :: r
  | x :: r, S p' => x :: set_nth r p' o
  end.

Lemma nth_set_nth h : forall p q o, nth_error (set_nth h p o) q = if Nat.eqb p q then match nth_error h q with Some _ => Some o | None => None end else nth_error h q.
Proof.
  induction h as [|x h IH]; intros p q o.
  - simpl. destruct q; destruct (p =? _); reflexivity.
  - destruct p, q; simpl; auto.
Qed.

Theorem bind_evolve h p b b' : nth_error h p = Some (OVar b) -> evolve h (set_nth h p (OVar b')).
Proof.
  intros Ep q o E. rewrite nth_set_nth. destruct (Nat.eqb_spec p q) as [->|N].
  - rewrite E in *. injection Ep as ->. eauto.
  - rewrite E. destruct o; eauto.
Qed.

Theorem get_value_allocates_its_result n h r r' h' : wfh h -> r < length h -> gvh n h r = Some (r', h') ->
  (exists ext, h' = h ++ ext) /\ wfh h' /\ r' < length h' /\ forall p, fnode h' r' p -> length h <= p.
Proof.
  intros W L E. split; [eapply gvh_extends; eauto|]. destruct (gvh_fresh n W L E) as (A & B & _ & C). auto.
Qed.

Theorem engine_steps_evolve :
  (forall h, evolve h h) /\ (forall h1 h2 h3, evolve h1 h2 -> evolve h2 h3 -> evolve h1 h3) /\
  (forall h ext, evolve h (h ++ ext)) /\
  (forall n h r r' h', gvh n h r = Some (r', h') -> evolve h h') /\
  (forall h p b b', nth_error h p = Some (OVar b) -> evolve h (set_nth h p (OVar b'))).
Proof.
  split; [exact evolve_refl|]. split; [exact evolve_trans|]. split; [exact evolve_app|].
  split; [exact gvh_evolve | exact bind_evolve].
Qed.

(* the value get_value returned is read back unchanged after any further evolution *)
Corollary value_stays_valid n m h r r' h' h2 v :
  gvh n h r = Some (r', h') -> shape m h' r' = Some v -> evolve h' h2 -> shape m h2 r' = Some v.
Proof. intros _ S Ev. eapply shape_stable; eauto. Qed.

(* `goal_args += args` on the argument list of an object that is part of a value is NOT such a step *)
Definition extend_in_place (h : heap) (p : nat) (extra : list nat) : heap :=
  match nth_error h p with
  | Some (OFun f args) => set_nth h p (OFun f (args ++ extra))
  | _ => h
  end.

Example extend_in_place_breaks :
  let h := [OConst (TAtom (d "a")); OFun (d "p") [0]; OVar None] in
  shape 3 h 1 = Some (VFun (d "p") [VConst (TAtom (d "a"))]) /\
  shape 3 (extend_in_place h 1 [2]) 1 = Some (VFun (d "p") [VConst (TAtom (d "a")); VRef 2]) /\
  ~ evolve h (extend_in_place h 1 [2]).
Proof.
  split; [reflexivity|]. split; [reflexivity|]. intros Ev. specialize (Ev 1 _ eq_refl). discriminate Ev.
Qed.

(* non-vacuity: G = p(a) held in a variable; get_value(G) is a new Functor object, the stored one is untouched *)
Example gvh_example :
  let h := [OConst (TAtom (d "a")); OFun (d "p") [0]; OVar (Some 1)] in
  gvh 5 h 2 = Some (3, h ++ [OFun (d "p") [0]]) /\ wfh h.
Proof.
  split; [reflexivity|]. intros [|[|[|p]]]; simpl; auto. destruct p; exact I.
Qed.
