(* Several engine instances and ONE shared heap of variable cells (engine.py: class YP, class Variable).

   Per instance (YP.__init__, _set_default_eval_context, clear): the atom table _atom_store, the fact
   store _predicates_store : (name, arity) -> list of Answer, eval_context : '<name>_<arity>' / '<name>_n'
   -> function (here: the chain of definitions that chain_functions builds), eval_blacklist (reserved
   names).  Variables are NOT per instance: a Variable is a mutable cell; the heap below is the list of
   the cells that are bound right now with their values, newest binding first.  A suspended query
   generator is a cursor: a stack of frames (what is still to be tried, depth first), the bindings its
   current answer has made (they are in the heap while it is suspended, and are taken out again when it
   is resumed or closed: the try/finally of Variable.unify), and its allocation counter.

   What is followed literally: YP.query (after the repair of the late lookup): when the goal is reached (first
   resumption of the call) the blacklist test and the lookup in eval_context under '<name>_<arity>', else
   '<name>_n', are done and atom(name) and the facts of (name, arity) are taken as they are AT THAT MOMENT
   (copy-on-write lists: a snapshot); the facts are matched first, then the function found at the start is run,
   whatever was loaded / registered / cleared in between; Answer.match = unify_arrays of the goal arguments with a copy of the fact that has new
   variables; a compiled function tries its clauses in order; dereferencing goes through the whole
   shared heap (Unify.unify on  own bindings ++ everything else that is bound; written unify_arrays2 / den2,
   which are proved equal to Unify.unify_arrays / Term.den in Engine/Deref.v and evaluate faster).
   The database builtins asserta/1, assertz/1, retract/1, retractall/1 are run as the code runs them (YP.asserta,
   assertz, retract, retractall after the repairs D3-D5, D14, D15; the same algorithm as Engine/DbProg.v, whose
   definitions fact / ins / has_id / del_id / callable of Engine/Db.v are reused): the argument is dereferenced; a compound
   term gives (name, args), an atom (name, []), anything else stores nothing (assert: succeeds; retract(all): fails);
   the stored arguments are a fully dereferenced copy with variables of its own (Answer.__init__ = copy_term; canonical
   variables 0..k-1 here, renamed at every match); every update builds a new list and publishes it under the key
   (copy-on-write: the lists held by frames of suspended calls are snapshots); an Answer object has an identity
   (fid); retract walks the snapshot taken when it was called and, for every fact that matches, removes THAT object
   from the list that is current then, if it is still there, and runs the rest of the body with the bindings of the
   match; retractall is one pass.  Database writes are never undone by backtracking: the fact store and the counter
   of the facts created by the generator are threaded through the search in execution order.  Every read and write of
   the fact store is entered in a log (key read / written), from which the atoms the code interns are taken and in
   which the footprint of a generator step can be read off (Engine/SlotsWrite.v).
   What is abstracted: a compiled clause is (head arguments, list of goals) - conjunctions of calls
   only, head unification done with unify_arrays on a renamed copy (the compiler's aliasing of head
   variables is C01's business); the atoms a clause body creates while running are not entered into
   the atom table (not observable: atom() is idempotent until clear); a new cell gets the name
   (engine, number of the query, counter) and a new Answer the identity (number of the query, counter), so that
   allocation does not depend on the schedule; a definition chained (overwrite=False) onto one of the four database
   builtins is outside the model (error 3). *)
From Coq Require Import String.
From Coq Require Import List Arith Bool Lia ZArith NArith Cantor.
Import ListNotations.
From YP Require Import Base.Str Term.Term Term.Show Unify.Unify Engine.Deref Engine.Db.
Local Open Scope string_scope.
Local Open Scope list_scope.

(* ---------------------------------------------------------------- cells *)
(* In a world of n engines the cell number  m * n + e  belongs to engine e; m is the Cantor code of
   (0, u) for the u-th variable the user of that engine created, and of (S c, k) for the k-th
   variable allocated by the c-th query/update the engine started. *)
Definition cell (n e m : nat) : nat := m * n + e.
Definition eng_of (n v : nat) : nat := v mod n.
Definition owner (n v : nat) : nat := fst (Cantor.of_nat (v / n)).
Definition ucell (n e u : nat) : nat := cell n e (Cantor.to_nat (0, u)).
Definition ccell (n e c k : nat) : nat := cell n e (Cantor.to_nat (S c, k)).

Lemma eng_of_cell n e m : e < n -> eng_of n (cell n e m) = e.
Proof.
  intros H. unfold eng_of, cell. rewrite Nat.add_comm, Nat.mod_add by lia. apply Nat.mod_small; exact H.
Qed.
Lemma owner_ucell n e u : e < n -> owner n (ucell n e u) = 0.
Proof.
  intros H. unfold owner, ucell, cell. rewrite Nat.div_add_l by lia.
  rewrite (Nat.div_small e n H), Nat.add_0_r, Cantor.cancel_of_to. reflexivity.
Qed.
Lemma owner_ccell n e c k : e < n -> owner n (ccell n e c k) = S c.
Proof.
  intros H. unfold owner, ccell, cell. rewrite Nat.div_add_l by lia.
  rewrite (Nat.div_small e n H), Nat.add_0_r, Cantor.cancel_of_to. reflexivity.
Qed.

(* ---------------------------------------------------------------- terms: renaming, canonical copies *)
Fixpoint rn (f : nat -> nat) (t : term) : term :=
  match t with
  | TVar v => TVar (f v)
  | TFun g args => TFun g (map (rn f) args)
  | _ => t
  end.

(* 1 + the largest variable index (facts and clauses are kept with variables 0..k-1) *)
Fixpoint tmax (t : term) : nat :=
  match t with
  | TVar v => S v
  | TFun _ args => fold_right Nat.max 0 (map tmax args)
  | _ => 0
  end.
Definition lmax (l : list term) : nat := fold_right Nat.max 0 (map tmax l).

Fixpoint index_of (v : nat) (m : list nat) : option nat :=
  match m with
  | [] => None
  | w :: r => if Nat.eqb v w then Some 0 else option_map S (index_of v r)
  end.

(* copy_term with a mapping: variables renamed 0,1,.. in order of first occurrence *)
Fixpoint canon_t (m : list nat) (t : term) : list nat * term :=
  match t with
  | TVar v => match index_of v m with
              | Some i => (m, TVar i)
              | None => (m ++ [v], TVar (length m))
              end
  | TFun f args =>
      let '(m', args') :=
        (fix go (m : list nat) (l : list term) : list nat * list term :=
           match l with
           | [] => (m, [])
           | x :: r => let '(m1, x') := canon_t m x in
                       let '(m2, r') := go m1 r in (m2, x' :: r')
           end) m args in
      (m', TFun f args')
  | _ => (m, t)
  end.
Fixpoint canon_l (m : list nat) (l : list term) : list nat * list term :=
  match l with
  | [] => (m, [])
  | x :: r => let '(m1, x') := canon_t m x in
              let '(m2, r') := canon_l m1 r in (m2, x' :: r')
  end.
Definition canon (l : list term) : list term := snd (canon_l [] l).

(* ---------------------------------------------------------------- per-engine dictionaries *)
Definition goal := (str * list term)%type.
Definition clause := (list term * list goal)%type.           (* head arguments, body goals *)
Inductive dbop := BAssert (append : bool) | BRetract | BRetractAll.
Inductive metaop := MNeq | MCall | MOnce | MFindall.    (* builtin_neq, YP.call, YP.once, YP.findall *)
Inductive defn := DClauses (cls : list clause) | DDb (b : dbop) | DMeta (b : metaop) | DOther.  (* DOther: a definition the model does not run *)

Definition gmax (g : goal) : nat := lmax (snd g).
Definition clmax (c : clause) : nat := Nat.max (lmax (fst c)) (fold_right Nat.max 0 (map gmax (snd c))).
Definition rn_goal (f : nat -> nat) (g : goal) : goal := (fst g, map (rn f) (snd g)).
Definition rn_clause (f : nat -> nat) (c : clause) : clause := (map (rn f) (fst c), map (rn_goal f) (snd c)).

Definition fkey := (str * nat)%type.
Definition fkey_eqb (a b : fkey) : bool := str_eqb (fst a) (fst b) && Nat.eqb (snd a) (snd b).

Section Assoc.
  Context {K V : Type} (eqb : K -> K -> bool).
  Fixpoint aget (k : K) (l : list (K * V)) : option V :=
    match l with [] => None | (k', v) :: r => if eqb k k' then Some v else aget k r end.
  Fixpoint aset (k : K) (v : V) (l : list (K * V)) : list (K * V) :=
    match l with
    | [] => [(k, v)]
    | (k', v') :: r => if eqb k k' then (k, v) :: r else (k', v') :: aset k v r
    end.
End Assoc.

Record db := mkdb {
  facts : list (fkey * list fact);            (* _predicates_store; Db.fact = (identity of the Answer object, stored arguments) *)
  ctx : list (str * list defn);               (* eval_context: key -> chain of definitions *)
  reserved : list str;                        (* eval_blacklist *)
  nfid : nat }.                               (* Answer objects created by the caller's own assert operations so far *)

(* identities of Answer objects: (0, k) the k-th fact asserted by an operation of the caller, (S c, k) the k-th
   fact asserted by the c-th query the engine started *)
Definition ufid (k : nat) : nat := Cantor.to_nat (0, k).
Definition qfid (c k : nat) : nat := Cantor.to_nat (S c, k).

Definition key_fixed (nm : str) (ar : nat) : str := nm ++ 95%N :: dec_of_nat ar.
Definition key_var (nm : str) : str := nm ++ [95%N; 110%N].
Definition ctx_key (nm : str) (ar : option nat) : str :=
  match ar with Some k => key_fixed nm k | None => key_var nm end.

Definition find_facts (d : db) (nm : str) (ar : nat) : list fact :=
  match aget fkey_eqb (nm, ar) (facts d) with Some l => l | None => [] end.
(* _update_predicate: publish a new list under the key *)
Definition set_facts (k : fkey) (l : list fact) (d : db) : db :=
  mkdb (aset fkey_eqb k l (facts d)) (ctx d) (reserved d) (nfid d).

(* YP.query, second half *)
Definition find_function (d : db) (nm : str) (ar : nat) : option (list defn) :=
  if existsb (str_eqb nm) (reserved d) then None
  else match aget str_eqb (key_fixed nm ar) (ctx d) with
       | Some f => Some f
       | None => aget str_eqb (key_var nm) (ctx d)
       end.

Definition reserved_names : list str :=
  map of_string ["__builtins__"; "variable"; "atom"; "functor"; "functor1"; "functor2"; "functor3";
                 "listpair"; "makelist"; "ATOM_NIL"; "unify"; "match_dynamic"; "query"; "True"; "False"].

(* _set_builtin_predicates: '=' is  X = X ; the four database builtins; the others are outside this model *)
Definition builtin_ctx : list (str * list defn) :=
  [ (key_fixed (of_string "=") 2, [DClauses [ ([TVar 0; TVar 0], []) ] ]);
    (key_fixed [92%N; 61%N] 2, [DMeta MNeq]);
    (key_fixed (of_string "findall") 3, [DMeta MFindall]);
    (key_var (of_string "call"), [DMeta MCall]);
    (key_fixed (of_string "once") 1, [DMeta MOnce]);
    (key_fixed (of_string "assertz") 1, [DDb (BAssert true)]);
    (key_fixed (of_string "asserta") 1, [DDb (BAssert false)]);
    (key_fixed (of_string "retract") 1, [DDb BRetract]);
    (key_fixed (of_string "retractall") 1, [DDb BRetractAll]) ].

(* ---------------------------------------------------------------- cursors = suspended query generators *)
Inductive frame :=      (* tr: the bindings this query has made on the path to the frame; cnt: cells in use there *)
| FGoals (tr : store) (cnt : nat) (gs : list goal)                                     (* continue with these goals *)
| FFact (tr : store) (cnt : nat) (args : list term) (f : list term) (rest : list goal) (* next clause of a fact snapshot *)
| FFun (tr : store) (cnt : nat) (fn : option (list defn)) (args : list term) (rest : list goal) (* after the facts: the function that was looked up when the call started *)
| FClause (tr : store) (cnt : nat) (args : list term) (cl : clause) (rest : list goal) (* next clause of a called function *)
| FRet (tr : store) (cnt : nat) (nm : str) (args : list term) (f : fact) (rest : list goal) (* YP.retract: next Answer of its snapshot *)
| FBar                                                   (* YP.once: everything above belongs to the goal of the once *)
| FNeg (tr : store) (cnt : nat) (rest : list goal)       (* builtin_neq: reached when  query('=', [X, Y])  had no solution *)
| FColl (tr : store) (cnt : nat) (bag : term) (acc : list term) (nc : nat) (rest : list goal).
   (* YP.findall: reached when the goal is exhausted; acc = the copies of the template made so far (newest first), nc = the
      cells these copies use: the i-th new variable of the next copy is cell  fresh (cnt + nc + i)  of this generator *)

Record cursor := mkcur {
  cown : nat;             (* number of the query: names the cells it allocates and the facts it asserts *)
  cargs : list term;      (* the argument terms of the query: the answer is read from them *)
  cfr : list frame;       (* what is still to be tried; [] = finished or closed *)
  ctrail : store;         (* the bindings of the current answer (they are in the heap) *)
  cnf : nat }.            (* facts asserted by this generator so far *)

(* the log of a generator step: every access to the fact store.  ewr: the list under the key was replaced;
   eint: the code calls self.atom(name) at this point (the atom is interned) *)
Record ev := mkev { ewr : bool; eint : bool; ekey : fkey }.
Definition names_of (lg : list ev) : list str := map (fun e => fst (ekey e)) (filter eint lg).

(* what the search threads through in execution order: fact store, number of facts created, stack, log *)
Record mstate := mkms { mdb : db; mnf : nat; mfr : list frame; mlog : list ev }.

Inductive sres :=
| SAns (tr : store) (m : mstate)
| SDone (m : mstate)
| SErr (code : nat) (m : mstate). (* 0 search fuel, 1 unify fuel, 2/9 cyclic (unspecified), 3 definition outside the model, 4 call of a term that is not callable (the code raises) *)

Definition UF : nat := 300.     (* fuel handed to Unify.unify_arrays *)

(* the bindings made on top of  tr ++ h0  plus tr: everything above h0 *)
Definition strip (s' h0 : store) : store := firstn (length s' - length h0) s'.

Definition clauses_of (ds : list defn) : option (list clause) :=
  fold_right (fun d acc => match d, acc with
                           | DClauses c, Some r => Some (c ++ r)
                           | _, _ => None end) (Some []) ds.
Definition db_builtin (ds : list defn) : option dbop :=
  match ds with [DDb b] => Some b | _ => None end.

(* which facts stay: Answer.match for each, bindings undone after each (retractall; retract run to exhaustion) *)
Fixpoint retract_list (h : store) (fresh : nat -> nat) (args : list term) (fs : list fact)
  : option (list fact) :=
  match fs with
  | [] => Some []
  | f :: r =>
      match unify_arrays2 UF h args (map (rn fresh) (fargs f)), retract_list h fresh args r with
      | UOk _, Some r' => Some r'
      | UFail, Some r' => Some (f :: r')
      | _, _ => None
      end
  end.

Inductive kres := KGo (m : mstate) | KAns (tr : store) (m : mstate) | KDone | KErr (code : nat) (m : mstate).

(* ---- the meta-call builtins  \= /2, call/N, once/1, findall/3  (engine.py: builtin_neq, YP.call, YP.once, YP.findall).
   They run a goal through self.query and do something when it succeeds: the goal is put on the goal list followed by a
   CONTROL GOAL (a name no script can contain: one code point 0, 1 or 2), and a frame below the goal's alternatives says where
   the construct began:
     once(G)        G, cut_mark  above FBar:  cut_mark drops the remaining alternatives of G (down to and including the nearest
                    FBar = the `break` of YP.once, which closes the generator of the goal) and goes on with the body;
     X \= Y         '='(X, Y), neg_mark  above FNeg:  neg_mark drops everything down to and including the nearest FNeg and
                    fails (the bindings of the solution are undone: they live in the dropped frame); FNeg on top of the stack
                    = no solution = succeed once with the bindings of the call;
     findall(T,G,B) G, coll_mark(T)  above FColl:  coll_mark puts copy_term(T) (full dereference, new variables) into the nearest
                    FColl and fails; FColl on top = G exhausted: unify(B, makelist(copies)).
   A construct has left the stack before the control goal of an enclosing construct can run, so the nearest frame of the kind
   is the right one.  call(G, A..) = self.query(name of G, args of G ++ A..).  A goal that is not callable makes YP.call raise
   (UnboundLocalError): model error 4. *)
Inductive mres := MGo (fr : list frame) | MErr (code : nat).
Definition lift_m (m : mstate) (x : mres) : kres :=
  match x with MGo fr => KGo (mkms (mdb m) (mnf m) fr (mlog m)) | MErr k => KErr k m end.

Definition cut_mark : str := [0%N].
Definition neg_mark : str := [1%N].
Definition coll_mark : str := [2%N].
Definition is_bar (f : frame) : bool := match f with FBar => true | _ => false end.
Definition is_neg (f : frame) : bool := match f with FNeg _ _ _ => true | _ => false end.
Fixpoint cut_to (p : frame -> bool) (r : list frame) : list frame :=
  match r with [] => [] | f :: r' => if p f then r' else cut_to p r' end.
(* results.append(copy_term(template, {})) *)
Fixpoint collect_into (fresh : nat -> nat) (t' : term) (r : list frame) : list frame :=
  match r with
  | [] => []
  | FColl tr cnt bag acc nc gs :: r' =>
      let c := canon [t'] in
      FColl tr cnt bag (map (rn (fun i => fresh (cnt + nc + i))) c ++ acc) (nc + lmax c) gs :: r'
  | f :: r' => f :: collect_into fresh t' r'
  end.
(* YP.makelist *)
Fixpoint mk_list (l : list term) : term :=
  match l with [] => TAtom (of_string "[]") | x :: r => TFun (of_string ".") [x; mk_list r] end.

Definition ctl_goal (h0 : store) (fresh : nat -> nat) (tr : store) (cnt : nat) (nm : str) (args : list term)
    (gs : list goal) (r : list frame) : option mres :=
  if str_eqb nm cut_mark then Some (MGo (FGoals tr cnt gs :: cut_to is_bar r))
  else if str_eqb nm neg_mark then Some (MGo (cut_to is_neg r))
  else if str_eqb nm coll_mark then
    Some (MGo (match args with [t] => collect_into fresh (den2 (tr ++ h0) t) r | _ => r end))
  else None.

Definition metastep (h0 : store) (b : metaop) (tr : store) (cnt : nat) (args : list term) (gs : list goal)
    (r : list frame) : mres :=
  match b, args with
  | MNeq, [x; y] => MGo (FGoals tr cnt [(of_string "=", [x; y]); (neg_mark, [])] :: FNeg tr cnt gs :: r)
  | MCall, g :: extra =>
      match callable (den2 (tr ++ h0) g) with
      | Some (nm, fa) => MGo (FGoals tr cnt ((nm, fa ++ extra) :: gs) :: r)
      | None => MErr 4
      end
  | MOnce, [g] =>
      match callable (den2 (tr ++ h0) g) with
      | Some (nm, fa) => MGo (FGoals tr cnt ((nm, fa) :: (cut_mark, []) :: gs) :: FBar :: r)
      | None => MErr 4
      end
  | MFindall, [t; g; bag] =>
      match callable (den2 (tr ++ h0) g) with
      | Some (nm, fa) => MGo (FGoals tr cnt [(nm, fa); (coll_mark, [t])] :: FColl tr cnt bag [] 0 gs :: r)
      | None => MErr 4
      end
  | _, _ => MErr 3
  end.

Definition coll_finish (h0 : store) (tr : store) (cnt : nat) (bag : term) (acc : list term) (nc : nat)
    (gs : list goal) (r : list frame) : mres :=
  match unify_arrays2 UF (tr ++ h0) [bag] [mk_list (rev acc)] with
  | UOk s' => MGo (FGoals (strip s' h0) (cnt + nc) gs :: r)
  | UFail => MGo r
  | UOof => MErr 1
  | UCyc => MErr 2
  end.
Definition meta_builtin (ds : list defn) : option metaop :=
  match ds with [DMeta b] => Some b | _ => None end.

Definition is_fun (t : term) : bool := match t with TFun _ _ => true | _ => false end.

(* one of the four database builtins called with the argument t under the bindings tr (YP.asserta / assertz / retract /
   retractall); r = the rest of the stack, gs = the rest of the body *)
Definition dbstep (h0 : store) (fresh newid : nat -> nat) (m : mstate) (b : dbop)
    (tr : store) (cnt : nat) (t : term) (gs : list goal) (r : list frame) : kres :=
  let d := mdb m in
  let t' := den2 (tr ++ h0) t in
  match b with
  | BAssert append =>
      match callable t' with
      | None => KGo (mkms d (mnf m) (FGoals tr cnt gs :: r) (mlog m))
      | Some (nm, fa) =>
          let k := (nm, length fa) in
          let f := mkfact (newid (mnf m)) (canon fa) in
          KGo (mkms (set_facts k (ins (negb append) f (find_facts d nm (length fa))) d) (S (mnf m))
                    (FGoals tr cnt gs :: r) (mkev true (is_fun t') k :: mlog m))
      end
  | BRetract =>
      match callable t' with
      | None => KGo (mkms d (mnf m) r (mlog m))
      | Some (nm, fa) =>
          KGo (mkms d (mnf m) (map (fun f => FRet tr cnt nm fa f gs) (find_facts d nm (length fa)) ++ r)
                    (mkev false false (nm, length fa) :: mlog m))
      end
  | BRetractAll =>
      match callable t' with
      | None => KGo (mkms d (mnf m) r (mlog m))
      | Some (nm, fa) =>
          match retract_list (tr ++ h0) (fun i => fresh (cnt + i)) fa (find_facts d nm (length fa)) with
          | None => KErr 9 (mkms d (mnf m) (mfr m) (mkev false false (nm, length fa) :: mlog m))
          | Some keep =>
              KGo (mkms (set_facts (nm, length fa) keep d) (mnf m) (FGoals tr cnt gs :: r)
                        (mkev true true (nm, length fa) :: mlog m))
          end
      end
  end.

(* one step of the resumed generator.  Cells allocated on a branch that has been left are unreachable (their
   Variable objects are gone), so the counter is per frame: the k-th cell in use on the current path has index k. *)
Definition sstep (h0 : store) (fresh newid : nat -> nat) (m : mstate) : kres :=
  let d := mdb m in
  match mfr m with
  | [] => KDone
  | FGoals tr cnt [] :: r => KAns tr (mkms d (mnf m) r (mlog m))
  | FGoals tr cnt ((nm, args) :: gs) :: r =>
      match ctl_goal h0 fresh tr cnt nm args gs r with
      | Some x => lift_m m x
      | None =>
      KGo (mkms d (mnf m)
                (map (fun f => FFact tr cnt args (fargs f) gs) (find_facts d nm (length args))
                   ++ FFun tr cnt (find_function d nm (length args)) args gs :: r)
                (mkev false true (nm, length args) :: mlog m))
      end
  | FFact tr cnt args f gs :: r =>
      let f' := map (rn (fun i => fresh (cnt + i))) f in
      match unify_arrays2 UF (tr ++ h0) args f' with
      | UOk s' => KGo (mkms d (mnf m) (FGoals (strip s' h0) (cnt + lmax f) gs :: r) (mlog m))
      | UFail => KGo (mkms d (mnf m) r (mlog m))
      | UOof => KErr 1 m
      | UCyc => KErr 2 m
      end
  | FFun tr cnt fn args gs :: r =>
      match fn with
      | None => KGo (mkms d (mnf m) r (mlog m))
      | Some ds =>
          match meta_builtin ds with
          | Some mb => lift_m m (metastep h0 mb tr cnt args gs r)
          | None =>
          match db_builtin ds with
          | Some b =>
              match args with
              | [t] => dbstep h0 fresh newid m b tr cnt t gs r
              | _ => KErr 3 m
              end
          | None =>
              match clauses_of ds with
              | None => KErr 3 m
              | Some cls => KGo (mkms d (mnf m) (map (fun c => FClause tr cnt args c gs) cls ++ r) (mlog m))
              end
          end
          end
      end
  | FClause tr cnt args cl gs :: r =>
      let cl' := rn_clause (fun i => fresh (cnt + i)) cl in
      match unify_arrays2 UF (tr ++ h0) args (fst cl') with
      | UOk s' => KGo (mkms d (mnf m) (FGoals (strip s' h0) (cnt + clmax cl) (snd cl' ++ gs) :: r) (mlog m))
      | UFail => KGo (mkms d (mnf m) r (mlog m))
      | UOof => KErr 1 m
      | UCyc => KErr 2 m
      end
  | FRet tr cnt nm args f gs :: r =>
      let f' := map (rn (fun i => fresh (cnt + i))) (fargs f) in
      match unify_arrays2 UF (tr ++ h0) args f' with
      | UOk s' =>
          let cur := find_facts d nm (length args) in
          if has_id (fid f) cur
          then KGo (mkms (set_facts (nm, length args) (del_id (fid f) cur) d) (mnf m)
                         (FGoals (strip s' h0) (cnt + lmax (fargs f)) gs :: r)
                         (mkev true true (nm, length args) :: mlog m))
          else KGo (mkms d (mnf m) r (mkev false false (nm, length args) :: mlog m))
      | UFail => KGo (mkms d (mnf m) r (mlog m))
      | UOof => KErr 1 m
      | UCyc => KErr 2 m
      end
  | FBar :: r => lift_m m (MGo r)
  | FNeg tr cnt gs :: r => lift_m m (MGo (FGoals tr cnt gs :: r))
  | FColl tr cnt bag acc nc gs :: r => lift_m m (coll_finish h0 tr cnt bag acc nc gs r)
  end.

(* resume the generator: depth first, until the next yield *)
Fixpoint search (fuel : nat) (h0 : store) (fresh newid : nat -> nat) (m : mstate) : sres :=
  match fuel with
  | O => SErr 0 m
  | S fuel =>
      match sstep h0 fresh newid m with
      | KGo m' => search fuel h0 fresh newid m'
      | KAns tr m' => SAns tr m'
      | KDone => SDone m
      | KErr k m' => SErr k m'
      end
  end.

(* the finally-blocks of the suspended unify generators of this cursor: its cells become unbound *)
Definition unbind (tr h : store) : store :=
  filter (fun e => negb (existsb (Nat.eqb (fst e)) (map fst tr))) h.

Inductive cres := RAns (vals : list term) | RDone | RErr (code : nat).

(* next(generator): new generator, new heap, result, log, new fact store.  A step that ends in a model error leaves
   everything as it was (such cases are outside the comparison) *)
Definition cnext (fuel : nat) (d : db) (fresh : nat -> nat) (h : store) (c : cursor)
  : cursor * store * cres * list ev * db :=
  let h0 := unbind (ctrail c) h in
  match search fuel h0 fresh (qfid (cown c)) (mkms d (cnf c) (cfr c) []) with
  | SAns tr m =>
      (mkcur (cown c) (cargs c) (mfr m) tr (mnf m), tr ++ h0, RAns (map (den2 (tr ++ h0)) (cargs c)), mlog m, mdb m)
  | SDone m => (mkcur (cown c) (cargs c) [] [] (mnf m), h0, RDone, mlog m, mdb m)
  | SErr k m => (c, h, RErr k, mlog m, d)
  end.

Definition cclose (h : store) (c : cursor) : cursor * store :=
  (mkcur (cown c) (cargs c) [] [] (cnf c), unbind (ctrail c) h).

Definition cstart (ow : nat) (nm : str) (args : list term) : cursor :=
  mkcur ow args [FGoals [] 0 [(nm, args)]] [] 0.

(* run to exhaustion, collecting the answers *)
Fixpoint cdrain (n fuel : nat) (d : db) (fresh : nat -> nat) (h : store) (c : cursor) (acc : list (list term)) (lg : list ev)
  : cursor * store * list (list term) * option nat * list ev * db :=
  match n with
  | O => (c, h, rev acc, Some 0, lg, d)
  | S n =>
      match cnext fuel d fresh h c with
      | (c', h', RAns vals, l1, d') => cdrain n fuel d' fresh h' c' (vals :: acc) (l1 ++ lg)
      | (c', h', RDone, l1, d') => (c', h', rev acc, None, l1 ++ lg, d')
      | (c', h', RErr k, l1, d') => (c', h', rev acc, Some (S k), l1 ++ lg, d')
      end
  end.

(* ---------------------------------------------------------------- one engine *)
Record engine := mkeng {
  atoms : list (str * nat);      (* _atom_store: name -> identity of the Atom object *)
  natom : nat;                   (* Atom objects created so far *)
  edb : db;
  cursors : list (nat * cursor); (* the generators the caller holds, by slot *)
  nstart : nat }.                (* queries / updates started so far (for owner tags) *)

Definition init_engine : engine :=
  mkeng [(of_string "[]", 0)] 1 (mkdb [] builtin_ctx reserved_names 0) [] 0.

(* YP.atom: setdefault *)
Definition intern (nm : str) (a : list (str * nat) * nat) : list (str * nat) * nat :=
  match aget str_eqb nm (fst a) with
  | Some _ => a
  | None => (fst a ++ [(nm, snd a)], S (snd a))
  end.
Definition intern_all (names : list str) (a : list (str * nat) * nat) := fold_right intern a names.

Definition with_atoms (e : engine) (a : list (str * nat) * nat) : engine :=
  mkeng (fst a) (snd a) (edb e) (cursors e) (nstart e).
Definition with_db (e : engine) (d : db) : engine := mkeng (atoms e) (natom e) d (cursors e) (nstart e).
Definition with_cursors (e : engine) (cs : list (nat * cursor)) : engine :=
  mkeng (atoms e) (natom e) (edb e) cs (nstart e).
Definition bump (e : engine) : engine := mkeng (atoms e) (natom e) (edb e) (cursors e) (S (nstart e)).

Inductive op :=
| OAtom (nm : str)
| OAssert (append : bool) (nm : str) (args : list term)     (* assert_fact / assertz / asserta *)
| ORetract (nm : str) (args : list term)                     (* retract run to exhaustion, or retractall *)
| ORegister (nm : str) (ar : option nat) (rows : list (list term))
| OLoad (overwrite : bool) (script : list (str * nat * list clause))
| OClear
| OStart (q : nat) (nm : str) (args : list term)
| ONext (q : nat)
| OClose (q : nat)                                           (* close() or dropping the generator *)
| ODrain (q : nat)
| OPeek (ts : list term).                                     (* get_value of terms over the user's variables, at any moment *)

Definition load_one (overwrite : bool) (c : list (str * list defn)) (p : str * nat * list clause) :=
  let '(nm, ar, cls) := p in
  let k := key_fixed nm ar in
  if overwrite then aset str_eqb k [DClauses cls] c
  else aset str_eqb k ((match aget str_eqb k c with Some old => old | None => [] end) ++ [DClauses cls]) c.

Definition res_obs (r : cres) : obs :=
  match r with
  | RAns vals => otag "ans" (map term_obs vals)
  | RDone => otag "done" []
  | RErr k => otag "err" [onat k]
  end.

(* one operation of engine number eid on its own dictionaries and the shared heap *)
Definition estep (fuel : nat) (n eid : nat) (o : op) (e : engine) (h : store) : engine * store * obs :=
  let u := rn (ucell n eid) in
  match o with
  | OAtom nm =>
      let a := intern nm (atoms e, natom e) in
      (with_atoms e a, h, otag "atom" [oopt onat (aget str_eqb nm (fst a))])
  | OAssert append nm args =>
      let f := mkfact (ufid (nfid (edb e))) (canon (map (den2 h) (map u args))) in
      let new := ins (negb append) f (find_facts (edb e) nm (length args)) in
      let d := mkdb (aset fkey_eqb (nm, length args) new (facts (edb e))) (ctx (edb e)) (reserved (edb e)) (S (nfid (edb e))) in
      (with_atoms (with_db e d) (intern nm (atoms e, natom e)), h, otag "ok" [])
  | ORetract nm args =>
      let old := find_facts (edb e) nm (length args) in
      match retract_list h (ccell n eid (nstart e)) (map u args) old with
      | None => (e, h, otag "err" [onat 9])
      | Some new =>
          let d := match aget fkey_eqb (nm, length args) (facts (edb e)) with
                   | Some _ => set_facts (nm, length args) new (edb e)
                   | None => edb e end in
          (bump (with_atoms (with_db e d) (intern nm (atoms e, natom e))), h, otag "ok" [])
      end
  | ORegister nm ar rows =>
      let d := mkdb (facts (edb e)) (aset str_eqb (ctx_key nm ar) [DClauses (map (fun r => (r, [])) rows)] (ctx (edb e)))
                    (reserved (edb e)) (nfid (edb e)) in
      (with_db e d, h, otag "ok" [])
  | OLoad overwrite script =>
      let d := mkdb (facts (edb e)) (fold_left (load_one overwrite) script (ctx (edb e))) (reserved (edb e)) (nfid (edb e)) in
      (with_db e d, h, otag "ok" [])
  | OClear =>
      (* clear(): new tables; ATOM_NIL = atom("[]") of the new atom table (/repo 326f202) *)
      (mkeng [(of_string "[]", natom e)] (S (natom e)) (mkdb [] builtin_ctx (reserved (edb e)) (nfid (edb e))) (cursors e) (nstart e),
       h, otag "ok" [])
  | OStart q nm args =>
      let h1 := match aget Nat.eqb q (cursors e) with Some c => snd (cclose h c) | None => h end in
      let c := cstart (nstart e) nm (map u args) in
      (bump (with_cursors e (aset Nat.eqb q c (cursors e))), h1, otag "started" [])
  | ONext q =>
      match aget Nat.eqb q (cursors e) with
      | None => (e, h, otag "noslot" [])
      | Some c =>
          let '(c', h', r, lg, d') := cnext fuel (edb e) (ccell n eid (cown c)) h c in
          (with_atoms (with_db (with_cursors e (aset Nat.eqb q c' (cursors e))) d') (intern_all (names_of lg) (atoms e, natom e)),
           h', res_obs r)
      end
  | OClose q =>
      match aget Nat.eqb q (cursors e) with
      | None => (e, h, otag "noslot" [])
      | Some c =>
          let '(c', h') := cclose h c in
          (with_cursors e (aset Nat.eqb q c' (cursors e)), h', otag "closed" [])
      end
  | ODrain q =>
      match aget Nat.eqb q (cursors e) with
      | None => (e, h, otag "noslot" [])
      | Some c =>
          let '(c', h', answers, err, lg, d') := cdrain fuel fuel (edb e) (ccell n eid (cown c)) h c [] [] in
          (with_atoms (with_db (with_cursors e (aset Nat.eqb q c' (cursors e))) d') (intern_all (names_of lg) (atoms e, natom e)),
           h', otag "all" [OL (map (fun vals => OL (map term_obs vals)) answers); oopt onat err])
      end
  | OPeek ts => (e, h, otag "peek" (map term_obs (map (den2 h) (map u ts))))
  end.

(* ---------------------------------------------------------------- the world *)
Record world := mkworld { wn : nat; engs : list (nat * engine); heap : store }.

Definition wstep (fuel : nat) (w : world) (s : nat * op) : world * obs :=
  match aget Nat.eqb (fst s) (engs w) with
  | None => (w, otag "noengine" [])
  | Some e =>
      let '(e', h', o) := estep fuel (wn w) (fst s) (snd s) e (heap w) in
      (mkworld (wn w) (aset Nat.eqb (fst s) e' (engs w)) h', o)
  end.

(* a schedule is a list of (engine id, operation); the trace keeps who observed what *)
Fixpoint wrun (fuel : nat) (w : world) (sched : list (nat * op)) : world * list (nat * obs) :=
  match sched with
  | [] => (w, [])
  | s :: r =>
      let '(w1, o) := wstep fuel w s in
      let '(w2, tr) := wrun fuel w1 r in
      (w2, (fst s, o) :: tr)
  end.

Definition init_world (n : nat) : world := mkworld n (map (fun i => (i, init_engine)) (seq 0 n)) [].

(* what engine i saw *)
Definition proj (i : nat) (tr : list (nat * obs)) : list obs :=
  map snd (filter (fun x => Nat.eqb (fst x) i) tr).
Definition only (i : nat) (sched : list (nat * op)) : list (nat * op) :=
  filter (fun x => Nat.eqb (fst x) i) sched.
