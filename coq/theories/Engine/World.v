(* Several engine instances and ONE shared heap of variable cells (engine.py: class YP, class Variable).

   Per instance (YP.__init__, _set_default_eval_context, clear): the atom table _atom_store, the fact
   store _predicates_store : (name, arity) -> list of Answer, eval_context : '<name>_<arity>' / '<name>_n'
   -> function (here: the chain of definitions that chain_functions builds), eval_blacklist (reserved
   names).  Variables are NOT per instance: a Variable is a mutable cell; the heap below is the list of
   the cells that are bound right now with their values, newest binding first.  A suspended query
   generator is a cursor: a stack of frames (what is still to be tried, depth first), the bindings its
   current answer has made (they are in the heap while it is suspended, and are taken out again when it
   is resumed or closed: the try/finally of Variable.unify), and its allocation counter.

   What is followed literally: YP.query = atom(name); the facts of (name, arity) as they are WHEN THE
   GOAL IS REACHED (copy-on-write lists: a snapshot), then - only when those are exhausted - the function
   found in eval_context AT THAT MOMENT under '<name>_<arity>', else '<name>_n', unless the name is
   reserved; Answer.match = unify_arrays of the goal arguments with a copy of the fact that has new
   variables; a compiled function tries its clauses in order; dereferencing goes through the whole
   shared heap (Unify.unify on  own bindings ++ everything else that is bound; written unify_arrays2 / den2,
   which are proved equal to Unify.unify_arrays / Term.den in Engine/Deref.v and evaluate faster).
   What is abstracted: a compiled clause is (head arguments, list of goals) - conjunctions of calls
   only, head unification done with unify_arrays on a renamed copy (the compiler's aliasing of head
   variables is C01's business); the atoms a clause body creates while running are not entered into
   the atom table (not observable: atom() is idempotent until clear); a new cell gets the name
   (engine, number of the query, counter) so that allocation does not depend on the schedule. *)
From Coq Require Import String.
From Coq Require Import List Arith Bool Lia ZArith NArith Cantor.
Import ListNotations.
From YP Require Import Base.Str Term.Term Term.Show Unify.Unify Engine.Deref.
Local Open Scope string_scope.
Local Open Scope list_scope.

(* ---------------------------------------------------------------- cells *)
(* In a world of n engines the cell number  m * n + e  belongs to engine e; m is the Cantor code of
   (0, u) for the u-th variable the user of that engine created, and of (S c, k) for the k-th
   variable allocated by the c-th query/update the engine started. *)
Definition cell (n e m : nat) : nat := m * n + e.
Definition eng_of (n v : nat) : nat := v mod n.
Definition owner (n v : nat) : nat := fst (Cantor.of_nat (v / n)).
Definition ucell (n e u : nat) : nat := cell n e (Cantor.to_nat (0, u)).
Definition ccell (n e c k : nat) : nat := cell n e (Cantor.to_nat (S c, k)).

Lemma eng_of_cell n e m : e < n -> eng_of n (cell n e m) = e.
Proof.
  intros H. unfold eng_of, cell. rewrite Nat.add_comm, Nat.mod_add by lia. apply Nat.mod_small; exact H.
Qed.
Lemma owner_ucell n e u : e < n -> owner n (ucell n e u) = 0.
Proof.
  intros H. unfold owner, ucell, cell. rewrite Nat.div_add_l by lia.
  rewrite (Nat.div_small e n H), Nat.add_0_r, Cantor.cancel_of_to. reflexivity.
Qed.
Lemma owner_ccell n e c k : e < n -> owner n (ccell n e c k) = S c.
Proof.
  intros H. unfold owner, ccell, cell. rewrite Nat.div_add_l by lia.
  rewrite (Nat.div_small e n H), Nat.add_0_r, Cantor.cancel_of_to. reflexivity.
Qed.

(* ---------------------------------------------------------------- terms: renaming, canonical copies *)
Fixpoint rn (f : nat -> nat) (t : term) : term :=
  match t with
  | TVar v => TVar (f v)
  | TFun g args => TFun g (map (rn f) args)
  | _ => t
  end.

(* 1 + the largest variable index (facts and clauses are kept with variables 0..k-1) *)
Fixpoint tmax (t : term) : nat :=
  match t with
  | TVar v => S v
  | TFun _ args => fold_right Nat.max 0 (map tmax args)
  | _ => 0
  end.
Definition lmax (l : list term) : nat := fold_right Nat.max 0 (map tmax l).

Fixpoint index_of (v : nat) (m : list nat) : option nat :=
  match m with
  | [] => None
  | w :: r => if Nat.eqb v w then Some 0 else option_map S (index_of v r)
  end.

(* copy_term with a mapping: variables renamed 0,1,.. in order of first occurrence *)
Fixpoint canon_t (m : list nat) (t : term) : list nat * term :=
  match t with
  | TVar v => match index_of v m with
              | Some i => (m, TVar i)
              | None => (m ++ [v], TVar (length m))
              end
  | TFun f args =>
      let '(m', args') :=
        (fix go (m : list nat) (l : list term) : list nat * list term :=
           match l with
           | [] => (m, [])
           | x :: r => let '(m1, x') := canon_t m x in
                       let '(m2, r') := go m1 r in (m2, x' :: r')
           end) m args in
      (m', TFun f args')
  | _ => (m, t)
  end.
Fixpoint canon_l (m : list nat) (l : list term) : list nat * list term :=
  match l with
  | [] => (m, [])
  | x :: r => let '(m1, x') := canon_t m x in
              let '(m2, r') := canon_l m1 r in (m2, x' :: r')
  end.
Definition canon (l : list term) : list term := snd (canon_l [] l).

(* ---------------------------------------------------------------- per-engine dictionaries *)
Definition goal := (str * list term)%type.
Definition clause := (list term * list goal)%type.           (* head arguments, body goals *)
Inductive defn := DClauses (cls : list clause) | DOther.      (* DOther: a builtin the model does not run *)

Definition gmax (g : goal) : nat := lmax (snd g).
Definition clmax (c : clause) : nat := Nat.max (lmax (fst c)) (fold_right Nat.max 0 (map gmax (snd c))).
Definition rn_goal (f : nat -> nat) (g : goal) : goal := (fst g, map (rn f) (snd g)).
Definition rn_clause (f : nat -> nat) (c : clause) : clause := (map (rn f) (fst c), map (rn_goal f) (snd c)).

Definition fkey := (str * nat)%type.
Definition fkey_eqb (a b : fkey) : bool := str_eqb (fst a) (fst b) && Nat.eqb (snd a) (snd b).

Section Assoc.
  Context {K V : Type} (eqb : K -> K -> bool).
  Fixpoint aget (k : K) (l : list (K * V)) : option V :=
    match l with [] => None | (k', v) :: r => if eqb k k' then Some v else aget k r end.
  Fixpoint aset (k : K) (v : V) (l : list (K * V)) : list (K * V) :=
    match l with
    | [] => [(k, v)]
    | (k', v') :: r => if eqb k k' then (k, v) :: r else (k', v') :: aset k v r
    end.
End Assoc.

Record db := mkdb {
  facts : list (fkey * list (list term));     (* _predicates_store *)
  ctx : list (str * list defn);               (* eval_context: key -> chain of definitions *)
  reserved : list str }.                      (* eval_blacklist *)

Definition key_fixed (nm : str) (ar : nat) : str := nm ++ 95%N :: dec_of_nat ar.
Definition key_var (nm : str) : str := nm ++ [95%N; 110%N].
Definition ctx_key (nm : str) (ar : option nat) : str :=
  match ar with Some k => key_fixed nm k | None => key_var nm end.

Definition find_facts (d : db) (nm : str) (ar : nat) : list (list term) :=
  match aget fkey_eqb (nm, ar) (facts d) with Some l => l | None => [] end.

(* YP.query, second half *)
Definition find_function (d : db) (nm : str) (ar : nat) : option (list defn) :=
  if existsb (str_eqb nm) (reserved d) then None
  else match aget str_eqb (key_fixed nm ar) (ctx d) with
       | Some f => Some f
       | None => aget str_eqb (key_var nm) (ctx d)
       end.

Definition reserved_names : list str :=
  map of_string ["__builtins__"; "variable"; "atom"; "functor"; "functor1"; "functor2"; "functor3";
                 "listpair"; "makelist"; "ATOM_NIL"; "unify"; "match_dynamic"; "query"; "True"; "False"].

(* _set_builtin_predicates: '=' is  X = X ; the others are outside this model *)
Definition builtin_ctx : list (str * list defn) :=
  [ (key_fixed (of_string "=") 2, [DClauses [ ([TVar 0; TVar 0], []) ] ]);
    (key_fixed [92%N; 61%N] 2, [DOther]);
    (key_fixed (of_string "findall") 3, [DOther]);
    (key_var (of_string "call"), [DOther]);
    (key_fixed (of_string "once") 1, [DOther]);
    (key_fixed (of_string "assertz") 1, [DOther]);
    (key_fixed (of_string "asserta") 1, [DOther]);
    (key_fixed (of_string "retract") 1, [DOther]);
    (key_fixed (of_string "retractall") 1, [DOther]) ].

(* ---------------------------------------------------------------- cursors = suspended query generators *)
Inductive frame :=      (* tr: the bindings this query has made on the path to the frame; cnt: cells in use there *)
| FGoals (tr : store) (cnt : nat) (gs : list goal)                                     (* continue with these goals *)
| FFact (tr : store) (cnt : nat) (args : list term) (f : list term) (rest : list goal) (* next clause of a fact snapshot *)
| FFun (tr : store) (cnt : nat) (nm : str) (args : list term) (rest : list goal)      (* facts exhausted: look the function up NOW *)
| FClause (tr : store) (cnt : nat) (args : list term) (cl : clause) (rest : list goal). (* next clause of a called function *)

Record cursor := mkcur {
  cown : nat;             (* number of the query: names the cells it allocates *)
  cargs : list term;      (* the argument terms of the query: the answer is read from them *)
  cfr : list frame;       (* what is still to be tried; [] = finished or closed *)
  ctrail : store }.       (* the bindings of the current answer (they are in the heap) *)

Inductive sres :=
| SAns (tr : store) (fr : list frame) (names : list str)
| SDone (names : list str)
| SErr (code : nat).       (* 0 search fuel, 1 unify fuel, 2 cyclic (unspecified), 3 builtin outside the model *)

Definition UF : nat := 300.     (* fuel handed to Unify.unify_arrays *)

(* the bindings made on top of  tr ++ h0  plus tr: everything above h0 *)
Definition strip (s' h0 : store) : store := firstn (length s' - length h0) s'.

Definition clauses_of (ds : list defn) : option (list clause) :=
  fold_right (fun d acc => match d, acc with
                           | DClauses c, Some r => Some (c ++ r)
                           | _, _ => None end) (Some []) ds.

(* resume the generator: depth first, until the next yield.  Cells allocated on a branch that has been
   left are unreachable (their Variable objects are gone), so the counter is per frame: the k-th cell
   in use on the current path has index k. *)
Fixpoint search (fuel : nat) (d : db) (h0 : store) (fresh : nat -> nat) (fr : list frame) (names : list str) : sres :=
  match fuel with
  | O => SErr 0
  | S fuel =>
    match fr with
    | [] => SDone names
    | FGoals tr cnt [] :: r => SAns tr r names
    | FGoals tr cnt ((nm, args) :: gs) :: r =>
        search fuel d h0 fresh
               (map (fun f => FFact tr cnt args f gs) (find_facts d nm (length args)) ++ FFun tr cnt nm args gs :: r)
               (nm :: names)
    | FFact tr cnt args f gs :: r =>
        let f' := map (rn (fun i => fresh (cnt + i))) f in
        match unify_arrays2 UF (tr ++ h0) args f' with
        | UOk s' => search fuel d h0 fresh (FGoals (strip s' h0) (cnt + lmax f) gs :: r) names
        | UFail => search fuel d h0 fresh r names
        | UOof => SErr 1
        | UCyc => SErr 2
        end
    | FFun tr cnt nm args gs :: r =>
        match find_function d nm (length args) with
        | None => search fuel d h0 fresh r names
        | Some ds =>
            match clauses_of ds with
            | None => SErr 3
            | Some cls => search fuel d h0 fresh (map (fun c => FClause tr cnt args c gs) cls ++ r) names
            end
        end
    | FClause tr cnt args cl gs :: r =>
        let cl' := rn_clause (fun i => fresh (cnt + i)) cl in
        match unify_arrays2 UF (tr ++ h0) args (fst cl') with
        | UOk s' => search fuel d h0 fresh (FGoals (strip s' h0) (cnt + clmax cl) (snd cl' ++ gs) :: r) names
        | UFail => search fuel d h0 fresh r names
        | UOof => SErr 1
        | UCyc => SErr 2
        end
    end
  end.

(* the finally-blocks of the suspended unify generators of this cursor: its cells become unbound *)
Definition unbind (tr h : store) : store :=
  filter (fun e => negb (existsb (Nat.eqb (fst e)) (map fst tr))) h.

Inductive cres := RAns (vals : list term) | RDone | RErr (code : nat).

Definition cnext (fuel : nat) (d : db) (fresh : nat -> nat) (h : store) (c : cursor) : cursor * store * cres * list str :=
  let h0 := unbind (ctrail c) h in
  match search fuel d h0 fresh (cfr c) [] with
  | SAns tr fr names =>
      (mkcur (cown c) (cargs c) fr tr, tr ++ h0, RAns (map (den2 (tr ++ h0)) (cargs c)), names)
  | SDone names => (mkcur (cown c) (cargs c) [] [], h0, RDone, names)
  | SErr k => (c, h, RErr k, [])
  end.

Definition cclose (h : store) (c : cursor) : cursor * store :=
  (mkcur (cown c) (cargs c) [] [], unbind (ctrail c) h).

Definition cstart (ow : nat) (nm : str) (args : list term) : cursor :=
  mkcur ow args [FGoals [] 0 [(nm, args)]] [].

(* run to exhaustion, collecting the answers *)
Fixpoint cdrain (n fuel : nat) (d : db) (fresh : nat -> nat) (h : store) (c : cursor) (acc : list (list term)) (names : list str)
  : cursor * store * list (list term) * option nat * list str :=
  match n with
  | O => (c, h, rev acc, Some 0, names)
  | S n =>
      match cnext fuel d fresh h c with
      | (c', h', RAns vals, nm) => cdrain n fuel d fresh h' c' (vals :: acc) (nm ++ names)
      | (c', h', RDone, nm) => (c', h', rev acc, None, nm ++ names)
      | (c', h', RErr k, nm) => (c', h', rev acc, Some (S k), names)
      end
  end.

(* ---------------------------------------------------------------- one engine *)
Record engine := mkeng {
  atoms : list (str * nat);      (* _atom_store: name -> identity of the Atom object *)
  natom : nat;                   (* Atom objects created so far *)
  edb : db;
  cursors : list (nat * cursor); (* the generators the caller holds, by slot *)
  nstart : nat }.                (* queries / updates started so far (for owner tags) *)

Definition init_engine : engine :=
  mkeng [(of_string "[]", 0)] 1 (mkdb [] builtin_ctx reserved_names) [] 0.

(* YP.atom: setdefault *)
Definition intern (nm : str) (a : list (str * nat) * nat) : list (str * nat) * nat :=
  match aget str_eqb nm (fst a) with
  | Some _ => a
  | None => (fst a ++ [(nm, snd a)], S (snd a))
  end.
Definition intern_all (names : list str) (a : list (str * nat) * nat) := fold_right intern a names.

Definition with_atoms (e : engine) (a : list (str * nat) * nat) : engine :=
  mkeng (fst a) (snd a) (edb e) (cursors e) (nstart e).
Definition with_db (e : engine) (d : db) : engine := mkeng (atoms e) (natom e) d (cursors e) (nstart e).
Definition with_cursors (e : engine) (cs : list (nat * cursor)) : engine :=
  mkeng (atoms e) (natom e) (edb e) cs (nstart e).
Definition bump (e : engine) : engine := mkeng (atoms e) (natom e) (edb e) (cursors e) (S (nstart e)).

Inductive op :=
| OAtom (nm : str)
| OAssert (append : bool) (nm : str) (args : list term)     (* assert_fact / assertz / asserta *)
| ORetract (nm : str) (args : list term)                     (* retract run to exhaustion, or retractall *)
| ORegister (nm : str) (ar : option nat) (rows : list (list term))
| OLoad (overwrite : bool) (script : list (str * nat * list clause))
| OClear
| OStart (q : nat) (nm : str) (args : list term)
| ONext (q : nat)
| OClose (q : nat)                                           (* close() or dropping the generator *)
| ODrain (q : nat)
| OPeek (ts : list term).                                     (* get_value of terms over the user's variables, at any moment *)

(* which facts match: Answer.match for each, bindings undone after each *)
Fixpoint retract_list (h : store) (fresh : nat -> nat) (args : list term) (fs : list (list term))
  : option (list (list term)) :=
  match fs with
  | [] => Some []
  | f :: r =>
      match unify_arrays2 UF h args (map (rn fresh) f), retract_list h fresh args r with
      | UOk _, Some r' => Some r'
      | UFail, Some r' => Some (f :: r')
      | _, _ => None
      end
  end.

Definition load_one (overwrite : bool) (c : list (str * list defn)) (p : str * nat * list clause) :=
  let '(nm, ar, cls) := p in
  let k := key_fixed nm ar in
  if overwrite then aset str_eqb k [DClauses cls] c
  else aset str_eqb k ((match aget str_eqb k c with Some old => old | None => [] end) ++ [DClauses cls]) c.

Definition res_obs (r : cres) : obs :=
  match r with
  | RAns vals => otag "ans" (map term_obs vals)
  | RDone => otag "done" []
  | RErr k => otag "err" [onat k]
  end.

(* one operation of engine number eid on its own dictionaries and the shared heap *)
Definition estep (fuel : nat) (n eid : nat) (o : op) (e : engine) (h : store) : engine * store * obs :=
  let u := rn (ucell n eid) in
  match o with
  | OAtom nm =>
      let a := intern nm (atoms e, natom e) in
      (with_atoms e a, h, otag "atom" [oopt onat (aget str_eqb nm (fst a))])
  | OAssert append nm args =>
      let vals := canon (map (den2 h) (map u args)) in
      let old := find_facts (edb e) nm (length args) in
      let new := if append then old ++ [vals] else vals :: old in
      let d := mkdb (aset fkey_eqb (nm, length args) new (facts (edb e))) (ctx (edb e)) (reserved (edb e)) in
      (with_atoms (with_db e d) (intern nm (atoms e, natom e)), h, otag "ok" [])
  | ORetract nm args =>
      let old := find_facts (edb e) nm (length args) in
      match retract_list h (ccell n eid (nstart e)) (map u args) old with
      | None => (e, h, otag "err" [onat 9])
      | Some new =>
          let d := match aget fkey_eqb (nm, length args) (facts (edb e)) with
                   | Some _ => mkdb (aset fkey_eqb (nm, length args) new (facts (edb e))) (ctx (edb e)) (reserved (edb e))
                   | None => edb e end in
          (bump (with_atoms (with_db e d) (intern nm (atoms e, natom e))), h, otag "ok" [])
      end
  | ORegister nm ar rows =>
      let d := mkdb (facts (edb e)) (aset str_eqb (ctx_key nm ar) [DClauses (map (fun r => (r, [])) rows)] (ctx (edb e)))
                    (reserved (edb e)) in
      (with_db e d, h, otag "ok" [])
  | OLoad overwrite script =>
      let d := mkdb (facts (edb e)) (fold_left (load_one overwrite) script (ctx (edb e))) (reserved (edb e)) in
      (with_db e d, h, otag "ok" [])
  | OClear =>
      (mkeng [] (natom e) (mkdb [] builtin_ctx (reserved (edb e))) (cursors e) (nstart e), h, otag "ok" [])
  | OStart q nm args =>
      let h1 := match aget Nat.eqb q (cursors e) with Some c => snd (cclose h c) | None => h end in
      let c := cstart (nstart e) nm (map u args) in
      (bump (with_cursors e (aset Nat.eqb q c (cursors e))), h1, otag "started" [])
  | ONext q =>
      match aget Nat.eqb q (cursors e) with
      | None => (e, h, otag "noslot" [])
      | Some c =>
          let '(c', h', r, names) := cnext fuel (edb e) (ccell n eid (cown c)) h c in
          (with_atoms (with_cursors e (aset Nat.eqb q c' (cursors e))) (intern_all names (atoms e, natom e)),
           h', res_obs r)
      end
  | OClose q =>
      match aget Nat.eqb q (cursors e) with
      | None => (e, h, otag "noslot" [])
      | Some c =>
          let '(c', h') := cclose h c in
          (with_cursors e (aset Nat.eqb q c' (cursors e)), h', otag "closed" [])
      end
  | ODrain q =>
      match aget Nat.eqb q (cursors e) with
      | None => (e, h, otag "noslot" [])
      | Some c =>
          let '(c', h', answers, err, names) := cdrain fuel fuel (edb e) (ccell n eid (cown c)) h c [] [] in
          (with_atoms (with_cursors e (aset Nat.eqb q c' (cursors e))) (intern_all names (atoms e, natom e)),
           h', otag "all" [OL (map (fun vals => OL (map term_obs vals)) answers); oopt onat err])
      end
  | OPeek ts => (e, h, otag "peek" (map term_obs (map (den2 h) (map u ts))))
  end.

(* ---------------------------------------------------------------- the world *)
Record world := mkworld { wn : nat; engs : list (nat * engine); heap : store }.

Definition wstep (fuel : nat) (w : world) (s : nat * op) : world * obs :=
  match aget Nat.eqb (fst s) (engs w) with
  | None => (w, otag "noengine" [])
  | Some e =>
      let '(e', h', o) := estep fuel (wn w) (fst s) (snd s) e (heap w) in
      (mkworld (wn w) (aset Nat.eqb (fst s) e' (engs w)) h', o)
  end.

(* a schedule is a list of (engine id, operation); the trace keeps who observed what *)
Fixpoint wrun (fuel : nat) (w : world) (sched : list (nat * op)) : world * list (nat * obs) :=
  match sched with
  | [] => (w, [])
  | s :: r =>
      let '(w1, o) := wstep fuel w s in
      let '(w2, tr) := wrun fuel w1 r in
      (w2, (fst s, o) :: tr)
  end.

Definition init_world (n : nat) : world := mkworld n (map (fun i => (i, init_engine)) (seq 0 n)) [].

(* what engine i saw *)
Definition proj (i : nat) (tr : list (nat * obs)) : list obs :=
  map snd (filter (fun x => Nat.eqb (fst x) i) tr).
Definition only (i : nat) (sched : list (nat * op)) : list (nat * op) :=
  filter (fun x => Nat.eqb (fst x) i) sched.
