(* Abstract syntax handed by the visitor (yp_prolog_visitor.py) to the compiler
   (yp_generator.py).  One constructor per AST class of the implementation:

     Atom(value)                  SAtom value          (quoted atoms already unquoted)
     NumeralTerm(text)            SNum text            (the digits as written, e.g. "007")
     VariableTerm(name)           SVar name            (anonymous variables: the visitor
     AnonymousVariableTerm(k)     SVar "x<k+1>"         numbers them x1, x2, ... per compilation)
     Functor(Atom f, args)        SFun f args          (also unary -,+ and the binary operators)
     ListTerm(items)              SList items
     ListPairTerm(head, tail)     SPair head tail

     TruePredicate / FailPredicate / CutPredicate      BTrue / BFail / BCut
     Predicate(Functor(Atom f, args))                  BCall f args
     ConjunctionPredicate / DisjunctionPredicate /
     IfThenPredicate / NegationPredicate               BAnd / BOr / BIf / BNot
     CutIfMarker(label)  (internal, never from source) BMark label

     Clause(head, body)           {| c_name; c_args; c_body |}   (a fact has body BTrue)

   A program is the list of its clauses in source order (directives are parsed,
   visited and dropped).  Source forms that the visitor or compiler refuses by raising
   (a head or goal that is not callable, the `name/arity` term, `true.` as a clause ...)
   have no AST: the front end model returns an error for them.  A compound term or goal
   whose name is a numeral (`1(a)`: Functor(NumeralTerm, ..)) is kept, under the name
   backslash ++ digits (no atom of a source text has a backslash in its name): the
   implementation raises only if the compiler reaches it (Lang/FrontCompile.v). *)
From Coq Require Import List NArith.
Import ListNotations.
From YP Require Import Base.Str.

Inductive sterm :=
| SAtom (a : str)
| SNum (digits : str)
| SVar (v : str)
| SFun (f : str) (args : list sterm)
| SList (items : list sterm)
| SPair (h t : sterm).

Inductive body :=
| BCall (f : str) (args : list sterm)
| BTrue | BFail | BCut
| BMark (label : nat)
| BAnd (a b : body)
| BOr (a b : body)
| BIf (c t : body)
| BNot (a : body).

Record clause := { c_name : str; c_args : list sterm; c_body : body }.
Definition program := list clause.

Section StermInd.
  Variable P : sterm -> Prop.
  Hypothesis Ha : forall a, P (SAtom a).
  Hypothesis Hn : forall n, P (SNum n).
  Hypothesis Hv : forall v, P (SVar v).
  Hypothesis Hf : forall f args, Forall P args -> P (SFun f args).
  Hypothesis Hl : forall items, Forall P items -> P (SList items).
  Hypothesis Hp : forall h t, P h -> P t -> P (SPair h t).
  Fixpoint sterm_ind' (t : sterm) : P t :=
    let go := fix go (l : list sterm) : Forall P l :=
      match l with [] => Forall_nil P | x :: r => Forall_cons x (sterm_ind' x) (go r) end in
    match t with
    | SAtom a => Ha a | SNum n => Hn n | SVar v => Hv v
    | SFun f args => Hf f args (go args)
    | SList items => Hl items (go items)
    | SPair h t => Hp h t (sterm_ind' h) (sterm_ind' t)
    end.
End StermInd.

(* the `variables` property of the AST classes: variable names in order of occurrence,
   with repetitions *)
Fixpoint sterm_vars (t : sterm) : list str :=
  match t with
  | SAtom _ | SNum _ => []
  | SVar v => [v]
  | SFun _ args => flat_map sterm_vars args
  | SList items => flat_map sterm_vars items
  | SPair h t => sterm_vars h ++ sterm_vars t
  end.

Fixpoint body_vars (b : body) : list str :=
  match b with
  | BTrue | BFail | BCut | BMark _ => []
  | BCall _ args => flat_map sterm_vars args
  | BAnd a b | BOr a b | BIf a b => body_vars a ++ body_vars b
  | BNot a => body_vars a
  end.

Definition isif (b:body) := match b with BIf _ _ => true | _ => false end.

(* induction principle that treats (c -> t ; e) as one construct *)
Lemma body_ind' (P:body->Prop) :
  (forall f args, P (BCall f args)) -> P BTrue -> P BFail -> P BCut -> (forall l, P (BMark l)) ->
  (forall a b, P a -> P b -> P (BAnd a b)) ->
  (forall a b, isif a = false -> P a -> P b -> P (BOr a b)) ->
  (forall c t e, P c -> P t -> P e -> P (BOr (BIf c t) e)) ->
  (forall c t, P c -> P t -> P (BIf c t)) ->
  (forall a, P a -> P (BNot a)) -> forall b, P b.
Proof.
  intros Hc Ht Hf Hcut Hci Hand Hor Hite Hif Hnot b.
  enough (H: P b /\ match b with BIf c t => P c /\ P t | _ => True end) by apply H.
  induction b; try (split; auto; fail).
  - split; [apply Hand; tauto|exact Logic.I].
  - split; [|exact Logic.I]. destruct b1; try (apply Hor; [reflexivity|tauto|tauto]).
    apply Hite; tauto.
  - split; [apply Hif; tauto|tauto].
  - split; [apply Hnot; tauto|exact Logic.I].
Qed.
