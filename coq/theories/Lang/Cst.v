(* Concrete syntax trees of prolog.g4: one constructor per alternative of each parser rule, so a value
   of type cprogram IS a derivation tree of the grammar, and `yield` reads off its leaves (the
   sentence it derives).  An optional part `( ... )?` gives two constructors (T_listpair1/2).

     program            : clauseordirective*                              cprogram = list cord
     clauseordirective  : clause | directive                              CD_clause | CD_directive
     clause             : simplepredicate '.'                             C_fact
                        | simplepredicate ':-' predicateexpression '.'    C_rule
     directive          : ':-' simplepredicate '.'
     predicateexpression: simplepredicate                                 PE_simple
                        | '\+' predicateexpression                        PE_not
                        | pe ',' pe | pe '->' pe | pe ';' pe              PE_and | PE_if | PE_or
                        | '(' predicateexpression ')'                     PE_paren
     simplepredicate    : TRUE | FAIL | CUT | termpredicate(= term)       SP_true | SP_fail | SP_cut | SP_term
     termlist           : (empty) | term (',' term)*                      list cterm
     term               : atom | functor | ATOM '/' NUMERAL | VARIABLE    T_atom | T_functor | T_arity | T_var
                        | UNOP term | term BINOP term                     T_unop | T_binop
                        | BINOP '(' term ',' term ')' | '(' term ')'      T_binop_prefix | T_paren
                        | LBRACK termlist RBRACK                          T_list
                        | LBRACK term (',' termlist)? '|' VARIABLE RBRACK T_listpair1 | T_listpair2
     atom               : ATOM | NUMERAL | STRING                         A_ATOM | A_NUMERAL | A_STRING
     functor            : atom '(' termlist ')'

   Tokens: the parser looks at the kind of a token only; the text matters for VARIABLE, ATOM, NUMERAL,
   UNOP, BINOP and STRING.  `norm` forgets the text of the other kinds (it is determined by the kind). *)
From Coq Require Import List NArith.
Import ListNotations.
From YP Require Import Base.Str Lang.Lexer.

Definition tok := item.

Definition has_text (k : rname) : bool :=
  match k with
  | R_VARIABLE | R_ATOM | R_NUMERAL | R_UNOP | R_BINOP | R_STRING => true
  | _ => false
  end.
Definition norm (t : tok) : tok := if has_text (fst t) then t else (fst t, []).
Definition fx (k : rname) : tok := (k, []).

Inductive catom := A_ATOM (t : str) | A_NUMERAL (t : str) | A_STRING (t : str).

Inductive cterm :=
| T_atom (a : catom)
| T_functor (a : catom) (args : list cterm)
| T_arity (a n : str)
| T_var (v : str)
| T_unop (op : str) (t : cterm)
| T_binop (l : cterm) (op : str) (r : cterm)
| T_binop_prefix (op : str) (l r : cterm)
| T_paren (t : cterm)
| T_list (items : list cterm)
| T_listpair1 (h : cterm) (v : str)
| T_listpair2 (h : cterm) (rest : list cterm) (v : str).

Inductive simplepred := SP_true | SP_fail | SP_cut | SP_term (t : cterm).

Inductive pexpr :=
| PE_simple (sp : simplepred)
| PE_not (p : pexpr)
| PE_and (a b : pexpr)
| PE_if (a b : pexpr)
| PE_or (a b : pexpr)
| PE_paren (p : pexpr).

Inductive cclause := C_fact (h : simplepred) | C_rule (h : simplepred) (b : pexpr).
Inductive cord := CD_clause (c : cclause) | CD_directive (sp : simplepred).
Definition cprogram := list cord.

Section CtermInd.
  Variable P : cterm -> Prop.
  Hypothesis Hatom : forall a, P (T_atom a).
  Hypothesis Hfun : forall a args, Forall P args -> P (T_functor a args).
  Hypothesis Har : forall a n, P (T_arity a n).
  Hypothesis Hvar : forall v, P (T_var v).
  Hypothesis Hun : forall op t, P t -> P (T_unop op t).
  Hypothesis Hbin : forall l op r, P l -> P r -> P (T_binop l op r).
  Hypothesis Hbinp : forall op l r, P l -> P r -> P (T_binop_prefix op l r).
  Hypothesis Hpar : forall t, P t -> P (T_paren t).
  Hypothesis Hlist : forall items, Forall P items -> P (T_list items).
  Hypothesis Hlp1 : forall h v, P h -> P (T_listpair1 h v).
  Hypothesis Hlp2 : forall h rest v, P h -> Forall P rest -> P (T_listpair2 h rest v).
  Fixpoint cterm_ind' (t : cterm) : P t :=
    let go := fix go (l : list cterm) : Forall P l :=
      match l with [] => Forall_nil P | x :: r => Forall_cons x (cterm_ind' x) (go r) end in
    match t with
    | T_atom a => Hatom a
    | T_functor a args => Hfun a args (go args)
    | T_arity a n => Har a n
    | T_var v => Hvar v
    | T_unop op t => Hun op t (cterm_ind' t)
    | T_binop l op r => Hbin l op r (cterm_ind' l) (cterm_ind' r)
    | T_binop_prefix op l r => Hbinp op l r (cterm_ind' l) (cterm_ind' r)
    | T_paren t => Hpar t (cterm_ind' t)
    | T_list items => Hlist items (go items)
    | T_listpair1 h v => Hlp1 h v (cterm_ind' h)
    | T_listpair2 h rest v => Hlp2 h rest v (cterm_ind' h) (go rest)
    end.
End CtermInd.

(* ------------------------------------------------------------------ yield *)

Definition y_atom (a : catom) : tok :=
  match a with A_ATOM t => (R_ATOM, t) | A_NUMERAL t => (R_NUMERAL, t) | A_STRING t => (R_STRING, t) end.

(* t1 , t2 , ... , tn *)
Fixpoint sep_commas (l : list (list tok)) : list tok :=
  match l with
  | [] => []
  | [x] => x
  | x :: r => x ++ fx R_COMMA :: sep_commas r
  end.

Fixpoint y_term (t : cterm) : list tok :=
  match t with
  | T_atom a => [y_atom a]
  | T_functor a args => y_atom a :: fx R_LPAR :: sep_commas (map y_term args) ++ [fx R_RPAR]
  | T_arity a n => [(R_ATOM, a); fx R_SLASH; (R_NUMERAL, n)]
  | T_var v => [(R_VARIABLE, v)]
  | T_unop op t => (R_UNOP, op) :: y_term t
  | T_binop l op r => y_term l ++ (R_BINOP, op) :: y_term r
  | T_binop_prefix op l r => (R_BINOP, op) :: fx R_LPAR :: y_term l ++ fx R_COMMA :: y_term r ++ [fx R_RPAR]
  | T_paren t => fx R_LPAR :: y_term t ++ [fx R_RPAR]
  | T_list items => fx R_LBRACK :: sep_commas (map y_term items) ++ [fx R_RBRACK]
  | T_listpair1 h v => fx R_LBRACK :: y_term h ++ [fx R_BAR; (R_VARIABLE, v); fx R_RBRACK]
  | T_listpair2 h rest v =>
      fx R_LBRACK :: y_term h ++ fx R_COMMA :: sep_commas (map y_term rest) ++ [fx R_BAR; (R_VARIABLE, v); fx R_RBRACK]
  end.

Definition y_simple (sp : simplepred) : list tok :=
  match sp with
  | SP_true => [fx R_TRUE] | SP_fail => [fx R_FAIL] | SP_cut => [fx R_CUT]
  | SP_term t => y_term t
  end.

Fixpoint y_pe (p : pexpr) : list tok :=
  match p with
  | PE_simple sp => y_simple sp
  | PE_not p => fx R_NOT :: y_pe p
  | PE_and a b => y_pe a ++ fx R_COMMA :: y_pe b
  | PE_if a b => y_pe a ++ fx R_ARROW :: y_pe b
  | PE_or a b => y_pe a ++ fx R_SEMI :: y_pe b
  | PE_paren p => fx R_LPAR :: y_pe p ++ [fx R_RPAR]
  end.

Definition y_clause (c : cclause) : list tok :=
  match c with
  | C_fact h => y_simple h ++ [fx R_DOT]
  | C_rule h b => y_simple h ++ fx R_NECK :: y_pe b ++ [fx R_DOT]
  end.

Definition y_cord (c : cord) : list tok :=
  match c with
  | CD_clause c => y_clause c
  | CD_directive sp => fx R_NECK :: y_simple sp ++ [fx R_DOT]
  end.

Definition yield (p : cprogram) : list tok := flat_map y_cord p.

Definition is_clause (c : cord) : bool := match c with CD_clause _ => true | CD_directive _ => false end.
Definition clauses_of (p : cprogram) : list cclause :=
  flat_map (fun c => match c with CD_clause c => [c] | CD_directive _ => [] end) p.
