(* C16, run-time side of the literals: the expression that yp_generator.compile_expression emits for a literal
   (atom(..) / functor(.., [..]) / listpair(.., ..) / makelist([..]) / ATOM_NIL / an int / a Python variable),
   evaluated by the engine constructors (Sem/Machine.eval_expr = YP.atom, YP.functor, YP.listpair, YP.makelist),
   builds exactly the term the literal stands for (Literals.sden), and to_python (Engine/GetValue.py_of) maps that
   term to the Python value the property text prescribes.

     LITERAL_DENOTATION   eval_expr r (compile_expression t) = sden rho t      when r binds V_<v> to rho v
     MAKELIST / LISTPAIR  makelist [x1..xn] = listpair x1 (.. listpair xn ATOM_NIL), both are the '.'/2 chain
     TO_PYTHON_LITERAL    py_of (sden rho t) = POk (lit_py ..)   (atoms -> names, [] -> [], ints, proper lists ->
                          lists, other compounds -> (name, args), unbound variables -> None)
     ATOM IDENTITY        the atom table (name -> object) of one engine returns one object per name; unification
                          never looks at the object, only at the name, so atoms of two engines unify iff names agree *)
From Coq Require Import String.
From Coq Require Import List NArith ZArith Arith Bool Lia.
Import ListNotations.
From YP Require Import Base.Str Term.Term Unify.Unify Lang.Ast Lang.Lexer Lang.Cst Lang.Parser Lang.Unquote Lang.Literals
  Comp.IR Comp.CompileBody Sem.Machine Engine.GetValue.
Local Open Scope string_scope.
Local Open Scope list_scope.

(* ------------------------------------------------------------------ the two spellings of the constants agree *)

Lemma s_dot_eq : Literals.s_dot = s_ ".".
Proof. reflexivity. Qed.
Lemma s_nil_eq : Literals.s_nil = s_ "[]".
Proof. reflexivity. Qed.
Lemma cons_term_eq h t : Literals.cons_term h t = Machine.cons_term h t.
Proof. reflexivity. Qed.
Lemma digits_value_eq w : digits_value w = Z.of_N (num_value w).
Proof. reflexivity. Qed.
Lemma dot_eq : GetValue.dot = Literals.s_dot.
Proof. reflexivity. Qed.
Lemma nil_name_eq : GetValue.nil_name = Literals.s_nil.
Proof. reflexivity. Qed.

(* makelist: functools.reduce(lambda x, y: listpair(y, x), reversed(l), ATOM_NIL) *)
Lemma mk_list_fold l : mk_list l = fold_right Literals.cons_term (TAtom Literals.s_nil) l.
Proof. induction l as [|x r IH]; simpl; [reflexivity|]. rewrite IH. reflexivity. Qed.

Lemma mk_list_mklist l : mk_list l = GetValue.mklist l.
Proof. induction l as [|x r IH]; simpl; [reflexivity|]. rewrite IH. reflexivity. Qed.

(* the engine constructors, one equation each *)
Lemma evals_map r xs :
  (fix evals (l : list expr) : list term := match l with [] => [] | x :: t => eval_expr r x :: evals t end) xs
  = map (eval_expr r) xs.
Proof. induction xs as [|x xs IH]; [reflexivity|]. cbn [map]. rewrite <- IH. reflexivity. Qed.

Lemma eval_atom r a : eval_expr r (ECall (s_ "atom") [EStr a]) = TAtom a.
Proof. reflexivity. Qed.
Lemma eval_functor r f xs : eval_expr r (ECall (s_ "functor") [EStr f; EList xs]) = TFun f (map (eval_expr r) xs).
Proof. cbn [eval_expr]. rewrite evals_map. reflexivity. Qed.
Lemma eval_listpair r h t :
  eval_expr r (ECall (s_ "listpair") [h; t]) = Machine.cons_term (eval_expr r h) (eval_expr r t).
Proof. reflexivity. Qed.
Lemma eval_makelist r xs : eval_expr r (ECall (s_ "makelist") [EList xs]) = mk_list (map (eval_expr r) xs).
Proof. cbn [eval_expr]. rewrite evals_map. reflexivity. Qed.
Lemma eval_nil r : eval_expr r (EVar (s_ "ATOM_NIL")) = nil_atom.
Proof. reflexivity. Qed.
Lemma eval_num r w : eval_expr r (ENum w) = TInt (Z.of_N (num_value w)).
Proof. reflexivity. Qed.

Lemma pyvar_not_nil v : str_eqb (pyvar v) (s_ "ATOM_NIL") = false.
Proof. reflexivity. Qed.
Lemma eval_var r v : eval_expr r (EVar (pyvar v)) = match env_get (pyvar v) r with Some t => t | None => bad_term end.
Proof. cbn [eval_expr]. rewrite pyvar_not_nil. reflexivity. Qed.

(* MAKELIST_IS_LISTPAIR_CHAIN: makelist([x1,...,xn]) builds the same term as
   listpair(x1, listpair(x2, ... listpair(xn, ATOM_NIL))) -- the '.'/2 chain ending in [] *)
Definition listpair_chain (xs : list expr) : expr :=
  fold_right (fun x acc => ECall (s_ "listpair") [x; acc]) (EVar (s_ "ATOM_NIL")) xs.

Theorem makelist_listpair_chain r xs :
  eval_expr r (ECall (s_ "makelist") [EList xs]) = eval_expr r (listpair_chain xs) /\
  eval_expr r (listpair_chain xs) = fold_right Literals.cons_term (TAtom Literals.s_nil) (map (eval_expr r) xs).
Proof.
  rewrite eval_makelist. split.
  - induction xs as [|x xs IH]; [reflexivity|]. cbn [map mk_list listpair_chain fold_right].
    fold (listpair_chain xs). rewrite eval_listpair, <- IH. reflexivity.
  - induction xs as [|x xs IH]; [reflexivity|]. cbn [map listpair_chain fold_right].
    fold (listpair_chain xs). rewrite eval_listpair, IH. reflexivity.
Qed.

(* ------------------------------------------------------------------ LITERAL_DENOTATION *)

(* the Python locals bind the variable V_<v> of every source variable v of the literal to rho v *)
Definition binds (r : env) (rho : str -> term) (vs : list str) : Prop :=
  forall v, In v vs -> env_get (pyvar v) r = Some (rho v).

Lemma map_ext_Forall {A B} (f g : A -> B) l : Forall (fun x => f x = g x) l -> map f l = map g l.
Proof. induction 1; simpl; congruence. Qed.

Theorem literal_denotation : forall t r rho, binds r rho (sterm_vars t) ->
  eval_expr r (compile_expression t) = sden rho t.
Proof.
  induction t as [a|w|v|f args IH|items IH|h tl IHh IHt] using sterm_ind'; intros r rho Hb.
  - reflexivity.
  - reflexivity.
  - cbn [compile_expression]. rewrite eval_var, (Hb v); [reflexivity | left; reflexivity].
  - cbn [compile_expression sden]. rewrite eval_functor, map_map. f_equal.
    apply map_ext_Forall. rewrite Forall_forall in *. intros x Hx. apply (IH x Hx).
    intros v Hv. apply Hb. cbn [sterm_vars]. apply in_flat_map. eauto.
  - assert (E : map (eval_expr r) (map compile_expression items) = map (sden rho) items).
    { rewrite map_map. apply map_ext_Forall. rewrite Forall_forall in *. intros x Hx. apply (IH x Hx).
      intros v Hv. apply Hb. cbn [sterm_vars]. apply in_flat_map. eauto. }
    destruct items as [|x items]; [reflexivity|].
    cbn [compile_expression sden]. rewrite eval_makelist, mk_list_fold.
    change (map (fix compile_expression (t : sterm) : expr := _) (x :: items)) with (map compile_expression (x :: items)).
    rewrite E. reflexivity.
  - cbn [compile_expression sden]. rewrite eval_listpair, (IHh r rho), (IHt r rho); [reflexivity| |];
      intros v Hv; apply Hb; cbn [sterm_vars]; apply in_or_app; auto.
Qed.

(* a literal without variables denotes one fixed term, whatever the environment *)
Corollary ground_literal_denotation t r rho : sterm_vars t = [] ->
  eval_expr r (compile_expression t) = sden rho t.
Proof. intros H. apply literal_denotation. rewrite H. intros v []. Qed.

(* ------------------------------------------------------------------ TO_PYTHON_LITERAL *)

(* The Python value the property text prescribes for a literal, given the Python values pv of its variables
   (PNone for an unbound one): atoms -> names, `[]` (however written) -> the empty list, integers -> ints, `[...]` ->
   lists, `[..|T]` -> a list when T's value is a list, compound terms not named `.` -> (name, argument list).
   None = not specified by the property (a `.`-named compound written as such, a list pattern whose tail is not a list). *)
Fixpoint lit_py (pv : str -> pyval) (t : sterm) : option pyval :=
  let go := fix go (l : list sterm) : option (list pyval) :=
    match l with
    | [] => Some []
    | x :: r => match lit_py pv x, go r with Some y, Some ys => Some (y :: ys) | _, _ => None end
    end in
  match t with
  | SAtom a => Some (if str_eqb a nil_name then PList [] else PStr a)
  | SNum w => Some (PInt (Z.of_N (num_value w)))
  | SVar v => Some (pv v)
  | SFun f args => if str_eqb f dot then None else option_map (PPair f) (go args)
  | SList items => option_map PList (go items)
  | SPair h tl => match lit_py pv h, lit_py pv tl with
                  | Some x, Some (PList l) => Some (PList (x :: l))
                  | _, _ => None
                  end
  end.

Fixpoint lit_pys (pv : str -> pyval) (l : list sterm) : option (list pyval) :=
  match l with
  | [] => Some []
  | x :: r => match lit_py pv x, lit_pys pv r with Some y, Some ys => Some (y :: ys) | _, _ => None end
  end.

Lemma lit_py_go pv l :
  (fix go (l : list sterm) : option (list pyval) :=
    match l with
    | [] => Some []
    | x :: r => match lit_py pv x, go r with Some y, Some ys => Some (y :: ys) | _, _ => None end
    end) l = lit_pys pv l.
Proof. induction l as [|x r IH]; [reflexivity|]. cbn [lit_pys]. rewrite <- IH. reflexivity. Qed.

Lemma lit_pys_Forall2 pv rho l : Forall (fun t => forall v, lit_py pv t = Some v -> py_of (sden rho t) = POk v) l ->
  forall ys, lit_pys pv l = Some ys -> Forall2 (fun x y => py_of x = POk y) (map (sden rho) l) ys.
Proof.
  induction 1 as [|t l Ht _ IH]; intros ys H; cbn [lit_pys] in H.
  - injection H as <-. constructor.
  - destruct (lit_py pv t) as [y|] eqn:Ey; [|discriminate]. destruct (lit_pys pv l) as [ys'|]; [|discriminate].
    injection H as <-. cbn [map]. constructor; auto.
Qed.

(* TO_PYTHON_LITERAL: whenever the variables of the literal stand for terms whose Python values are pv, the
   to_python specification py_of maps the term the literal denotes to lit_py *)
Theorem to_python_literal pv rho : (forall x, py_of (rho x) = POk (pv x)) ->
  forall t v, lit_py pv t = Some v -> py_of (sden rho t) = POk v.
Proof.
  intros Hrho.
  induction t as [a|w|x|f args IH|items IH|h tl IHh IHt] using sterm_ind'; intros v H; cbn [lit_py] in H.
  - injection H as <-. cbn [sden py_of]. destruct (str_eqb a nil_name); reflexivity.
  - injection H as <-. reflexivity.
  - injection H as <-. apply Hrho.
  - rewrite lit_py_go in H. destruct (str_eqb f dot) eqn:Ef; [discriminate|].
    destruct (lit_pys pv args) as [ys|] eqn:E; [|discriminate]. injection H as <-.
    cbn [sden]. apply py_of_compound; [apply str_eqb_neq; exact Ef|]. eapply lit_pys_Forall2; eauto.
  - rewrite lit_py_go in H. destruct (lit_pys pv items) as [ys|] eqn:E; [|discriminate]. injection H as <-.
    cbn [sden]. change (fold_right Literals.cons_term (TAtom s_nil) (map (sden rho) items)) with (mklist (map (sden rho) items)).
    apply py_of_list. eapply lit_pys_Forall2; eauto.
  - destruct (lit_py pv h) as [x|] eqn:Eh; [|discriminate]. destruct (lit_py pv tl) as [[| | |l|]|] eqn:Et; try discriminate.
    injection H as <-. cbn [sden]. unfold Literals.cons_term. rewrite py_of_fun.
    change (str_eqb s_dot dot) with true. cbv iota. rewrite (IHh x eq_refl), (IHt (PList l) eq_refl). reflexivity.
Qed.

(* ... and so does the engine's to_python, applied to the term the emitted constructor calls build, for every
   store in which that term is fully resolved and every recursion depth at which to_python returns *)
Corollary to_python_compiled_literal pv rho r n s t v :
  binds r rho (sterm_vars t) -> (forall x, py_of (rho x) = POk (pv x)) -> lit_py pv t = Some v ->
  free_in s (sden rho t) -> to_python n s (eval_expr r (compile_expression t)) <> POof ->
  to_python n s (eval_expr r (compile_expression t)) = POk v.
Proof.
  intros Hb Hrho Hl Hf Hn. rewrite (literal_denotation t r rho Hb) in *.
  rewrite (to_python_spec n Hf Hn). eapply to_python_literal; eauto.
Qed.

(* ------------------------------------------------------------------ ATOM IDENTITY *)

(* YP.atom: self._atom_store.setdefault(name, Atom(name)); return self._atom_store[name].
   The table maps names to object identities (here: natural numbers handed out by a counter). *)
Definition atom_table := list (str * nat).
Fixpoint tbl_get (name : str) (tb : atom_table) : option nat :=
  match tb with [] => None | (k, o) :: r => if str_eqb name k then Some o else tbl_get name r end.
(* returns the object and the new table; fresh = identity of the Atom(name) object just constructed *)
Definition yp_atom (name : str) (fresh : nat) (tb : atom_table) : nat * atom_table :=
  match tbl_get name tb with
  | Some o => (o, tb)
  | None => (fresh, tb ++ [(name, fresh)])
  end.

Lemma tbl_get_app name tb tb' : tbl_get name (tb ++ tb') =
  match tbl_get name tb with Some o => Some o | None => tbl_get name tb' end.
Proof. induction tb as [|[k o] r IH]; simpl; [reflexivity|]. destruct (str_eqb name k); auto. Qed.

(* ATOM_IDENTITY: once atom(name) has returned an object, every later atom(name) of the same engine returns the
   same object, whatever other atoms are created in between and whatever fresh objects are offered *)
Inductive later : atom_table -> atom_table -> Prop :=
| later_refl tb : later tb tb
| later_step tb tb' name fresh : later tb tb' -> later tb (snd (yp_atom name fresh tb')).

Lemma later_keeps tb tb' : later tb tb' -> forall name o, tbl_get name tb = Some o -> tbl_get name tb' = Some o.
Proof.
  induction 1 as [|tb tb' nm fresh _ IH]; intros name o H; [exact H|].
  specialize (IH name o H). unfold yp_atom. destruct (tbl_get nm tb'); simpl; [exact IH|].
  rewrite tbl_get_app, IH. reflexivity.
Qed.

Theorem atom_identity tb name fresh tb' fresh' :
  let '(o, tb1) := yp_atom name fresh tb in
  later tb1 tb' -> fst (yp_atom name fresh' tb') = o /\ snd (yp_atom name fresh' tb') = tb'.
Proof.
  destruct (yp_atom name fresh tb) as [o tb1] eqn:E. intros Hl.
  assert (G : tbl_get name tb1 = Some o).
  { unfold yp_atom in E. destruct (tbl_get name tb) eqn:Eg; injection E as <- <-; [exact Eg|].
    rewrite tbl_get_app, Eg. simpl. rewrite str_eqb_refl. reflexivity. }
  unfold yp_atom. rewrite (later_keeps _ _ Hl name o G). auto.
Qed.

(* different names never share an object as long as fresh identities are fresh *)
Definition tbl_inj (tb : atom_table) : Prop :=
  forall a b o, tbl_get a tb = Some o -> tbl_get b tb = Some o -> a = b.
Lemma yp_atom_inj name fresh tb : tbl_inj tb -> (forall k, tbl_get k tb <> Some fresh) ->
  tbl_inj (snd (yp_atom name fresh tb)).
Proof.
  intros Hi Hf. unfold yp_atom. destruct (tbl_get name tb) eqn:E; simpl; [exact Hi|].
  intros a b o. rewrite !tbl_get_app. simpl.
  destruct (tbl_get a tb) eqn:Ea; destruct (tbl_get b tb) eqn:Eb.
  - intros Ha Hb. injection Ha as <-. injection Hb as <-. eapply Hi; eauto.
  - destruct (str_eqb_spec b name); [|discriminate]. intros Ha Hb. injection Ha as <-. injection Hb as <-.
    exfalso. eapply Hf; eauto.
  - destruct (str_eqb_spec a name); [|discriminate]. intros Ha Hb. injection Ha as <-. injection Hb as <-.
    exfalso. eapply Hf; eauto.
  - destruct (str_eqb_spec a name); [|discriminate]. destruct (str_eqb_spec b name); [|discriminate]. congruence.
Qed.

(* CROSS_ENGINE: the term model carries the NAME of an atom only (TAtom name) -- Atom.unify compares
   self._name == arg._name and never the object -- so atoms made by different engines unify iff their names
   are equal, and unification of two atoms binds nothing *)
Theorem atom_unify_by_name n s a b :
  unify (S n) s (TAtom a) (TAtom b) = if str_eqb a b then UOk s else UFail.
Proof. cbn [unify]. rewrite !den_atom. reflexivity. Qed.

(* API_TERM_UNIFIES: the term a user builds with atom / functor / listpair / makelist for a literal (the same
   constructor calls, in the user's environment r2) and the term the compiled clause builds (environment r1) are one
   term when the variables have the same values; they unify under every active store, and the unification
   constrains nothing that was not already constrained (every solution of s is a solution of s') *)
From YP Require Import Unify.Mgu.

Theorem api_term_unifies t r1 r2 rho s :
  binds r1 rho (sterm_vars t) -> binds r2 rho (sterm_vars t) -> wf s ->
  eval_expr r1 (compile_expression t) = eval_expr r2 (compile_expression t) /\
  exists n s', unify n s (eval_expr r1 (compile_expression t)) (eval_expr r2 (compile_expression t)) = UOk s' /\
               wf s' /\ ext s s' /\ sat (sub_of s) s'.
Proof.
  intros H1 H2 W. rewrite (literal_denotation t r1 rho H1), (literal_denotation t r2 rho H2).
  split; [reflexivity|].
  assert (St : sat (sub_of s) s) by (apply sat_sub_of; [exact W | apply ext_refl]).
  destruct (unify_mgu (sden rho t) (sden rho t) W St eq_refl) as [n [s' [U [W' [X [_ S]]]]]].
  exists n, s'. auto.
Qed.

(* ------------------------------------------------------------------ executable entry point for the harness (C16):
   the Python values that the SPECIFICATION lit_py prescribes for the literals of a source text, computed from the text
   by the model front end.  The harness compares them with what to_python returns for the compiled program. *)
From YP Require Import Lang.Front.

Fixpoint pyval_obs (v : pyval) : obs :=
  match v with
  | PStr x => otag "s" [OS x]
  | PInt z => otag "i" [OZ z]
  | PNone => otag "none" []
  | PList l => otag "l" [OL (map pyval_obs l)]
  | PPair f args => otag "t" [OS f; OL (map pyval_obs args)]
  end.
Definition opt_py_obs (o : option pyval) : obs :=
  match o with Some v => pyval_obs v | None => otag "unspecified" [] end.

Fixpoint env_find (v : str) (env : list (str * sterm)) : option sterm :=
  match env with [] => None | (x, t) :: r => if str_eqb v x then Some t else env_find v r end.
(* variables bound to ground literals: their Python value is the value of that literal; all others are unbound *)
Definition env_pv (env : list (str * sterm)) (v : str) : pyval :=
  match env_find v env with
  | Some t => match lit_py (fun _ => PNone) t with Some x => x | None => PNone end
  | None => PNone
  end.

Definition is_fact_clause (c : clause) : bool := is_prefix (s_ "fact") (c_name c).

(* the variables of a literal numbered by first occurrence (how a reader of the run-time term numbers the Variable
   objects it meets) *)
From YP Require Import Comp.CompileClause Term.Show.
Fixpoint index_of (v : str) (l : list str) (i : nat) : nat :=
  match l with [] => i | x :: r => if str_eqb v x then i else index_of v r (S i) end.
Definition rho_first (t : sterm) (v : str) : term := TVar (index_of v (dedup (sterm_vars t)) 0).

Fixpoint lits_obs (cs : list clause) (envs : list (list (str * sterm))) : list obs :=
  match cs, envs with
  | c :: cr, env :: er =>
      match c_args c with
      | t :: _ => OL [opt_py_obs (lit_py (fun _ => PNone) t); opt_py_obs (lit_py (env_pv env) t);
                      term_obs (sden (rho_first t) t)]
      | [] => otag "no-argument" []
      end :: lits_obs cr er
  | _, _ => []
  end.

(* for the i-th clause named fact<i>: [Python value with all variables unbound; Python value with the variables bound as in
   envs[i]; the run-time term itself (sden), variables numbered by first occurrence] *)
Definition run_lits (s : str) (envs : list (list (str * sterm))) : obs :=
  match front s with
  | Some prog => otag "ok" [OL (lits_obs (filter is_fact_clause prog) envs)]
  | None => otag "none" []
  end.

(* the atom tables of two engines under a sequence of atom(name) calls: the object each call returns
   (objects are numbered by creation; every call offers the next number as the identity of a new Atom) *)
Fixpoint atoms_run (calls : list (bool * str)) (fresh : nat) (tb1 tb2 : atom_table) : list obs :=
  match calls with
  | [] => []
  | (e, name) :: r =>
      if e then let '(o, tb) := yp_atom name fresh tb2 in onat o :: atoms_run r (S fresh) tb1 tb
      else let '(o, tb) := yp_atom name fresh tb1 in onat o :: atoms_run r (S fresh) tb tb2
  end.

Definition run_c16 (s : str) (envs : list (list (str * sterm))) (calls : list (bool * str)) : obs :=
  OL [run_front s; run_lits s envs; OL (atoms_run calls 0 [] [])].
