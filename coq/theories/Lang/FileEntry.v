(* compile_prolog_from_file / the command line, as far as the literals are concerned: the front end applied to the
   strictly decoded bytes of the file.  For a file that holds the UTF-8 encoding of a text, the front end reads
   exactly what it reads from the text -- so the literals of the file denote what the literals of the text denote
   (Lang/Literals.v, Lang/Denote.v), whatever line-end characters, byte order marks or control characters the
   quoted atoms contain. *)
From Coq Require Import List NArith Bool.
Import ListNotations.
From YP Require Import Base.Str Lang.Ast Lang.Front Lang.Utf8.

Definition front_bytes (b : list N) : option program :=
  match utf8_decode b with
  | Some s => front s
  | None => None              (* UnicodeDecodeError *)
  end.

Theorem file_entry_point s : forallb is_scalar s = true -> front_bytes (utf8_encode s) = front s.
Proof. intros H. unfold front_bytes. rewrite (utf8_roundtrip s H). reflexivity. Qed.

(* two files are read alike only if they hold the same text: the decoder is a function of the bytes, and
   distinct texts have distinct encodings *)
Theorem utf8_encode_injective s t :
  forallb is_scalar s = true -> forallb is_scalar t = true -> utf8_encode s = utf8_encode t -> s = t.
Proof.
  intros Hs Ht E. pose proof (utf8_roundtrip s Hs) as A. pose proof (utf8_roundtrip t Ht) as B.
  rewrite E in A. rewrite A in B. injection B as ->. reflexivity.
Qed.

(* the command line model (Cli/Cli.v) speaks of what reading a source gives: RText t (decoded text) or RBad (the bytes are
   not UTF-8: the command crashes with UnicodeDecodeError).  In terms of the bytes on disk / on standard input: *)
From YP Require Import Cli.Cli.

Definition rd_of_bytes (b : list N) : rdres :=
  match utf8_decode b with Some t => RText t | None => RBad end.

Theorem cli_reads_text s : forallb is_scalar s = true -> rd_of_bytes (utf8_encode s) = RText s.
Proof. intros H. unfold rd_of_bytes. rewrite (utf8_roundtrip s H). reflexivity. Qed.
