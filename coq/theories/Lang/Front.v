(* The front end of the compiler:  text -> tokens -> parse tree -> AST,
   and the executable entry points used by the correspondence checks of C10 and C16. *)
From Coq Require Import String.
From Coq Require Import List NArith ZArith Arith Bool.
Import ListNotations.
From YP Require Import Base.Str Lang.Ast Lang.ShowAst Lang.Lexer Lang.Cst Lang.Parser Lang.Unquote.
Local Open Scope string_scope.
Local Open Scope list_scope.

Definition front (s : str) : option program :=
  do 'ts <- lex s;
  do 'cst <- parse ts;
  do '(p, _) <- v_program cst 0;
  Some p.

(* observation: where the text is refused, or the AST *)
Definition run_front (s : str) : obs :=
  match lex s with
  | None => otag "lex-error" []
  | Some ts =>
      match parse ts with
      | None => otag "parse-error" []
      | Some cst =>
          match v_program cst 0 with
          | None => otag "refused" []
          | Some (p, k) => otag "ok" [program_obs p; onat k]
          end
      end
  end.

(* the token stream: (ANTLR token type = position of the rule + 1, text) *)
Definition run_lex (s : str) : obs :=
  match lex s with
  | None => otag "lex-error" []
  | Some ts => otag "ok" [OL (map (fun t : item => OL [onat (S (ridx (fst t))); OS (snd t)]) ts)]
  end.

Definition run_both (s : str) : obs := OL [run_lex s; run_front s].

(* ------------------------------------------------------------------ accepted => whole input *)
From YP Require Import Lang.ParserSound.

(* FRONT_WHOLE_INPUT.  If the front end returns a program for the text s then
   - s is, character for character, the concatenation of maximal-munch items (tokens, white space,
     comments), each in the language of its rule: no character is skipped or unlexable;
   - there is a derivation tree cst of the grammar whose leaves are exactly the tokens of s, all of them
     and in order: s is a complete sentence of prolog.g4, nothing is left over after the last clause;
   - the program has exactly one clause per clause node of cst, in order, each the visitor's image of
     its node: no clause is omitted, added or reordered. *)
Theorem front_whole_input s prog : front s = Some prog ->
  exists items cst k,
    lexes s items [] /\ concat (map snd items) = s /\
    Forall (fun it => rule_lang (fst it) (snd it)) items /\
    yield cst = map norm (filter keep items) /\
    v_program cst 0 = Some (prog, k) /\
    Forall2 clause_image (clauses_of cst) prog /\
    length prog = length (clauses_of cst).
Proof.
  unfold front. intros H.
  destruct (lex s) as [ts|] eqn:El; [|discriminate].
  destruct (parse ts) as [cst|] eqn:Ep; [|discriminate].
  destruct (v_program cst 0) as [[p k]|] eqn:Ev; [|discriminate].
  injection H as <-.
  apply lex_exact in El as [items [Hl [Hc [Hf ->]]]].
  apply parse_yield in Ep.
  exists items, cst, k. repeat split; auto.
  - eapply v_program_clauses; eauto.
  - eapply v_program_count; eauto.
Qed.

(* rejection is the only other outcome, and its three causes *)
Theorem front_none s : front s = None ->
  lex s = None \/ (exists ts, lex s = Some ts /\ parse ts = None) \/
  (exists ts cst, lex s = Some ts /\ parse ts = Some cst /\ v_program cst 0 = None).
Proof.
  unfold front. intros H.
  destruct (lex s) as [ts|] eqn:El; [|auto]. right.
  destruct (parse ts) as [cst|] eqn:Ep; [|left; eauto]. right.
  destruct (v_program cst 0) as [[p k]|] eqn:Ev; [discriminate|]. eauto.
Qed.
