(* The front end of the compiler:  text -> tokens -> parse tree -> AST,
   and the executable entry points used by the correspondence checks of C10 and C16. *)
From Coq Require Import String.
From Coq Require Import List NArith ZArith Arith Bool.
Import ListNotations.
From YP Require Import Base.Str Lang.Ast Lang.ShowAst Lang.Lexer Lang.Cst Lang.Parser Lang.Unquote.
Local Open Scope string_scope.
Local Open Scope list_scope.

Definition front (s : str) : option program :=
  do 'ts <- lex s;
  do 'cst <- parse ts;
  do '(p, _) <- v_program cst 0;
  Some p.

(* observation: where the text is refused, or the AST *)
Definition run_front (s : str) : obs :=
  match lex s with
  | None => otag "lex-error" []
  | Some ts =>
      match parse ts with
      | None => otag "parse-error" []
      | Some cst =>
          match v_program cst 0 with
          | None => otag "refused" []
          | Some (p, k) => otag "ok" [program_obs p; onat k]
          end
      end
  end.

(* the token stream: (ANTLR token type = position of the rule + 1, text) *)
Definition run_lex (s : str) : obs :=
  match lex s with
  | None => otag "lex-error" []
  | Some ts => otag "ok" [OL (map (fun t : item => OL [onat (S (ridx (fst t))); OS (snd t)]) ts)]
  end.

Definition run_both (s : str) : obs := OL [run_lex s; run_front s].
