(* C10, last link: "never compiled into a program that silently omits or alters clauses".
   The AST that the front end returns (Lang/Front.v: one clause per clause node of the sentence, in order) is handed
   to compile_program (Comp/CompileClause.v = YPPrologCompiler.compile_program).  Here:
     * visitProgram's grouping keeps every clause: the group of key k is exactly the clauses of the program with
       head key k, in source order; the keys are pairwise different, in order of first occurrence;
     * compile_program emits exactly one function per group, named by the key, whose body is the concatenation, in
       source order, of the code of each clause of the group -- so every clause of the text has its code in the
       function of its head key, and there is no other code. *)
From Coq Require Import String.
From Coq Require Import List NArith Arith Bool Lia.
Import ListNotations.
From YP Require Import Base.Str Lang.Ast Lang.Lexer Lang.Cst Lang.Parser Lang.ParserSound Lang.Unquote Lang.Front
  Comp.IR Comp.CompileBody Comp.CompileClause Comp.CompileTotal.

Lemma key_eqb_eq a b : key_eqb a b = true <-> a = b.
Proof.
  destruct a as [a1 a2], b as [b1 b2]. unfold key_eqb. simpl. rewrite andb_true_iff, str_eqb_eq, Nat.eqb_eq.
  split; [intros [-> ->]; reflexivity | intros H; injection H as -> ->; auto].
Qed.
Lemma key_eqb_refl a : key_eqb a a = true.
Proof. apply key_eqb_eq. reflexivity. Qed.
Lemma key_eqb_neq a b : key_eqb a b = false <-> a <> b.
Proof.
  split; [intros H E; apply key_eqb_eq in E; congruence|].
  intros H. destruct (key_eqb a b) eqn:E; [apply key_eqb_eq in E; contradiction|reflexivity].
Qed.

Definition has_key (k : key) (c : clause) : bool := key_eqb k (clause_key c).
Definition memk (k : key) (ks : list key) : bool := existsb (key_eqb k) ks.
Definition fn_key (f : func) : key := (fn_name f, fn_arity f).

Lemma memk_in k ks : memk k ks = true <-> In k ks.
Proof.
  unfold memk. rewrite existsb_exists. split.
  - intros [k' [Hin E]]. apply key_eqb_eq in E. subst. exact Hin.
  - intros H. exists k. split; [exact H | apply key_eqb_refl].
Qed.

(* the dictionary of visitProgram after the clauses p: key k -> the clauses of p with key k, in order *)
Definition grp (p : list clause) (k : key) : key * list clause := (k, filter (has_key k) p).

Lemma filter_snoc_other k p c : k <> clause_key c -> filter (has_key k) (p ++ [c]) = filter (has_key k) p.
Proof.
  intros H. rewrite filter_app. cbn [filter]. unfold has_key at 2.
  replace (key_eqb k (clause_key c)) with false by (symmetry; apply key_eqb_neq; exact H). apply app_nil_r.
Qed.
Lemma filter_snoc_same p c : filter (has_key (clause_key c)) (p ++ [c]) = filter (has_key (clause_key c)) p ++ [c].
Proof. rewrite filter_app. cbn [filter]. unfold has_key at 2. rewrite key_eqb_refl. reflexivity. Qed.

Lemma grp_other_map p c ks : ~ In (clause_key c) ks -> map (grp (p ++ [c])) ks = map (grp p) ks.
Proof.
  intros H. apply map_ext_in. intros k Hk. unfold grp. rewrite filter_snoc_other; [reflexivity|].
  intros E. subst. contradiction.
Qed.

(* filing one more clause *)
Lemma group_insert_grp p c ks : NoDup ks ->
  (~ In (clause_key c) ks -> filter (has_key (clause_key c)) p = []) ->
  group_insert c (map (grp p) ks) =
  map (grp (p ++ [c])) (if memk (clause_key c) ks then ks else ks ++ [clause_key c]).
Proof.
  intros Hnd Hnew. induction ks as [|k r IH].
  - cbn [map group_insert memk existsb app]. unfold grp. rewrite filter_snoc_same, Hnew; [reflexivity|intros []].
  - inversion Hnd as [|? ? Hk Hr]; subst. cbn [map group_insert]. unfold grp at 1. cbn [fst].
    destruct (key_eqb k (clause_key c)) eqn:E.
    + apply key_eqb_eq in E. subst k.
      replace (memk (clause_key c) (clause_key c :: r)) with true by (symmetry; apply memk_in; left; reflexivity).
      cbn [map]. rewrite (grp_other_map p c r Hk). unfold grp at 2. rewrite filter_snoc_same. reflexivity.
    + apply key_eqb_neq in E.
      assert (Em : memk (clause_key c) (k :: r) = memk (clause_key c) r).
      { unfold memk. cbn [existsb]. replace (key_eqb (clause_key c) k) with false; [reflexivity|].
        symmetry. apply key_eqb_neq. congruence. }
      rewrite Em. rewrite IH; [|exact Hr|intros Hn; apply Hnew; intros [X|X]; [congruence|contradiction]].
      destruct (memk (clause_key c) r); cbn [map app]; unfold grp at 2; rewrite (filter_snoc_other k p c E); reflexivity.
Qed.

Lemma NoDup_snoc {A} (l : list A) x : NoDup l -> ~ In x l -> NoDup (l ++ [x]).
Proof.
  induction 1 as [|y l Hy Hl IH]; intros Hx; simpl; [constructor; [intros []|constructor]|].
  constructor.
  - intros H. apply in_app_or in H as [H|[H|[]]]; [contradiction|]. subst. apply Hx. left; reflexivity.
  - apply IH. intros H. apply Hx. right; exact H.
Qed.

Definition keys_ok (ks : list key) (p : list clause) : Prop :=
  NoDup ks /\ (forall c, In c p -> In (clause_key c) ks) /\ (forall k, In k ks -> exists c, In c p /\ clause_key c = k).

Lemma filter_none k p : (forall c, In c p -> clause_key c <> k) -> filter (has_key k) p = [].
Proof.
  induction p as [|c r IH]; intros H; [reflexivity|]. cbn [filter]. unfold has_key at 1.
  replace (key_eqb k (clause_key c)) with false.
  - apply IH. intros c' Hc'. apply H. right; exact Hc'.
  - symmetry. apply key_eqb_neq. intros E. apply (H c); [left; reflexivity|congruence].
Qed.

(* GROUPING: visitProgram's dictionary is, for the keys in order of first occurrence, the clauses with that key *)
Theorem group_program_spec p : exists ks, keys_ok ks p /\ group_program p = map (grp p) ks.
Proof.
  unfold group_program. induction p as [|c p' IH] using rev_ind.
  - exists []. split; [|reflexivity]. split; [constructor|]. split; [intros c []|intros k []].
  - destruct IH as [ks [[Hnd [Hcov Hex]] E]]. rewrite fold_left_app. cbn [fold_left]. rewrite E.
    rewrite (group_insert_grp p' c ks Hnd).
    + eexists. split; [|reflexivity].
      destruct (memk (clause_key c) ks) eqn:Em.
      * apply memk_in in Em. split; [exact Hnd|]. split.
        -- intros c0 H0. apply in_app_or in H0 as [H0|[<-|[]]]; auto.
        -- intros k Hk. destruct (Hex k Hk) as [c0 [H0 E0]]. exists c0. split; [apply in_or_app; auto|exact E0].
      * assert (Hn : ~ In (clause_key c) ks) by (intros X; apply memk_in in X; congruence).
        split; [|split].
        -- apply NoDup_snoc; assumption.
        -- intros c0 H0. apply in_or_app. apply in_app_or in H0 as [H0|[<-|[]]]; [left; auto|right; left; reflexivity].
        -- intros k Hk. apply in_app_or in Hk as [Hk|[<-|[]]].
           ++ destruct (Hex k Hk) as [c0 [H0 E0]]. exists c0. split; [apply in_or_app; auto|exact E0].
           ++ exists c. split; [apply in_or_app; right; left; reflexivity|reflexivity].
    + intros Hn. apply filter_none. intros c0 H0 E0. apply Hn. rewrite <- E0. apply Hcov. exact H0.
Qed.

(* ------------------------------------------------------------------ compile_program keeps every group and every clause *)

(* the code of a function is the concatenation, in order, of the code of each of its clauses *)
Definition clause_code (c : clause) (piece : list stmt) : Prop := exists k k', compile_clause c k = Some (piece, k').

Lemma compile_clauses_pieces cs : forall cnt code cnt', compile_clauses cs cnt = Some (code, cnt') ->
  exists pieces, code = concat pieces /\ Forall2 clause_code cs pieces.
Proof.
  induction cs as [|c r IH]; intros cnt code cnt' H; cbn [compile_clauses] in H.
  - injection H as <- _. exists []. split; [reflexivity|constructor].
  - destruct (compile_clause c cnt) as [[pc k1]|] eqn:E; [|discriminate].
    destruct (compile_clauses r k1) as [[rest k2]|] eqn:E1; [|discriminate]. injection H as <- _.
    destruct (IH _ _ _ E1) as [pieces [-> F]]. exists (pc :: pieces). split; [reflexivity|].
    constructor; [exists cnt, k1; exact E|exact F].
Qed.

Definition func_of_group (g : key * list clause) (f : func) : Prop :=
  fn_key f = fst g /\ exists pieces, fn_body f = concat pieces /\ Forall2 clause_code (snd g) pieces.

Lemma compile_groups_funcs gs : forall cnt fs cnt', compile_groups gs cnt = Some (fs, cnt') ->
  Forall2 func_of_group gs fs.
Proof.
  induction gs as [|[k cs] r IH]; intros cnt fs cnt' H; cbn [compile_groups] in H.
  - injection H as <- _. constructor.
  - destruct (compile_clauses cs cnt) as [[code k1]|] eqn:E; [|discriminate].
    destruct (compile_groups r k1) as [[fs' k2]|] eqn:E1; [|discriminate]. injection H as <- _.
    constructor; [|eapply IH; eauto]. split; [destruct k; reflexivity|]. cbn [fn_body snd]. eapply compile_clauses_pieces; eauto.
Qed.

Lemma Forall2_map_l {A B C} (R : B -> C -> Prop) (f : A -> B) l l' :
  Forall2 R (map f l) l' <-> Forall2 (fun a c => R (f a) c) l l'.
Proof.
  split.
  - revert l'. induction l as [|a l IH]; intros l' H; inversion H; subst; constructor; auto.
  - induction 1; simpl; constructor; auto.
Qed.

(* COMPILE_WHOLE_PROGRAM: one function per head key, in order of first occurrence, no two for one key; the body
   of the function for key k is exactly the code of the clauses with key k, in source order; every clause of the
   program has a key that has a function *)
Theorem compile_whole_program p : exists ir ks,
  compile_program p = Some ir /\ keys_ok ks p /\
  Forall2 (fun k f => fn_key f = k /\ exists pieces, fn_body f = concat pieces /\
                      Forall2 clause_code (filter (has_key k) p) pieces) ks ir.
Proof.
  destruct (group_program_spec p) as [ks [Hk E]].
  unfold compile_program. rewrite E.
  destruct (compile_groups (map (grp p) ks) 0) as [[fs k]|] eqn:Ec.
  - exists fs, ks. split; [reflexivity|]. split; [exact Hk|].
    apply compile_groups_funcs in Ec. apply (proj1 (Forall2_map_l func_of_group (grp p) ks fs)) in Ec. exact Ec.
  - exfalso. eapply compile_groups_total; eauto.
Qed.

(* FRONT_COMPILE_WHOLE: accepted text => (front_whole_input) the text is a complete sentence whose clause nodes are,
   one for one and in order, the clauses of prog, and the compiler's output has one function per head key whose body
   is the code of all the clauses of that key: nothing of the input is left out of the compiled program *)
Theorem front_compile_whole s prog : front s = Some prog ->
  (exists items cst k,
     lexes s items [] /\ concat (map snd items) = s /\ yield cst = map norm (filter keep items) /\
     v_program cst 0 = Some (prog, k) /\ Forall2 clause_image (clauses_of cst) prog) /\
  exists ir ks,
    compile_program prog = Some ir /\ keys_ok ks prog /\
    Forall2 (fun k f => fn_key f = k /\ exists pieces, fn_body f = concat pieces /\
                        Forall2 clause_code (filter (has_key k) prog) pieces) ks ir.
Proof.
  intros H. split; [|apply compile_whole_program].
  destruct (front_whole_input s prog H) as [items [cst [k [H1 [H2 [_ [H4 [H5 [H6 _]]]]]]]]].
  exists items, cst, k. auto.
Qed.

(* ------------------------------------------------------------------ the compiler's own refusal

   After the visitor the implementation raises in one more situation (apart from the size limit D13): when
   compile_expression / compile_predicate is called on a Functor whose name is a NumeralTerm (`1(a)`).  The front
   end model keeps such a functor under a name that begins with a backslash (Lang/Unquote.v); it is touched by the
   compiler exactly when that name appears in the intermediate code (goals dropped as dead code after `fail`
   never get there). *)
From YP Require Import Comp.NumeralName.

(* COMPILE_FRONT: the model of _compile_prolog_from_stream up to the intermediate code.
   None = the implementation raises; Some (prog, ir) = it goes on to print ir. *)
Definition compile_front (s : str) : option (program * ir_program) :=
  match front s with
  | None => None
  | Some p =>
      match compile_program p with
      | Some ir => if ir_bad ir then None else Some (p, ir)
      | None => None
      end
  end.

(* COMPILE_FRONT_WHOLE: code is produced only for complete sentences, and then for the whole sentence *)
Theorem compile_front_whole s prog ir : compile_front s = Some (prog, ir) ->
  front s = Some prog /\ compile_program prog = Some ir /\ ir_bad ir = false /\
  (exists items cst k,
     lexes s items [] /\ concat (map snd items) = s /\ yield cst = map norm (filter keep items) /\
     v_program cst 0 = Some (prog, k) /\ Forall2 clause_image (clauses_of cst) prog) /\
  exists ks, keys_ok ks prog /\
    Forall2 (fun k f => fn_key f = k /\ exists pieces, fn_body f = concat pieces /\
                        Forall2 clause_code (filter (has_key k) prog) pieces) ks ir.
Proof.
  unfold compile_front. intros H. destruct (front s) as [p|] eqn:Ef; [|discriminate].
  destruct (compile_program p) as [ir0|] eqn:Ec; [|discriminate].
  destruct (ir_bad ir0) eqn:Eb; [discriminate|]. injection H as <- <-.
  destruct (front_compile_whole s p Ef) as [H1 [ir1 [ks [Ec1 [Hk HF]]]]].
  rewrite Ec in Ec1. injection Ec1 as <-. repeat split; auto. exists ks. auto.
Qed.

(* ------------------------------------------------------------------ the text-producing model

   Comp/CompileText.compile_text (emit worker) is the whole of compile_prolog_from_string, down to the Python text and
   CPython's size limits; it is what the C10 check compares byte for byte with the implementation.  It returns text
   only where compile_front returns code, and the text is the emission of exactly that code. *)
From YP Require Import Comp.Emit Comp.PyRepr Comp.Limits Comp.CompileText.

Theorem compile_text_front printable s text : compile_text printable s = CText text ->
  exists p ir, compile_front s = Some (p, ir) /\ text = emit_program (py_repr printable) ir.
Proof.
  unfold compile_text, compile_ast, finish, compile_front. intros H.
  destruct (front s) as [p|]; [|discriminate]. destruct (compile_program p) as [ir|]; [|discriminate].
  destruct (ir_bad ir); [discriminate|]. destruct (ir_nums_ok ir); [|discriminate]. simpl in H.
  destruct (py_limits ir); [|discriminate]. injection H as <-. eauto.
Qed.
