(* C10 at the level of source texts: the front end (lexer + parser + end-of-input test + visitor) as a recogniser.

   SENTENCE.  A text s is a sentence of the documented grammar iff it has a maximal-munch tokenisation
   (Lang/Lexer.v: `lexes s items []`, unique by lex_complete) whose non-skipped tokens are the yield of some derivation
   tree of prolog.g4 (Lang/Cst.v) -- any tree, also the readings that ANTLR's precedence rules do not select. *)
From Coq Require Import String.
From Coq Require Import List NArith Arith Bool.
Import ListNotations.
From YP Require Import Base.Str Lang.Ast Lang.Lexer Lang.Cst Lang.Parser Lang.ParserSound Lang.Unquote Lang.Front
  Lang.ParserMono Lang.ParserComplete Lang.ParserCanon Lang.ParserFuel Lang.ParserNorm.

Definition sentence (s : str) : Prop :=
  exists items (p : cprogram), lexes s items [] /\ yield p = map norm (filter keep items).

(* FRONT_SPEC: the front end returns prog exactly when s is a sentence and prog is the visitor's image of the
   canonical derivation tree of s *)
Theorem front_spec s prog : front s = Some prog <->
  exists items cst k, lexes s items [] /\ canonical cst = true /\ yield cst = map norm (filter keep items) /\
                      v_program cst 0 = Some (prog, k).
Proof.
  unfold front. split.
  - intros H. destruct (lex s) as [ts|] eqn:El; [|discriminate].
    destruct (parse ts) as [cst|] eqn:Ep; [|discriminate].
    destruct (v_program cst 0) as [[p k]|] eqn:Ev; [|discriminate]. injection H as <-.
    apply lex_exact in El as [items [Hl [_ [_ ->]]]]. apply parse_spec in Ep as [C Y].
    exists items, cst, k. auto.
  - intros [items [cst [k [Hl [C [Y Hv]]]]]]. rewrite (lex_complete s items Hl).
    assert (Ep : parse (filter keep items) = Some cst) by (apply parse_spec; auto).
    rewrite Ep, Hv. reflexivity.
Qed.

(* REJECTS_NON_SENTENCES: a text that is not a complete sentence of the grammar is refused -- whatever the reason
   (a character outside the lexicon, an unterminated quoted atom, a comment without line break, unbalanced brackets,
   a missing full stop, stray or repeated separators, anything left over after the last clause) *)
Theorem front_rejects_non_sentences s : ~ sentence s -> front s = None.
Proof.
  intros Hn. unfold front. destruct (lex s) as [ts|] eqn:El; [|reflexivity].
  apply lex_exact in El as [items [Hl [_ [_ ->]]]].
  assert (Ep : parse (filter keep items) = None).
  { apply parse_none_spec. intros p Y. apply Hn. exists items, p. auto. }
  rewrite Ep. reflexivity.
Qed.

(* ... and a sentence is refused only by the visitor (head or goal that is not callable, name/arity, ...) *)
Theorem front_none_spec s : front s = None <->
  (~ sentence s) \/
  (exists items cst, lexes s items [] /\ canonical cst = true /\ yield cst = map norm (filter keep items) /\
                     v_program cst 0 = None).
Proof.
  split.
  - intros H. unfold front in H. destruct (lex s) as [ts|] eqn:El.
    + pose proof El as El'. apply lex_exact in El' as [items [Hl [_ [_ ->]]]].
      destruct (parse (filter keep items)) as [cst|] eqn:Ep.
      * right. apply parse_spec in Ep as [C Y]. exists items, cst.
        destruct (v_program cst 0) as [[p k]|]; [discriminate|]. auto.
      * left. intros [items' [p [Hl' Y]]].
        assert (E : filter keep items' = filter keep items).
        { pose proof (lex_complete s items' Hl') as E1. rewrite El in E1. injection E1 as E1. auto. }
        rewrite E in Y. apply (proj1 (parse_none_spec _) Ep p Y).
    + left. intros [items [p [Hl _]]]. rewrite (lex_complete s items Hl) in El. discriminate.
  - intros [Hn|[items [cst [Hl [C [Y Hv]]]]]]; [apply front_rejects_non_sentences; exact Hn|].
    unfold front. rewrite (lex_complete s items Hl).
    assert (Ep : parse (filter keep items) = Some cst) by (apply parse_spec; auto).
    rewrite Ep, Hv. reflexivity.
Qed.

(* the same for the whole compiler model (front end + compile_program + the compiler's own refusal) *)
From YP Require Import Lang.FrontCompile.

Theorem compile_front_rejects_non_sentences s : ~ sentence s -> compile_front s = None.
Proof. intros H. unfold compile_front. rewrite (front_rejects_non_sentences s H). reflexivity. Qed.
