(* Lexer of prolog.g4 (the checked-in prologLexer.py was generated from it by ANTLR 4.9.1).

   SPEC.   `rule_def` is the table of the 23 token rules in the order ANTLR numbers them (the implicit
           literal tokens of the parser rules first, then TRUE ... COMMENT); `rdef_lang` gives the language
           of each rule.  ANTLR's lexing discipline is maximal munch: at each position the longest prefix
           that belongs to some rule's language is taken, ties go to the rule listed first, WS and COMMENT
           are skipped, and a position where no rule matches is an error (the raising error listener
           installed by compiler.py turns it into CompilerSyntaxError).
           COMMENT is '%' .*? [\r\n] with a NON-greedy loop, whose language under ANTLR's semantics is
           '%' (no line break)* (line break): a comment ends at the first line break and a comment that is
           not ended by a line break is not a token.
   MODEL.  `longest rd s` computes per rule the length of the longest matching prefix by a single scan
           (what the ATN simulation computes), `lex_one` takes the best over the rule table, `lex_items`
           iterates.
   THEOREMS.  `longest_some / longest_none` (the scans compute exactly the longest match of each rule),
           `lex_one_some / lex_one_none` (maximal munch + rule order), `lex_exact`, `lex_error_spec`. *)
From Coq Require Import String.
From Coq Require Import List NArith Arith Lia Bool Sorted.
Import ListNotations.
From YP Require Import Base.Str.
Local Open Scope string_scope.
Local Open Scope list_scope.

(* ------------------------------------------------------------------ character classes *)

Definition is_lc (c : N) : bool := ((97 <=? c) && (c <=? 122) || (c =? 95))%N.    (* LCLETTER : [a-z_] *)
Definition is_uc (c : N) : bool := ((65 <=? c) && (c <=? 90))%N.                   (* UCLETTER : [A-Z] *)
Definition is_digit (c : N) : bool := ((48 <=? c) && (c <=? 57))%N.                (* DIGIT : [0-9] *)
Definition is_character (c : N) : bool := is_lc c || is_uc c || is_digit c.         (* CHARACTER *)
Definition is_varstart (c : N) : bool := is_uc c || (c =? 95)%N.                    (* UCLETTER | '_' *)
Definition is_nl (c : N) : bool := ((c =? 13) || (c =? 10))%N.                      (* [\r\n] *)
Definition is_ws (c : N) : bool := ((c =? 32) || (c =? 9) || (c =? 13) || (c =? 10))%N.
Definition not_nl (c : N) : bool := negb (is_nl c).

(* ------------------------------------------------------------------ the rule table *)

Inductive rname :=
| R_DOT | R_NECK | R_NOT | R_COMMA | R_ARROW | R_SEMI | R_LPAR | R_RPAR | R_SLASH | R_BAR
| R_TRUE | R_FAIL | R_CUT | R_VARIABLE | R_ATOM | R_NUMERAL | R_UNOP | R_BINOP | R_STRING
| R_LBRACK | R_RBRACK | R_WS | R_COMMENT.

Definition rname_eq_dec (a b : rname) : {a = b} + {a <> b}.
Proof. decide equality. Defined.
Definition rname_eqb (a b : rname) : bool := if rname_eq_dec a b then true else false.
Lemma rname_eqb_eq a b : rname_eqb a b = true <-> a = b.
Proof. unfold rname_eqb; destruct (rname_eq_dec a b); split; congruence. Qed.

Inductive rdef :=
| RLits (ls : list str)                 (* one of finitely many literal texts *)
| RClass (first rest : N -> bool)       (* one character of class first, then any number of class rest *)
| RString                               (* ' ( ~' | \' )* ' *)
| RComment.                             (* % (no line break)* (line break) *)

Definition rule_def (r : rname) : rdef :=
  match r with
  | R_DOT => RLits [d "."]      | R_NECK => RLits [d ":-"]   | R_NOT => RLits [d "\92;+"]
  | R_COMMA => RLits [d ","]    | R_ARROW => RLits [d "->"]  | R_SEMI => RLits [d ";"]
  | R_LPAR => RLits [d "("]     | R_RPAR => RLits [d ")"]    | R_SLASH => RLits [d "/"]
  | R_BAR => RLits [d "|"]
  | R_TRUE => RLits [d "true"]  | R_FAIL => RLits [d "fail"] | R_CUT => RLits [d "!"]
  | R_VARIABLE => RClass is_varstart is_character
  | R_ATOM => RClass is_lc is_character
  | R_NUMERAL => RClass is_digit is_digit
  | R_UNOP => RLits [d "-"; d "+"]
  | R_BINOP => RLits [d "="; d "\92;="; d "=="; d "\92;=="; d "<"; d ">"; d "=<"; d ">="]
  | R_STRING => RString
  | R_LBRACK => RLits [d "["]   | R_RBRACK => RLits [d "]"]
  | R_WS => RClass is_ws (fun _ => false)
  | R_COMMENT => RComment
  end.

Definition all_rules : list rname :=
  [R_DOT; R_NECK; R_NOT; R_COMMA; R_ARROW; R_SEMI; R_LPAR; R_RPAR; R_SLASH; R_BAR;
   R_TRUE; R_FAIL; R_CUT; R_VARIABLE; R_ATOM; R_NUMERAL; R_UNOP; R_BINOP; R_STRING;
   R_LBRACK; R_RBRACK; R_WS; R_COMMENT].

Lemma all_rules_complete r : In r all_rules.
Proof. destruct r; simpl; tauto. Qed.

(* body of a quoted atom: ( ~' | \' )*  *)
Inductive sbody : str -> Prop :=
| sb_nil : sbody []
| sb_plain c w : c <> 39%N -> sbody w -> sbody (c :: w)
| sb_esc w : sbody w -> sbody (92%N :: 39%N :: w).

Definition rdef_lang (rd : rdef) (w : str) : Prop :=
  match rd with
  | RLits ls => In w ls
  | RClass f r => exists c w', w = c :: w' /\ f c = true /\ forallb r w' = true
  | RString => exists b, w = 39%N :: b ++ [39%N] /\ sbody b
  | RComment => exists b e, w = 37%N :: b ++ [e] /\ forallb not_nl b = true /\ is_nl e = true
  end.

Definition rule_lang (r : rname) (w : str) : Prop := rdef_lang (rule_def r) w.

(* ------------------------------------------------------------------ the scans *)

Fixpoint is_prefix (l s : str) : bool :=
  match l, s with
  | [], _ => true
  | x :: l', y :: s' => N.eqb x y && is_prefix l' s'
  | _ :: _, [] => false
  end.

Fixpoint longest_lit (ls : list str) (s : str) : option nat :=
  match ls with
  | [] => None
  | l :: r =>
      let b := longest_lit r s in
      if is_prefix l s then
        match b with Some n => Some (Nat.max (length l) n) | None => Some (length l) end
      else b
  end.

Fixpoint span (f : N -> bool) (s : str) : nat :=
  match s with
  | c :: r => if f c then S (span f r) else 0
  | [] => 0
  end.

(* quoted atom, after the opening quote: esc = "the previous character is a backslash that may
   escape a quote".  Result: length of the longest body b such that the text is b ++ ' :: _ .
   A quote that directly follows a backslash may be the escaped one of \' (keep looking for a later
   closing quote, remember this one) or the closing one; a quote that does not follow a backslash
   can only be the closing one. *)
Fixpoint scan_str (t : str) (esc : bool) : option nat :=
  match t with
  | [] => None
  | c :: r =>
      if N.eqb c 39 then
        if esc then match scan_str r false with Some k => Some (S k) | None => Some 0 end
        else Some 0
      else match scan_str r (N.eqb c 92) with Some k => Some (S k) | None => None end
  end.

(* comment, after the % : number of characters before the first line break *)
Fixpoint scan_cmt (t : str) : option nat :=
  match t with
  | [] => None
  | c :: r => if is_nl c then Some 0 else match scan_cmt r with Some k => Some (S k) | None => None end
  end.

Definition longest (rd : rdef) (s : str) : option nat :=
  match rd with
  | RLits ls => longest_lit ls s
  | RClass f r => match s with c :: t => if f c then Some (S (span r t)) else None | [] => None end
  | RString => match s with
               | c :: t => if N.eqb c 39 then option_map (fun k => S (S k)) (scan_str t false) else None
               | [] => None end
  | RComment => match s with
               | c :: t => if N.eqb c 37 then option_map (fun k => S (S k)) (scan_cmt t) else None
               | [] => None end
  end.

(* best match over a list of rules: longest, ties to the earlier rule *)
Fixpoint best (rs : list rname) (s : str) : option (rname * nat) :=
  match rs with
  | [] => None
  | r :: rest =>
      match longest (rule_def r) s, best rest s with
      | Some n, Some (r', n') => if Nat.leb n' n then Some (r, n) else Some (r', n')
      | Some n, None => Some (r, n)
      | None, b => b
      end
  end.

Definition lex_one (s : str) : option (rname * nat) := best all_rules s.

Definition item := (rname * str)%type.

Fixpoint lex_items (fuel : nat) (s : str) : option (list item) :=
  match s with
  | [] => Some []
  | _ :: _ =>
      match fuel with
      | 0 => None
      | S f =>
          match lex_one s with
          | None => None
          | Some (r, n) =>
              match lex_items f (skipn n s) with
              | Some l => Some ((r, firstn n s) :: l)
              | None => None
              end
          end
      end
  end.

Definition is_skip (r : rname) : bool := match r with R_WS | R_COMMENT => true | _ => false end.
Definition keep (it : item) : bool := negb (is_skip (fst it)).

(* tokens handed to the parser *)
Definition lex (s : str) : option (list item) :=
  match lex_items (length s) s with
  | Some l => Some (filter keep l)
  | None => None
  end.

(* ------------------------------------------------------------------ proofs: the scans *)

Definition is_match (rd : rdef) (s : str) (n : nat) : Prop :=
  exists w rest, s = w ++ rest /\ length w = n /\ rdef_lang rd w.

Lemma is_prefix_spec l s : is_prefix l s = true <-> exists rest, s = l ++ rest.
Proof.
  revert s; induction l as [|x l IH]; intros s; simpl.
  - split; [intros _; exists s; reflexivity | reflexivity].
  - destruct s as [|y s].
    + split; [discriminate | intros [r H]; discriminate].
    + rewrite andb_true_iff, N.eqb_eq, IH. split.
      * intros [-> [r ->]]. exists r; reflexivity.
      * intros [r H]. injection H as -> ->. split; [reflexivity | exists r; reflexivity].
Qed.

Lemma longest_lit_spec ls s :
  match longest_lit ls s with
  | Some n => (exists l, In l ls /\ is_prefix l s = true /\ length l = n) /\
              (forall l, In l ls -> is_prefix l s = true -> length l <= n)
  | None => forall l, In l ls -> is_prefix l s = false
  end.
Proof.
  induction ls as [|l r IH]; simpl.
  - intros l [].
  - destruct (is_prefix l s) eqn:Hp.
    + destruct (longest_lit r s) as [n|].
      * destruct IH as [[l0 [Hin [Hp0 Hl0]]] Hmax]. split.
        -- destruct (Nat.max_spec (length l) n) as [[Hlt ->]|[Hle ->]].
           ++ exists l0; auto.
           ++ exists l; auto.
        -- intros l1 [<-|Hin1] Hp1; [lia|]. specialize (Hmax l1 Hin1 Hp1). lia.
      * split.
        -- exists l; auto.
        -- intros l1 [<-|Hin1] Hp1; [lia|]. rewrite (IH l1 Hin1) in Hp1; discriminate.
    + destruct (longest_lit r s) as [n|].
      * destruct IH as [[l0 [Hin [Hp0 Hl0]]] Hmax]. split.
        -- exists l0; auto.
        -- intros l1 [<-|Hin1] Hp1; [congruence|]. auto.
      * intros l1 [<-|Hin1]; auto.
Qed.

Lemma span_split f t : exists w rest, t = w ++ rest /\ length w = span f t /\ forallb f w = true.
Proof.
  induction t as [|c t IH]; simpl.
  - exists [], []; auto.
  - destruct (f c) eqn:Hc.
    + destruct IH as [w [rest [-> [Hl Hf]]]]. exists (c :: w), rest; simpl. rewrite Hc, Hl; auto.
    + exists [], (c :: t); auto.
Qed.

Lemma span_max f w rest : forallb f w = true -> length w <= span f (w ++ rest).
Proof.
  induction w as [|c w IH]; simpl; [lia|].
  intros H; apply andb_true_iff in H as [Hc Hw]. rewrite Hc. specialize (IH Hw). lia.
Qed.

(* a body is well formed iff every quote in it directly follows a backslash that is not itself used up:
   esc_ok b w, with b = "the character before w is a backslash available for escaping" *)
Fixpoint esc_ok (b : bool) (w : str) : bool :=
  match w with
  | [] => true
  | c :: r => if N.eqb c 39 then b && esc_ok false r else esc_ok (N.eqb c 92) r
  end.

Lemma sbody_esc_ok w : sbody w -> forall b, esc_ok b w = true.
Proof.
  induction 1 as [|c w Hc _ IH|w _ IH]; intros b; simpl.
  - reflexivity.
  - destruct (N.eqb_spec c 39); [contradiction|]. apply IH.
  - apply IH.
Qed.

Lemma esc_ok_sbody w : forall b, esc_ok b w = true ->
  if b then sbody (92%N :: w) else sbody w.
Proof.
  induction w as [|c r IH]; intros b H; simpl in H.
  - destruct b; repeat constructor. discriminate.
  - destruct (N.eqb_spec c 39) as [->|Hc].
    + apply andb_true_iff in H as [-> H]. apply (IH false) in H. constructor; exact H.
    + destruct (N.eqb_spec c 92) as [->|Hc'].
      * apply (IH true) in H. destruct b; [constructor; [discriminate|exact H] | exact H].
      * apply (IH false) in H. destruct b.
        -- constructor; [discriminate|]. constructor; assumption.
        -- constructor; assumption.
Qed.

Lemma sbody_iff w : sbody w <-> esc_ok false w = true.
Proof. split; [intros H; apply sbody_esc_ok; exact H | intros H; exact (esc_ok_sbody w false H)]. Qed.

Lemma scan_str_spec t : forall esc,
  match scan_str t esc with
  | Some k => (exists w rest, t = w ++ 39%N :: rest /\ length w = k /\ esc_ok esc w = true) /\
              (forall w rest, t = w ++ 39%N :: rest -> esc_ok esc w = true -> length w <= k)
  | None => forall w rest, t = w ++ 39%N :: rest -> esc_ok esc w = false
  end.
Proof.
  induction t as [|c r IH]; intros esc; simpl.
  - intros [|x w] rest H; discriminate.
  - destruct (N.eqb_spec c 39) as [->|Hc].
    + destruct esc.
      * specialize (IH false). destruct (scan_str r false) as [k|].
        -- destruct IH as [[w [rest [-> [Hl Hok]]]] Hmax]. split.
           ++ exists (39%N :: w), rest. simpl. rewrite Hl, Hok. auto.
           ++ intros [|x w'] rest' H Hok'; simpl; [lia|].
              simpl in H. injection H as <- H. simpl in Hok'.
              specialize (Hmax w' rest' H Hok'). lia.
        -- split.
           ++ exists [], r; auto.
           ++ intros [|x w'] rest' H Hok'; simpl; [lia|].
              simpl in H. injection H as <- H. simpl in Hok'.
              rewrite (IH w' rest' H) in Hok'. discriminate.
      * split.
        -- exists [], r; auto.
        -- intros [|x w'] rest' H Hok'; simpl; [lia|].
           simpl in H. injection H as <- H. simpl in Hok'. discriminate.
    + specialize (IH (N.eqb c 92)). destruct (scan_str r (N.eqb c 92)) as [k|].
      * destruct IH as [[w [rest [-> [Hl Hok]]]] Hmax]. split.
        -- exists (c :: w), rest. simpl. destruct (N.eqb_spec c 39); [contradiction|]. rewrite Hl, Hok; auto.
        -- intros [|x w'] rest' H Hok'; simpl; [lia|].
           simpl in H. injection H as <- H. simpl in Hok'.
           destruct (N.eqb_spec c 39); [contradiction|].
           specialize (Hmax w' rest' H Hok'). lia.
      * intros [|x w'] rest' H.
        -- simpl in H. injection H as Hc' _. congruence.
        -- simpl in H. injection H as <- H. simpl.
           destruct (N.eqb_spec c 39); [contradiction|]. apply (IH w' rest' H).
Qed.

Lemma scan_cmt_spec t :
  match scan_cmt t with
  | Some k => exists w e rest, t = w ++ e :: rest /\ length w = k /\ forallb not_nl w = true /\ is_nl e = true
  | None => forallb not_nl t = true
  end.
Proof.
  induction t as [|c r IH]; simpl; [reflexivity|].
  destruct (is_nl c) eqn:Hc.
  - exists [], c, r; auto.
  - destruct (scan_cmt r) as [k|].
    + destruct IH as [w [e [rest [-> [Hl [Hw He]]]]]].
      exists (c :: w), e, rest; simpl. unfold not_nl at 1. rewrite Hc, Hl, Hw; auto.
    + unfold not_nl at 1. rewrite Hc; simpl; exact IH.
Qed.

(* two decompositions of one text at a line break, both with break-free prefixes, coincide *)
Lemma nl_split_unique w1 e1 r1 w2 e2 r2 :
  w1 ++ e1 :: r1 = w2 ++ e2 :: r2 ->
  forallb not_nl w1 = true -> is_nl e1 = true ->
  forallb not_nl w2 = true -> is_nl e2 = true -> length w1 = length w2.
Proof.
  revert w2; induction w1 as [|c w1 IH]; intros [|c2 w2] H H1 He1 H2 He2; simpl in *; auto.
  - injection H as <- _. apply andb_true_iff in H2 as [Hc _]. unfold not_nl in Hc. rewrite He1 in Hc; discriminate.
  - injection H as -> _. apply andb_true_iff in H1 as [Hc _]. unfold not_nl in Hc. rewrite He2 in Hc; discriminate.
  - injection H as -> H. apply andb_true_iff in H1 as [_ H1]. apply andb_true_iff in H2 as [_ H2].
    f_equal. eapply IH; eauto.
Qed.

Lemma app_last_split {A} (b : list A) (e : A) rest0 w rest :
  (b ++ [e]) ++ rest0 = w ++ rest -> length w = S (length b) -> w = b ++ [e].
Proof.
  revert w; induction b as [|x b IH]; intros [|y w] H Hl; simpl in *; try discriminate.
  - destruct w; [|discriminate]. injection H as -> _. reflexivity.
  - injection H as -> H. f_equal. apply IH; auto.
Qed.

Theorem longest_some rd s n : longest rd s = Some n ->
  is_match rd s n /\ forall m, is_match rd s m -> m <= n.
Proof.
  destruct rd as [ls|f r| |]; simpl.
  - intros H. pose proof (longest_lit_spec ls s) as Hs. rewrite H in Hs.
    destruct Hs as [[l [Hin [Hp Hl]]] Hmax]. split.
    + apply is_prefix_spec in Hp as [rest ->]. exists l, rest; auto.
    + intros m [w [rest [-> [<- Hw]]]]. apply Hmax; [exact Hw|]. apply is_prefix_spec. eauto.
  - destruct s as [|c t]; [discriminate|]. destruct (f c) eqn:Hc; [|discriminate].
    intros H; injection H as <-. split.
    + destruct (span_split r t) as [w [rest [-> [Hl Hf]]]].
      exists (c :: w), rest; simpl. rewrite Hl. repeat split; auto. exists c, w; auto.
    + intros m [w [rest [Heq [<- [c' [w' [-> [_ Hf]]]]]]]]. simpl in Heq. injection Heq as <- ->.
      simpl. pose proof (span_max r w' rest Hf). lia.
  - destruct s as [|c t]; [discriminate|]. destruct (N.eqb_spec c 39) as [->|Hc]; [|discriminate].
    pose proof (scan_str_spec t false) as Hs. destruct (scan_str t false) as [k|]; [|discriminate].
    intros H; injection H as <-. destruct Hs as [[w [rest [-> [Hl Hok]]]] Hmax]. split.
    + exists (39%N :: w ++ [39%N]), rest. simpl. rewrite <- app_assoc. simpl. repeat split.
      * rewrite app_length; simpl; lia.
      * exists w; split; [reflexivity|]. apply sbody_iff; exact Hok.
    + intros m [w0 [rest0 [Heq [<- [b [-> Hb]]]]]]. simpl in Heq. injection Heq as Heq.
      rewrite <- app_assoc in Heq. simpl in Heq. apply sbody_iff in Hb.
      specialize (Hmax b rest0 Heq Hb). simpl. rewrite app_length; simpl; lia.
  - destruct s as [|c t]; [discriminate|]. destruct (N.eqb_spec c 37) as [->|Hc]; [|discriminate].
    pose proof (scan_cmt_spec t) as Hs. destruct (scan_cmt t) as [k|]; [|discriminate].
    intros H; injection H as <-. destruct Hs as [w [e [rest [-> [Hl [Hw He]]]]]]. split.
    + exists (37%N :: w ++ [e]), rest. simpl. rewrite <- app_assoc. simpl. repeat split.
      * rewrite app_length; simpl; lia.
      * exists w, e; auto.
    + intros m [w0 [rest0 [Heq [<- [b [e0 [-> [Hb He0]]]]]]]]. simpl in Heq. injection Heq as Heq.
      rewrite <- app_assoc in Heq. simpl in Heq.
      pose proof (nl_split_unique _ _ _ _ _ _ Heq Hw He Hb He0) as Hlen.
      simpl. rewrite app_length; simpl; lia.
Qed.

Theorem longest_none rd s : longest rd s = None -> forall m, ~ is_match rd s m.
Proof.
  destruct rd as [ls|f r| |]; simpl.
  - intros H m [w [rest [-> [_ Hw]]]]. pose proof (longest_lit_spec ls (w ++ rest)) as Hs.
    rewrite H in Hs. specialize (Hs w Hw).
    assert (is_prefix w (w ++ rest) = true) by (apply is_prefix_spec; eauto). congruence.
  - intros H m [w [rest [-> [_ [c [w' [-> [Hc _]]]]]]]]. simpl in H. rewrite Hc in H. discriminate.
  - intros H m [w [rest [-> [_ [b [-> Hb]]]]]]. simpl in H.
    pose proof (scan_str_spec ((b ++ [39%N]) ++ rest) false) as Hs.
    destruct (scan_str ((b ++ [39%N]) ++ rest) false); [discriminate|].
    rewrite <- app_assoc in Hs. specialize (Hs b rest eq_refl). apply sbody_iff in Hb. congruence.
  - intros H m [w [rest [-> [_ [b [e [-> [Hb He]]]]]]]]. simpl in H.
    pose proof (scan_cmt_spec ((b ++ [e]) ++ rest)) as Hs.
    destruct (scan_cmt ((b ++ [e]) ++ rest)); [discriminate|].
    rewrite <- app_assoc, forallb_app in Hs. simpl in Hs. unfold not_nl at 2 in Hs. rewrite He in Hs.
    rewrite andb_false_r in Hs. discriminate.
Qed.

(* every rule of the table matches at least one character *)
Lemma rule_lang_nonempty r w : rule_lang r w -> w <> [].
Proof.
  unfold rule_lang. destruct r; simpl;
    try solve [intros H; repeat (destruct H as [<-|H]; [discriminate|]); destruct H];
    try solve [intros [c [w' [-> _]]]; discriminate].
  intros [b [-> _]]; discriminate.
Qed.

(* ------------------------------------------------------------------ proofs: maximal munch *)

Definition ridx (r : rname) : nat :=
  match r with
  | R_DOT => 0 | R_NECK => 1 | R_NOT => 2 | R_COMMA => 3 | R_ARROW => 4 | R_SEMI => 5 | R_LPAR => 6
  | R_RPAR => 7 | R_SLASH => 8 | R_BAR => 9 | R_TRUE => 10 | R_FAIL => 11 | R_CUT => 12
  | R_VARIABLE => 13 | R_ATOM => 14 | R_NUMERAL => 15 | R_UNOP => 16 | R_BINOP => 17 | R_STRING => 18
  | R_LBRACK => 19 | R_RBRACK => 20 | R_WS => 21 | R_COMMENT => 22
  end.

Lemma ridx_inj a b : ridx a = ridx b -> a = b.
Proof. destruct a, b; simpl; intros H; try reflexivity; discriminate. Qed.

(* MAXIMAL MUNCH: rule r matches the prefix of length n of s; every match of every rule at this
   position is shorter, or has the same length and belongs to a rule that is not listed before r *)
Definition munch (s : str) (r : rname) (n : nat) : Prop :=
  is_match (rule_def r) s n /\
  forall r' m, is_match (rule_def r') s m -> m < n \/ (m = n /\ ridx r <= ridx r').

Definition munch_list (rs : list rname) (s : str) (r : rname) (n : nat) : Prop :=
  is_match (rule_def r) s n /\
  exists pre post, rs = pre ++ r :: post /\
    (forall r' m, In r' pre -> is_match (rule_def r') s m -> m < n) /\
    (forall r' m, In r' (r :: post) -> is_match (rule_def r') s m -> m <= n).

Lemma best_none rs s : best rs s = None -> forall r m, In r rs -> ~ is_match (rule_def r) s m.
Proof.
  induction rs as [|r0 rest IH]; simpl; [intros _ r m []|].
  destruct (longest (rule_def r0) s) as [n0|] eqn:H0.
  - destruct (best rest s) as [[r1 n1]|]; [destruct (Nat.leb n1 n0)|]; discriminate.
  - intros Hb r m [<-|Hin].
    + apply longest_none; exact H0.
    + apply IH; assumption.
Qed.

Lemma best_some rs s r n : best rs s = Some (r, n) -> munch_list rs s r n.
Proof.
  revert r n; induction rs as [|r0 rest IH]; intros r n; simpl; [discriminate|].
  destruct (longest (rule_def r0) s) as [n0|] eqn:H0.
  - apply longest_some in H0 as [Hm0 Hmax0].
    destruct (best rest s) as [[r1 n1]|] eqn:H1.
    + destruct (IH r1 n1 eq_refl) as [Hm1 [pre [post [-> [Hpre Hpost]]]]].
      destruct (Nat.leb n1 n0) eqn:Hle.
      * apply Nat.leb_le in Hle. intros H; injection H as <- <-. split; [exact Hm0|].
        exists [], (pre ++ r1 :: post). split; [reflexivity|]. split; [intros ? ? []|].
        intros r' m [<-|Hin] Hm; [apply Hmax0; exact Hm|].
        apply in_app_or in Hin as [Hin|Hin].
        -- specialize (Hpre r' m Hin Hm). lia.
        -- specialize (Hpost r' m Hin Hm). lia.
      * apply Nat.leb_gt in Hle. intros H; injection H as <- <-. split; [exact Hm1|].
        exists (r0 :: pre), post. split; [reflexivity|]. split.
        -- intros r' m [<-|Hin] Hm; [specialize (Hmax0 m Hm); lia | eapply Hpre; eauto].
        -- exact Hpost.
    + intros H; injection H as <- <-. split; [exact Hm0|].
      exists [], rest. split; [reflexivity|]. split; [intros ? ? []|].
      intros r' m [<-|Hin] Hm; [apply Hmax0; exact Hm|].
      exfalso. eapply best_none; eauto.
  - intros H. destruct (IH r n H) as [Hm [pre [post [-> [Hpre Hpost]]]]]. split; [exact Hm|].
    exists (r0 :: pre), post. split; [reflexivity|]. split; [|exact Hpost].
    intros r' m [<-|Hin] Hm'; [exfalso; eapply longest_none; eauto | eapply Hpre; eauto].
Qed.

Lemma all_rules_sorted : StronglySorted (fun a b => ridx a < ridx b) all_rules.
Proof. unfold all_rules. repeat (constructor; [|repeat constructor; simpl; lia]). constructor. Qed.

Lemma sorted_suffix pre r post :
  StronglySorted (fun a b => ridx a < ridx b) (pre ++ r :: post) ->
  forall r', In r' (r :: post) -> ridx r <= ridx r'.
Proof.
  induction pre as [|x pre IH]; simpl; intros H r' Hin.
  - inversion H as [|? ? _ Hall]; subst. destruct Hin as [<-|Hin]; [lia|].
    rewrite Forall_forall in Hall. specialize (Hall r' Hin). lia.
  - inversion H; subst. apply IH; assumption.
Qed.

Theorem lex_one_some s r n : lex_one s = Some (r, n) -> munch s r n.
Proof.
  unfold lex_one. intros H. apply best_some in H as [Hm [pre [post [E [Hpre Hpost]]]]]. split; [exact Hm|].
  intros r' m Hm'. pose proof (all_rules_complete r') as Hin. rewrite E in Hin.
  apply in_app_or in Hin as [Hin|Hin].
  - left. eapply Hpre; eauto.
  - specialize (Hpost r' m Hin Hm').
    destruct (Nat.eq_dec m n) as [->|]; [right|left; lia]. split; [reflexivity|].
    eapply sorted_suffix; [rewrite <- E; apply all_rules_sorted | exact Hin].
Qed.

Theorem lex_one_none s : lex_one s = None -> forall r m, ~ is_match (rule_def r) s m.
Proof. unfold lex_one. intros H r m. apply (best_none all_rules s H r m (all_rules_complete r)). Qed.

Lemma munch_unique s r n r' n' : munch s r n -> munch s r' n' -> r = r' /\ n = n'.
Proof.
  intros [Hm Hmax] [Hm' Hmax'].
  destruct (Hmax r' n' Hm') as [Hlt|[-> Hle]]; destruct (Hmax' r n Hm) as [Hlt'|[E Hle']]; try lia.
  split; [|reflexivity]. apply ridx_inj; lia.
Qed.

Theorem lex_one_complete s r n : munch s r n -> lex_one s = Some (r, n).
Proof.
  intros H. destruct (lex_one s) as [[r' n']|] eqn:E.
  - apply lex_one_some in E. destruct (munch_unique _ _ _ _ _ H E) as [-> ->]. reflexivity.
  - exfalso. destruct H as [Hm _]. eapply lex_one_none; eauto.
Qed.

Lemma is_match_split rd s n : is_match rd s n ->
  n <= length s /\ rdef_lang rd (firstn n s) /\ s = firstn n s ++ skipn n s.
Proof.
  intros [w [rest [-> [<- Hw]]]]. rewrite app_length. split; [lia|].
  rewrite firstn_app, Nat.sub_diag, firstn_all, skipn_app, Nat.sub_diag, skipn_all. simpl.
  rewrite !app_nil_r. auto.
Qed.

(* ------------------------------------------------------------------ proofs: the token sequence *)

(* s lexes to items, leaving rest: the texts of the items, skipped ones included, concatenate to the
   consumed part, and each item is the maximal munch at its position *)
Inductive lexes : str -> list item -> str -> Prop :=
| lexes_nil s : lexes s [] s
| lexes_cons r w s items rest :
    munch (w ++ s) r (length w) -> rule_lang r w -> w <> [] ->
    lexes s items rest -> lexes (w ++ s) ((r, w) :: items) rest.

Lemma lex_one_step s r n : lex_one s = Some (r, n) ->
  munch (firstn n s ++ skipn n s) r (length (firstn n s)) /\ rule_lang r (firstn n s) /\
  firstn n s <> [] /\ length (skipn n s) < length s.
Proof.
  intros H. apply lex_one_some in H. destruct H as [Hm Hmax].
  destruct (is_match_split _ _ _ Hm) as [Hle [Hl E]].
  rewrite firstn_length_le by exact Hle. rewrite <- E.
  assert (Hne : firstn n s <> []) by (eapply rule_lang_nonempty; exact Hl).
  repeat split; auto.
  rewrite skipn_length. destruct n; [simpl in Hne; congruence | lia].
Qed.

Theorem lex_items_sound fuel : forall s items, lex_items fuel s = Some items -> lexes s items [].
Proof.
  induction fuel as [|f IH]; intros s items; destruct s as [|c s']; simpl.
  - intros H; injection H as <-. constructor.
  - discriminate.
  - intros H; injection H as <-. constructor.
  - destruct (lex_one (c :: s')) as [[r n]|] eqn:E; [|discriminate].
    destruct (lex_items f (skipn n (c :: s'))) as [l|] eqn:El; [|discriminate].
    intros H; injection H as <-.
    destruct (lex_one_step _ _ _ E) as [Hm [Hl [Hne _]]].
    apply IH in El. pose proof (firstn_skipn n (c :: s')) as Efs.
    rewrite <- Efs at 1. constructor; auto.
Qed.

(* a rejected text has a position, reached by maximal munch, at which no rule matches anything *)
Theorem lex_items_error fuel : forall s, length s <= fuel -> lex_items fuel s = None ->
  exists items rest, lexes s items rest /\ rest <> [] /\ forall r m, ~ is_match (rule_def r) rest m.
Proof.
  induction fuel as [|f IH]; intros s Hlen; destruct s as [|c s']; simpl; try discriminate.
  - simpl in Hlen; lia.
  - destruct (lex_one (c :: s')) as [[r n]|] eqn:E.
    + destruct (lex_one_step _ _ _ E) as [Hm [Hl [Hne Hlt]]].
      destruct (lex_items f (skipn n (c :: s'))) as [l|] eqn:El; [discriminate|]. intros _.
      apply IH in El; [|simpl in *; lia].
      destruct El as [items [rest [Hlx [Hr Hno]]]].
      exists ((r, firstn n (c :: s')) :: items), rest. split; [|auto].
      pose proof (firstn_skipn n (c :: s')) as Efs. rewrite <- Efs at 1. constructor; auto.
    + intros _. exists [], (c :: s'). split; [constructor|]. split; [discriminate|].
      apply lex_one_none; exact E.
Qed.

Theorem lex_items_complete s items : lexes s items [] -> forall fuel, length s <= fuel ->
  lex_items fuel s = Some items.
Proof.
  remember [] as e eqn:He. induction 1 as [s|r w s items rest Hm Hl Hne Hlx IH]; intros fuel Hlen; subst.
  - destruct fuel; reflexivity.
  - destruct w as [|c w]; [congruence|]. destruct fuel as [|f]; [simpl in Hlen; lia|].
    apply lex_one_complete in Hm. cbn [lex_items app]. cbn [app] in Hm. rewrite Hm.
    change (c :: w ++ s) with ((c :: w) ++ s).
    rewrite skipn_app, Nat.sub_diag, skipn_all, firstn_app, Nat.sub_diag, firstn_all. simpl skipn. simpl firstn.
    rewrite app_nil_r. cbn [app].
    rewrite IH; [reflexivity | reflexivity |]. simpl in Hlen. rewrite app_length in Hlen. lia.
Qed.

Lemma lexes_concat s items rest : lexes s items rest -> s = concat (map snd items) ++ rest.
Proof. induction 1; simpl; [reflexivity|]. rewrite <- app_assoc. congruence. Qed.

Lemma lexes_lang s items rest : lexes s items rest -> Forall (fun it => rule_lang (fst it) (snd it)) items.
Proof. induction 1; constructor; auto. Qed.

(* LEX_EXACT.  If the lexer returns tokens then
   (1) the texts of all items, skipped white space and comments included, concatenate to the input:
       nothing is dropped and nothing is invented;
   (2) every item text belongs to the language of its rule;
   (3) every item is the maximal munch at its position (longest match of any rule, ties to the rule
       listed first) -- packaged in `lexes`;
   (4) the tokens handed to the parser are the items that are not WS or COMMENT, in order. *)
Theorem lex_exact s toks : lex s = Some toks ->
  exists items, lexes s items [] /\
    concat (map snd items) = s /\
    Forall (fun it => rule_lang (fst it) (snd it)) items /\
    toks = filter keep items.
Proof.
  unfold lex. destruct (lex_items (length s) s) as [items|] eqn:E; [|discriminate].
  intros H; injection H as <-. apply lex_items_sound in E. exists items.
  split; [exact E|]. split; [|split; [eapply lexes_lang; eauto | reflexivity]].
  apply lexes_concat in E. rewrite app_nil_r in E. auto.
Qed.

Theorem lex_error_spec s : lex s = None ->
  exists items rest, lexes s items rest /\ rest <> [] /\ forall r w rest', rest = w ++ rest' -> ~ rule_lang r w.
Proof.
  unfold lex. destruct (lex_items (length s) s) as [items|] eqn:E; [discriminate|]. intros _.
  apply lex_items_error in E; [|lia]. destruct E as [items [rest [Hl [Hne Hno]]]].
  exists items, rest. repeat split; auto. intros r w rest' -> Hw.
  apply (Hno r (length w)). exists w, rest'; auto.
Qed.

Theorem lex_complete s items : lexes s items [] -> lex s = Some (filter keep items).
Proof. intros H. unfold lex. rewrite (lex_items_complete s items H (length s)); auto. Qed.
