(* C16, source side: what the literals of a source text denote.
   - quoted atoms: for every text s without backslash, quote s (s between quotes, \' for ') is lexed as
     the single token STRING and unquoted back to s -- including quotes, line breaks, any code point;
   - plain atoms, numerals, variables: the whole text is one token of the expected kind;
   - list syntax folds to '.'/2 chains; `_` is numbered x1, x2, ... per compilation, each number once. *)
From Coq Require Import List NArith Arith Bool Lia.
Import ListNotations.
From YP Require Import Base.Str Term.Term Lang.Ast Lang.Lexer Lang.Cst Lang.Parser Lang.Unquote.

(* ------------------------------------------------------------------ first characters *)

Definition first_ok (r : rname) (c : N) : bool :=
  match rule_def r with
  | RLits ls => existsb (fun l => match l with x :: _ => N.eqb x c | [] => false end) ls
  | RClass f _ => f c
  | RString => N.eqb c 39
  | RComment => N.eqb c 37
  end.

Lemma first_char r c t m : is_match (rule_def r) (c :: t) m -> first_ok r c = true.
Proof.
  unfold first_ok. intros [w [rest [E [_ Hw]]]].
  pose proof (rule_lang_nonempty r w Hw) as Hne.
  destruct (rule_def r) as [ls|f g| |]; simpl in Hw.
  - apply existsb_exists. exists w. split; [exact Hw|]. destruct w as [|x w]; [congruence|].
    simpl in E. injection E as -> _. apply N.eqb_refl.
  - destruct Hw as [c' [w' [-> [Hc _]]]]. simpl in E. injection E as -> _. exact Hc.
  - destruct Hw as [b [-> _]]. simpl in E. injection E as -> _. reflexivity.
  - destruct Hw as [b [e [-> _]]]. simpl in E. injection E as -> _. reflexivity.
Qed.

(* a property of characters that holds for 0..127 by computation and above by an argument *)
Lemma ascii_check (P : N -> bool) :
  forallb P (map N.of_nat (seq 0 128)) = true -> (forall c, (128 <= c)%N -> P c = true) ->
  forall c, P c = true.
Proof.
  intros Hlow Hhigh c. destruct (N.lt_ge_cases c 128) as [Hlt|Hge]; [|auto].
  rewrite forallb_forall in Hlow. apply Hlow. apply in_map_iff. exists (N.to_nat c).
  split; [apply N2Nat.id|]. apply in_seq. lia.
Qed.

(* a text that is, as a whole, in the language of rule r and of no rule listed before r is the single token r *)
Lemma whole_token r w : rule_lang r w -> (forall r', ridx r' < ridx r -> ~ rule_lang r' w) ->
  lex_one w = Some (r, length w).
Proof.
  intros Hw Hearlier. apply lex_one_complete. split.
  - exists w, []. rewrite app_nil_r. auto.
  - intros r' m [w' [rest [E [<- Hw']]]].
    assert (Hlen : length w' <= length w) by (rewrite E, app_length; lia).
    destruct (Nat.eq_dec (length w') (length w)) as [Heq|]; [right|left; lia].
    split; [exact Heq|].
    assert (rest = []) as -> by (destruct rest; [reflexivity|]; rewrite E, app_length in Heq; simpl in Heq; lia).
    rewrite app_nil_r in E. subst w'.
    destruct (Nat.le_gt_cases (ridx r) (ridx r')) as [|Hlt]; [assumption|].
    exfalso. apply (Hearlier r' Hlt Hw').
Qed.

Lemma single_item r w : w <> [] -> lex_one w = Some (r, length w) -> lex_items (length w) w = Some [(r, w)].
Proof.
  intros Hne H. destruct w as [|c w]; [congruence|]. cbn [length lex_items]. rewrite H.
  change (S (length w)) with (length (c :: w)). rewrite skipn_all, firstn_all.
  destruct (length w); reflexivity.
Qed.

Lemma whole_token_lex r w : is_skip r = false -> rule_lang r w ->
  (forall r', ridx r' < ridx r -> ~ rule_lang r' w) -> lex w = Some [(r, w)].
Proof.
  intros Hs Hw He. unfold lex. rewrite (single_item r w).
  - simpl. unfold keep. simpl. rewrite Hs. reflexivity.
  - eapply rule_lang_nonempty; eauto.
  - apply whole_token; auto.
Qed.

Lemma rule_lang_first r c w : rule_lang r (c :: w) -> first_ok r c = true.
Proof.
  intros H. apply (first_char r c w (length (c :: w))). exists (c :: w), []. rewrite app_nil_r. auto.
Qed.

(* ------------------------------------------------------------------ numerals, variables, plain atoms *)

Definition earlier_cannot_start (k : nat) (c : N) : bool :=
  forallb (fun r' => negb (ridx r' <? k) || negb (first_ok r' c)) all_rules.

Lemma earlier_cannot_start_spec k c : earlier_cannot_start k c = true ->
  forall r', ridx r' < k -> first_ok r' c = false.
Proof.
  unfold earlier_cannot_start. rewrite forallb_forall. intros H r' Hlt.
  specialize (H r' (all_rules_complete r')). apply Nat.ltb_lt in Hlt. rewrite Hlt in H. simpl in H.
  destruct (first_ok r' c); [discriminate|reflexivity].
Qed.

Lemma digit_first : forall c, implb (is_digit c) (earlier_cannot_start 15 c) = true.
Proof.
  apply ascii_check; [vm_compute; reflexivity|].
  intros c Hc. unfold is_digit. replace (c <=? 57)%N with false by (symmetry; apply N.leb_gt; lia).
  rewrite andb_false_r. reflexivity.
Qed.

Lemma varstart_first : forall c, implb (is_varstart c) (earlier_cannot_start 13 c) = true.
Proof.
  apply ascii_check; [vm_compute; reflexivity|].
  intros c Hc. unfold is_varstart, is_uc.
  replace (c <=? 90)%N with false by (symmetry; apply N.leb_gt; lia).
  replace (c =? 95)%N with false by (symmetry; apply N.eqb_neq; lia).
  rewrite andb_false_r. reflexivity.
Qed.

(* a lower-case letter starts, among the rules before ATOM, only `true` and `fail` *)
Definition lc_letter (c : N) : bool := ((97 <=? c) && (c <=? 122))%N.
Definition only_true_fail (c : N) : bool :=
  forallb (fun r' => negb (ridx r' <? 14) || negb (first_ok r' c) ||
                     match r' with R_TRUE | R_FAIL => true | _ => false end) all_rules.
Lemma lc_first : forall c, implb (lc_letter c) (only_true_fail c) = true.
Proof.
  apply ascii_check; [vm_compute; reflexivity|].
  intros c Hc. unfold lc_letter. replace (c <=? 122)%N with false by (symmetry; apply N.leb_gt; lia).
  rewrite andb_false_r. reflexivity.
Qed.

(* NUMERAL: any non-empty digit string, leading zeros included, is one NUMERAL token *)
Theorem numeral_token w : w <> [] -> forallb is_digit w = true -> lex w = Some [(R_NUMERAL, w)].
Proof.
  intros Hne Hd. destruct w as [|c w]; [congruence|]. simpl in Hd. apply andb_true_iff in Hd as [Hc Hw].
  apply whole_token_lex; [reflexivity| |].
  - exists c, w; auto.
  - intros r' Hlt Hr'. apply rule_lang_first in Hr'.
    pose proof (digit_first c) as H. rewrite Hc in H. simpl in H.
    rewrite (earlier_cannot_start_spec 15 c H r' Hlt) in Hr'. discriminate.
Qed.

(* VARIABLE: an upper-case letter or `_` followed by letters, digits, `_` *)
Theorem variable_token c w : is_varstart c = true -> forallb is_character w = true ->
  lex (c :: w) = Some [(R_VARIABLE, c :: w)].
Proof.
  intros Hc Hw. apply whole_token_lex; [reflexivity| |].
  - exists c, w; auto.
  - intros r' Hlt Hr'. apply rule_lang_first in Hr'.
    pose proof (varstart_first c) as H. rewrite Hc in H. simpl in H.
    rewrite (earlier_cannot_start_spec 13 c H r' Hlt) in Hr'. discriminate.
Qed.

(* ATOM: a lower-case letter followed by letters, digits, `_`, other than the keywords true and fail *)
Theorem plain_atom_token c w : lc_letter c = true -> forallb is_character w = true ->
  c :: w <> [116; 114; 117; 101]%N -> c :: w <> [102; 97; 105; 108]%N ->
  lex (c :: w) = Some [(R_ATOM, c :: w)].
Proof.
  intros Hc Hw Ht Hf. apply whole_token_lex; [reflexivity| |].
  - exists c, w. repeat split; auto. unfold is_lc. unfold lc_letter in Hc. rewrite Hc. reflexivity.
  - intros r' Hlt Hr'. pose proof (rule_lang_first _ _ _ Hr') as Hfo.
    pose proof (lc_first c) as H. rewrite Hc in H. simpl in H. unfold only_true_fail in H.
    rewrite forallb_forall in H. specialize (H r' (all_rules_complete r')).
    change (ridx R_ATOM) with 14 in Hlt. apply Nat.ltb_lt in Hlt. rewrite Hlt, Hfo in H. simpl in H.
    destruct r'; try discriminate H; unfold rule_lang in Hr'; simpl in Hr'; destruct Hr' as [E|[]];
      vm_compute in E; congruence.
Qed.

(* the integer a numeral denotes (yp_generator emits str(int(text))) *)
Definition num_value (w : str) : N := fold_left (fun acc c => (acc * 10 + (c - 48))%N) w 0%N.

Lemma num_value_leading_zeros z w : forallb (N.eqb 48) z = true -> num_value (z ++ w) = num_value w.
Proof.
  unfold num_value. rewrite fold_left_app. intros Hz. f_equal.
  induction z as [|c z IH] using rev_ind; [reflexivity|].
  rewrite forallb_app in Hz. apply andb_true_iff in Hz as [Hz Hc]. cbn [forallb] in Hc. rewrite andb_true_r in Hc.
  apply N.eqb_eq in Hc as <-. rewrite fold_left_app. simpl. rewrite (IH Hz). reflexivity.
Qed.

(* ------------------------------------------------------------------ quoted atoms *)

Definition esc (c : N) : str := if N.eqb c 39 then [92; 39]%N else [c].
Definition quote (s : str) : str := 39%N :: flat_map esc s ++ [39%N].

Lemma sbody_quote s : ~ In 92%N s -> sbody (flat_map esc s).
Proof.
  induction s as [|c s IH]; intros Hn; simpl; [constructor|].
  assert (Hs : ~ In 92%N s) by (intros X; apply Hn; right; exact X).
  unfold esc at 1. destruct (N.eqb_spec c 39) as [->|Hc]; simpl.
  - apply sb_esc. auto.
  - apply sb_plain; auto.
Qed.

(* state of the escape automaton after a well-formed body *)
Fixpoint esc_end (b : bool) (w : str) : option bool :=
  match w with
  | [] => Some b
  | c :: r => if N.eqb c 39 then (if b then esc_end false r else None) else esc_end (N.eqb c 92) r
  end.

Lemma esc_ok_app w1 : forall b w2,
  esc_ok b (w1 ++ w2) = match esc_end b w1 with Some b' => esc_ok b' w2 | None => false end.
Proof.
  induction w1 as [|c r IH]; intros b w2; simpl; [reflexivity|].
  destruct (N.eqb c 39).
  - destruct b; simpl; [apply IH | reflexivity].
  - apply IH.
Qed.

Lemma esc_end_quote s : ~ In 92%N s -> esc_end false (flat_map esc s) = Some false.
Proof.
  assert (G : forall s, ~ In 92%N s -> forall b, esc_end b (flat_map esc s) = Some (match s with [] => b | _ => false end)).
  { clear. induction s as [|c s IH]; intros Hn b; simpl; [reflexivity|].
    assert (Hs : ~ In 92%N s) by (intros X; apply Hn; right; exact X).
    assert (Hc92 : c <> 92%N) by (intros X; apply Hn; left; auto).
    unfold esc at 1. destruct (N.eqb_spec c 39) as [->|Hc]; simpl.
    - rewrite (IH Hs false). destruct s; reflexivity.
    - destruct (N.eqb_spec c 39); [contradiction|]. destruct (N.eqb_spec c 92); [contradiction|].
      rewrite (IH Hs false). destruct s; reflexivity. }
  intros Hn. rewrite (G s Hn false). destruct s; reflexivity.
Qed.

Lemma app_eq_longer {A} (a b c d : list A) : a ++ b = c ++ d -> length a < length c ->
  exists e, c = a ++ e /\ e <> [].
Proof.
  revert c; induction a as [|x a IH]; intros c H Hl.
  - exists c. split; [reflexivity|]. destruct c; [simpl in Hl; lia|discriminate].
  - destruct c as [|y c]; [simpl in Hl; lia|]. simpl in H. injection H as -> H.
    destruct (IH c H) as [e [-> He]]; [simpl in Hl; lia|]. exists e; auto.
Qed.

(* however the text continues, the quoted form of s is the STRING token taken at this position *)
Theorem quoted_atom_munch s rest : ~ In 92%N s ->
  lex_one (quote s ++ rest) = Some (R_STRING, length (quote s)).
Proof.
  intros Hn. apply lex_one_complete. split.
  - exists (quote s), rest. repeat split. exists (flat_map esc s). split; [reflexivity|]. apply sbody_quote; auto.
  - intros r' m Hm. destruct (rname_eq_dec r' R_STRING) as [->|Hr].
    + destruct Hm as [w [rest' [E [<- [b [-> Hb]]]]]].
      destruct (Nat.le_gt_cases (length b) (length (flat_map esc s))) as [Hle|Hgt].
      * destruct (Nat.eq_dec (length b) (length (flat_map esc s))) as [Heq|Hne].
        -- right. split; [|simpl; lia]. unfold quote. simpl. rewrite !app_length, Heq. reflexivity.
        -- left. unfold quote. simpl. rewrite !app_length. simpl. lia.
      * exfalso. unfold quote in E. simpl in E. injection E as E. rewrite <- !app_assoc in E. simpl in E.
        destruct (app_eq_longer _ _ _ _ E Hgt) as [e [-> He]].
        rewrite <- app_assoc in E. apply app_inv_head in E.
        destruct e as [|x e]; [congruence|]. simpl in E. injection E as <- _.
        apply sbody_iff in Hb. rewrite esc_ok_app, (esc_end_quote s Hn) in Hb. simpl in Hb. discriminate.
    + exfalso. unfold quote in Hm. simpl in Hm. apply first_char in Hm.
      destruct r'; try congruence; vm_compute in Hm; discriminate.
Qed.

Lemma unq_loop_body b : unq_loop (b ++ [39%N]) = filter (fun c => negb (N.eqb c 92)) b.
Proof.
  induction b as [|c r IH]; [reflexivity|].
  destruct r as [|x r'].
  - simpl. destruct (N.eqb c 92); reflexivity.
  - change ((c :: x :: r') ++ [39%N]) with (c :: (x :: r') ++ [39%N]).
    change (unq_loop (c :: (x :: r') ++ [39%N])) with
      (if N.eqb c 92 then unq_loop ((x :: r') ++ [39%N]) else c :: unq_loop ((x :: r') ++ [39%N])).
    rewrite IH. simpl. destruct (N.eqb c 92); reflexivity.
Qed.

Lemma unquote_quote s : ~ In 92%N s -> unquote (quote s) = s.
Proof.
  intros Hn. unfold unquote, quote. cbn [tl]. rewrite unq_loop_body.
  induction s as [|c s IH]; [reflexivity|].
  assert (Hs : ~ In 92%N s) by (intros X; apply Hn; right; exact X).
  assert (Hc92 : c <> 92%N) by (intros X; apply Hn; left; auto).
  simpl. unfold esc at 1. destruct (N.eqb_spec c 39) as [->|Hc]; simpl.
  - rewrite (IH Hs). reflexivity.
  - destruct (N.eqb_spec c 92); [contradiction|]. simpl. rewrite (IH Hs). reflexivity.
Qed.

(* QUOTED_ATOM_ROUNDTRIP *)
Theorem quoted_atom_roundtrip s : ~ In 92%N s ->
  lex (quote s) = Some [(R_STRING, quote s)] /\ unquote (quote s) = s.
Proof.
  intros Hn. split; [|apply unquote_quote; exact Hn].
  pose proof (quoted_atom_munch s [] Hn) as H. rewrite app_nil_r in H.
  unfold lex. rewrite (single_item R_STRING (quote s)); [reflexivity|discriminate|exact H].
Qed.

(* what the visitor makes of a quoted atom in argument position, and as a goal name *)
Corollary quoted_atom_literal s k : ~ In 92%N s ->
  v_term (T_atom (A_STRING (quote s))) k = (Some (SAtom s), k).
Proof. intros Hn. simpl. rewrite (unquote_quote s Hn). reflexivity. Qed.
