(* C16, source side: what the literals of a source text denote.
   - quoted atoms: for every text s without backslash, quote s (s between quotes, \' for ') is lexed as
     the single token STRING and unquoted back to s -- including quotes, line breaks, any code point;
   - plain atoms, numerals, variables: the whole text is one token of the expected kind;
   - list syntax folds to '.'/2 chains; `_` is numbered x1, x2, ... per compilation, each number once. *)
From Coq Require Import List NArith ZArith Arith Bool Lia.
Import ListNotations.
From YP Require Import Base.Str Term.Term Lang.Ast Lang.Lexer Lang.Cst Lang.Parser Lang.Unquote.

(* ------------------------------------------------------------------ first characters *)

Definition first_ok (r : rname) (c : N) : bool :=
  match rule_def r with
  | RLits ls => existsb (fun l => match l with x :: _ => N.eqb x c | [] => false end) ls
  | RClass f _ => f c
  | RString => N.eqb c 39
  | RComment => N.eqb c 37
  end.

Lemma first_char r c t m : is_match (rule_def r) (c :: t) m -> first_ok r c = true.
Proof.
  unfold first_ok. intros [w [rest [E [_ Hw]]]].
  pose proof (rule_lang_nonempty r w Hw) as Hne.
  destruct (rule_def r) as [ls|f g| |]; simpl in Hw.
  - apply existsb_exists. exists w. split; [exact Hw|]. destruct w as [|x w]; [congruence|].
    simpl in E. injection E as -> _. apply N.eqb_refl.
  - destruct Hw as [c' [w' [-> [Hc _]]]]. simpl in E. injection E as -> _. exact Hc.
  - destruct Hw as [b [-> _]]. simpl in E. injection E as -> _. reflexivity.
  - destruct Hw as [b [e [-> _]]]. simpl in E. injection E as -> _. reflexivity.
Qed.

(* a property of characters that holds for 0..127 by computation and above by an argument *)
Lemma ascii_check (P : N -> bool) :
  forallb P (map N.of_nat (seq 0 128)) = true -> (forall c, (128 <= c)%N -> P c = true) ->
  forall c, P c = true.
Proof.
  intros Hlow Hhigh c. destruct (N.lt_ge_cases c 128) as [Hlt|Hge]; [|auto].
  rewrite forallb_forall in Hlow. apply Hlow. apply in_map_iff. exists (N.to_nat c).
  split; [apply N2Nat.id|]. apply in_seq. lia.
Qed.

(* a text that is, as a whole, in the language of rule r and of no rule listed before r is the single token r *)
Lemma whole_token r w : rule_lang r w -> (forall r', ridx r' < ridx r -> ~ rule_lang r' w) ->
  lex_one w = Some (r, length w).
Proof.
  intros Hw Hearlier. apply lex_one_complete. split.
  - exists w, []. rewrite app_nil_r. auto.
  - intros r' m [w' [rest [E [<- Hw']]]].
    assert (Hlen : length w' <= length w) by (rewrite E, app_length; lia).
    destruct (Nat.eq_dec (length w') (length w)) as [Heq|]; [right|left; lia].
    split; [exact Heq|].
    assert (rest = []) as -> by (destruct rest; [reflexivity|]; rewrite E, app_length in Heq; simpl in Heq; lia).
    rewrite app_nil_r in E. subst w'.
    destruct (Nat.le_gt_cases (ridx r) (ridx r')) as [|Hlt]; [assumption|].
    exfalso. apply (Hearlier r' Hlt Hw').
Qed.

Lemma single_item r w : w <> [] -> lex_one w = Some (r, length w) -> lex_items (length w) w = Some [(r, w)].
Proof.
  intros Hne H. destruct w as [|c w]; [congruence|]. cbn [length lex_items]. rewrite H.
  change (S (length w)) with (length (c :: w)). rewrite skipn_all, firstn_all.
  destruct (length w); reflexivity.
Qed.

Lemma whole_token_lex r w : is_skip r = false -> rule_lang r w ->
  (forall r', ridx r' < ridx r -> ~ rule_lang r' w) -> lex w = Some [(r, w)].
Proof.
  intros Hs Hw He. unfold lex. rewrite (single_item r w).
  - simpl. unfold keep. simpl. rewrite Hs. reflexivity.
  - eapply rule_lang_nonempty; eauto.
  - apply whole_token; auto.
Qed.

Lemma rule_lang_first r c w : rule_lang r (c :: w) -> first_ok r c = true.
Proof.
  intros H. apply (first_char r c w (length (c :: w))). exists (c :: w), []. rewrite app_nil_r. auto.
Qed.

(* ------------------------------------------------------------------ numerals, variables, plain atoms *)

Definition earlier_cannot_start (k : nat) (c : N) : bool :=
  forallb (fun r' => negb (ridx r' <? k) || negb (first_ok r' c)) all_rules.

Lemma earlier_cannot_start_spec k c : earlier_cannot_start k c = true ->
  forall r', ridx r' < k -> first_ok r' c = false.
Proof.
  unfold earlier_cannot_start. rewrite forallb_forall. intros H r' Hlt.
  specialize (H r' (all_rules_complete r')). apply Nat.ltb_lt in Hlt. rewrite Hlt in H. simpl in H.
  destruct (first_ok r' c); [discriminate|reflexivity].
Qed.

Lemma digit_first : forall c, implb (is_digit c) (earlier_cannot_start 15 c) = true.
Proof.
  apply ascii_check; [vm_compute; reflexivity|].
  intros c Hc. unfold is_digit. replace (c <=? 57)%N with false by (symmetry; apply N.leb_gt; lia).
  rewrite andb_false_r. reflexivity.
Qed.

Lemma varstart_first : forall c, implb (is_varstart c) (earlier_cannot_start 13 c) = true.
Proof.
  apply ascii_check; [vm_compute; reflexivity|].
  intros c Hc. unfold is_varstart, is_uc.
  replace (c <=? 90)%N with false by (symmetry; apply N.leb_gt; lia).
  replace (c =? 95)%N with false by (symmetry; apply N.eqb_neq; lia).
  rewrite andb_false_r. reflexivity.
Qed.

(* a lower-case letter starts, among the rules before ATOM, only `true` and `fail` *)
Definition lc_letter (c : N) : bool := ((97 <=? c) && (c <=? 122))%N.
Definition only_true_fail (c : N) : bool :=
  forallb (fun r' => negb (ridx r' <? 14) || negb (first_ok r' c) ||
                     match r' with R_TRUE | R_FAIL => true | _ => false end) all_rules.
Lemma lc_first : forall c, implb (lc_letter c) (only_true_fail c) = true.
Proof.
  apply ascii_check; [vm_compute; reflexivity|].
  intros c Hc. unfold lc_letter. replace (c <=? 122)%N with false by (symmetry; apply N.leb_gt; lia).
  rewrite andb_false_r. reflexivity.
Qed.

(* NUMERAL: any non-empty digit string, leading zeros included, is one NUMERAL token *)
Theorem numeral_token w : w <> [] -> forallb is_digit w = true -> lex w = Some [(R_NUMERAL, w)].
Proof.
  intros Hne Hd. destruct w as [|c w]; [congruence|]. simpl in Hd. apply andb_true_iff in Hd as [Hc Hw].
  apply whole_token_lex; [reflexivity| |].
  - exists c, w; auto.
  - intros r' Hlt Hr'. apply rule_lang_first in Hr'.
    pose proof (digit_first c) as H. rewrite Hc in H. simpl in H.
    rewrite (earlier_cannot_start_spec 15 c H r' Hlt) in Hr'. discriminate.
Qed.

(* VARIABLE: an upper-case letter or `_` followed by letters, digits, `_` *)
Theorem variable_token c w : is_varstart c = true -> forallb is_character w = true ->
  lex (c :: w) = Some [(R_VARIABLE, c :: w)].
Proof.
  intros Hc Hw. apply whole_token_lex; [reflexivity| |].
  - exists c, w; auto.
  - intros r' Hlt Hr'. apply rule_lang_first in Hr'.
    pose proof (varstart_first c) as H. rewrite Hc in H. simpl in H.
    rewrite (earlier_cannot_start_spec 13 c H r' Hlt) in Hr'. discriminate.
Qed.

(* ATOM: a lower-case letter followed by letters, digits, `_`, other than the keywords true and fail *)
Theorem plain_atom_token c w : lc_letter c = true -> forallb is_character w = true ->
  c :: w <> [116; 114; 117; 101]%N -> c :: w <> [102; 97; 105; 108]%N ->
  lex (c :: w) = Some [(R_ATOM, c :: w)].
Proof.
  intros Hc Hw Ht Hf. apply whole_token_lex; [reflexivity| |].
  - exists c, w. repeat split; auto. unfold is_lc. unfold lc_letter in Hc. rewrite Hc. reflexivity.
  - intros r' Hlt Hr'. pose proof (rule_lang_first _ _ _ Hr') as Hfo.
    pose proof (lc_first c) as H. rewrite Hc in H. simpl in H. unfold only_true_fail in H.
    rewrite forallb_forall in H. specialize (H r' (all_rules_complete r')).
    change (ridx R_ATOM) with 14 in Hlt. apply Nat.ltb_lt in Hlt. rewrite Hlt, Hfo in H. simpl in H.
    destruct r'; try discriminate H; unfold rule_lang in Hr'; simpl in Hr'; destruct Hr' as [E|[]];
      vm_compute in E; congruence.
Qed.

(* the integer a numeral denotes (yp_generator emits str(int(text))) *)
Definition num_value (w : str) : N := fold_left (fun acc c => (acc * 10 + (c - 48))%N) w 0%N.

Lemma num_value_leading_zeros z w : forallb (N.eqb 48) z = true -> num_value (z ++ w) = num_value w.
Proof.
  unfold num_value. rewrite fold_left_app. intros Hz. f_equal.
  induction z as [|c z IH] using rev_ind; [reflexivity|].
  rewrite forallb_app in Hz. apply andb_true_iff in Hz as [Hz Hc]. cbn [forallb] in Hc. rewrite andb_true_r in Hc.
  apply N.eqb_eq in Hc as <-. rewrite fold_left_app. simpl. rewrite (IH Hz). reflexivity.
Qed.

(* ------------------------------------------------------------------ quoted atoms *)

Definition esc (c : N) : str := if N.eqb c 39 then [92; 39]%N else [c].
Definition quote (s : str) : str := 39%N :: flat_map esc s ++ [39%N].

Lemma sbody_quote s : ~ In 92%N s -> sbody (flat_map esc s).
Proof.
  induction s as [|c s IH]; intros Hn; simpl; [constructor|].
  assert (Hs : ~ In 92%N s) by (intros X; apply Hn; right; exact X).
  unfold esc at 1. destruct (N.eqb_spec c 39) as [->|Hc]; simpl.
  - apply sb_esc. auto.
  - apply sb_plain; auto.
Qed.

(* state of the escape automaton after a well-formed body *)
Fixpoint esc_end (b : bool) (w : str) : option bool :=
  match w with
  | [] => Some b
  | c :: r => if N.eqb c 39 then (if b then esc_end false r else None) else esc_end (N.eqb c 92) r
  end.

Lemma esc_ok_app w1 : forall b w2,
  esc_ok b (w1 ++ w2) = match esc_end b w1 with Some b' => esc_ok b' w2 | None => false end.
Proof.
  induction w1 as [|c r IH]; intros b w2; simpl; [reflexivity|].
  destruct (N.eqb c 39).
  - destruct b; simpl; [apply IH | reflexivity].
  - apply IH.
Qed.

Lemma esc_end_quote s : ~ In 92%N s -> esc_end false (flat_map esc s) = Some false.
Proof.
  assert (G : forall s, ~ In 92%N s -> forall b, esc_end b (flat_map esc s) = Some (match s with [] => b | _ => false end)).
  { clear. induction s as [|c s IH]; intros Hn b; simpl; [reflexivity|].
    assert (Hs : ~ In 92%N s) by (intros X; apply Hn; right; exact X).
    assert (Hc92 : c <> 92%N) by (intros X; apply Hn; left; auto).
    unfold esc at 1. destruct (N.eqb_spec c 39) as [->|Hc]; simpl.
    - rewrite (IH Hs false). destruct s; reflexivity.
    - destruct (N.eqb_spec c 39); [contradiction|]. destruct (N.eqb_spec c 92); [contradiction|].
      rewrite (IH Hs false). destruct s; reflexivity. }
  intros Hn. rewrite (G s Hn false). destruct s; reflexivity.
Qed.

Lemma app_eq_longer {A} (a b c d : list A) : a ++ b = c ++ d -> length a < length c ->
  exists e, c = a ++ e /\ e <> [].
Proof.
  revert c; induction a as [|x a IH]; intros c H Hl.
  - exists c. split; [reflexivity|]. destruct c; [simpl in Hl; lia|discriminate].
  - destruct c as [|y c]; [simpl in Hl; lia|]. simpl in H. injection H as -> H.
    destruct (IH c H) as [e [-> He]]; [simpl in Hl; lia|]. exists e; auto.
Qed.

(* however the text continues, the quoted form of s is the STRING token taken at this position *)
Theorem quoted_atom_munch s rest : ~ In 92%N s ->
  lex_one (quote s ++ rest) = Some (R_STRING, length (quote s)).
Proof.
  intros Hn. apply lex_one_complete. split.
  - exists (quote s), rest. repeat split. exists (flat_map esc s). split; [reflexivity|]. apply sbody_quote; auto.
  - intros r' m Hm. destruct (rname_eq_dec r' R_STRING) as [->|Hr].
    + destruct Hm as [w [rest' [E [<- [b [-> Hb]]]]]].
      destruct (Nat.le_gt_cases (length b) (length (flat_map esc s))) as [Hle|Hgt].
      * destruct (Nat.eq_dec (length b) (length (flat_map esc s))) as [Heq|Hne].
        -- right. split; [|simpl; lia]. unfold quote. simpl. rewrite !app_length, Heq. reflexivity.
        -- left. unfold quote. simpl. rewrite !app_length. simpl. lia.
      * exfalso. unfold quote in E. simpl in E. injection E as E. rewrite <- !app_assoc in E. simpl in E.
        destruct (app_eq_longer _ _ _ _ E Hgt) as [e [-> He]].
        rewrite <- app_assoc in E. apply app_inv_head in E.
        destruct e as [|x e]; [congruence|]. simpl in E. injection E as <- _.
        apply sbody_iff in Hb. rewrite esc_ok_app, (esc_end_quote s Hn) in Hb. simpl in Hb. discriminate.
    + exfalso. unfold quote in Hm. simpl in Hm. apply first_char in Hm.
      destruct r'; try congruence; vm_compute in Hm; discriminate.
Qed.

Lemma unq_loop_body b : unq_loop (b ++ [39%N]) = filter (fun c => negb (N.eqb c 92)) b.
Proof.
  induction b as [|c r IH]; [reflexivity|].
  destruct r as [|x r'].
  - simpl. destruct (N.eqb c 92); reflexivity.
  - change ((c :: x :: r') ++ [39%N]) with (c :: (x :: r') ++ [39%N]).
    change (unq_loop (c :: (x :: r') ++ [39%N])) with
      (if N.eqb c 92 then unq_loop ((x :: r') ++ [39%N]) else c :: unq_loop ((x :: r') ++ [39%N])).
    rewrite IH. simpl. destruct (N.eqb c 92); reflexivity.
Qed.

Lemma unquote_quote s : ~ In 92%N s -> unquote (quote s) = s.
Proof.
  intros Hn. unfold unquote, quote. cbn [tl]. rewrite unq_loop_body.
  induction s as [|c s IH]; [reflexivity|].
  assert (Hs : ~ In 92%N s) by (intros X; apply Hn; right; exact X).
  assert (Hc92 : c <> 92%N) by (intros X; apply Hn; left; auto).
  simpl. unfold esc at 1. destruct (N.eqb_spec c 39) as [->|Hc]; simpl.
  - rewrite (IH Hs). reflexivity.
  - destruct (N.eqb_spec c 92); [contradiction|]. simpl. rewrite (IH Hs). reflexivity.
Qed.

(* QUOTED_ATOM_ROUNDTRIP *)
Theorem quoted_atom_roundtrip s : ~ In 92%N s ->
  lex (quote s) = Some [(R_STRING, quote s)] /\ unquote (quote s) = s.
Proof.
  intros Hn. split; [|apply unquote_quote; exact Hn].
  pose proof (quoted_atom_munch s [] Hn) as H. rewrite app_nil_r in H.
  unfold lex. rewrite (single_item R_STRING (quote s)); [reflexivity|discriminate|exact H].
Qed.

(* what the visitor makes of a quoted atom in argument position, and as a goal name *)
Corollary quoted_atom_literal s k : ~ In 92%N s ->
  v_term (T_atom (A_STRING (quote s))) k = (Some (SAtom s), k).
Proof. intros Hn. simpl. rewrite (unquote_quote s Hn). reflexivity. Qed.

(* ------------------------------------------------------------------ decimal numerals denote their number *)

Definition nv (a : N) (w : str) : N := fold_left (fun acc c => (acc * 10 + (c - 48))%N) w a.

Lemma dec_digits_value f : forall n acc, (n < 2 ^ N.of_nat f)%N ->
  nv 0 (dec_digits_fuel f n acc) = nv n acc.
Proof.
  induction f as [|f IH]; intros n acc Hn.
  - simpl in Hn. assert (n = 0%N) by lia. subst. reflexivity.
  - cbn [dec_digits_fuel]. pose proof (N.div_mod n 10 ltac:(lia)) as Hdm.
    pose proof (N.mod_lt n 10 ltac:(lia)) as Hm.
    destruct (N.eqb_spec (n / 10) 0) as [Hq|Hq].
    + unfold nv. cbn [fold_left]. f_equal. clear Hn IH.
        remember (n / 10)%N as q. remember (n mod 10)%N as m. clear Heqq Heqm. lia.
    + rewrite IH.
      * unfold nv. cbn [fold_left]. f_equal. clear Hn IH.
        remember (n / 10)%N as q. remember (n mod 10)%N as m. clear Heqq Heqm. lia.
      * rewrite Nat2N.inj_succ, N.pow_succ_r' in Hn. apply N.div_lt_upper_bound; lia.
Qed.

(* NUMERAL_ROUNDTRIP: the decimal text of n denotes n *)
Theorem num_value_dec n : num_value (dec_of_N n) = n.
Proof.
  unfold dec_of_N. change (num_value ?w) with (nv 0 w). rewrite dec_digits_value; [reflexivity|].
  rewrite Nat2N.inj_succ, N2Nat.id, N.pow_succ_r'. pose proof (N.size_gt n). lia.
Qed.

Lemma dec_of_nat_inj a b : dec_of_nat a = dec_of_nat b -> a = b.
Proof.
  unfold dec_of_nat. intros H. apply (f_equal num_value) in H. rewrite !num_value_dec in H. lia.
Qed.

Lemma anon_name_inj i j : anon_name i = anon_name j -> i = j.
Proof. unfold anon_name. intros H. injection H as H. apply dec_of_nat_inj in H. lia. Qed.

(* an anonymous-variable name is not the text of any VARIABLE token (nor of `_` itself) *)
Theorem anon_not_source i v : rule_lang R_VARIABLE v -> anon_name i <> v.
Proof.
  intros [c [w [-> [Hc _]]]] H. unfold anon_name in H. injection H as <- _. vm_compute in Hc. discriminate.
Qed.

(* ------------------------------------------------------------------ lists *)

Definition s_dot : str := [46%N].
Definition s_nil : str := [91%N; 93%N].
Definition cons_term (h t : term) : term := TFun s_dot [h; t].

(* the run-time term a literal stands for, given the values of its variables
   (atom(name) / int / functor(name, args) / makelist(items) or ATOM_NIL / listpair(h, t)) *)
Fixpoint sden (rho : str -> term) (t : sterm) : term :=
  match t with
  | SAtom a => TAtom a
  | SNum w => TInt (Z.of_N (num_value w))
  | SVar v => rho v
  | SFun f args => TFun f (map (sden rho) args)
  | SList items => fold_right cons_term (TAtom s_nil) (map (sden rho) items)
  | SPair h t => cons_term (sden rho h) (sden rho t)
  end.

Lemma sden_fold_pairs rho items tl :
  sden rho (fold_pairs items tl) = fold_right cons_term (sden rho tl) (map (sden rho) items).
Proof.
  unfold fold_pairs. induction items as [|x r IH]; cbn [fold_right map sden]; [reflexivity|].
  rewrite IH. reflexivity.
Qed.

(* [t1,...,tn] is [t1,...,tn|[]] *)
Theorem list_literal rho items : sden rho (SList items) = sden rho (fold_pairs items (SAtom s_nil)).
Proof. rewrite sden_fold_pairs. reflexivity. Qed.

Lemma v_terms_eq l : forall k,
  (fix go (l : list cterm) (k : nat) : option (list sterm) * nat :=
     match l with
     | [] => (Some [], k)
     | x :: r => let '(x', k1) := v_term x k in let '(r', k2) := go r k1 in (opt2 cons x' r', k2)
     end) l k = v_terms l k.
Proof.
  induction l as [|x r IH]; intros k; [reflexivity|]. cbn [v_terms]. destruct (v_term x k) as [x' k1].
  rewrite IH. reflexivity.
Qed.

Lemma v_term_functor a args k :
  v_term (T_functor a args) k = let '(args', k1) := v_terms args k in (opt2 SFun (atom_name a) args', k1).
Proof. cbn [v_term]. rewrite v_terms_eq. reflexivity. Qed.
Lemma v_term_list items k :
  v_term (T_list items) k = let '(l, k1) := v_terms items k in (option_map SList l, k1).
Proof. cbn [v_term]. rewrite v_terms_eq. reflexivity. Qed.
Lemma v_term_listpair2 h rest v k :
  v_term (T_listpair2 h rest v) k =
    let '(h', k1) := v_term h k in
    let '(l, k2) := v_terms rest k1 in
    let '(x, k3) := v_var v k2 in
    (opt2 (fun a b => fold_pairs (a :: b) x) h' l, k3).
Proof. cbn [v_term]. destruct (v_term h k) as [h' k1]. rewrite v_terms_eq. reflexivity. Qed.

(* LIST_PATTERN_FOLDS: [t1,...,tn|V] is visited to the '.'/2 chain of the visited items ending in V *)
Theorem list_pattern_folds h rest v k h' k1 rest' k2 :
  v_term h k = (Some h', k1) -> v_terms rest k1 = (Some rest', k2) ->
  let x := fst (v_var v k2) in
  v_term (T_listpair2 h rest v) k = (Some (fold_pairs (h' :: rest') x), snd (v_var v k2)) /\
  forall rho, sden rho (fold_pairs (h' :: rest') x) =
              fold_right cons_term (sden rho x) (map (sden rho) (h' :: rest')).
Proof.
  intros Hh Hr x. split; [|intros rho; apply sden_fold_pairs].
  rewrite v_term_listpair2, Hh, Hr. subst x. destruct (v_var v k2); reflexivity.
Qed.

(* ------------------------------------------------------------------ anonymous variables *)

(* vs is a sequence of variable names in which the anonymous ones carry strictly increasing numbers
   from [k, k'): each number is used at most once *)
Inductive numbered : nat -> nat -> list str -> Prop :=
| nb_nil k k' : k <= k' -> numbered k k' []
| nb_named k k' v vs : is_anon v = false -> numbered k k' vs -> numbered k k' (v :: vs)
| nb_anon k k' i vs : k <= i -> numbered (S i) k' vs -> numbered k k' (anon_name i :: vs).

Lemma numbered_le k k' vs : numbered k k' vs -> k <= k'.
Proof. induction 1; lia. Qed.

Lemma numbered_weaken j k k' vs : numbered k k' vs -> j <= k -> numbered j k' vs.
Proof.
  intros H; revert j; induction H; intros j Hj.
  - constructor; lia.
  - constructor; auto.
  - constructor; [lia|assumption].
Qed.

Lemma numbered_app k k1 k2 a b : numbered k k1 a -> numbered k1 k2 b -> numbered k k2 (a ++ b).
Proof.
  intros Ha Hb. induction Ha; simpl.
  - eapply numbered_weaken; eauto.
  - apply nb_named; auto.
  - apply nb_anon; auto.
Qed.

Lemma v_var_numbered v k x k' : v_var v k = (x, k') -> numbered k k' (sterm_vars x).
Proof.
  unfold v_var. destruct (is_anon v) eqn:E; intros H; injection H as <- <-; simpl.
  - apply nb_anon; [lia|]. constructor; lia.
  - apply nb_named; [exact E|]. constructor; lia.
Qed.

Lemma sterm_vars_fold_pairs items x :
  sterm_vars (fold_pairs items x) = flat_map sterm_vars items ++ sterm_vars x.
Proof.
  unfold fold_pairs. induction items as [|a r IH]; cbn [fold_right flat_map sterm_vars app]; [reflexivity|].
  rewrite IH, app_assoc. reflexivity.
Qed.

Definition term_numbered (t : cterm) : Prop :=
  forall k st k', v_term t k = (Some st, k') -> numbered k k' (sterm_vars st).

Lemma v_terms_numbered l : Forall term_numbered l ->
  forall k sts k', v_terms l k = (Some sts, k') -> numbered k k' (flat_map sterm_vars sts).
Proof.
  induction 1 as [|t l Ht _ IH]; intros k sts k' H; cbn [v_terms] in H.
  - injection H as <- <-. constructor; lia.
  - destruct (v_term t k) as [x' k1] eqn:Et. destruct (v_terms l k1) as [r' k2] eqn:Er.
    destruct x' as [x'|]; destruct r' as [r'|]; simpl in H; try discriminate.
    injection H as <- <-. simpl. eapply numbered_app; [apply Ht; eauto | apply IH; eauto].
Qed.

Lemma v_term_numbered : forall t, term_numbered t.
Proof.
  induction t as [a|a args IH|a n|v|op t IH|l op r IHl IHr|op l r IHl IHr|t IH|items IH|h v IH|h rest v IHh IHr]
    using cterm_ind'; intros k st k' H.
  - destruct a; simpl in H; injection H as <- <-; constructor; lia.
  - rewrite v_term_functor in H. destruct (v_terms args k) as [args' k1] eqn:E.
    destruct (atom_name a); destruct args' as [args'|]; simpl in H; try discriminate.
    injection H as <- <-. simpl. eapply v_terms_numbered; eauto.
  - simpl in H. discriminate.
  - simpl in H. destruct (v_var v k) as [x k1] eqn:E. injection H as <- <-. eapply v_var_numbered; eauto.
  - simpl in H. destruct (v_term t k) as [t' k1] eqn:E. destruct t' as [t'|]; simpl in H; [|discriminate].
    injection H as <- <-. simpl. rewrite app_nil_r. eapply IH; eauto.
  - simpl in H. destruct (v_term l k) as [l' k1] eqn:El. destruct (v_term r k1) as [r' k2] eqn:Er.
    destruct l' as [l'|]; destruct r' as [r'|]; simpl in H; try discriminate.
    injection H as <- <-. simpl. rewrite app_nil_r. eapply numbered_app; [eapply IHl|eapply IHr]; eauto.
  - simpl in H. destruct (v_term l k) as [l' k1] eqn:El. destruct (v_term r k1) as [r' k2] eqn:Er.
    destruct l' as [l'|]; destruct r' as [r'|]; simpl in H; try discriminate.
    injection H as <- <-. simpl. rewrite app_nil_r. eapply numbered_app; [eapply IHl|eapply IHr]; eauto.
  - simpl in H. eapply IH; eauto.
  - rewrite v_term_list in H. destruct (v_terms items k) as [l k1] eqn:E.
    destruct l as [l|]; simpl in H; [|discriminate]. injection H as <- <-. simpl. eapply v_terms_numbered; eauto.
  - simpl in H. destruct (v_term h k) as [h' k1] eqn:Eh. destruct (v_var v k1) as [x k2] eqn:Ev.
    destruct h' as [h'|]; simpl in H; [|discriminate]. injection H as <- <-.
    simpl. eapply numbered_app; [eapply IH; eauto | eapply v_var_numbered; eauto].
  - rewrite v_term_listpair2 in H. destruct (v_term h k) as [h' k1] eqn:Eh.
    destruct (v_terms rest k1) as [l k2] eqn:Er. destruct (v_var v k2) as [x k3] eqn:Ev.
    destruct h' as [h'|]; destruct l as [l|]; cbn [opt2] in H; try discriminate. injection H as <- <-.
    cbn [sterm_vars]. rewrite sterm_vars_fold_pairs.
    eapply numbered_app; [eapply IHh; eauto|].
    eapply numbered_app; [eapply v_terms_numbered; eauto | eapply v_var_numbered; eauto].
Qed.

(* the counter never goes back, also when the term has no AST *)
Lemma v_var_le v k : k <= snd (v_var v k).
Proof. unfold v_var. destruct (is_anon v); simpl; lia. Qed.

Lemma v_terms_le l : Forall (fun t => forall k, k <= snd (v_term t k)) l -> forall k, k <= snd (v_terms l k).
Proof.
  induction 1 as [|t l Ht _ IH]; intros k; cbn [v_terms]; [simpl; lia|].
  specialize (Ht k). destruct (v_term t k) as [x' k1]. specialize (IH k1).
  destruct (v_terms l k1) as [r' k2]. simpl in *. lia.
Qed.

Lemma v_term_le : forall t k, k <= snd (v_term t k).
Proof.
  induction t as [a|a args IH|a n|v|op t IH|l op r IHl IHr|op l r IHl IHr|t IH|items IH|h v IH|h rest v IHh IHr]
    using cterm_ind'; intros k.
  - destruct a; simpl; lia.
  - rewrite v_term_functor. pose proof (v_terms_le args IH k). destruct (v_terms args k); simpl in *; lia.
  - simpl; lia.
  - simpl. pose proof (v_var_le v k). destruct (v_var v k); simpl in *; lia.
  - simpl. specialize (IH k). destruct (v_term t k); simpl in *; lia.
  - simpl. specialize (IHl k). destruct (v_term l k) as [l' k1]. specialize (IHr k1).
    destruct (v_term r k1); simpl in *; lia.
  - simpl. specialize (IHl k). destruct (v_term l k) as [l' k1]. specialize (IHr k1).
    destruct (v_term r k1); simpl in *; lia.
  - simpl. apply IH.
  - rewrite v_term_list. pose proof (v_terms_le items IH k). destruct (v_terms items k); simpl in *; lia.
  - simpl. specialize (IH k). destruct (v_term h k) as [h' k1]. pose proof (v_var_le v k1).
    destruct (v_var v k1); simpl in *; lia.
  - rewrite v_term_listpair2. specialize (IHh k). destruct (v_term h k) as [h' k1].
    pose proof (v_terms_le rest IHr k1). destruct (v_terms rest k1) as [l k2]. pose proof (v_var_le v k2).
    destruct (v_var v k2); simpl in *; lia.
Qed.

Definition clause_vars (c : clause) : list str := flat_map sterm_vars (c_args c) ++ body_vars (c_body c).
Definition prog_vars (p : program) : list str := flat_map clause_vars p.

Lemma v_callable_numbered t k f args k1 : v_callable t k = Some (f, args, k1) ->
  numbered k k1 (flat_map sterm_vars args).
Proof.
  unfold v_callable. destruct (callable_shape t); [|discriminate].
  destruct (v_term t k) as [st k'] eqn:E. destruct st as [st|]; [|discriminate].
  pose proof (v_term_numbered t k st k' E) as Hn.
  destruct st; try discriminate; intros H; injection H as <- <- <-; simpl in *; auto.
Qed.

Lemma v_goal_numbered sp k b k1 : v_goal sp k = Some (b, k1) -> numbered k k1 (body_vars b).
Proof.
  destruct sp; simpl; try (intros H; injection H as <- <-; constructor; lia).
  destruct (v_callable t k) as [[[f args] k']|] eqn:E; [|discriminate].
  intros H; injection H as <- <-. simpl. eapply v_callable_numbered; eauto.
Qed.

Lemma v_pe_numbered p : forall k b k1, v_pe p k = Some (b, k1) -> numbered k k1 (body_vars b).
Proof.
  induction p as [sp|a IH|a IHa b IHb|a IHa b IHb|a IHa b IHb|a IH]; intros k b0 k1 H; simpl in H.
  - eapply v_goal_numbered; eauto.
  - destruct (v_pe a k) as [[a' k']|] eqn:E; [|discriminate]. injection H as <- <-. simpl. eauto.
  - destruct (v_pe a k) as [[a' k']|] eqn:Ea; [|discriminate]. destruct (v_pe b k') as [[b' k'']|] eqn:Eb; [|discriminate].
    injection H as <- <-. simpl. eapply numbered_app; eauto.
  - destruct (v_pe a k) as [[a' k']|] eqn:Ea; [|discriminate]. destruct (v_pe b k') as [[b' k'']|] eqn:Eb; [|discriminate].
    injection H as <- <-. simpl. eapply numbered_app; eauto.
  - destruct (v_pe a k) as [[a' k']|] eqn:Ea; [|discriminate]. destruct (v_pe b k') as [[b' k'']|] eqn:Eb; [|discriminate].
    injection H as <- <-. simpl. eapply numbered_app; eauto.
  - eauto.
Qed.

Lemma v_head_numbered sp k f args k1 : v_head sp k = Some (f, args, k1) -> numbered k k1 (flat_map sterm_vars args).
Proof.
  destruct sp; simpl; try discriminate.
  destruct (v_callable t k) as [[[f' args'] k']|] eqn:E; [|discriminate].
  destruct (valid_pred_name f'); [|discriminate]. intros H; injection H as <- <- <-.
  eapply v_callable_numbered; eauto.
Qed.

Lemma v_clause_numbered c k cl k1 : v_clause c k = Some (cl, k1) -> numbered k k1 (clause_vars cl).
Proof.
  destruct c as [h|h b]; simpl.
  - destruct (v_head h k) as [[[f args] k']|] eqn:E; [|discriminate]. intros H; injection H as <- <-.
    unfold clause_vars; simpl. rewrite app_nil_r. eapply v_head_numbered; eauto.
  - destruct (v_head h k) as [[[f args] k']|] eqn:E; [|discriminate].
    destruct (v_pe b k') as [[b' k'']|] eqn:Eb; [|discriminate]. intros H; injection H as <- <-.
    unfold clause_vars; simpl. eapply numbered_app; [eapply v_head_numbered; eauto | eapply v_pe_numbered; eauto].
Qed.

(* ANON_FRESH: over one whole compilation, directives included, the anonymous variables of the program
   carry strictly increasing numbers: no two occurrences of `_` share a variable, in one clause or across clauses *)
Theorem anon_fresh cst : forall k prog k', v_program cst k = Some (prog, k') -> numbered k k' (prog_vars prog).
Proof.
  induction cst as [|c cst IH]; intros k prog k' H; simpl in H.
  - injection H as <- <-. constructor; lia.
  - destruct c as [cc|sp].
    + destruct (v_clause cc k) as [[cl k1]|] eqn:E; [|discriminate].
      destruct (v_program cst k1) as [[l k2]|] eqn:E1; [|discriminate].
      injection H as <- <-. unfold prog_vars; simpl.
      eapply numbered_app; [eapply v_clause_numbered; eauto | eapply IH; eauto].
    + destruct (v_directive sp k) as [k1|] eqn:E; [|discriminate].
      eapply numbered_weaken; [eapply IH; eauto|].
      destruct sp; simpl in E; try (injection E as <-; lia).
      destruct (callable_shape t); [|discriminate]. injection E as <-. apply v_term_le.
Qed.
