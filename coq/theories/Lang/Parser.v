(* Parser of prolog.g4 (model of the checked-in prologParser.py as ANTLR 4.9.1 runs it with the raising
   error listener and the end-of-input test of compiler.py: any syntax error is an exception, so the
   only outcomes are "a parse tree for ALL tokens" or "rejected").

   The two left-recursive rules are parsed the way ANTLR rewrites them (precedence climbing):
     term[_p]   : primary ( {5 >= _p}? BINOP term[6] )*          UNOP term[6] is a primary
                  so `term BINOP term` is left-associative, its right operand is a primary, and a
                  prefix operator applies to the primary that follows it:  - a = b  is  (-a) = b.
     predicateexpression[_p] : primary ( {4 >= _p}? ',' pe[4] | {3 >= _p}? '->' pe[3] | {2 >= _p}? ';' pe[2] )*
                  '\+' pe[5] is a primary.  All three operators are right-associative, ',' binds tightest,
                  then '->', then ';', and  \+ a, b  is  (\+ a), b.
   Decisions that ANTLR makes by looking ahead are made the same way: an ATOM followed by '/' is the
   name/arity alternative, an atom followed by '(' is a functor, the two bracket alternatives are told
   apart by what follows the first term, an empty termlist is chosen when the next token cannot start
   a term.  The only ambiguity of the grammar -- '(' after which both  term -> '(' term ')'  (through
   simplepredicate) and  predicateexpression -> '(' predicateexpression ')'  may apply -- is resolved as
   ANTLR does (lowest alternative that is viable): the term reading is taken whenever the bracketed text
   is a term.  Fuel bounds the recursion depth; `parse` supplies 5 * #tokens + 10. *)
From Coq Require Import List NArith Arith Bool.
Import ListNotations.
From YP Require Import Base.Str Lang.Lexer Lang.Cst.

Notation "'do' ' p <- e1 ; e2" := (match e1 with Some p => e2 | None => None end)
  (at level 200, p pattern, e1 at level 100, e2 at level 200, right associativity).

Definition is_k (k : rname) (ts : list tok) : bool :=
  match ts with (k', _) :: _ => rname_eqb k k' | [] => false end.

Definition expect (k : rname) (ts : list tok) : option (str * list tok) :=
  match ts with
  | (k', x) :: r => if rname_eqb k k' then Some (x, r) else None
  | [] => None
  end.

(* FIRST(term) *)
Definition starts_term (ts : list tok) : bool :=
  match ts with
  | (k, _) :: _ =>
      match k with
      | R_ATOM | R_NUMERAL | R_STRING | R_VARIABLE | R_UNOP | R_BINOP | R_LPAR | R_LBRACK => true
      | _ => false
      end
  | [] => false
  end.

Fixpoint p_term (n : nat) (ts : list tok) {struct n} : option (cterm * list tok) :=      (* term[0] *)
  match n with
  | 0 => None
  | S n =>
      do '(t, r) <- p_prim n ts;
      p_binops n t r
  end
with p_prim (n : nat) (ts : list tok) {struct n} : option (cterm * list tok) :=           (* term[6] *)
  match n with
  | 0 => None
  | S n =>
      match ts with
      | [] => None
      | (k, x) :: r =>
          match k with
          | R_ATOM =>
              if is_k R_SLASH r then
                do '(m, r2) <- expect R_NUMERAL (tl r);
                Some (T_arity x m, r2)
              else if is_k R_LPAR r then
                do '(args, r2) <- p_termlist n (tl r);
                do '(_, r3) <- expect R_RPAR r2;
                Some (T_functor (A_ATOM x) args, r3)
              else Some (T_atom (A_ATOM x), r)
          | R_NUMERAL =>
              if is_k R_LPAR r then
                do '(args, r2) <- p_termlist n (tl r);
                do '(_, r3) <- expect R_RPAR r2;
                Some (T_functor (A_NUMERAL x) args, r3)
              else Some (T_atom (A_NUMERAL x), r)
          | R_STRING =>
              if is_k R_LPAR r then
                do '(args, r2) <- p_termlist n (tl r);
                do '(_, r3) <- expect R_RPAR r2;
                Some (T_functor (A_STRING x) args, r3)
              else Some (T_atom (A_STRING x), r)
          | R_VARIABLE => Some (T_var x, r)
          | R_UNOP =>
              do '(t, r1) <- p_prim n r;
              Some (T_unop x t, r1)
          | R_BINOP =>
              do '(_, r1) <- expect R_LPAR r;
              do '(a, r2) <- p_term n r1;
              do '(_, r3) <- expect R_COMMA r2;
              do '(b, r4) <- p_term n r3;
              do '(_, r5) <- expect R_RPAR r4;
              Some (T_binop_prefix x a b, r5)
          | R_LPAR =>
              do '(t, r1) <- p_term n r;
              do '(_, r2) <- expect R_RPAR r1;
              Some (T_paren t, r2)
          | R_LBRACK =>
              if is_k R_RBRACK r then Some (T_list [], tl r)
              else
                do '(h, r1) <- p_term n r;
                if is_k R_RBRACK r1 then Some (T_list [h], tl r1)
                else if is_k R_BAR r1 then
                  do '(v, r2) <- expect R_VARIABLE (tl r1);
                  do '(_, r3) <- expect R_RBRACK r2;
                  Some (T_listpair1 h v, r3)
                else if is_k R_COMMA r1 then
                  do '(rest, r2) <- p_termlist n (tl r1);
                  if is_k R_RBRACK r2 then
                    match rest with
                    | [] => None                                   (* [a, ] *)
                    | _ :: _ => Some (T_list (h :: rest), tl r2)
                    end
                  else if is_k R_BAR r2 then
                    do '(v, r3) <- expect R_VARIABLE (tl r2);
                    do '(_, r4) <- expect R_RBRACK r3;
                    Some (T_listpair2 h rest v, r4)                (* rest may be empty: [a, | T] *)
                  else None
                else None
          | _ => None
          end
      end
  end
with p_binops (n : nat) (acc : cterm) (ts : list tok) {struct n} : option (cterm * list tok) :=
  match n with
  | 0 => None
  | S n =>
      if is_k R_BINOP ts then
        do '(op, r) <- expect R_BINOP ts;
        do '(t, r1) <- p_prim n r;
        p_binops n (T_binop acc op t) r1
      else Some (acc, ts)
  end
with p_termlist (n : nat) (ts : list tok) {struct n} : option (list cterm * list tok) :=
  match n with
  | 0 => None
  | S n =>
      if starts_term ts then
        do '(t, r) <- p_term n ts;
        do '(l, r1) <- p_tail n r;
        Some (t :: l, r1)
      else Some ([], ts)
  end
with p_tail (n : nat) (ts : list tok) {struct n} : option (list cterm * list tok) :=       (* (',' term)* *)
  match n with
  | 0 => None
  | S n =>
      if is_k R_COMMA ts then
        do '(t, r) <- p_term n (tl ts);
        do '(l, r1) <- p_tail n r;
        Some (t :: l, r1)
      else Some ([], ts)
  end.

Definition p_simple (n : nat) (ts : list tok) : option (simplepred * list tok) :=
  if is_k R_TRUE ts then Some (SP_true, tl ts)
  else if is_k R_FAIL ts then Some (SP_fail, tl ts)
  else if is_k R_CUT ts then Some (SP_cut, tl ts)
  else do '(t, r) <- p_term n ts; Some (SP_term t, r).

Fixpoint p_pe (n : nat) (p : nat) (ts : list tok) {struct n} : option (pexpr * list tok) :=
  match n with
  | 0 => None
  | S n =>
      do '(a, r) <- p_pe_prim n ts;
      p_pe_loop n p a r
  end
with p_pe_prim (n : nat) (ts : list tok) {struct n} : option (pexpr * list tok) :=
  match n with
  | 0 => None
  | S n =>
      if is_k R_NOT ts then
        do '(a, r) <- p_pe n 5 (tl ts);
        Some (PE_not a, r)
      else if is_k R_LPAR ts then
        match p_term n ts with
        | Some (t, r) => Some (PE_simple (SP_term t), r)
        | None =>
            do '(a, r) <- p_pe n 0 (tl ts);
            do '(_, r1) <- expect R_RPAR r;
            Some (PE_paren a, r1)
        end
      else
        do '(sp, r) <- p_simple n ts;
        Some (PE_simple sp, r)
  end
with p_pe_loop (n : nat) (p : nat) (acc : pexpr) (ts : list tok) {struct n} : option (pexpr * list tok) :=
  match n with
  | 0 => None
  | S n =>
      if is_k R_COMMA ts && (p <=? 4) then
        do '(b, r) <- p_pe n 4 (tl ts);
        p_pe_loop n p (PE_and acc b) r
      else if is_k R_ARROW ts && (p <=? 3) then
        do '(b, r) <- p_pe n 3 (tl ts);
        p_pe_loop n p (PE_if acc b) r
      else if is_k R_SEMI ts && (p <=? 2) then
        do '(b, r) <- p_pe n 2 (tl ts);
        p_pe_loop n p (PE_or acc b) r
      else Some (acc, ts)
  end.

Definition p_cord (n : nat) (ts : list tok) : option (cord * list tok) :=
  if is_k R_NECK ts then
    do '(sp, r) <- p_simple n (tl ts);
    do '(_, r1) <- expect R_DOT r;
    Some (CD_directive sp, r1)
  else
    do '(h, r) <- p_simple n ts;
    if is_k R_DOT r then Some (CD_clause (C_fact h), tl r)
    else
      do '(_, r1) <- expect R_NECK r;
      do '(b, r2) <- p_pe n 0 r1;
      do '(_, r3) <- expect R_DOT r2;
      Some (CD_clause (C_rule h b), r3).

(* program : clauseordirective*   followed by the end-of-input test of compiler.py *)
Fixpoint p_program (m n : nat) (ts : list tok) : option cprogram :=
  match ts with
  | [] => Some []
  | _ :: _ =>
      match m with
      | 0 => None
      | S m =>
          do '(c, r) <- p_cord n ts;
          do 'l <- p_program m n r;
          Some (c :: l)
      end
  end.

Definition parse (ts : list tok) : option cprogram :=
  p_program (length ts) (5 * length ts + 10) ts.
