(* NORMALISATION of derivation trees of prolog.g4: every tree has a canonical tree (Lang/ParserComplete.v) with
   the same yield.  Hence the parser accepts every sentence of the grammar (`parse_complete_fuel`). *)
From Coq Require Import List NArith Arith Bool Lia.
Import ListNotations.
From YP Require Import Base.Str Lang.Lexer Lang.Cst Lang.Parser Lang.ParserSound Lang.ParserMono Lang.ParserComplete.

(* ------------------------------------------------------------------ terms *)

(* l BINOP r with r a left-nested chain p1 o2 p2 ... : hang l under the leftmost primary of r *)
Fixpoint graft (l : cterm) (op : str) (r : cterm) : cterm :=
  match r with T_binop r1 o2 r2 => T_binop (graft l op r1) o2 r2 | _ => T_binop l op r end.
(* UNOP t with t a chain: the operator applies to the leftmost primary *)
Fixpoint push_unop (op : str) (t : cterm) : cterm :=
  match t with T_binop a o b => T_binop (push_unop op a) o b | _ => T_unop op t end.

Fixpoint canon_term (t : cterm) : cterm :=
  match t with
  | T_atom _ | T_arity _ _ | T_var _ => t
  | T_functor a args => T_functor a (map canon_term args)
  | T_unop op t => push_unop op (canon_term t)
  | T_binop l op r => graft (canon_term l) op (canon_term r)
  | T_binop_prefix op l r => T_binop_prefix op (canon_term l) (canon_term r)
  | T_paren t => T_paren (canon_term t)
  | T_list items => T_list (map canon_term items)
  | T_listpair1 h v => T_listpair1 (canon_term h) v
  | T_listpair2 h rest v => T_listpair2 (canon_term h) (map canon_term rest) v
  end.

Lemma ctb_binop_intro l op r : ctb l = true -> ctb r = true -> is_binop r = false -> ctb (T_binop l op r) = true.
Proof. intros H H0 H1. cbn [ctb]. rewrite H, H0, H1. reflexivity. Qed.
Lemma ctb_unop_intro op t : ctb t = true -> is_binop t = false -> ctb (T_unop op t) = true.
Proof. intros H H1. cbn [ctb]. rewrite H, H1. reflexivity. Qed.

Lemma graft_spec l op r : ctb l = true -> ctb r = true ->
  ctb (graft l op r) = true /\ y_term (graft l op r) = y_term l ++ (R_BINOP, op) :: y_term r.
Proof.
  intros Cl. induction r; intros Cr; cbn [graft]; try (split; [apply ctb_binop_intro; auto | reflexivity]).
  cbn [ctb] in Cr. apply andb_true_iff in Cr as [Cr Hb]. apply andb_true_iff in Cr as [C1 C2].
  destruct (IHr1 C1) as [Cg Yg]. split.
  - cbn [ctb]. rewrite Cg, C2, Hb. reflexivity.
  - cbn [y_term]. rewrite Yg. rewrite <- app_assoc. reflexivity.
Qed.

Lemma push_unop_spec op t : ctb t = true ->
  ctb (push_unop op t) = true /\ y_term (push_unop op t) = (R_UNOP, op) :: y_term t.
Proof.
  induction t; intros C; cbn [push_unop]; try (split; [apply ctb_unop_intro; auto | reflexivity]).
  cbn [ctb] in C. apply andb_true_iff in C as [C Hb]. apply andb_true_iff in C as [C1 C2].
  destruct (IHt1 C1) as [Cg Yg]. split.
  - cbn [ctb]. rewrite Cg, C2, Hb. reflexivity.
  - cbn [y_term]. rewrite Yg. reflexivity.
Qed.

Lemma canon_list_spec l : Forall (fun t => ctb (canon_term t) = true /\ y_term (canon_term t) = y_term t) l ->
  forallb ctb (map canon_term l) = true /\ map y_term (map canon_term l) = map y_term l.
Proof.
  induction 1 as [|t l [Ct Yt] _ [IH1 IH2]]; [auto|]. cbn [map forallb]. rewrite Ct, IH1, Yt, IH2. auto.
Qed.

Theorem canon_term_spec : forall t, ctb (canon_term t) = true /\ y_term (canon_term t) = y_term t.
Proof.
  induction t as [a|a args IH|a m|v|op t IH|l op r IHl IHr|op l r IHl IHr|t IH|items IH|h v IH|h rest0 v IHh IHr]
    using cterm_ind'; cbn [canon_term]; auto.
  - destruct (canon_list_spec _ IH) as [C Y]. cbn [ctb y_term]. rewrite C, Y. auto.
  - destruct IH as [C Y]. destruct (push_unop_spec op _ C) as [C' Y']. rewrite Y', Y. auto.
  - destruct IHl as [Cl Yl]. destruct IHr as [Cr Yr]. destruct (graft_spec _ op _ Cl Cr) as [C' Y'].
    rewrite Y', Yl, Yr. auto.
  - destruct IHl as [Cl Yl]. destruct IHr as [Cr Yr]. cbn [ctb y_term]. rewrite Cl, Cr, Yl, Yr. auto.
  - destruct IH as [C Y]. cbn [ctb y_term]. rewrite C, Y. auto.
  - destruct (canon_list_spec _ IH) as [C Y]. cbn [ctb y_term]. rewrite C, Y. auto.
  - destruct IH as [C Y]. cbn [ctb y_term]. rewrite C, Y. auto.
  - destruct IHh as [Ch Yh]. destruct (canon_list_spec _ IHr) as [C Y]. cbn [ctb y_term]. rewrite Ch, C, Yh, Y. auto.
Qed.

(* ------------------------------------------------------------------ predicate expressions *)

Definition mk (q : nat) (l r : pexpr) : pexpr :=
  match q with 4 => PE_and l r | 3 => PE_if l r | _ => PE_or l r end.
Definition optok (q : nat) : tok :=
  match q with 4 => fx R_COMMA | 3 => fx R_ARROW | _ => fx R_SEMI end.

(* l OP_q r for canonical l and r: the root is the leftmost operator of lowest precedence *)
Fixpoint join (q : nat) (l : pexpr) {struct l} : pexpr -> pexpr :=
  fix join_r (r : pexpr) {struct r} : pexpr :=
    if (lvl l <=? q) && (lvl l <=? lvl r) then
      match l with
      | PE_and l1 l2 => PE_and l1 (join q l2 r)
      | PE_if l1 l2 => PE_if l1 (join q l2 r)
      | PE_or l1 l2 => PE_or l1 (join q l2 r)
      | _ => mk q l r
      end
    else if q <=? lvl r then mk q l r
    else
      match r with
      | PE_and r1 r2 => PE_and (join_r r1) r2
      | PE_if r1 r2 => PE_if (join_r r1) r2
      | PE_or r1 r2 => PE_or (join_r r1) r2
      | _ => mk q l r
      end.

Lemma join_eq q l r : join q l r =
    if (lvl l <=? q) && (lvl l <=? lvl r) then
      match l with
      | PE_and l1 l2 => PE_and l1 (join q l2 r)
      | PE_if l1 l2 => PE_if l1 (join q l2 r)
      | PE_or l1 l2 => PE_or l1 (join q l2 r)
      | _ => mk q l r
      end
    else if q <=? lvl r then mk q l r
    else
      match r with
      | PE_and r1 r2 => PE_and (join q l r1) r2
      | PE_if r1 r2 => PE_if (join q l r1) r2
      | PE_or r1 r2 => PE_or (join q l r1) r2
      | _ => mk q l r
      end.
Proof. destruct l; destruct r; reflexivity. Qed.

Definition Jspec (q : nat) (l r : pexpr) : Prop :=
  cpb l = true -> cpb r = true ->
  cpb (join q l r) = true /\ lvl (join q l r) = Nat.min (lvl l) (Nat.min q (lvl r)) /\
  y_pe (join q l r) = y_pe l ++ optok q :: y_pe r.

Ltac prep H :=
  cbn [cpb] in H;
  repeat match type of H with
  | _ && _ = true => let H' := fresh "C" in apply andb_true_iff in H as [H H']
  end.
Ltac conv :=
  repeat match goal with
  | H : (_ <? _) = true |- _ => apply Nat.ltb_lt in H
  | H : (_ <=? _) = true |- _ => apply Nat.leb_le in H
  | H : (_ =? _) = true |- _ => apply Nat.eqb_eq in H
  end.
Ltac leaf Lj :=
  first [ assumption
        | apply Nat.ltb_lt; rewrite ?Lj; cbn [lvl] in *; lia
        | apply Nat.leb_le; rewrite ?Lj; cbn [lvl] in *; lia
        | apply Nat.eqb_eq; rewrite ?Lj; cbn [lvl] in *; lia ].
Ltac cpb_goal Lj := cbn [cpb]; repeat (apply andb_true_iff; split); leaf Lj.

Lemma join_spec q : q = 2 \/ q = 3 \/ q = 4 -> forall l r, Jspec q l r.
Proof.
  intros Hq. induction l as [sp|a _|l1 _ l2 IH2|l1 _ l2 IH2|l1 _ l2 IH2|a _];
    induction r as [sp'|a' _|r1 IH1 r2 _|r1 IH1 r2 _|r1 IH1 r2 _|a' _]; intros Cl Cr;
    pose proof Cl as Cl0; pose proof Cr as Cr0; pose proof (eq_refl 0) as L0; prep Cl; prep Cr; conv;
    destruct Hq as [ -> | [ -> | -> ] ]; rewrite join_eq; cbn [lvl Nat.leb andb mk optok];
    first
    [ split; [cpb_goal L0 | split; reflexivity]
    | match goal with |- context [join ?q ?l r1] =>
        destruct (IH1 Cl0 ltac:(assumption)) as [Cj [Lj Yj]] end;
      split; [cpb_goal Lj | split; [reflexivity | cbn [y_pe]; rewrite Yj; cbn [optok y_pe]; rewrite <- ?app_assoc; reflexivity]]
    | match goal with |- context [join ?q l2 ?r] =>
        destruct (IH2 r ltac:(assumption) Cr0) as [Cj [Lj Yj]] end;
      split; [cpb_goal Lj | split; [reflexivity | cbn [y_pe]; rewrite Yj; cbn [optok y_pe]; rewrite <- ?app_assoc; reflexivity]]
    ].
Qed.

(* \+ e with e a tree of infix operators: the negation applies to the leftmost primary *)
Fixpoint push_not (e : pexpr) : pexpr :=
  match e with
  | PE_and l r => PE_and (push_not l) r
  | PE_if l r => PE_if (push_not l) r
  | PE_or l r => PE_or (push_not l) r
  | _ => PE_not e
  end.

Lemma cpb_not_intro e : cpb e = true -> lvl e = 6 -> cpb (PE_not e) = true.
Proof. intros C L. cbn [cpb]. rewrite C, L. reflexivity. Qed.

Lemma push_not_spec e : cpb e = true ->
  cpb (push_not e) = true /\ lvl (push_not e) = lvl e /\ y_pe (push_not e) = fx R_NOT :: y_pe e.
Proof.
  induction e as [sp|a _|l IHl r _|l IHl r _|l IHl r _|a _]; intros C; pose proof C as C0; pose proof (eq_refl 0) as L0;
    cbn [push_not];
    try (split; [apply cpb_not_intro; [exact C0 | reflexivity] | split; reflexivity]);
    prep C; conv; destruct (IHl C) as [Cj [Lj Yj]];
    (split; [cpb_goal Lj | split; [reflexivity | cbn [y_pe]; rewrite Yj; reflexivity]]).
Qed.

Definition canon_simple (sp : simplepred) : simplepred :=
  match sp with SP_term t => SP_term (canon_term t) | _ => sp end.

Lemma canon_simple_spec sp : csimple (canon_simple sp) = true /\ y_simple (canon_simple sp) = y_simple sp.
Proof. destruct sp; cbn; auto. apply canon_term_spec. Qed.

Fixpoint canon_pe (e : pexpr) : pexpr :=
  match e with
  | PE_simple sp => PE_simple (canon_simple sp)
  | PE_not a => push_not (canon_pe a)
  | PE_and l r => join 4 (canon_pe l) (canon_pe r)
  | PE_if l r => join 3 (canon_pe l) (canon_pe r)
  | PE_or l r => join 2 (canon_pe l) (canon_pe r)
  | PE_paren a =>
      match canon_pe a with
      | PE_simple (SP_term t) => PE_simple (SP_term (T_paren t))     (* the bracketed text is a term *)
      | a' => PE_paren a'
      end
  end.

Theorem canon_pe_spec : forall e, cpb (canon_pe e) = true /\ y_pe (canon_pe e) = y_pe e.
Proof.
  induction e as [sp|a [Ca Ya]|l [Cl Yl] r [Cr Yr]|l [Cl Yl] r [Cr Yr]|l [Cl Yl] r [Cr Yr]|a [Ca Ya]]; cbn [canon_pe].
  - destruct (canon_simple_spec sp) as [C Y]. cbn [cpb y_pe]. rewrite Y. auto.
  - destruct (push_not_spec _ Ca) as [C [_ Y]]. rewrite Y, Ya. auto.
  - destruct (join_spec 4 ltac:(auto) _ _ Cl Cr) as [C [_ Y]]. rewrite Y, Yl, Yr. auto.
  - destruct (join_spec 3 ltac:(auto) _ _ Cl Cr) as [C [_ Y]]. rewrite Y, Yl, Yr. auto.
  - destruct (join_spec 2 ltac:(auto) _ _ Cl Cr) as [C [_ Y]]. rewrite Y, Yl, Yr. auto.
  - cbn [y_pe]. rewrite <- Ya. destruct (canon_pe a) as [[| | |t]| | | | |] eqn:E;
      (split; [cbn [cpb csimple ctb is_termlike negb]; cbn [cpb csimple ctb] in Ca; rewrite ?Ca; reflexivity | reflexivity]).
Qed.

(* ------------------------------------------------------------------ clauses, programs *)

Definition canon_clause (c : cclause) : cclause :=
  match c with C_fact h => C_fact (canon_simple h) | C_rule h b => C_rule (canon_simple h) (canon_pe b) end.
Definition canon_cord (c : cord) : cord :=
  match c with CD_clause c => CD_clause (canon_clause c) | CD_directive sp => CD_directive (canon_simple sp) end.
Definition canon_program (p : cprogram) : cprogram := map canon_cord p.

Lemma canon_cord_spec c : ccordb (canon_cord c) = true /\ y_cord (canon_cord c) = y_cord c.
Proof.
  destruct c as [[h|h b]|sp]; cbn [canon_cord canon_clause ccordb cclauseb y_cord y_clause];
    destruct (canon_simple_spec h) as [Ch Yh] || destruct (canon_simple_spec sp) as [Ch Yh]; rewrite ?Ch, ?Yh; auto.
  destruct (canon_pe_spec b) as [Cb Yb]. rewrite Cb, Yb. auto.
Qed.

Theorem canon_program_spec p : canonical (canon_program p) = true /\ yield (canon_program p) = yield p.
Proof.
  unfold canonical, canon_program, yield. induction p as [|c p [IH1 IH2]]; [auto|].
  destruct (canon_cord_spec c) as [C Y]. cbn [map forallb flat_map]. rewrite C, IH1, Y, IH2. auto.
Qed.

Lemma clauses_le_tokens (p : cprogram) : length p <= length (yield p).
Proof.
  unfold yield. induction p as [|c p IH]; [simpl; lia|]. cbn [flat_map length]. rewrite app_length.
  destruct (y_cord_cons c) as [t0 [r0 ->]]. simpl. lia.
Qed.

(* PARSE_COMPLETE (fuel form): every sentence of the grammar -- the yield of ANY derivation tree -- is accepted,
   for every depth fuel from some point on, and the tree returned is the canonical tree of the sentence. *)
Theorem parse_complete_fuel p :
  ev (fun n => p_program (length (yield p)) n (yield p)) (canon_program p).
Proof.
  destruct (canon_program_spec p) as [C Y].
  assert (Hm : length (canon_program p) <= length (yield p)).
  { unfold canon_program. rewrite map_length. apply clauses_le_tokens. }
  pose proof (program_complete (canon_program p) C (length (yield p)) Hm) as H. rewrite Y in H. exact H.
Qed.

(* idempotent on what the parser builds *)
Corollary canon_of_canonical p : canonical p = true -> canon_program p = p.
Proof.
  intros C. destruct (canon_program_spec p) as [C' Y]. apply canonical_unique; assumption.
Qed.
