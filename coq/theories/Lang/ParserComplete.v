(* PARSE_COMPLETE: the parser (Lang/Parser.v) accepts every sentence of prolog.g4.

   The grammar is ambiguous (term BINOP term and the three infix operators of predicateexpression are
   left-recursive/ambiguous rules that ANTLR disambiguates by precedence; `(`..`)` can be a term or a
   predicate expression).  The development has three parts.
   1. CANONICAL derivation trees (`ctb`, `cpb`, `ccord`): the trees in the shape the parser builds --
      BINOP chains nested to the left with primaries as right operands, a prefix operator applied to a primary,
      `,` `->` `;` nested by precedence and to the right, a bracketed predicate expression only where the
      bracketed text is not a term.
   2. COMPLETENESS ON CANONICAL TREES: for every canonical tree c and all sufficiently large fuels,
      parsing `yield c` returns exactly c  (`program_complete`).  Together with PARSE_YIELD this makes the parser
      a bijection between accepted token sequences and canonical trees (`parse_unambiguous`).
   3. NORMALISATION: every derivation tree has a canonical tree with the same yield (`canon_*`), hence every
      sentence of the grammar is accepted (`parse_complete_fuel`). *)
From Coq Require Import List NArith Arith Bool Lia.
Import ListNotations.
From YP Require Import Base.Str Lang.Lexer Lang.Cst Lang.Parser Lang.ParserSound Lang.ParserMono.

(* ------------------------------------------------------------------ tokens *)

Definition hdk (ts : list tok) : option rname := match ts with (k, _) :: _ => Some k | [] => None end.

Lemma is_k_hdk k ts : is_k k ts = match hdk ts with Some k' => rname_eqb k k' | None => false end.
Proof. destruct ts as [|[k' x] r]; reflexivity. Qed.

Lemma is_k_same k x r : is_k k ((k, x) :: r) = true.
Proof. simpl. apply rname_eqb_eq. reflexivity. Qed.
Lemma is_k_diff k k' x r : k <> k' -> is_k k ((k', x) :: r) = false.
Proof. simpl. intros H. destruct (rname_eqb k k') eqn:E; [apply rname_eqb_eq in E; contradiction|reflexivity]. Qed.
Lemma is_k_nil k : is_k k [] = false.
Proof. reflexivity. Qed.
Lemma expect_same k x r : expect k ((k, x) :: r) = Some (x, r).
Proof. simpl. replace (rname_eqb k k) with true by (symmetry; apply rname_eqb_eq; reflexivity). reflexivity. Qed.

(* what may follow a primary term / a term *)
Definition nf_prim (ts : list tok) : bool :=
  match hdk ts with Some R_LPAR | Some R_SLASH => false | _ => true end.
Definition nf_term (ts : list tok) : bool :=
  match hdk ts with Some R_LPAR | Some R_SLASH | Some R_BINOP => false | _ => true end.
Definition is_closer (ts : list tok) : bool :=
  match hdk ts with Some R_RPAR | Some R_RBRACK | Some R_BAR => true | _ => false end.

Lemma nf_term_prim ts : nf_term ts = true -> nf_prim ts = true.
Proof. unfold nf_term, nf_prim. destruct (hdk ts) as [[]|]; auto. Qed.
Lemma nf_prim_k ts : nf_prim ts = true -> is_k R_SLASH ts = false /\ is_k R_LPAR ts = false.
Proof. unfold nf_prim. rewrite !is_k_hdk. destruct (hdk ts) as [[]|]; try discriminate; auto. Qed.
Lemma nf_term_binop ts : nf_term ts = true -> is_k R_BINOP ts = false.
Proof. unfold nf_term. rewrite !is_k_hdk. destruct (hdk ts) as [[]|]; try discriminate; auto. Qed.
Lemma closer_spec ts : is_closer ts = true ->
  nf_term ts = true /\ is_k R_COMMA ts = false /\ starts_term ts = false.
Proof.
  unfold is_closer, nf_term. rewrite is_k_hdk. destruct ts as [|[k x] r]; [discriminate|]. simpl.
  destruct k; try discriminate; auto.
Qed.

(* kinds that can start a term *)
Definition tstart (k : rname) : bool :=
  match k with
  | R_ATOM | R_NUMERAL | R_STRING | R_VARIABLE | R_UNOP | R_BINOP | R_LPAR | R_LBRACK => true
  | _ => false
  end.

Lemma y_term_hd t : exists k x more, y_term t = (k, x) :: more /\ tstart k = true.
Proof.
  induction t as [a|a args IH|a n|v|op t IH|l op r IHl IHr|op l r IHl IHr|t IH|items IH|h v IH|h rest v IHh IHr]
    using cterm_ind'; cbn [y_term]; try (destruct a; simpl; eauto 6; fail); unfold fx; eauto 6.
  destruct IHl as [k [x [more [-> Hk]]]]. simpl. eauto 6.
Qed.

Lemma y_term_is_k k t X : tstart k = false -> is_k k (y_term t ++ X) = false.
Proof.
  intros Hk. destruct (y_term_hd t) as [k' [x [more [-> Hk']]]]. simpl.
  destruct (rname_eqb k k') eqn:E; [|reflexivity]. apply rname_eqb_eq in E. congruence.
Qed.
Lemma y_term_starts t X : starts_term (y_term t ++ X) = true.
Proof. destruct (y_term_hd t) as [k' [x [more [-> Hk']]]]. simpl. destruct k'; try discriminate; reflexivity. Qed.
Lemma y_term_nf t X : nf_term (y_term t ++ X) = false \/ True.
Proof. auto. Qed.

(* ------------------------------------------------------------------ canonical terms *)

Definition is_binop (t : cterm) : bool := match t with T_binop _ _ _ => true | _ => false end.

Fixpoint ctb (t : cterm) : bool :=
  match t with
  | T_atom _ | T_arity _ _ | T_var _ => true
  | T_functor _ args => forallb ctb args
  | T_unop _ t => ctb t && negb (is_binop t)
  | T_binop l _ r => ctb l && ctb r && negb (is_binop r)
  | T_binop_prefix _ l r => ctb l && ctb r
  | T_paren t => ctb t
  | T_list items => forallb ctb items
  | T_listpair1 h _ => ctb h
  | T_listpair2 h rest _ => ctb h && forallb ctb rest
  end.

(* ------------------------------------------------------------------ completeness: terms *)

Lemma ev_term_of_prim ts t r res :
  ev (fun n => p_prim n ts) (t, r) -> ev (fun n => p_binops n t r) res -> ev (fun n => p_term n ts) res.
Proof.
  intros [n1 H1] [n2 H2]. exists (S (n1 + n2)). intros n Hn. destruct n as [|n]; [lia|].
  cbn [p_term]. rewrite H1 by lia. apply H2. lia.
Qed.

Lemma ev_binops_stop t rest : is_k R_BINOP rest = false -> ev (fun n => p_binops n t rest) (t, rest).
Proof. intros H. exists 1. intros n Hn. destruct n as [|n]; [lia|]. cbn [p_binops]. rewrite H. reflexivity. Qed.

Lemma ev_binops_step acc op r rest res :
  ev (fun n => p_prim n (y_term r ++ rest)) (r, rest) ->
  ev (fun n => p_binops n (T_binop acc op r) rest) res ->
  ev (fun n => p_binops n acc ((R_BINOP, op) :: y_term r ++ rest)) res.
Proof.
  intros [n1 H1] [n2 H2]. exists (S (n1 + n2)). intros n Hn. destruct n as [|n]; [lia|].
  cbn [p_binops]. rewrite is_k_same, expect_same, H1 by lia. apply H2. lia.
Qed.

(* what the induction proves for a canonical term t *)
Definition Gterm (t : cterm) : Prop :=
  ctb t = true ->
  (forall rest res, nf_prim rest = true ->
     ev (fun n => p_binops n t rest) res -> ev (fun n => p_term n (y_term t ++ rest)) res) /\
  (is_binop t = false -> forall rest, nf_prim rest = true ->
     ev (fun n => p_prim n (y_term t ++ rest)) (t, rest)).

Lemma Gterm_full t : Gterm t -> ctb t = true -> forall rest, nf_term rest = true ->
  ev (fun n => p_term n (y_term t ++ rest)) (t, rest).
Proof.
  intros G C rest Hf. apply (proj1 (G C)); [apply nf_term_prim; exact Hf|].
  apply ev_binops_stop. apply nf_term_binop; exact Hf.
Qed.

(* (',' term)* and termlist *)
Lemma tail_complete l : Forall Gterm l -> forallb ctb l = true -> forall rest, is_closer rest = true ->
  ev (fun n => p_tail n (y_tail l ++ rest)) (l, rest).
Proof.
  induction 1 as [|t l Gt _ IH]; intros C rest Hc.
  - destruct (closer_spec _ Hc) as [_ [Hcm _]]. exists 1. intros n Hn. destruct n as [|n]; [lia|].
    cbn [p_tail y_tail flat_map app]. rewrite Hcm. reflexivity.
  - cbn [forallb] in C. apply andb_true_iff in C as [Ct Cl].
    destruct (IH Cl rest Hc) as [n2 H2].
    assert (Hnf : nf_term (y_tail l ++ rest) = true).
    { destruct l as [|u l]; [apply (closer_spec _ Hc)|reflexivity]. }
    destruct (Gterm_full t Gt Ct _ Hnf) as [n1 H1].
    exists (S (n1 + n2)). intros n Hn. destruct n as [|n]; [lia|].
    unfold y_tail. cbn [flat_map]. fold (y_tail l). rewrite <- app_assoc. cbn [app p_tail].
    unfold fx at 1. rewrite is_k_same. cbn [tl]. rewrite H1 by lia. rewrite H2 by lia. reflexivity.
Qed.

Lemma y_tail_cons t l : y_tail (t :: l) = fx R_COMMA :: sep_commas (map y_term (t :: l)).
Proof. rewrite sep_commas_cons. reflexivity. Qed.

Lemma termlist_complete l : Forall Gterm l -> forallb ctb l = true -> forall rest, is_closer rest = true ->
  ev (fun n => p_termlist n (sep_commas (map y_term l) ++ rest)) (l, rest).
Proof.
  intros G C rest Hc. destruct l as [|t l].
  - destruct (closer_spec _ Hc) as [_ [_ Hs]]. exists 1. intros n Hn. destruct n as [|n]; [lia|].
    cbn [p_termlist map sep_commas app]. rewrite Hs. reflexivity.
  - inversion G as [|? ? Gt Gl]; subst. cbn [forallb] in C. apply andb_true_iff in C as [Ct Cl].
    destruct (tail_complete l Gl Cl rest Hc) as [n2 H2].
    assert (Hnf : nf_term (y_tail l ++ rest) = true).
    { destruct l as [|u l]; [apply (closer_spec _ Hc)|reflexivity]. }
    destruct (Gterm_full t Gt Ct _ Hnf) as [n1 H1].
    exists (S (n1 + n2)). intros n Hn. destruct n as [|n]; [lia|].
    rewrite sep_commas_cons, <- app_assoc. cbn [p_termlist]. rewrite y_term_starts.
    rewrite H1 by lia. rewrite H2 by lia. reflexivity.
Qed.

Ltac nrm := cbn [app]; repeat (rewrite <- app_assoc; cbn [app]).

(* a primary term is parsed by p_term through the (empty) BINOP loop *)
Lemma prim_gives_term t :
  (forall rest, nf_prim rest = true -> ev (fun n => p_prim n (y_term t ++ rest)) (t, rest)) ->
  forall rest res, nf_prim rest = true ->
    ev (fun n => p_binops n t rest) res -> ev (fun n => p_term n (y_term t ++ rest)) res.
Proof. intros Hp rest res Hf Hb. eapply ev_term_of_prim; eauto. Qed.

Lemma functor_complete k x a args :
  y_atom a = (k, x) -> (k = R_ATOM \/ k = R_NUMERAL \/ k = R_STRING) ->
  Forall Gterm args -> forallb ctb args = true -> forall rest,
  ev (fun n => p_prim n (y_term (T_functor a args) ++ rest)) (T_functor a args, rest).
Proof.
  intros Ha Hk G C rest.
  destruct (termlist_complete args G C (fx R_RPAR :: rest) eq_refl) as [n1 H1].
  exists (S n1). intros n Hn. destruct n as [|n]; [lia|].
  cbn [y_term]. rewrite Ha. nrm. unfold fx at 1.
  destruct Hk as [ -> | [ -> | -> ] ]; destruct a; cbn [y_atom] in Ha; try discriminate; injection Ha as ->;
    cbn [p_prim]; rewrite ?is_k_diff by discriminate; rewrite is_k_same; cbn [tl];
    rewrite H1 by lia; unfold fx; rewrite expect_same; reflexivity.
Qed.

Theorem term_complete : forall t, Gterm t.
Proof.
  induction t as [a|a args IH|a m|v|op t IH|l op r IHl IHr|op l r IHl IHr|t IH|items IH|h v IH|h rest0 v IHh IHr]
    using cterm_ind'; intros C.
  - (* atom *)
    assert (P : forall rest, nf_prim rest = true -> ev (fun n => p_prim n (y_term (T_atom a) ++ rest)) (T_atom a, rest)).
    { intros rest Hf. destruct (nf_prim_k _ Hf) as [Hs Hl]. exists 1. intros n Hn. destruct n as [|n]; [lia|].
      destruct a; cbn [y_term y_atom app p_prim]; rewrite ?Hs, Hl; reflexivity. }
    split; [apply prim_gives_term; exact P | intros _; exact P].
  - (* functor *)
    cbn [ctb] in C.
    assert (P : forall rest, ev (fun n => p_prim n (y_term (T_functor a args) ++ rest)) (T_functor a args, rest)).
    { intros rest. destruct a as [x|x|x].
      - eapply (functor_complete R_ATOM x); eauto.
      - eapply (functor_complete R_NUMERAL x); eauto.
      - eapply (functor_complete R_STRING x); eauto. }
    split; [apply prim_gives_term; intros; apply P | intros _ rest _; apply P].
  - (* name/arity *)
    assert (P : forall rest, ev (fun n => p_prim n (y_term (T_arity a m) ++ rest)) (T_arity a m, rest)).
    { intros rest. exists 1. intros n Hn. destruct n as [|n]; [lia|].
      cbn [y_term app p_prim]. unfold fx. rewrite is_k_same. cbn [tl]. rewrite expect_same. reflexivity. }
    split; [apply prim_gives_term; intros; apply P | intros _ rest _; apply P].
  - (* variable *)
    assert (P : forall rest, ev (fun n => p_prim n (y_term (T_var v) ++ rest)) (T_var v, rest)).
    { intros rest. exists 1. intros n Hn. destruct n as [|n]; [lia|]. reflexivity. }
    split; [apply prim_gives_term; intros; apply P | intros _ rest _; apply P].
  - (* prefix operator *)
    cbn [ctb] in C. apply andb_true_iff in C as [Ct Hb]. apply negb_true_iff in Hb.
    assert (P : forall rest, nf_prim rest = true -> ev (fun n => p_prim n (y_term (T_unop op t) ++ rest)) (T_unop op t, rest)).
    { intros rest Hf. destruct (proj2 (IH Ct) Hb rest Hf) as [n1 H1].
      exists (S n1). intros n Hn. destruct n as [|n]; [lia|].
      cbn [y_term app p_prim]. rewrite H1 by lia. reflexivity. }
    split; [apply prim_gives_term; exact P | intros _; exact P].
  - (* infix operator: the chain is nested to the left, its right operand is a primary *)
    cbn [ctb] in C. apply andb_true_iff in C as [C Hb]. apply andb_true_iff in C as [Cl Cr]. apply negb_true_iff in Hb.
    split; [|discriminate].
    intros rest res Hf Hres. cbn [y_term]. nrm.
    apply (proj1 (IHl Cl)); [reflexivity|].
    apply ev_binops_step; [|exact Hres]. apply (proj2 (IHr Cr) Hb rest Hf).
  - (* BINOP '(' term ',' term ')' *)
    cbn [ctb] in C. apply andb_true_iff in C as [Cl Cr].
    assert (P : forall rest, ev (fun n => p_prim n (y_term (T_binop_prefix op l r) ++ rest)) (T_binop_prefix op l r, rest)).
    { intros rest.
      destruct (Gterm_full l IHl Cl (fx R_COMMA :: y_term r ++ fx R_RPAR :: rest) eq_refl) as [n1 H1].
      destruct (Gterm_full r IHr Cr (fx R_RPAR :: rest) eq_refl) as [n2 H2].
      exists (S (n1 + n2)). intros n Hn. destruct n as [|n]; [lia|].
      cbn [y_term]. nrm. cbn [p_prim]. unfold fx at 1. rewrite expect_same.
      rewrite H1 by lia. unfold fx at 1. rewrite expect_same. rewrite H2 by lia. unfold fx. rewrite expect_same. reflexivity. }
    split; [apply prim_gives_term; intros; apply P | intros _ rest _; apply P].
  - (* '(' term ')' *)
    cbn [ctb] in C.
    assert (P : forall rest, ev (fun n => p_prim n (y_term (T_paren t) ++ rest)) (T_paren t, rest)).
    { intros rest. destruct (Gterm_full t IH C (fx R_RPAR :: rest) eq_refl) as [n1 H1].
      exists (S n1). intros n Hn. destruct n as [|n]; [lia|].
      cbn [y_term]. nrm. unfold fx at 1. cbn [p_prim]. rewrite H1 by lia. unfold fx. rewrite expect_same. reflexivity. }
    split; [apply prim_gives_term; intros; apply P | intros _ rest _; apply P].
  - (* [ termlist ] *)
    cbn [ctb] in C.
    assert (P : forall rest, ev (fun n => p_prim n (y_term (T_list items) ++ rest)) (T_list items, rest)).
    { intros rest. destruct items as [|h tl0].
      - exists 1. intros n Hn. destruct n as [|n]; [lia|]. cbn [y_term map sep_commas app]. unfold fx. cbn [p_prim].
        rewrite is_k_same. reflexivity.
      - inversion IH as [|? ? Gh Gtl]; subst. cbn [forallb] in C. apply andb_true_iff in C as [Ch Ctl].
        assert (Hnf : nf_term (y_tail tl0 ++ fx R_RBRACK :: rest) = true) by (destruct tl0; reflexivity).
        destruct (Gterm_full h Gh Ch _ Hnf) as [n1 H1].
        destruct tl0 as [|t1 tl1].
        + exists (S n1). intros n Hn. destruct n as [|n]; [lia|].
          cbn [y_term]. rewrite sep_commas_cons. nrm. unfold fx at 1. cbn [p_prim].
          rewrite y_term_is_k by reflexivity. cbn [y_tail flat_map app] in H1. rewrite H1 by lia.
          unfold fx. rewrite is_k_same. reflexivity.
        + destruct (termlist_complete (t1 :: tl1) Gtl Ctl (fx R_RBRACK :: rest) eq_refl) as [n2 H2].
          exists (S (n1 + n2)). intros n Hn. destruct n as [|n]; [lia|].
          cbn [y_term]. rewrite sep_commas_cons. nrm. unfold fx at 1. cbn [p_prim].
          rewrite y_term_is_k by reflexivity. rewrite H1 by lia.
          rewrite y_tail_cons. nrm. unfold fx in *. rewrite !is_k_diff by discriminate. rewrite is_k_same. cbn [tl].
          rewrite H2 by lia. rewrite is_k_same. reflexivity. }
    split; [apply prim_gives_term; intros; apply P | intros _ rest _; apply P].
  - (* [ term | V ] *)
    cbn [ctb] in C.
    assert (P : forall rest, ev (fun n => p_prim n (y_term (T_listpair1 h v) ++ rest)) (T_listpair1 h v, rest)).
    { intros rest.
      destruct (Gterm_full h IH C (fx R_BAR :: (R_VARIABLE, v) :: fx R_RBRACK :: rest) eq_refl) as [n1 H1].
      exists (S n1). intros n Hn. destruct n as [|n]; [lia|].
      cbn [y_term]. nrm. unfold fx at 1. cbn [p_prim]. rewrite y_term_is_k by reflexivity. rewrite H1 by lia.
      unfold fx. rewrite is_k_diff by discriminate. rewrite is_k_same. cbn [tl]. rewrite !expect_same. reflexivity. }
    split; [apply prim_gives_term; intros; apply P | intros _ rest _; apply P].
  - (* [ term , termlist | V ] *)
    cbn [ctb] in C. apply andb_true_iff in C as [Ch Cr].
    assert (P : forall rest, ev (fun n => p_prim n (y_term (T_listpair2 h rest0 v) ++ rest)) (T_listpair2 h rest0 v, rest)).
    { intros rest.
      destruct (Gterm_full h IHh Ch (fx R_COMMA :: sep_commas (map y_term rest0) ++ fx R_BAR :: (R_VARIABLE, v) :: fx R_RBRACK :: rest) eq_refl) as [n1 H1].
      destruct (termlist_complete rest0 IHr Cr (fx R_BAR :: (R_VARIABLE, v) :: fx R_RBRACK :: rest) eq_refl) as [n2 H2].
      exists (S (n1 + n2)). intros n Hn. destruct n as [|n]; [lia|].
      cbn [y_term]. nrm. unfold fx at 1. cbn [p_prim]. rewrite y_term_is_k by reflexivity. rewrite H1 by lia.
      unfold fx in *. rewrite !is_k_diff by discriminate. rewrite is_k_same. cbn [tl].
      rewrite H2 by lia. rewrite is_k_diff by discriminate. rewrite is_k_same. cbn [tl].
      rewrite !expect_same. reflexivity. }
    split; [apply prim_gives_term; intros; apply P | intros _ rest _; apply P].
Qed.

Corollary term_complete_full t : ctb t = true -> forall rest, nf_term rest = true ->
  ev (fun n => p_term n (y_term t ++ rest)) (t, rest).
Proof. intros C. apply Gterm_full; [apply term_complete | exact C]. Qed.
