(* PARSE_COMPLETE: the parser (Lang/Parser.v) accepts every sentence of prolog.g4.

   The grammar is ambiguous (term BINOP term and the three infix operators of predicateexpression are
   left-recursive/ambiguous rules that ANTLR disambiguates by precedence; `(`..`)` can be a term or a
   predicate expression).  The development has three parts.
   1. CANONICAL derivation trees (`ctb`, `cpb`, `ccord`): the trees in the shape the parser builds --
      BINOP chains nested to the left with primaries as right operands, a prefix operator applied to a primary,
      `,` `->` `;` nested by precedence and to the right, a bracketed predicate expression only where the
      bracketed text is not a term.
   2. COMPLETENESS ON CANONICAL TREES: for every canonical tree c and all sufficiently large fuels,
      parsing `yield c` returns exactly c  (`program_complete`).  Together with PARSE_YIELD this makes the parser
      a bijection between accepted token sequences and canonical trees (`parse_unambiguous`).
   3. NORMALISATION: every derivation tree has a canonical tree with the same yield (`canon_*`), hence every
      sentence of the grammar is accepted (`parse_complete_fuel`). *)
From Coq Require Import List NArith Arith Bool Lia.
Import ListNotations.
From YP Require Import Base.Str Lang.Lexer Lang.Cst Lang.Parser Lang.ParserSound Lang.ParserMono.

(* ------------------------------------------------------------------ tokens *)

Definition hdk (ts : list tok) : option rname := match ts with (k, _) :: _ => Some k | [] => None end.

Lemma is_k_hdk k ts : is_k k ts = match hdk ts with Some k' => rname_eqb k k' | None => false end.
Proof. destruct ts as [|[k' x] r]; reflexivity. Qed.

Lemma is_k_same k x r : is_k k ((k, x) :: r) = true.
Proof. simpl. apply rname_eqb_eq. reflexivity. Qed.
Lemma is_k_diff k k' x r : k <> k' -> is_k k ((k', x) :: r) = false.
Proof. simpl. intros H. destruct (rname_eqb k k') eqn:E; [apply rname_eqb_eq in E; contradiction|reflexivity]. Qed.
Lemma is_k_nil k : is_k k [] = false.
Proof. reflexivity. Qed.
Lemma expect_same k x r : expect k ((k, x) :: r) = Some (x, r).
Proof. simpl. replace (rname_eqb k k) with true by (symmetry; apply rname_eqb_eq; reflexivity). reflexivity. Qed.

(* what may follow a primary term / a term *)
Definition nf_prim (ts : list tok) : bool :=
  match hdk ts with Some R_LPAR | Some R_SLASH => false | _ => true end.
Definition nf_term (ts : list tok) : bool :=
  match hdk ts with Some R_LPAR | Some R_SLASH | Some R_BINOP => false | _ => true end.
Definition is_closer (ts : list tok) : bool :=
  match hdk ts with Some R_RPAR | Some R_RBRACK | Some R_BAR => true | _ => false end.

Lemma nf_term_prim ts : nf_term ts = true -> nf_prim ts = true.
Proof. unfold nf_term, nf_prim. destruct (hdk ts) as [[]|]; auto. Qed.
Lemma nf_prim_k ts : nf_prim ts = true -> is_k R_SLASH ts = false /\ is_k R_LPAR ts = false.
Proof. unfold nf_prim. rewrite !is_k_hdk. destruct (hdk ts) as [[]|]; try discriminate; auto. Qed.
Lemma nf_term_binop ts : nf_term ts = true -> is_k R_BINOP ts = false.
Proof. unfold nf_term. rewrite !is_k_hdk. destruct (hdk ts) as [[]|]; try discriminate; auto. Qed.
Lemma closer_spec ts : is_closer ts = true ->
  nf_term ts = true /\ is_k R_COMMA ts = false /\ starts_term ts = false.
Proof.
  unfold is_closer, nf_term. rewrite is_k_hdk. destruct ts as [|[k x] r]; [discriminate|]. simpl.
  destruct k; try discriminate; auto.
Qed.

(* kinds that can start a term *)
Definition tstart (k : rname) : bool :=
  match k with
  | R_ATOM | R_NUMERAL | R_STRING | R_VARIABLE | R_UNOP | R_BINOP | R_LPAR | R_LBRACK => true
  | _ => false
  end.

Lemma y_term_hd t : exists k x more, y_term t = (k, x) :: more /\ tstart k = true.
Proof.
  induction t as [a|a args IH|a n|v|op t IH|l op r IHl IHr|op l r IHl IHr|t IH|items IH|h v IH|h rest v IHh IHr]
    using cterm_ind'; cbn [y_term]; try (destruct a; simpl; eauto 6; fail); unfold fx; eauto 6.
  destruct IHl as [k [x [more [-> Hk]]]]. simpl. eauto 6.
Qed.

Lemma y_term_is_k k t X : tstart k = false -> is_k k (y_term t ++ X) = false.
Proof.
  intros Hk. destruct (y_term_hd t) as [k' [x [more [-> Hk']]]]. simpl.
  destruct (rname_eqb k k') eqn:E; [|reflexivity]. apply rname_eqb_eq in E. congruence.
Qed.
Lemma y_term_starts t X : starts_term (y_term t ++ X) = true.
Proof. destruct (y_term_hd t) as [k' [x [more [-> Hk']]]]. simpl. destruct k'; try discriminate; reflexivity. Qed.
Lemma y_term_nf t X : nf_term (y_term t ++ X) = false \/ True.
Proof. auto. Qed.

(* ------------------------------------------------------------------ canonical terms *)

Definition is_binop (t : cterm) : bool := match t with T_binop _ _ _ => true | _ => false end.

Fixpoint ctb (t : cterm) : bool :=
  match t with
  | T_atom _ | T_arity _ _ | T_var _ => true
  | T_functor _ args => forallb ctb args
  | T_unop _ t => ctb t && negb (is_binop t)
  | T_binop l _ r => ctb l && ctb r && negb (is_binop r)
  | T_binop_prefix _ l r => ctb l && ctb r
  | T_paren t => ctb t
  | T_list items => forallb ctb items
  | T_listpair1 h _ => ctb h
  | T_listpair2 h rest _ => ctb h && forallb ctb rest
  end.

(* ------------------------------------------------------------------ completeness: terms *)

Lemma ev_term_of_prim ts t r res :
  ev (fun n => p_prim n ts) (t, r) -> ev (fun n => p_binops n t r) res -> ev (fun n => p_term n ts) res.
Proof.
  intros [n1 H1] [n2 H2]. exists (S (n1 + n2)). intros n Hn. destruct n as [|n]; [lia|].
  cbn [p_term]. rewrite H1 by lia. apply H2. lia.
Qed.

Lemma ev_binops_stop t rest : is_k R_BINOP rest = false -> ev (fun n => p_binops n t rest) (t, rest).
Proof. intros H. exists 1. intros n Hn. destruct n as [|n]; [lia|]. cbn [p_binops]. rewrite H. reflexivity. Qed.

Lemma ev_binops_step acc op r rest res :
  ev (fun n => p_prim n (y_term r ++ rest)) (r, rest) ->
  ev (fun n => p_binops n (T_binop acc op r) rest) res ->
  ev (fun n => p_binops n acc ((R_BINOP, op) :: y_term r ++ rest)) res.
Proof.
  intros [n1 H1] [n2 H2]. exists (S (n1 + n2)). intros n Hn. destruct n as [|n]; [lia|].
  cbn [p_binops]. rewrite is_k_same, expect_same, H1 by lia. apply H2. lia.
Qed.

(* what the induction proves for a canonical term t *)
Definition Gterm (t : cterm) : Prop :=
  ctb t = true ->
  (forall rest res, nf_prim rest = true ->
     ev (fun n => p_binops n t rest) res -> ev (fun n => p_term n (y_term t ++ rest)) res) /\
  (is_binop t = false -> forall rest, nf_prim rest = true ->
     ev (fun n => p_prim n (y_term t ++ rest)) (t, rest)).

Lemma Gterm_full t : Gterm t -> ctb t = true -> forall rest, nf_term rest = true ->
  ev (fun n => p_term n (y_term t ++ rest)) (t, rest).
Proof.
  intros G C rest Hf. apply (proj1 (G C)); [apply nf_term_prim; exact Hf|].
  apply ev_binops_stop. apply nf_term_binop; exact Hf.
Qed.

(* (',' term)* and termlist *)
Lemma tail_complete l : Forall Gterm l -> forallb ctb l = true -> forall rest, is_closer rest = true ->
  ev (fun n => p_tail n (y_tail l ++ rest)) (l, rest).
Proof.
  induction 1 as [|t l Gt _ IH]; intros C rest Hc.
  - destruct (closer_spec _ Hc) as [_ [Hcm _]]. exists 1. intros n Hn. destruct n as [|n]; [lia|].
    cbn [p_tail y_tail flat_map app]. rewrite Hcm. reflexivity.
  - cbn [forallb] in C. apply andb_true_iff in C as [Ct Cl].
    destruct (IH Cl rest Hc) as [n2 H2].
    assert (Hnf : nf_term (y_tail l ++ rest) = true).
    { destruct l as [|u l]; [apply (closer_spec _ Hc)|reflexivity]. }
    destruct (Gterm_full t Gt Ct _ Hnf) as [n1 H1].
    exists (S (n1 + n2)). intros n Hn. destruct n as [|n]; [lia|].
    unfold y_tail. cbn [flat_map]. fold (y_tail l). rewrite <- app_assoc. cbn [app p_tail].
    unfold fx at 1. rewrite is_k_same. cbn [tl]. rewrite H1 by lia. rewrite H2 by lia. reflexivity.
Qed.

Lemma y_tail_cons t l : y_tail (t :: l) = fx R_COMMA :: sep_commas (map y_term (t :: l)).
Proof. rewrite sep_commas_cons. reflexivity. Qed.

Lemma termlist_complete l : Forall Gterm l -> forallb ctb l = true -> forall rest, is_closer rest = true ->
  ev (fun n => p_termlist n (sep_commas (map y_term l) ++ rest)) (l, rest).
Proof.
  intros G C rest Hc. destruct l as [|t l].
  - destruct (closer_spec _ Hc) as [_ [_ Hs]]. exists 1. intros n Hn. destruct n as [|n]; [lia|].
    cbn [p_termlist map sep_commas app]. rewrite Hs. reflexivity.
  - inversion G as [|? ? Gt Gl]; subst. cbn [forallb] in C. apply andb_true_iff in C as [Ct Cl].
    destruct (tail_complete l Gl Cl rest Hc) as [n2 H2].
    assert (Hnf : nf_term (y_tail l ++ rest) = true).
    { destruct l as [|u l]; [apply (closer_spec _ Hc)|reflexivity]. }
    destruct (Gterm_full t Gt Ct _ Hnf) as [n1 H1].
    exists (S (n1 + n2)). intros n Hn. destruct n as [|n]; [lia|].
    rewrite sep_commas_cons, <- app_assoc. cbn [p_termlist]. rewrite y_term_starts.
    rewrite H1 by lia. rewrite H2 by lia. reflexivity.
Qed.

Ltac nrm := cbn [app]; repeat (rewrite <- app_assoc; cbn [app]).

(* a primary term is parsed by p_term through the (empty) BINOP loop *)
Lemma prim_gives_term t :
  (forall rest, nf_prim rest = true -> ev (fun n => p_prim n (y_term t ++ rest)) (t, rest)) ->
  forall rest res, nf_prim rest = true ->
    ev (fun n => p_binops n t rest) res -> ev (fun n => p_term n (y_term t ++ rest)) res.
Proof. intros Hp rest res Hf Hb. eapply ev_term_of_prim; eauto. Qed.

Lemma functor_complete k x a args :
  y_atom a = (k, x) -> (k = R_ATOM \/ k = R_NUMERAL \/ k = R_STRING) ->
  Forall Gterm args -> forallb ctb args = true -> forall rest,
  ev (fun n => p_prim n (y_term (T_functor a args) ++ rest)) (T_functor a args, rest).
Proof.
  intros Ha Hk G C rest.
  destruct (termlist_complete args G C (fx R_RPAR :: rest) eq_refl) as [n1 H1].
  exists (S n1). intros n Hn. destruct n as [|n]; [lia|].
  cbn [y_term]. rewrite Ha. nrm. unfold fx at 1.
  destruct Hk as [ -> | [ -> | -> ] ]; destruct a; cbn [y_atom] in Ha; try discriminate; injection Ha as ->;
    cbn [p_prim]; rewrite ?is_k_diff by discriminate; rewrite is_k_same; cbn [tl];
    rewrite H1 by lia; unfold fx; rewrite expect_same; reflexivity.
Qed.

Theorem term_complete : forall t, Gterm t.
Proof.
  induction t as [a|a args IH|a m|v|op t IH|l op r IHl IHr|op l r IHl IHr|t IH|items IH|h v IH|h rest0 v IHh IHr]
    using cterm_ind'; intros C.
  - (* atom *)
    assert (P : forall rest, nf_prim rest = true -> ev (fun n => p_prim n (y_term (T_atom a) ++ rest)) (T_atom a, rest)).
    { intros rest Hf. destruct (nf_prim_k _ Hf) as [Hs Hl]. exists 1. intros n Hn. destruct n as [|n]; [lia|].
      destruct a; cbn [y_term y_atom app p_prim]; rewrite ?Hs, Hl; reflexivity. }
    split; [apply prim_gives_term; exact P | intros _; exact P].
  - (* functor *)
    cbn [ctb] in C.
    assert (P : forall rest, ev (fun n => p_prim n (y_term (T_functor a args) ++ rest)) (T_functor a args, rest)).
    { intros rest. destruct a as [x|x|x].
      - eapply (functor_complete R_ATOM x); eauto.
      - eapply (functor_complete R_NUMERAL x); eauto.
      - eapply (functor_complete R_STRING x); eauto. }
    split; [apply prim_gives_term; intros; apply P | intros _ rest _; apply P].
  - (* name/arity *)
    assert (P : forall rest, ev (fun n => p_prim n (y_term (T_arity a m) ++ rest)) (T_arity a m, rest)).
    { intros rest. exists 1. intros n Hn. destruct n as [|n]; [lia|].
      cbn [y_term app p_prim]. unfold fx. rewrite is_k_same. cbn [tl]. rewrite expect_same. reflexivity. }
    split; [apply prim_gives_term; intros; apply P | intros _ rest _; apply P].
  - (* variable *)
    assert (P : forall rest, ev (fun n => p_prim n (y_term (T_var v) ++ rest)) (T_var v, rest)).
    { intros rest. exists 1. intros n Hn. destruct n as [|n]; [lia|]. reflexivity. }
    split; [apply prim_gives_term; intros; apply P | intros _ rest _; apply P].
  - (* prefix operator *)
    cbn [ctb] in C. apply andb_true_iff in C as [Ct Hb]. apply negb_true_iff in Hb.
    assert (P : forall rest, nf_prim rest = true -> ev (fun n => p_prim n (y_term (T_unop op t) ++ rest)) (T_unop op t, rest)).
    { intros rest Hf. destruct (proj2 (IH Ct) Hb rest Hf) as [n1 H1].
      exists (S n1). intros n Hn. destruct n as [|n]; [lia|].
      cbn [y_term app p_prim]. rewrite H1 by lia. reflexivity. }
    split; [apply prim_gives_term; exact P | intros _; exact P].
  - (* infix operator: the chain is nested to the left, its right operand is a primary *)
    cbn [ctb] in C. apply andb_true_iff in C as [C Hb]. apply andb_true_iff in C as [Cl Cr]. apply negb_true_iff in Hb.
    split; [|discriminate].
    intros rest res Hf Hres. cbn [y_term]. nrm.
    apply (proj1 (IHl Cl)); [reflexivity|].
    apply ev_binops_step; [|exact Hres]. apply (proj2 (IHr Cr) Hb rest Hf).
  - (* BINOP '(' term ',' term ')' *)
    cbn [ctb] in C. apply andb_true_iff in C as [Cl Cr].
    assert (P : forall rest, ev (fun n => p_prim n (y_term (T_binop_prefix op l r) ++ rest)) (T_binop_prefix op l r, rest)).
    { intros rest.
      destruct (Gterm_full l IHl Cl (fx R_COMMA :: y_term r ++ fx R_RPAR :: rest) eq_refl) as [n1 H1].
      destruct (Gterm_full r IHr Cr (fx R_RPAR :: rest) eq_refl) as [n2 H2].
      exists (S (n1 + n2)). intros n Hn. destruct n as [|n]; [lia|].
      cbn [y_term]. nrm. cbn [p_prim]. unfold fx at 1. rewrite expect_same.
      rewrite H1 by lia. unfold fx at 1. rewrite expect_same. rewrite H2 by lia. unfold fx. rewrite expect_same. reflexivity. }
    split; [apply prim_gives_term; intros; apply P | intros _ rest _; apply P].
  - (* '(' term ')' *)
    cbn [ctb] in C.
    assert (P : forall rest, ev (fun n => p_prim n (y_term (T_paren t) ++ rest)) (T_paren t, rest)).
    { intros rest. destruct (Gterm_full t IH C (fx R_RPAR :: rest) eq_refl) as [n1 H1].
      exists (S n1). intros n Hn. destruct n as [|n]; [lia|].
      cbn [y_term]. nrm. unfold fx at 1. cbn [p_prim]. rewrite H1 by lia. unfold fx. rewrite expect_same. reflexivity. }
    split; [apply prim_gives_term; intros; apply P | intros _ rest _; apply P].
  - (* [ termlist ] *)
    cbn [ctb] in C.
    assert (P : forall rest, ev (fun n => p_prim n (y_term (T_list items) ++ rest)) (T_list items, rest)).
    { intros rest. destruct items as [|h tl0].
      - exists 1. intros n Hn. destruct n as [|n]; [lia|]. cbn [y_term map sep_commas app]. unfold fx. cbn [p_prim].
        rewrite is_k_same. reflexivity.
      - inversion IH as [|? ? Gh Gtl]; subst. cbn [forallb] in C. apply andb_true_iff in C as [Ch Ctl].
        assert (Hnf : nf_term (y_tail tl0 ++ fx R_RBRACK :: rest) = true) by (destruct tl0; reflexivity).
        destruct (Gterm_full h Gh Ch _ Hnf) as [n1 H1].
        destruct tl0 as [|t1 tl1].
        + exists (S n1). intros n Hn. destruct n as [|n]; [lia|].
          cbn [y_term]. rewrite sep_commas_cons. nrm. unfold fx at 1. cbn [p_prim].
          rewrite y_term_is_k by reflexivity. cbn [y_tail flat_map app] in H1. rewrite H1 by lia.
          unfold fx. rewrite is_k_same. reflexivity.
        + destruct (termlist_complete (t1 :: tl1) Gtl Ctl (fx R_RBRACK :: rest) eq_refl) as [n2 H2].
          exists (S (n1 + n2)). intros n Hn. destruct n as [|n]; [lia|].
          cbn [y_term]. rewrite sep_commas_cons. nrm. unfold fx at 1. cbn [p_prim].
          rewrite y_term_is_k by reflexivity. rewrite H1 by lia.
          rewrite y_tail_cons. nrm. unfold fx in *. rewrite !is_k_diff by discriminate. rewrite is_k_same. cbn [tl].
          rewrite H2 by lia. rewrite is_k_same. reflexivity. }
    split; [apply prim_gives_term; intros; apply P | intros _ rest _; apply P].
  - (* [ term | V ] *)
    cbn [ctb] in C.
    assert (P : forall rest, ev (fun n => p_prim n (y_term (T_listpair1 h v) ++ rest)) (T_listpair1 h v, rest)).
    { intros rest.
      destruct (Gterm_full h IH C (fx R_BAR :: (R_VARIABLE, v) :: fx R_RBRACK :: rest) eq_refl) as [n1 H1].
      exists (S n1). intros n Hn. destruct n as [|n]; [lia|].
      cbn [y_term]. nrm. unfold fx at 1. cbn [p_prim]. rewrite y_term_is_k by reflexivity. rewrite H1 by lia.
      unfold fx. rewrite is_k_diff by discriminate. rewrite is_k_same. cbn [tl]. rewrite !expect_same. reflexivity. }
    split; [apply prim_gives_term; intros; apply P | intros _ rest _; apply P].
  - (* [ term , termlist | V ] *)
    cbn [ctb] in C. apply andb_true_iff in C as [Ch Cr].
    assert (P : forall rest, ev (fun n => p_prim n (y_term (T_listpair2 h rest0 v) ++ rest)) (T_listpair2 h rest0 v, rest)).
    { intros rest.
      destruct (Gterm_full h IHh Ch (fx R_COMMA :: sep_commas (map y_term rest0) ++ fx R_BAR :: (R_VARIABLE, v) :: fx R_RBRACK :: rest) eq_refl) as [n1 H1].
      destruct (termlist_complete rest0 IHr Cr (fx R_BAR :: (R_VARIABLE, v) :: fx R_RBRACK :: rest) eq_refl) as [n2 H2].
      exists (S (n1 + n2)). intros n Hn. destruct n as [|n]; [lia|].
      cbn [y_term]. nrm. unfold fx at 1. cbn [p_prim]. rewrite y_term_is_k by reflexivity. rewrite H1 by lia.
      unfold fx in *. rewrite !is_k_diff by discriminate. rewrite is_k_same. cbn [tl].
      rewrite H2 by lia. rewrite is_k_diff by discriminate. rewrite is_k_same. cbn [tl].
      rewrite !expect_same. reflexivity. }
    split; [apply prim_gives_term; intros; apply P | intros _ rest _; apply P].
Qed.

Corollary term_complete_full t : ctb t = true -> forall rest, nf_term rest = true ->
  ev (fun n => p_term n (y_term t ++ rest)) (t, rest).
Proof. intros C. apply Gterm_full; [apply term_complete | exact C]. Qed.

(* ------------------------------------------------------------------ canonical predicate expressions *)

Definition lvl (e : pexpr) : nat :=
  match e with PE_and _ _ => 4 | PE_if _ _ => 3 | PE_or _ _ => 2 | _ => 6 end.
Definition is_termlike (e : pexpr) : bool := match e with PE_simple (SP_term _) => true | _ => false end.
Definition csimple (sp : simplepred) : bool := match sp with SP_term t => ctb t | _ => true end.

Fixpoint cpb (e : pexpr) : bool :=
  match e with
  | PE_simple sp => csimple sp
  | PE_not a => cpb a && (lvl a =? 6)
  | PE_and l r => cpb l && cpb r && (4 <? lvl l) && (4 <=? lvl r)
  | PE_if l r => cpb l && cpb r && (3 <? lvl l) && (3 <=? lvl r)
  | PE_or l r => cpb l && cpb r && (2 <? lvl l) && (2 <=? lvl r)
  | PE_paren a => cpb a && negb (is_termlike a)
  end.

Definition hprec (ts : list tok) : nat :=
  match hdk ts with Some R_COMMA => 4 | Some R_ARROW => 3 | Some R_SEMI => 2 | _ => 0 end.

Lemma lvl_bounds e : 2 <= lvl e <= 6.
Proof. destruct e; simpl; lia. Qed.
Lemma hprec_le ts : hprec ts <= 4.
Proof. unfold hprec. destruct (hdk ts) as [[]|]; lia. Qed.

Lemma p_term_bad_start n k x r : tstart k = false -> p_term n ((k, x) :: r) = None.
Proof. intros H. destruct n as [|[|n]]; try reflexivity. cbn [p_term p_prim]. destruct k; try discriminate; reflexivity. Qed.

Lemma p_term_some_hd n ts x : p_term n ts = Some x -> exists k y r, ts = (k, y) :: r /\ tstart k = true.
Proof.
  intros H. destruct ts as [|[k y] r].
  - destruct n as [|[|n]]; discriminate.
  - destruct (tstart k) eqn:E; [eauto|]. rewrite p_term_bad_start in H by exact E. discriminate.
Qed.

Lemma simple_complete sp : csimple sp = true -> forall rest, nf_term rest = true ->
  ev (fun n => p_simple n (y_simple sp ++ rest)) (sp, rest).
Proof.
  intros C rest Hf. destruct sp as [| | |t]; try (exists 0; intros n _; reflexivity).
  destruct (term_complete_full t C rest Hf) as [n1 H1]. exists n1. intros n Hn.
  unfold p_simple. cbn [y_simple]. rewrite !y_term_is_k by reflexivity. rewrite H1 by lia. reflexivity.
Qed.

(* a successful term reading is what the primary of a predicate expression returns *)
Lemma term_as_pe_prim n ts u r2 : p_term n ts = Some (u, r2) ->
  ev (fun m => p_pe_prim m ts) (PE_simple (SP_term u), r2).
Proof.
  intros H. destruct (p_term_some_hd _ _ _ H) as [k [y [r [-> Hk]]]].
  exists (S n). intros m Hm. destruct m as [|m]; [lia|].
  assert (Hm' : p_term m ((k, y) :: r) = Some (u, r2)) by (eapply p_term_mono; [|exact H]; lia).
  cbn [p_pe_prim]. rewrite is_k_diff by (intros E0; rewrite <- E0 in Hk; discriminate).
  destruct (is_k R_LPAR ((k, y) :: r)); [rewrite Hm'; reflexivity|].
  unfold p_simple. rewrite !is_k_diff by (intros E0; rewrite <- E0 in Hk; discriminate). rewrite Hm'. reflexivity.
Qed.

Lemma expect_not k ts : hdk ts <> Some k -> expect k ts = None.
Proof.
  destruct ts as [|[k' x] r]; [reflexivity|]. simpl. intros H.
  destruct (rname_eqb k k') eqn:E; [|reflexivity]. apply rname_eqb_eq in E. congruence.
Qed.

Lemma paren_none inner :
  (forall n u r2, p_term n inner = Some (u, r2) -> hdk r2 <> Some R_RPAR) ->
  forall n, p_term n (fx R_LPAR :: inner) = None.
Proof.
  intros H n. destruct n as [|[|n]]; try reflexivity. unfold fx. cbn [p_term p_prim].
  destruct (p_term n inner) as [[u r2]|] eqn:E; [|reflexivity].
  rewrite (expect_not _ _ (H _ _ _ E)). reflexivity.
Qed.

(* the leftmost primary of a predicate expression, and the tokens after it *)
Fixpoint first_prim (e : pexpr) : pexpr :=
  match e with PE_and l _ | PE_if l _ | PE_or l _ => first_prim l | _ => e end.
Fixpoint after_first (e : pexpr) : list tok :=
  match e with
  | PE_and l r => after_first l ++ fx R_COMMA :: y_pe r
  | PE_if l r => after_first l ++ fx R_ARROW :: y_pe r
  | PE_or l r => after_first l ++ fx R_SEMI :: y_pe r
  | _ => []
  end.

Definition is_optok (ts : list tok) : bool :=
  match hdk ts with Some R_COMMA | Some R_ARROW | Some R_SEMI => true | _ => false end.

Lemma after_first_hd e X : is_optok X = true -> is_optok (after_first e ++ X) = true.
Proof.
  intros HX. induction e; cbn [after_first app]; try exact HX; rewrite <- app_assoc; cbn [app];
    match goal with |- is_optok (after_first ?l ++ ?Y) = true =>
      destruct (after_first l) as [|t0 r0] eqn:E; [reflexivity|] end;
    match goal with IH : is_optok ((?t :: ?r) ++ X) = true |- _ => destruct t as [k0 x0]; simpl in *; exact IH end.
Qed.

Lemma optok_not_rpar X : is_optok X = true -> hdk X <> Some R_RPAR.
Proof. unfold is_optok. destruct (hdk X) as [[]|]; try discriminate; intros _ H; discriminate. Qed.
Lemma optok_nf X : is_optok X = true -> nf_term X = true.
Proof. unfold is_optok, nf_term. destruct (hdk X) as [[]|]; try discriminate; reflexivity. Qed.

(* ------------------------------------------------------------------ completeness: predicate expressions *)

Lemma ev_pe_of_prim ts p a r res :
  ev (fun n => p_pe_prim n ts) (a, r) -> ev (fun n => p_pe_loop n p a r) res -> ev (fun n => p_pe n p ts) res.
Proof.
  intros [n1 H1] [n2 H2]. exists (S (n1 + n2)). intros n Hn. destruct n as [|n]; [lia|].
  cbn [p_pe]. rewrite H1 by lia. apply H2. lia.
Qed.

Lemma ev_loop_stop p acc rest : hprec rest = 0 \/ hprec rest < p -> ev (fun n => p_pe_loop n p acc rest) (acc, rest).
Proof.
  intros H. exists 1. intros n Hn. destruct n as [|n]; [lia|]. cbn [p_pe_loop].
  unfold hprec in H. rewrite !is_k_hdk. destruct (hdk rest) as [k|]; [|reflexivity].
  destruct k; try reflexivity; simpl;
    match goal with |- context [?a <=? ?b] => destruct (Nat.leb_spec a b); [exfalso; simpl in H; lia|reflexivity] end.
Qed.

Lemma ev_loop_and p acc b ts r' res : p <= 4 ->
  ev (fun n => p_pe n 4 ts) (b, r') -> ev (fun n => p_pe_loop n p (PE_and acc b) r') res ->
  ev (fun n => p_pe_loop n p acc (fx R_COMMA :: ts)) res.
Proof.
  intros Hp [n1 H1] [n2 H2]. exists (S (n1 + n2)). intros n Hn. destruct n as [|n]; [lia|].
  unfold fx. cbn [p_pe_loop]. rewrite is_k_same. replace (p <=? 4) with true by (symmetry; apply Nat.leb_le; lia).
  cbn [andb tl]. rewrite H1 by lia. apply H2. lia.
Qed.
Lemma ev_loop_if p acc b ts r' res : p <= 3 ->
  ev (fun n => p_pe n 3 ts) (b, r') -> ev (fun n => p_pe_loop n p (PE_if acc b) r') res ->
  ev (fun n => p_pe_loop n p acc (fx R_ARROW :: ts)) res.
Proof.
  intros Hp [n1 H1] [n2 H2]. exists (S (n1 + n2)). intros n Hn. destruct n as [|n]; [lia|].
  unfold fx. cbn [p_pe_loop]. rewrite is_k_diff by discriminate. rewrite is_k_same.
  replace (p <=? 3) with true by (symmetry; apply Nat.leb_le; lia).
  cbn [andb tl]. rewrite H1 by lia. apply H2. lia.
Qed.
Lemma ev_loop_or p acc b ts r' res : p <= 2 ->
  ev (fun n => p_pe n 2 ts) (b, r') -> ev (fun n => p_pe_loop n p (PE_or acc b) r') res ->
  ev (fun n => p_pe_loop n p acc (fx R_SEMI :: ts)) res.
Proof.
  intros Hp [n1 H1] [n2 H2]. exists (S (n1 + n2)). intros n Hn. destruct n as [|n]; [lia|].
  unfold fx. cbn [p_pe_loop]. rewrite !is_k_diff by discriminate. rewrite is_k_same.
  replace (p <=? 2) with true by (symmetry; apply Nat.leb_le; lia).
  cbn [andb tl]. rewrite H1 by lia. apply H2. lia.
Qed.

Definition PP (e : pexpr) : Prop := lvl e = 6 -> forall rest, nf_term rest = true ->
  ev (fun n => p_pe_prim n (y_pe e ++ rest)) (e, rest).
Definition LL (e : pexpr) : Prop := forall p rest res, p <= lvl e -> hprec rest < lvl e -> nf_term rest = true ->
  ev (fun n => p_pe_loop n p e rest) res -> ev (fun n => p_pe n p (y_pe e ++ rest)) res.
Definition NT (e : pexpr) : Prop := is_termlike e = false ->
  forall n rest, p_term n (fx R_LPAR :: y_pe e ++ fx R_RPAR :: rest) = None.
Definition FP (e : pexpr) : Prop := forall rest, nf_term rest = true ->
  ev (fun n => p_pe_prim n (y_pe e ++ rest)) (first_prim e, after_first e ++ rest).
Definition Gpe (e : pexpr) : Prop := cpb e = true -> PP e /\ LL e /\ NT e /\ FP e.

Lemma LL_of_PP e : lvl e = 6 -> PP e -> LL e.
Proof.
  intros Hl P p rest res _ _ Hf Hres. eapply ev_pe_of_prim; [apply P; assumption | exact Hres].
Qed.
Lemma FP_of_PP e : first_prim e = e -> after_first e = [] -> lvl e = 6 -> PP e -> FP e.
Proof. intros E1 E2 Hl P rest Hf. rewrite E1, E2. apply P; assumption. Qed.

(* a term reading of `y_pe l` followed by an operator token never ends in front of a `)` *)
Lemma term_reading_stops l X : FP l -> is_optok X = true ->
  forall n u r2, p_term n (y_pe l ++ X) = Some (u, r2) -> hdk r2 <> Some R_RPAR.
Proof.
  intros F HX n u r2 H. apply term_as_pe_prim in H.
  pose proof (ev_unique _ _ _ H (F X (optok_nf _ HX))) as E. injection E as _ ->.
  apply optok_not_rpar. apply after_first_hd. exact HX.
Qed.

Lemma LL_full e : LL e -> forall rest, hprec rest = 0 -> nf_term rest = true ->
  forall p, p <= lvl e -> ev (fun n => p_pe n p (y_pe e ++ rest)) (e, rest).
Proof.
  intros L rest Hh Hf p Hp. apply L; auto; [pose proof (lvl_bounds e); lia|]. apply ev_loop_stop. auto.
Qed.

Theorem pe_complete : forall e, Gpe e.
Proof.
  induction e as [sp|a IH|l IHl r IHr|l IHl r IHr|l IHl r IHr|a IH]; intros C; cbn [cpb] in C.
  - (* simplepredicate *)
    assert (P : PP (PE_simple sp)).
    { intros _ rest Hf. destruct (simple_complete sp C rest Hf) as [n1 H1].
      destruct sp as [| | |t].
      1-3: (exists (S n1); intros n Hn; destruct n as [|n]; [lia|]; cbn [p_pe_prim y_pe y_simple app]; unfold fx;
            rewrite !is_k_diff by discriminate; cbn [y_pe y_simple app] in H1; unfold fx in H1; rewrite H1 by lia; reflexivity).
      destruct (term_complete_full t C rest Hf) as [n2 H2].
      exists (S (n1 + n2)). intros n Hn. destruct n as [|n]; [lia|].
      cbn [p_pe_prim y_pe y_simple]. rewrite y_term_is_k by reflexivity.
      destruct (is_k R_LPAR (y_term t ++ rest)).
      - rewrite H2 by lia. reflexivity.
      - cbn [y_simple] in H1. rewrite H1 by lia. reflexivity. }
    split; [exact P|]. split; [apply LL_of_PP; [reflexivity|exact P]|]. split.
    + intros Ht n rest. destruct sp as [| | |t]; [| | |discriminate];
        (apply paren_none; intros n0 u r2 H; cbn [y_pe y_simple app] in H; unfold fx in H;
         rewrite p_term_bad_start in H by reflexivity; discriminate).
    + apply FP_of_PP; auto.
  - (* \+ *)
    apply andb_true_iff in C as [Ca Hl]. apply Nat.eqb_eq in Hl.
    destruct (IH Ca) as [_ [La _]].
    assert (P : PP (PE_not a)).
    { intros _ rest Hf.
      assert (H5 : ev (fun n => p_pe n 5 (y_pe a ++ rest)) (a, rest)).
      { apply La; [lia | pose proof (hprec_le rest); lia | exact Hf |]. apply ev_loop_stop. pose proof (hprec_le rest). lia. }
      destruct H5 as [n1 H1]. exists (S n1). intros n Hn. destruct n as [|n]; [lia|].
      cbn [y_pe app]. unfold fx. cbn [p_pe_prim]. rewrite is_k_same. cbn [tl]. rewrite H1 by lia. reflexivity. }
    split; [exact P|]. split; [apply LL_of_PP; [reflexivity|exact P]|]. split.
    + intros _ n rest. apply paren_none. intros n0 u r2 H. cbn [y_pe app] in H. unfold fx in H.
      rewrite p_term_bad_start in H by reflexivity. discriminate.
    + apply FP_of_PP; auto.
  - (* , *)
    apply andb_true_iff in C as [C H2]. apply andb_true_iff in C as [C H1]. apply andb_true_iff in C as [Cl Cr].
    apply Nat.ltb_lt in H1. apply Nat.leb_le in H2.
    destruct (IHl Cl) as [_ [Ll [_ Fl]]]. destruct (IHr Cr) as [_ [Lr _]].
    split; [intros Hl; discriminate|]. split; [|split].
    + intros p rest res Hp Hh Hf Hres. cbn [lvl] in Hp, Hh. cbn [y_pe]. nrm.
      apply Ll; [lia | cbn; lia | reflexivity |].
      apply ev_loop_and with (b := r) (r' := rest); [lia | | exact Hres].
      apply Lr; [lia | lia | exact Hf |]. apply ev_loop_stop. right. lia.
    + intros _ n rest. apply paren_none. cbn [y_pe]. nrm. apply term_reading_stops; [exact Fl | reflexivity].
    + intros rest Hf. cbn [y_pe first_prim after_first]. nrm. apply Fl. reflexivity.
  - (* -> *)
    apply andb_true_iff in C as [C H2]. apply andb_true_iff in C as [C H1]. apply andb_true_iff in C as [Cl Cr].
    apply Nat.ltb_lt in H1. apply Nat.leb_le in H2.
    destruct (IHl Cl) as [_ [Ll [_ Fl]]]. destruct (IHr Cr) as [_ [Lr _]].
    split; [intros Hl; discriminate|]. split; [|split].
    + intros p rest res Hp Hh Hf Hres. cbn [lvl] in Hp, Hh. cbn [y_pe]. nrm.
      apply Ll; [lia | cbn; lia | reflexivity |].
      apply ev_loop_if with (b := r) (r' := rest); [lia | | exact Hres].
      apply Lr; [lia | lia | exact Hf |]. apply ev_loop_stop. right. lia.
    + intros _ n rest. apply paren_none. cbn [y_pe]. nrm. apply term_reading_stops; [exact Fl | reflexivity].
    + intros rest Hf. cbn [y_pe first_prim after_first]. nrm. apply Fl. reflexivity.
  - (* ; *)
    apply andb_true_iff in C as [C H2]. apply andb_true_iff in C as [C H1]. apply andb_true_iff in C as [Cl Cr].
    apply Nat.ltb_lt in H1. apply Nat.leb_le in H2.
    destruct (IHl Cl) as [_ [Ll [_ Fl]]]. destruct (IHr Cr) as [_ [Lr _]].
    split; [intros Hl; discriminate|]. split; [|split].
    + intros p rest res Hp Hh Hf Hres. cbn [lvl] in Hp, Hh. cbn [y_pe]. nrm.
      apply Ll; [lia | cbn; lia | reflexivity |].
      apply ev_loop_or with (b := r) (r' := rest); [lia | | exact Hres].
      apply Lr; [lia | lia | exact Hf |]. apply ev_loop_stop. right. lia.
    + intros _ n rest. apply paren_none. cbn [y_pe]. nrm. apply term_reading_stops; [exact Fl | reflexivity].
    + intros rest Hf. cbn [y_pe first_prim after_first]. nrm. apply Fl. reflexivity.
  - (* ( predicateexpression ) where the bracketed text is not a term *)
    apply andb_true_iff in C as [Ca Ht]. apply negb_true_iff in Ht.
    destruct (IH Ca) as [_ [La [Na _]]].
    assert (P : PP (PE_paren a)).
    { intros _ rest Hf.
      destruct (LL_full a La (fx R_RPAR :: rest) eq_refl eq_refl 0 ltac:(lia)) as [n1 H1].
      exists (S n1). intros n Hn. destruct n as [|n]; [lia|].
      cbn [y_pe]. nrm. pose proof (Na Ht n rest) as HN. unfold fx in *. cbn [p_pe_prim].
      rewrite is_k_diff by discriminate. rewrite is_k_same. rewrite HN. cbn [tl]. rewrite H1 by lia.
      rewrite expect_same. reflexivity. }
    split; [exact P|]. split; [apply LL_of_PP; [reflexivity|exact P]|]. split.
    + intros _ n rest. apply paren_none. intros n0 u r2 H. cbn [y_pe] in H. revert H. nrm. intros H.
      rewrite (Na Ht n0 (fx R_RPAR :: rest)) in H. discriminate.
    + apply FP_of_PP; auto.
Qed.

(* ------------------------------------------------------------------ completeness: clauses, directives, programs *)

Definition cclauseb (c : cclause) : bool :=
  match c with C_fact h => csimple h | C_rule h b => csimple h && cpb b end.
Definition ccordb (c : cord) : bool :=
  match c with CD_clause c => cclauseb c | CD_directive sp => csimple sp end.
Definition canonical (p : cprogram) : bool := forallb ccordb p.

Lemma y_simple_is_k k sp X : tstart k = false -> k <> R_TRUE -> k <> R_FAIL -> k <> R_CUT ->
  is_k k (y_simple sp ++ X) = false.
Proof.
  intros Hk H1 H2 H3. destruct sp; cbn [y_simple app]; unfold fx; try (apply is_k_diff; assumption).
  apply y_term_is_k; exact Hk.
Qed.

Lemma y_simple_cons sp : exists t0 r0, y_simple sp = t0 :: r0.
Proof.
  destruct sp; cbn [y_simple]; unfold fx; eauto. destruct (y_term_hd t) as [k [x [more [-> _]]]]. eauto.
Qed.

Lemma cord_complete c : ccordb c = true -> forall rest, ev (fun n => p_cord n (y_cord c ++ rest)) (c, rest).
Proof.
  intros C rest. destruct c as [[h|h b]|sp]; cbn [ccordb cclauseb] in C.
  - destruct (simple_complete h C (fx R_DOT :: rest) eq_refl) as [n1 H1].
    exists n1. intros n Hn. unfold p_cord. cbn [y_cord y_clause]. nrm.
    rewrite y_simple_is_k by (try reflexivity; discriminate). rewrite H1 by lia.
    unfold fx. rewrite is_k_same. reflexivity.
  - apply andb_true_iff in C as [Ch Cb].
    destruct (simple_complete h Ch (fx R_NECK :: y_pe b ++ fx R_DOT :: rest) eq_refl) as [n1 H1].
    destruct (pe_complete b Cb) as [_ [Lb _]].
    destruct (LL_full b Lb (fx R_DOT :: rest) eq_refl eq_refl 0 ltac:(lia)) as [n2 H2].
    exists (n1 + n2). intros n Hn. unfold p_cord. cbn [y_cord y_clause]. nrm.
    rewrite y_simple_is_k by (try reflexivity; discriminate). rewrite H1 by lia.
    unfold fx in *. rewrite is_k_diff by discriminate. rewrite expect_same. rewrite H2 by lia.
    rewrite expect_same. reflexivity.
  - destruct (simple_complete sp C (fx R_DOT :: rest) eq_refl) as [n1 H1].
    exists n1. intros n Hn. unfold p_cord. cbn [y_cord]. nrm. unfold fx at 1. rewrite is_k_same. cbn [tl].
    rewrite H1 by lia. unfold fx. rewrite expect_same. reflexivity.
Qed.

Lemma y_cord_cons c : exists t0 r0, y_cord c = t0 :: r0.
Proof.
  destruct c as [[h|h b]|sp]; cbn [y_cord y_clause]; unfold fx; eauto;
    destruct (y_simple_cons h) as [t0 [r0 ->]]; simpl; eauto.
Qed.

(* PROGRAM_COMPLETE: for a canonical derivation tree, and every fuel from some point on, parsing its yield
   returns exactly that tree (m = the bound on the number of clauses, n = the depth fuel) *)
Theorem program_complete prog : canonical prog = true -> forall m, length prog <= m ->
  ev (fun n => p_program m n (yield prog)) prog.
Proof.
  unfold canonical. induction prog as [|c l IH]; intros C m Hm.
  - exists 0. intros n _. destruct m; reflexivity.
  - cbn [forallb] in C. apply andb_true_iff in C as [Cc Cl].
    destruct m as [|m]; [simpl in Hm; lia|].
    destruct (IH Cl m ltac:(simpl in Hm; lia)) as [n2 H2].
    destruct (cord_complete c Cc (yield l)) as [n1 H1].
    exists (n1 + n2). intros n Hn. unfold yield. cbn [flat_map]. fold (yield l).
    destruct (y_cord_cons c) as [t0 [r0 E]].
    assert (Eq : y_cord c ++ yield l = t0 :: (r0 ++ yield l)) by (rewrite E; reflexivity).
    rewrite Eq. cbn [p_program]. rewrite <- Eq. rewrite H1 by lia. rewrite H2 by lia. reflexivity.
Qed.

(* UNAMBIGUOUS: a token sequence is the yield of at most one canonical derivation tree *)
Theorem canonical_unique p1 p2 : canonical p1 = true -> canonical p2 = true -> yield p1 = yield p2 -> p1 = p2.
Proof.
  intros C1 C2 E.
  pose proof (program_complete p1 C1 (length p1 + length p2) ltac:(lia)) as H1.
  pose proof (program_complete p2 C2 (length p1 + length p2) ltac:(lia)) as H2.
  rewrite E in H1. exact (ev_unique _ _ _ H1 H2).
Qed.
