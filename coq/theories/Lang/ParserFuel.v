(* The depth fuel that `parse` supplies (5 * #tokens + 10) is enough: whatever the parser returns with SOME fuel it
   already returns with fuel 2 * (#tokens consumed) + a small constant.  Proof: every call chain that does not consume a
   token has bounded length (term -> primary; termlist -> term; pe -> pe-primary -> simplepredicate -> term), and every
   loop iteration consumes at least two tokens.  With Lang/ParserCanon.parse_complete_fuel this gives PARSE_COMPLETE
   for `parse` itself. *)
From Coq Require Import List NArith Arith Bool Lia.
Import ListNotations.
From YP Require Import Base.Str Lang.Lexer Lang.Cst Lang.Parser Lang.ParserSound Lang.ParserMono Lang.ParserComplete
  Lang.ParserCanon.

Lemma expect_len k ts x r : expect k ts = Some (x, r) -> length ts = S (length r).
Proof. intros H. apply expect_some in H. subst. reflexivity. Qed.
Lemma is_k_len k ts : is_k k ts = true -> 1 <= length ts.
Proof. intros H. apply is_k_true in H as [x [r ->]]. simpl. lia. Qed.
Lemma tl_len {A} (l : list A) : length (tl l) = length l - 1.
Proof. destruct l; simpl; lia. Qed.

(* ------------------------------------------------------------------ how many tokens are consumed *)

Definition Cterm (n : nat) : Prop :=
  (forall ts t r, p_term n ts = Some (t, r) -> length r < length ts) /\
  (forall ts t r, p_prim n ts = Some (t, r) -> length r < length ts) /\
  (forall acc ts t r, p_binops n acc ts = Some (t, r) -> length r <= length ts) /\
  (forall ts l r, p_termlist n ts = Some (l, r) -> length r <= length ts) /\
  (forall ts l r, p_tail n ts = Some (l, r) -> length r <= length ts).

Ltac lens :=
  repeat match goal with
  | E : expect _ ?ts = Some (_, ?r) |- _ =>
      lazymatch goal with _ : length ts = S (length r) |- _ => fail | _ => pose proof (expect_len _ _ _ _ E) end
  | E : is_k _ ?ts = true |- _ =>
      lazymatch goal with _ : 1 <= length ts |- _ => fail | _ => pose proof (is_k_len _ _ E) end
  end.

Ltac inj H := repeat match type of H with Some _ = Some _ => injection H as H | (_, _) = (_, _) => injection H as ? H end; subst.

Lemma consumed_all : forall n, Cterm n.
Proof.
  induction n as [|n [IHt [IHp [IHb [IHl IHtl]]]]].
  - repeat split; intros; discriminate.
  - repeat split.
    + intros ts t r H. cbn [p_term] in H. brk H. apply IHp in E. apply IHb in H. lia.
    + intros ts t r H. cbn [p_prim] in H. destruct ts as [|[k x] r0]; [discriminate|].
      destruct k; try discriminate H; brk H; inj H; lens;
      repeat match goal with
      | E : p_term n _ = Some _ |- _ => apply IHt in E
      | E : p_prim n _ = Some _ |- _ => apply IHp in E
      | E : p_termlist n _ = Some _ |- _ => apply IHl in E
      end; rewrite ?tl_len in *; cbn [length] in *; lia.
    + intros acc ts t r H. cbn [p_binops] in H. brk H; inj H; lens; try lia.
      apply IHp in E2. apply IHb in H. lia.
    + intros ts l r H. cbn [p_termlist] in H. brk H; inj H; try lia.
      apply IHt in E0. apply IHtl in E2. lia.
    + intros ts l r H. cbn [p_tail] in H. brk H; inj H; lens; try lia.
      apply IHt in E0. apply IHtl in E2. rewrite ?tl_len in *. lia.
Qed.

Lemma c_term n ts t r : p_term n ts = Some (t, r) -> length r < length ts.
Proof. apply (consumed_all n). Qed.
Lemma c_prim n ts t r : p_prim n ts = Some (t, r) -> length r < length ts.
Proof. apply (consumed_all n). Qed.
Lemma c_binops n acc ts t r : p_binops n acc ts = Some (t, r) -> length r <= length ts.
Proof. apply (consumed_all n). Qed.
Lemma c_termlist n ts l r : p_termlist n ts = Some (l, r) -> length r <= length ts.
Proof. apply (consumed_all n). Qed.
Lemma c_tail n ts l r : p_tail n ts = Some (l, r) -> length r <= length ts.
Proof. apply (consumed_all n). Qed.

Ltac cons_facts :=
  repeat match goal with
  | E : p_term _ ?ts = Some (_, ?r) |- _ =>
      lazymatch goal with _ : length r < length ts |- _ => fail | _ => pose proof (c_term _ _ _ _ E) end
  | E : p_prim _ ?ts = Some (_, ?r) |- _ =>
      lazymatch goal with _ : length r < length ts |- _ => fail | _ => pose proof (c_prim _ _ _ _ E) end
  | E : p_binops _ _ ?ts = Some (_, ?r) |- _ =>
      lazymatch goal with _ : length r <= length ts |- _ => fail | _ => pose proof (c_binops _ _ _ _ _ E) end
  | E : p_termlist _ ?ts = Some (_, ?r) |- _ =>
      lazymatch goal with _ : length r <= length ts |- _ => fail | _ => pose proof (c_termlist _ _ _ _ E) end
  | E : p_tail _ ?ts = Some (_, ?r) |- _ =>
      lazymatch goal with _ : length r <= length ts |- _ => fail | _ => pose proof (c_tail _ _ _ _ E) end
  end.

Ltac arith := cbn [length] in *; rewrite ?tl_len in *; lia.

(* ------------------------------------------------------------------ lowering the fuel: terms *)

Definition Wterm (n : nat) : Prop :=
  (forall m ts t r, m <= n -> p_term n ts = Some (t, r) -> 2 * length ts + 2 <= m + 2 * length r -> p_term m ts = Some (t, r)) /\
  (forall m ts t r, m <= n -> p_prim n ts = Some (t, r) -> 2 * length ts + 1 <= m + 2 * length r -> p_prim m ts = Some (t, r)) /\
  (forall m acc ts t r, m <= n -> p_binops n acc ts = Some (t, r) -> 2 * length ts + 1 <= m + 2 * length r -> p_binops m acc ts = Some (t, r)) /\
  (forall m ts l r, m <= n -> p_termlist n ts = Some (l, r) -> 2 * length ts + 3 <= m + 2 * length r -> p_termlist m ts = Some (l, r)) /\
  (forall m ts l r, m <= n -> p_tail n ts = Some (l, r) -> 2 * length ts + 1 <= m + 2 * length r -> p_tail m ts = Some (l, r)).

Ltac low_step IHt IHp IHb IHl IHtl Hle :=
  match goal with
  | E : p_term _ ?a = Some (?t0, ?r0) |- context [p_term _ ?a] => rewrite (IHt _ a t0 r0 Hle E) by arith
  | E : p_prim _ ?a = Some (?t0, ?r0) |- context [p_prim _ ?a] => rewrite (IHp _ a t0 r0 Hle E) by arith
  | E : p_binops _ ?c ?a = Some (?t0, ?r0) |- context [p_binops _ ?c ?a] => rewrite (IHb _ c a t0 r0 Hle E) by arith
  | E : p_termlist _ ?a = Some (?t0, ?r0) |- context [p_termlist _ ?a] => rewrite (IHl _ a t0 r0 Hle E) by arith
  | E : p_tail _ ?a = Some (?t0, ?r0) |- context [p_tail _ ?a] => rewrite (IHtl _ a t0 r0 Hle E) by arith
  | E : is_k ?k ?a = _ |- context [is_k ?k ?a] => rewrite E
  | E : expect ?k ?a = _ |- context [expect ?k ?a] => rewrite E
  | E : starts_term ?a = _ |- context [starts_term ?a] => rewrite E
  end.

Lemma lower_term_all : forall n, Wterm n.
Proof.
  induction n as [|n [IHt [IHp [IHb [IHl IHtl]]]]].
  - repeat split; intros; discriminate.
  - repeat split.
    + intros m ts t r Hm H Hi. pose proof (c_term _ _ _ _ H). destruct m as [|m]; [lia|].
      assert (Hle : m <= n) by lia. cbn [p_term] in H |- *. brk H. cons_facts.
      repeat low_step IHt IHp IHb IHl IHtl Hle. reflexivity.
    + intros m ts t r Hm H Hi. pose proof (c_prim _ _ _ _ H). destruct m as [|m]; [lia|].
      assert (Hle : m <= n) by lia. cbn [p_prim] in H |- *. destruct ts as [|[k x] r0]; [discriminate|].
      destruct k; try discriminate H; brk H; inj H; lens; cons_facts;
        repeat low_step IHt IHp IHb IHl IHtl Hle; reflexivity.
    + intros m acc ts t r Hm H Hi. pose proof (c_binops _ _ _ _ _ H). destruct m as [|m]; [lia|].
      assert (Hle : m <= n) by lia. cbn [p_binops] in H |- *. brk H; inj H; lens; cons_facts;
        repeat low_step IHt IHp IHb IHl IHtl Hle; reflexivity.
    + intros m ts l r Hm H Hi. pose proof (c_termlist _ _ _ _ H). destruct m as [|m]; [lia|].
      assert (Hle : m <= n) by lia. cbn [p_termlist] in H |- *. brk H; inj H; lens; cons_facts;
        repeat low_step IHt IHp IHb IHl IHtl Hle; reflexivity.
    + intros m ts l r Hm H Hi. pose proof (c_tail _ _ _ _ H). destruct m as [|m]; [lia|].
      assert (Hle : m <= n) by lia. cbn [p_tail] in H |- *. brk H; inj H; lens; cons_facts;
        repeat low_step IHt IHp IHb IHl IHtl Hle; reflexivity.
Qed.

Lemma lower_term n m ts t r : m <= n -> p_term n ts = Some (t, r) -> 2 * length ts + 2 <= m + 2 * length r ->
  p_term m ts = Some (t, r).
Proof. apply (lower_term_all n). Qed.

Lemma term_none_lower n m ts : m <= n -> p_term n ts = None -> p_term m ts = None.
Proof.
  intros Hm H. destruct (p_term m ts) as [x|] eqn:E; [|reflexivity].
  rewrite (p_term_mono m n ts x Hm E) in H. discriminate.
Qed.

(* ------------------------------------------------------------------ predicate expressions *)

Lemma c_simple n ts sp r : p_simple n ts = Some (sp, r) -> length r < length ts.
Proof.
  unfold p_simple. intros H. brk H; inj H; lens; rewrite ?tl_len; try lia.
  apply c_term in E2. exact E2.
Qed.

Lemma lower_simple n m ts sp r : m <= n -> p_simple n ts = Some (sp, r) -> 2 * length ts + 2 <= m + 2 * length r ->
  p_simple m ts = Some (sp, r).
Proof.
  unfold p_simple. intros Hm H Hi. brk H; inj H; try reflexivity.
  rewrite (lower_term n m ts _ _ Hm E2 Hi). reflexivity.
Qed.

Lemma andb_is_k_len k ts b : is_k k ts && b = true -> 1 <= length ts.
Proof. intros H. apply andb_true_iff in H as [H _]. apply is_k_len in H. exact H. Qed.

Ltac lens2 :=
  repeat match goal with
  | E : is_k _ ?ts && _ = true |- _ =>
      lazymatch goal with _ : 1 <= length ts |- _ => fail | _ => pose proof (andb_is_k_len _ _ _ E) end
  end.

Definition Cpe (n : nat) : Prop :=
  (forall p ts e r, p_pe n p ts = Some (e, r) -> length r < length ts) /\
  (forall ts e r, p_pe_prim n ts = Some (e, r) -> length r < length ts) /\
  (forall p acc ts e r, p_pe_loop n p acc ts = Some (e, r) -> length r <= length ts).

Lemma consumed_pe_all : forall n, Cpe n.
Proof.
  induction n as [|n [IHe [IHp IHl]]].
  - repeat split; intros; discriminate.
  - repeat split.
    + intros p ts e r H. cbn [p_pe] in H. brk H. apply IHp in E. apply IHl in H. lia.
    + intros ts e r H. cbn [p_pe_prim] in H. brk H; inj H; lens;
      repeat match goal with
      | E : p_pe n _ _ = Some _ |- _ => apply IHe in E
      | E : p_term _ _ = Some _ |- _ => apply c_term in E
      | E : p_simple _ _ = Some _ |- _ => apply c_simple in E
      end; rewrite ?tl_len in *; cbn [length] in *; lia.
    + intros p acc ts e r H. cbn [p_pe_loop] in H. brk H; inj H; lens2; try lia;
      match goal with E : p_pe n _ _ = Some _ |- _ => apply IHe in E end; apply IHl in H; rewrite ?tl_len in *; lia.
Qed.

Lemma c_pe n p ts e r : p_pe n p ts = Some (e, r) -> length r < length ts.
Proof. apply (consumed_pe_all n). Qed.
Lemma c_pe_prim n ts e r : p_pe_prim n ts = Some (e, r) -> length r < length ts.
Proof. apply (consumed_pe_all n). Qed.
Lemma c_pe_loop n p acc ts e r : p_pe_loop n p acc ts = Some (e, r) -> length r <= length ts.
Proof. apply (consumed_pe_all n). Qed.

Ltac cons_facts2 :=
  repeat match goal with
  | E : p_pe _ _ ?ts = Some (_, ?r) |- _ =>
      lazymatch goal with _ : length r < length ts |- _ => fail | _ => pose proof (c_pe _ _ _ _ _ E) end
  | E : p_pe_prim _ ?ts = Some (_, ?r) |- _ =>
      lazymatch goal with _ : length r < length ts |- _ => fail | _ => pose proof (c_pe_prim _ _ _ _ E) end
  | E : p_pe_loop _ _ _ ?ts = Some (_, ?r) |- _ =>
      lazymatch goal with _ : length r <= length ts |- _ => fail | _ => pose proof (c_pe_loop _ _ _ _ _ _ E) end
  | E : p_simple _ ?ts = Some (_, ?r) |- _ =>
      lazymatch goal with _ : length r < length ts |- _ => fail | _ => pose proof (c_simple _ _ _ _ E) end
  end.

Definition Wpe (n : nat) : Prop :=
  (forall m p ts e r, m <= n -> p_pe n p ts = Some (e, r) -> 2 * length ts + 4 <= m + 2 * length r -> p_pe m p ts = Some (e, r)) /\
  (forall m ts e r, m <= n -> p_pe_prim n ts = Some (e, r) -> 2 * length ts + 3 <= m + 2 * length r -> p_pe_prim m ts = Some (e, r)) /\
  (forall m p acc ts e r, m <= n -> p_pe_loop n p acc ts = Some (e, r) -> 2 * length ts + 3 <= m + 2 * length r ->
     p_pe_loop m p acc ts = Some (e, r)).

Ltac low_step2 n IHe IHp IHl Hle :=
  match goal with
  | E : p_pe _ ?q ?a = Some (?t0, ?r0) |- context [p_pe _ ?q ?a] => rewrite (IHe _ q a t0 r0 Hle E) by arith
  | E : p_pe_prim _ ?a = Some (?t0, ?r0) |- context [p_pe_prim _ ?a] => rewrite (IHp _ a t0 r0 Hle E) by arith
  | E : p_pe_loop _ ?q ?c ?a = Some (?t0, ?r0) |- context [p_pe_loop _ ?q ?c ?a] => rewrite (IHl _ q c a t0 r0 Hle E) by arith
  | E : p_term _ ?a = Some (?t0, ?r0) |- context [p_term _ ?a] => rewrite (lower_term n _ a t0 r0 Hle E) by arith
  | E : p_term _ ?a = None |- context [p_term _ ?a] => rewrite (term_none_lower n _ a Hle E)
  | E : p_simple _ ?a = Some (?t0, ?r0) |- context [p_simple _ ?a] => rewrite (lower_simple n _ a t0 r0 Hle E) by arith
  | E : is_k ?k ?a && ?b = _ |- context [is_k ?k ?a && ?b] => rewrite E
  | E : is_k ?k ?a = _ |- context [is_k ?k ?a] => rewrite E
  | E : expect ?k ?a = _ |- context [expect ?k ?a] => rewrite E
  end.

Lemma lower_pe_all : forall n, Wpe n.
Proof.
  induction n as [|n [IHe [IHp IHl]]].
  - repeat split; intros; discriminate.
  - repeat split.
    + intros m p ts e r Hm H Hi. pose proof (c_pe _ _ _ _ _ H). destruct m as [|m]; [lia|].
      assert (Hle : m <= n) by lia. cbn [p_pe] in H |- *. brk H. cons_facts2.
      repeat low_step2 n IHe IHp IHl Hle. reflexivity.
    + intros m ts e r Hm H Hi. pose proof (c_pe_prim _ _ _ _ H). destruct m as [|m]; [lia|].
      assert (Hle : m <= n) by lia. cbn [p_pe_prim] in H |- *. brk H; inj H; lens; cons_facts; cons_facts2;
        repeat low_step2 n IHe IHp IHl Hle; reflexivity.
    + intros m p acc ts e r Hm H Hi. pose proof (c_pe_loop _ _ _ _ _ _ H). destruct m as [|m]; [lia|].
      assert (Hle : m <= n) by lia. cbn [p_pe_loop] in H |- *. brk H; inj H; lens2; cons_facts2;
        repeat low_step2 n IHe IHp IHl Hle; reflexivity.
Qed.

Lemma lower_pe n m p ts e r : m <= n -> p_pe n p ts = Some (e, r) -> 2 * length ts + 4 <= m + 2 * length r ->
  p_pe m p ts = Some (e, r).
Proof. apply (lower_pe_all n). Qed.

(* ------------------------------------------------------------------ clauses and programs *)

Lemma c_cord n ts c r : p_cord n ts = Some (c, r) -> length r < length ts.
Proof.
  unfold p_cord. intros H. brk H; inj H; lens; cons_facts2; rewrite ?tl_len in *; cbn [length] in *; lia.
Qed.

Lemma lower_cord n m ts c r : m <= n -> p_cord n ts = Some (c, r) -> 2 * length ts + 4 <= m + 2 * length r ->
  p_cord m ts = Some (c, r).
Proof.
  unfold p_cord. intros Hm H Hi. brk H; inj H; lens; cons_facts2;
    repeat match goal with
    | E : p_simple _ ?a = Some (?t0, ?r0) |- context [p_simple _ ?a] => rewrite (lower_simple n _ a t0 r0 Hm E) by arith
    | E : p_pe _ ?q ?a = Some (?t0, ?r0) |- context [p_pe _ ?q ?a] => rewrite (lower_pe n _ q a t0 r0 Hm E) by arith
    | E : is_k ?k ?a = _ |- context [is_k ?k ?a] => rewrite E
    | E : expect ?k ?a = _ |- context [expect ?k ?a] => rewrite E
    end; reflexivity.
Qed.

Lemma lower_program mm n m : m <= n -> forall ts l, p_program mm n ts = Some l -> 2 * length ts + 4 <= m ->
  p_program mm m ts = Some l.
Proof.
  intros Hm. induction mm as [|mm IH]; intros ts l H Hi; destruct ts as [|t0 ts0]; cbn [p_program] in H |- *; try exact H.
  destruct (p_cord n (t0 :: ts0)) as [[c r]|] eqn:E; [|discriminate].
  destruct (p_program mm n r) as [l'|] eqn:E1; [|discriminate]. inj H.
  pose proof (c_cord _ _ _ _ E).
  rewrite (lower_cord n m _ _ _ Hm E) by lia. rewrite (IH r l' E1) by lia. reflexivity.
Qed.

(* PARSE_COMPLETE: `parse` (with the fuel it supplies itself) accepts the yield of EVERY derivation tree of the
   grammar and returns the canonical tree of that sentence *)
Theorem parse_complete p : parse (yield p) = Some (canon_program p).
Proof.
  destruct (parse_complete_fuel p) as [n0 H]. unfold parse.
  set (f := 5 * length (yield p) + 10).
  apply (lower_program (length (yield p)) (n0 + f) f); [lia | apply H; lia | unfold f; lia].
Qed.

Corollary parse_complete_not_none p : parse (yield p) <> None.
Proof. rewrite parse_complete. discriminate. Qed.

(* accepted token sequences and canonical derivation trees correspond one to one *)
Corollary parse_canonical_exact c : canonical c = true -> parse (yield c) = Some c.
Proof. intros C. rewrite parse_complete, (canon_of_canonical c C). reflexivity. Qed.

(* PARSE_UNAMBIGUOUS: if the parser returns a canonical tree c for ts, then c is the only canonical tree with that
   yield; and whenever ts (normalised) is the yield of some derivation tree at all, the parser accepts it *)
Corollary parse_unambiguous ts c : parse ts = Some c ->
  forall c', canonical c = true -> canonical c' = true -> yield c' = map norm ts -> c' = c.
Proof.
  intros H c' C C' Y. apply parse_yield in H. apply canonical_unique; auto. congruence.
Qed.
