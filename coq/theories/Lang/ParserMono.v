(* Fuel of the parser (Lang/Parser.v) only bounds the recursion depth: a result obtained with some fuel is
   obtained with every larger fuel, and two fuels that both give a result give the same one. *)
From Coq Require Import List NArith Arith Bool Lia.
Import ListNotations.
From YP Require Import Base.Str Lang.Lexer Lang.Cst Lang.Parser Lang.ParserSound.

Ltac mono_go lift :=
  repeat match goal with
  | H : context [match ?e with _ => _ end] |- _ =>
      let E := fresh "E" in destruct e eqn:E; try discriminate H; try (lift E; rewrite E)
  end.

Definition Mterm (n : nat) : Prop :=
  (forall m ts x, n <= m -> p_term n ts = Some x -> p_term m ts = Some x) /\
  (forall m ts x, n <= m -> p_prim n ts = Some x -> p_prim m ts = Some x) /\
  (forall m acc ts x, n <= m -> p_binops n acc ts = Some x -> p_binops m acc ts = Some x) /\
  (forall m ts x, n <= m -> p_termlist n ts = Some x -> p_termlist m ts = Some x) /\
  (forall m ts x, n <= m -> p_tail n ts = Some x -> p_tail m ts = Some x).

Lemma term_mono_all : forall n, Mterm n.
Proof.
  induction n as [|n [IHt [IHp [IHb [IHl IHtl]]]]].
  - repeat split; intros; discriminate.
  - assert (Ht : forall m ts x, n <= m -> p_term n ts = Some x -> p_term m ts = Some x) by exact IHt.
    repeat split; intros m; destruct m as [|m]; try (intros; lia).
    + intros ts x Hle H. assert (Hn : n <= m) by lia. cbn [p_term] in H |- *.
      mono_go ltac:(fun E => first [apply (IHp m _ _ Hn) in E | apply (IHb m _ _ _ Hn) in E]).
      eapply IHb; eauto.
    + intros ts x Hle H. assert (Hn : n <= m) by lia. cbn [p_prim] in H |- *.
      destruct ts as [|[k y] r]; [discriminate|]. destruct k; try discriminate H;
      mono_go ltac:(fun E => first [apply (IHt m _ _ Hn) in E | apply (IHp m _ _ Hn) in E | apply (IHl m _ _ Hn) in E]);
      try exact H; try reflexivity.
    + intros acc ts x Hle H. assert (Hn : n <= m) by lia. cbn [p_binops] in H |- *.
      mono_go ltac:(fun E => first [apply (IHp m _ _ Hn) in E]); try exact H.
      eapply IHb; eauto.
    + intros ts x Hle H. assert (Hn : n <= m) by lia. cbn [p_termlist] in H |- *.
      mono_go ltac:(fun E => first [apply (IHt m _ _ Hn) in E | apply (IHtl m _ _ Hn) in E]); exact H.
    + intros ts x Hle H. assert (Hn : n <= m) by lia. cbn [p_tail] in H |- *.
      mono_go ltac:(fun E => first [apply (IHt m _ _ Hn) in E | apply (IHtl m _ _ Hn) in E]); exact H.
Qed.

Lemma p_term_mono n m ts x : n <= m -> p_term n ts = Some x -> p_term m ts = Some x.
Proof. intros. eapply (term_mono_all n); eauto. Qed.
Lemma p_prim_mono n m ts x : n <= m -> p_prim n ts = Some x -> p_prim m ts = Some x.
Proof. intros. eapply (term_mono_all n); eauto. Qed.
Lemma p_binops_mono n m acc ts x : n <= m -> p_binops n acc ts = Some x -> p_binops m acc ts = Some x.
Proof. intros. eapply (term_mono_all n); eauto. Qed.
Lemma p_termlist_mono n m ts x : n <= m -> p_termlist n ts = Some x -> p_termlist m ts = Some x.
Proof. intros. eapply (term_mono_all n); eauto. Qed.
Lemma p_tail_mono n m ts x : n <= m -> p_tail n ts = Some x -> p_tail m ts = Some x.
Proof. intros. eapply (term_mono_all n); eauto. Qed.

Lemma p_simple_mono n m ts x : n <= m -> p_simple n ts = Some x -> p_simple m ts = Some x.
Proof.
  intros Hn H. unfold p_simple in *.
  mono_go ltac:(fun E => apply (p_term_mono _ m _ _ Hn) in E); exact H.
Qed.

(* NOTE.  p_pe_prim is deliberately not claimed monotone: its `(` case tries the term reading first and falls
   back to the predicate-expression reading when that returns None, and None can also mean "not enough fuel".
   Lang/ParserComplete.v therefore states everything about the predicate-expression level for all sufficiently
   large fuels (`ev`). *)

(* f returns x for every sufficiently large fuel *)
Definition ev {A} (f : nat -> option A) (x : A) : Prop := exists n0, forall n, n0 <= n -> f n = Some x.

Lemma ev_of_some_term n ts x : p_term n ts = Some x -> ev (fun m => p_term m ts) x.
Proof. intros H. exists n. intros m Hm. eapply p_term_mono; eauto. Qed.

Lemma ev_unique {A} (f : nat -> option A) x y : ev f x -> ev f y -> x = y.
Proof.
  intros [n1 H1] [n2 H2]. specialize (H1 (n1 + n2) ltac:(lia)). specialize (H2 (n1 + n2) ltac:(lia)). congruence.
Qed.
