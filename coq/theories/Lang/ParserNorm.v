(* The parser looks at the KIND of a token only, except for the six kinds whose text it copies into the tree
   (VARIABLE ATOM NUMERAL UNOP BINOP STRING): forgetting the text of all other tokens (`norm`) changes nothing.
   Consequence (with PARSE_YIELD and PARSE_COMPLETE): the complete specification of the recogniser --
     parse ts = Some c  <->  c is canonical and yield c = map norm ts          (`parse_spec`)
     parse ts = None    <->  no derivation tree of the grammar has the yield map norm ts   (`parse_none_spec`) *)
From Coq Require Import List NArith Arith Bool Lia.
Import ListNotations.
From YP Require Import Base.Str Lang.Lexer Lang.Cst Lang.Parser Lang.ParserSound Lang.ParserMono Lang.ParserComplete
  Lang.ParserCanon Lang.ParserFuel.

Definition nres {A} (o : option (A * list tok)) : option (A * list tok) :=
  match o with Some (x, r) => Some (x, map norm r) | None => None end.

Lemma is_k_norm k ts : is_k k (map norm ts) = is_k k ts.
Proof. destruct ts as [|[k' x] r]; [reflexivity|]. simpl. unfold norm. simpl. destruct (has_text k'); reflexivity. Qed.
Lemma tl_norm ts : tl (map norm ts) = map norm (tl ts).
Proof. destruct ts; reflexivity. Qed.
Lemma starts_norm ts : starts_term (map norm ts) = starts_term ts.
Proof. destruct ts as [|[k' x] r]; [reflexivity|]. simpl. unfold norm. simpl. destruct (has_text k'); reflexivity. Qed.
Lemma expect_norm k ts : expect k (map norm ts) =
  match expect k ts with Some (x, r) => Some (if has_text k then x else [], map norm r) | None => None end.
Proof.
  destruct ts as [|[k' x] r]; [reflexivity|]. simpl. unfold norm. simpl.
  destruct (has_text k') eqn:Ht; simpl; destruct (rname_eqb k k') eqn:E; try reflexivity;
    apply rname_eqb_eq in E; subst; rewrite Ht; reflexivity.
Qed.

Ltac nrw IHt IHp IHb IHl IHtl :=
  repeat first
  [ rewrite is_k_norm | rewrite expect_norm | rewrite tl_norm | rewrite starts_norm
  | rewrite IHt | rewrite IHp | rewrite IHb | rewrite IHl | rewrite IHtl ].

Ltac ndes :=
  match goal with
  | |- context [match p_term ?n ?a with _ => _ end] => destruct (p_term n a) as [[? ?]|]
  | |- context [match p_prim ?n ?a with _ => _ end] => destruct (p_prim n a) as [[? ?]|]
  | |- context [match p_binops ?n ?c ?a with _ => _ end] => destruct (p_binops n c a) as [[? ?]|]
  | |- context [match p_termlist ?n ?a with _ => _ end] => destruct (p_termlist n a) as [[? ?]|]
  | |- context [match p_tail ?n ?a with _ => _ end] => destruct (p_tail n a) as [[? ?]|]
  | |- context [if is_k ?k ?a then _ else _] => destruct (is_k k a)
  | |- context [match expect ?k ?a with _ => _ end] => destruct (expect k a) as [[? ?]|]
  | |- context [if starts_term ?a then _ else _] => destruct (starts_term a)
  end.

Definition Nterm (n : nat) : Prop :=
  (forall ts, p_term n (map norm ts) = nres (p_term n ts)) /\
  (forall ts, p_prim n (map norm ts) = nres (p_prim n ts)) /\
  (forall acc ts, p_binops n acc (map norm ts) = nres (p_binops n acc ts)) /\
  (forall ts, p_termlist n (map norm ts) = nres (p_termlist n ts)) /\
  (forall ts, p_tail n (map norm ts) = nres (p_tail n ts)).

Lemma norm_term_all : forall n, Nterm n.
Proof.
  induction n as [|n [IHt [IHp [IHb [IHl IHtl]]]]].
  - repeat split; intros; reflexivity.
  - repeat split.
    + intros ts. cbn [p_term]. nrw IHt IHp IHb IHl IHtl. unfold nres at 1.
      repeat (ndes; cbn [nres]; nrw IHt IHp IHb IHl IHtl; try reflexivity).
    + intros ts. destruct ts as [|[k x] r]; [reflexivity|]. cbn [map]. unfold norm at 1. cbn [fst].
      destruct k; cbn [has_text p_prim]; try reflexivity; nrw IHt IHp IHb IHl IHtl; unfold nres;
        repeat (ndes; cbn [has_text]; nrw IHt IHp IHb IHl IHtl; unfold nres; try reflexivity);
        try (match goal with |- context [match ?l with [] => _ | _ :: _ => _ end] => destruct l end; reflexivity).
    + intros acc ts. cbn [p_binops]. nrw IHt IHp IHb IHl IHtl. unfold nres at 1.
      repeat (ndes; cbn [nres has_text]; nrw IHt IHp IHb IHl IHtl; try reflexivity).
    + intros ts. cbn [p_termlist]. nrw IHt IHp IHb IHl IHtl. unfold nres at 1.
      repeat (ndes; cbn [nres]; nrw IHt IHp IHb IHl IHtl; unfold nres; try reflexivity).
    + intros ts. cbn [p_tail]. nrw IHt IHp IHb IHl IHtl. unfold nres at 1.
      repeat (ndes; cbn [nres]; nrw IHt IHp IHb IHl IHtl; unfold nres; try reflexivity).
Qed.

Lemma norm_term n ts : p_term n (map norm ts) = nres (p_term n ts).
Proof. apply (norm_term_all n). Qed.

Lemma norm_simple n ts : p_simple n (map norm ts) = nres (p_simple n ts).
Proof.
  unfold p_simple. rewrite !is_k_norm, tl_norm, norm_term.
  destruct (is_k R_TRUE ts); [reflexivity|]. destruct (is_k R_FAIL ts); [reflexivity|].
  destruct (is_k R_CUT ts); [reflexivity|]. destruct (p_term n ts) as [[t r]|]; reflexivity.
Qed.

Definition Npe (n : nat) : Prop :=
  (forall p ts, p_pe n p (map norm ts) = nres (p_pe n p ts)) /\
  (forall ts, p_pe_prim n (map norm ts) = nres (p_pe_prim n ts)) /\
  (forall p acc ts, p_pe_loop n p acc (map norm ts) = nres (p_pe_loop n p acc ts)).

Ltac nrw2 IHe IHp IHl :=
  repeat first
  [ rewrite is_k_norm | rewrite expect_norm | rewrite tl_norm | rewrite norm_term | rewrite norm_simple
  | rewrite IHe | rewrite IHp | rewrite IHl ].

Ltac ndes2 :=
  match goal with
  | |- context [match p_pe ?n ?q ?a with _ => _ end] => destruct (p_pe n q a) as [[? ?]|]
  | |- context [match p_pe_prim ?n ?a with _ => _ end] => destruct (p_pe_prim n a) as [[? ?]|]
  | |- context [match p_pe_loop ?n ?q ?c ?a with _ => _ end] => destruct (p_pe_loop n q c a) as [[? ?]|]
  | |- context [match p_term ?n ?a with _ => _ end] => destruct (p_term n a) as [[? ?]|]
  | |- context [match p_simple ?n ?a with _ => _ end] => destruct (p_simple n a) as [[? ?]|]
  | |- context [if is_k ?k ?a && ?b then _ else _] => destruct (is_k k a && b)
  | |- context [if is_k ?k ?a then _ else _] => destruct (is_k k a)
  | |- context [match expect ?k ?a with _ => _ end] => destruct (expect k a) as [[? ?]|]
  end.

Lemma norm_pe_all : forall n, Npe n.
Proof.
  induction n as [|n [IHe [IHp IHl]]].
  - repeat split; intros; reflexivity.
  - repeat split.
    + intros p ts. cbn [p_pe]. nrw2 IHe IHp IHl. unfold nres at 1.
      repeat (ndes2; cbn [nres]; nrw2 IHe IHp IHl; try reflexivity).
    + intros ts. cbn [p_pe_prim]. nrw2 IHe IHp IHl. unfold nres.
      repeat (ndes2; cbn [nres has_text]; nrw2 IHe IHp IHl; unfold nres; try reflexivity).
    + intros p acc ts. cbn [p_pe_loop]. nrw2 IHe IHp IHl. unfold nres at 1.
      repeat (ndes2; cbn [nres]; nrw2 IHe IHp IHl; unfold nres; try reflexivity).
Qed.

Lemma norm_pe n p ts : p_pe n p (map norm ts) = nres (p_pe n p ts).
Proof. apply (norm_pe_all n). Qed.

Lemma norm_cord n ts : p_cord n (map norm ts) = nres (p_cord n ts).
Proof.
  unfold p_cord. rewrite is_k_norm, tl_norm, !norm_simple.
  destruct (is_k R_NECK ts).
  - destruct (p_simple n (tl ts)) as [[sp r]|]; [|reflexivity]. cbn [nres]. rewrite expect_norm.
    destruct (expect R_DOT r) as [[x r1]|]; reflexivity.
  - destruct (p_simple n ts) as [[h r]|]; [|reflexivity]. cbn [nres]. rewrite is_k_norm, tl_norm.
    destruct (is_k R_DOT r); [reflexivity|]. rewrite expect_norm.
    destruct (expect R_NECK r) as [[x r1]|]; [|reflexivity]. rewrite norm_pe.
    destruct (p_pe n 0 r1) as [[b r2]|]; [|reflexivity]. cbn [nres]. rewrite expect_norm.
    destruct (expect R_DOT r2) as [[y r3]|]; reflexivity.
Qed.

Lemma norm_program m n : forall ts, p_program m n (map norm ts) = p_program m n ts.
Proof.
  induction m as [|m IH]; intros ts; destruct ts as [|t0 ts0]; try reflexivity.
  change (map norm (t0 :: ts0)) with (norm t0 :: map norm ts0). cbn [p_program].
  change (norm t0 :: map norm ts0) with (map norm (t0 :: ts0)). rewrite norm_cord.
  destruct (p_cord n (t0 :: ts0)) as [[c r]|]; [|reflexivity]. cbn [nres]. rewrite IH. reflexivity.
Qed.

Theorem parse_norm ts : parse (map norm ts) = parse ts.
Proof. unfold parse. rewrite map_length. apply norm_program. Qed.

(* ------------------------------------------------------------------ the specification of the recogniser *)

(* the parser only ever builds canonical trees *)
Theorem parse_canonical ts c : parse ts = Some c -> canonical c = true.
Proof.
  intros H. pose proof (parse_yield _ _ H) as Y.
  pose proof (parse_complete c) as P. rewrite Y, parse_norm, H in P. injection P as E.
  rewrite E. apply canon_program_spec.
Qed.

(* PARSE_SPEC *)
Theorem parse_spec ts c : parse ts = Some c <-> (canonical c = true /\ yield c = map norm ts).
Proof.
  split.
  - intros H. split; [eapply parse_canonical; eauto | apply parse_yield; exact H].
  - intros [C Y]. rewrite <- parse_norm, <- Y. apply parse_canonical_exact. exact C.
Qed.

(* PARSE_NONE_SPEC: rejected <=> not a sentence of the grammar (no derivation tree at all, canonical or not) *)
Theorem parse_none_spec ts : parse ts = None <-> (forall p : cprogram, yield p <> map norm ts).
Proof.
  split.
  - intros H p Y. pose proof (parse_complete p) as P. rewrite Y, parse_norm, H in P. discriminate.
  - intros H. destruct (parse ts) as [c|] eqn:E; [|reflexivity]. exfalso. apply (H c). apply parse_yield. exact E.
Qed.

(* PARSE_UNAMBIGUOUS, full form *)
Theorem parse_unique ts c : parse ts = Some c ->
  forall c', canonical c' = true -> yield c' = map norm ts -> c' = c.
Proof.
  intros H c' C' Y. assert (H' : parse ts = Some c') by (apply parse_spec; auto). congruence.
Qed.
