(* PARSE_YIELD: whatever the parser accepts is a derivation tree of prolog.g4 whose leaves are exactly
   the tokens it was given, in order -- no token is skipped, none is left over, none is invented. *)
From Coq Require Import List NArith Arith Bool Lia.
Import ListNotations.
From YP Require Import Base.Str Lang.Lexer Lang.Cst Lang.Parser.

Lemma is_k_true k ts : is_k k ts = true -> exists x r, ts = (k, x) :: r.
Proof.
  destruct ts as [|[k' x] r]; simpl; [discriminate|]. intros H. apply rname_eqb_eq in H as <-. eauto.
Qed.

Lemma expect_some k ts x r : expect k ts = Some (x, r) -> ts = (k, x) :: r.
Proof.
  destruct ts as [|[k' y] r']; simpl; [discriminate|].
  destruct (rname_eqb k k') eqn:E; [|discriminate]. apply rname_eqb_eq in E as <-.
  intros H; injection H as <- <-. reflexivity.
Qed.

Definition y_tail (l : list cterm) : list tok := flat_map (fun t => fx R_COMMA :: y_term t) l.

Lemma sep_commas_cons t l : sep_commas (map y_term (t :: l)) = y_term t ++ y_tail l.
Proof.
  revert t; induction l as [|u l IH]; intros t; simpl.
  - rewrite app_nil_r; reflexivity.
  - simpl in IH. rewrite IH. reflexivity.
Qed.
Lemma sep_commas_nil : sep_commas (map y_term []) = [].
Proof. reflexivity. Qed.

Ltac brk H :=
  repeat match type of H with
  | context [match ?e with _ => _ end] => let E := fresh "E" in destruct e eqn:E; try discriminate H
  end.

Ltac tidy :=
  repeat match goal with
  | H : is_k _ _ = true |- _ => apply is_k_true in H; destruct H as [? [? ?]]; subst; cbn [tl] in *
  | H : expect _ _ = Some _ |- _ => apply expect_some in H; subst; cbn [tl] in *
  | H : Some _ = Some _ |- _ => injection H as ?; subst
  | H : _ :: _ = _ :: _ |- _ => injection H as ? ?; subst
  | H : (_, _) = (_, _) |- _ => injection H as ? ?; subst
  end.

Ltac fin :=
  cbn [y_term y_atom y_simple y_pe y_clause y_cord] in *;
  rewrite ?sep_commas_cons, ?sep_commas_nil in *;
  unfold y_tail, fx in *; cbn [map norm fst has_text tl flat_map] in *;
  repeat match goal with H : map norm _ = _ |- _ => rewrite H; clear H end;
  rewrite ?app_nil_r; repeat (progress (rewrite <- ?app_assoc; cbn [app])); try reflexivity; try assumption.

Definition Pterm (n : nat) : Prop :=
  (forall ts t r, p_term n ts = Some (t, r) -> map norm ts = y_term t ++ map norm r) /\
  (forall ts t r, p_prim n ts = Some (t, r) -> map norm ts = y_term t ++ map norm r) /\
  (forall acc ts t r, p_binops n acc ts = Some (t, r) -> y_term acc ++ map norm ts = y_term t ++ map norm r) /\
  (forall ts l r, p_termlist n ts = Some (l, r) -> map norm ts = sep_commas (map y_term l) ++ map norm r) /\
  (forall ts l r, p_tail n ts = Some (l, r) -> map norm ts = y_tail l ++ map norm r).

Lemma term_yield : forall n, Pterm n.
Proof.
  induction n as [|n [IHt [IHp [IHb [IHl IHtl]]]]].
  - repeat split; intros; discriminate.
  - assert (IH : forall P : Prop, P -> P) by auto.
    repeat split.
    + intros ts t r H. cbn [p_term] in H. brk H. subst.
      apply IHp in E. apply IHb in H. rewrite E. exact H.
    + intros ts t r H. cbn [p_prim] in H.
      destruct ts as [|[k x] r0]; [discriminate|]. destruct k; try discriminate H;
      brk H; tidy; cbn [tl] in *; tidy;
      repeat match goal with
      | H : p_term n _ = Some _ |- _ => apply IHt in H
      | H : p_prim n _ = Some _ |- _ => apply IHp in H
      | H : p_termlist n _ = Some _ |- _ => apply IHl in H
      end; fin.
    + intros acc ts t r H. cbn [p_binops] in H. brk H; tidy.
      * apply IHp in E2. apply IHb in H. rewrite <- H. fin.
      * reflexivity.
    + intros ts l r H. cbn [p_termlist] in H. brk H; tidy.
      * apply IHt in E0. apply IHtl in E2. fin.
      * reflexivity.
    + intros ts l r H. cbn [p_tail] in H. brk H; tidy.
      * apply IHt in E0. apply IHtl in E2. fin.
      * reflexivity.
Qed.


Lemma p_term_yield n ts t r : p_term n ts = Some (t, r) -> map norm ts = y_term t ++ map norm r.
Proof. apply (term_yield n). Qed.

Lemma simple_yield n ts sp r : p_simple n ts = Some (sp, r) -> map norm ts = y_simple sp ++ map norm r.
Proof.
  unfold p_simple. intros H. brk H; tidy; try reflexivity.
  match goal with H : p_term _ _ = Some _ |- _ => apply p_term_yield in H end. fin.
Qed.

Definition Ppe (n : nat) : Prop :=
  (forall p ts a r, p_pe n p ts = Some (a, r) -> map norm ts = y_pe a ++ map norm r) /\
  (forall ts a r, p_pe_prim n ts = Some (a, r) -> map norm ts = y_pe a ++ map norm r) /\
  (forall p acc ts a r, p_pe_loop n p acc ts = Some (a, r) -> y_pe acc ++ map norm ts = y_pe a ++ map norm r).

Lemma andb_is_k k ts b : is_k k ts && b = true -> exists x r, ts = (k, x) :: r.
Proof. intros H. apply andb_true_iff in H as [H _]. apply is_k_true; exact H. Qed.

Lemma pe_yield : forall n, Ppe n.
Proof.
  induction n as [|n [IHe [IHp IHl]]].
  - repeat split; intros; discriminate.
  - repeat split.
    + intros p ts a r H. cbn [p_pe] in H. brk H. subst.
      apply IHp in E. apply IHl in H. rewrite E. exact H.
    + intros ts a r H. cbn [p_pe_prim] in H. brk H; tidy;
        repeat match goal with
        | H : p_pe n _ _ = Some _ |- _ => apply IHe in H
        | H : p_term _ _ = Some _ |- _ => apply p_term_yield in H
        | H : p_simple _ _ = Some _ |- _ => apply simple_yield in H
        end; fin.
    + intros p acc ts a r H. cbn [p_pe_loop] in H. brk H;
        repeat match goal with
        | H : is_k _ _ && _ = true |- _ => apply andb_is_k in H; destruct H as [? [? ?]]; subst; cbn [tl] in *
        end; tidy;
        try match goal with H : p_pe n _ _ = Some _ |- _ => apply IHe in H end;
        try match goal with H : p_pe_loop n _ _ _ = Some _ |- _ => apply IHl in H; rewrite <- H end;
        fin.
Qed.

Lemma p_pe_yield n p ts a r : p_pe n p ts = Some (a, r) -> map norm ts = y_pe a ++ map norm r.
Proof. apply (pe_yield n). Qed.

Lemma cord_yield n ts c r : p_cord n ts = Some (c, r) -> map norm ts = y_cord c ++ map norm r.
Proof.
  unfold p_cord. intros H. brk H; tidy;
    repeat match goal with
    | H : p_simple _ _ = Some _ |- _ => apply simple_yield in H
    | H : p_pe _ _ _ = Some _ |- _ => apply p_pe_yield in H
    end; fin.
Qed.

Lemma program_yield m n : forall ts l, p_program m n ts = Some l -> map norm ts = yield l.
Proof.
  induction m as [|m IH]; intros ts l; destruct ts as [|t ts]; cbn [p_program].
  - intros H; injection H as <-. reflexivity.
  - discriminate.
  - intros H; injection H as <-. reflexivity.
  - intros H. brk H. tidy. apply cord_yield in E. apply IH in E1.
    rewrite E. unfold yield. cbn [flat_map]. unfold yield in E1. rewrite E1. reflexivity.
Qed.

(* PARSE_YIELD *)
Theorem parse_yield ts cst : parse ts = Some cst -> yield cst = map norm ts.
Proof. unfold parse. intros H. symmetry. eapply program_yield; exact H. Qed.

(* the text of a token whose kind has no text of its own is determined by the kind: nothing is lost by norm *)
Lemma fixed_text r w : has_text r = false -> is_skip r = false -> rule_lang r w ->
  exists l, rule_def r = RLits [l] /\ w = l.
Proof.
  unfold rule_lang. destruct r; simpl; try discriminate; intros _ _ [<-|[]]; eauto.
Qed.
