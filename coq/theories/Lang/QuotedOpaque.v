(* A quoted atom is opaque to the lexer.

   Between the quotes of a quoted atom EVERYTHING is atom text: a `%` (also at the start of a line), line
   breaks, full stops, `:-`, brackets, clause text, the comment openers of other languages.  None of it
   starts a comment or a token, and what follows the closing quote is lexed exactly as it would be lexed on
   its own.  (Round 3: a treatment of the source TEXT before the lexer - "a line whose first non-blank
   character is % is a comment" - is wrong exactly here.)

   `plain_body b`: the body contains no quote and does not end with a backslash (a backslash directly in
   front of the closing quote would make that quote a candidate for the escaped quote of \' and the token
   could extend to a later quote - maximal munch; that case is covered by `scan_str` itself).

   THEOREMS
     lex_one_quoted     the maximal munch at an opening quote followed by a plain body and a quote is the
                        STRING token that ends at that quote, whatever follows;
     lex_quoted_opaque  lex ('b' ++ rest) = (STRING, 'b') :: lex rest, and it fails iff lex rest fails;
     lex_quoted_body_irrelevant   two texts that differ only in the (plain) body of a quoted atom at their
                        start have token streams that differ only in the text of that one token: same
                        length, same token kinds, same texts elsewhere - and one is lexable iff the other is. *)
From Coq Require Import String.
From Coq Require Import List NArith Arith Lia Bool.
Import ListNotations.
From YP Require Import Base.Str Lang.Lexer.
Local Open Scope string_scope.
Local Open Scope list_scope.

Definition plain_body (b : str) : Prop := ~ In 39%N b /\ last b 0%N <> 92%N.

Definition quoted (b : str) : str := 39%N :: b ++ [39%N].

Lemma quoted_app b rest : quoted b ++ rest = 39%N :: b ++ 39%N :: rest.
Proof. unfold quoted. simpl. rewrite <- app_assoc. reflexivity. Qed.

Lemma scan_str_plain rest : forall b esc,
  ~ In 39%N b -> last b 0%N <> 92%N -> (b = [] -> esc = false) ->
  scan_str (b ++ 39%N :: rest) esc = Some (length b).
Proof.
  induction b as [|c b IH]; intros esc Hq Hl He.
  - simpl. rewrite (He eq_refl). reflexivity.
  - cbn [app scan_str length].
    assert (Hc : N.eqb c 39 = false).
    { apply N.eqb_neq. intros ->. apply Hq. left. reflexivity. }
    rewrite Hc.
    rewrite (IH (N.eqb c 92)).
    + reflexivity.
    + intros Hin. apply Hq. right. exact Hin.
    + destruct b as [|c' b']; [simpl; intros E; discriminate E | exact Hl].
    + intros ->. simpl in Hl. apply N.eqb_neq. exact Hl.
Qed.

Lemma lex_one_quoted b rest : plain_body b ->
  lex_one (quoted b ++ rest) = Some (R_STRING, length (quoted b)).
Proof.
  intros [Hq Hl]. rewrite quoted_app.
  assert (Hs : scan_str (b ++ 39%N :: rest) false = Some (length b)).
  { apply scan_str_plain; auto. }
  unfold quoted. cbn [length]. rewrite app_length. cbn [length]. rewrite Nat.add_1_r.
  unfold lex_one, all_rules.
  cbn -[scan_str scan_cmt]. rewrite Hs. reflexivity.
Qed.

Lemma quoted_lang b : plain_body b -> rule_lang R_STRING (quoted b).
Proof.
  intros [Hq _]. exists b. split; [reflexivity|].
  induction b as [|c b IH]; [constructor|].
  apply sb_plain.
  - intros ->. apply Hq. left. reflexivity.
  - apply IH. intros Hin. apply Hq. right. exact Hin.
Qed.

Lemma lexes_quoted b rest items : plain_body b -> lexes rest items [] ->
  lexes (quoted b ++ rest) ((R_STRING, quoted b) :: items) [].
Proof.
  intros Hb Hr. apply lexes_cons; auto.
  - apply lex_one_some. apply lex_one_quoted. exact Hb.
  - apply quoted_lang. exact Hb.
  - unfold quoted. discriminate.
Qed.

Lemma lexes_quoted_inv b rest items : plain_body b -> lexes (quoted b ++ rest) items [] ->
  exists items', items = (R_STRING, quoted b) :: items' /\ lexes rest items' [].
Proof.
  intros Hb H. inversion H as [s0 E1 E2 | r w s items0 rest0 Hm Hl Hne Hrest E1 E2 E3]; subst.
  change (39%N :: (b ++ [39%N]) ++ rest) with (quoted b ++ rest) in E1.
  assert (Hm' : munch (w ++ s) R_STRING (length (quoted b))).
  { rewrite E1. apply lex_one_some. apply lex_one_quoted. exact Hb. }
  destruct (munch_unique _ _ _ _ _ Hm Hm') as [-> Hlen].
  assert (Hw : w = quoted b /\ s = rest).
  { clear - E1 Hlen. revert w E1 Hlen. generalize (quoted b) as qb.
    induction qb as [|c qb IH]; intros w E Hlen.
    - destruct w; [split; [reflexivity | exact E] | discriminate].
    - destruct w as [|c' w]; [discriminate|]. simpl in E, Hlen. injection E as -> E.
      destruct (IH w E) as [-> ->]; [lia | split; reflexivity]. }
  destruct Hw as [-> ->]. eexists. split; [reflexivity | exact Hrest].
Qed.

(* QUOTED ATOM OPAQUE.  For every body without a quote that does not end in a backslash, and every text
   `rest`: the token stream of 'body' ++ rest is the STRING token 'body' followed by the token stream of
   rest, and the one text is unlexable exactly when the other is. *)
Theorem lex_quoted_opaque b rest : plain_body b ->
  lex (quoted b ++ rest) = option_map (cons (R_STRING, quoted b)) (lex rest).
Proof.
  intros Hb. destruct (lex rest) as [ts|] eqn:Er; cbn [option_map].
  - apply lex_exact in Er as [items [Hl [_ [_ ->]]]].
    rewrite (lex_complete _ _ (lexes_quoted b rest items Hb Hl)). reflexivity.
  - destruct (lex (quoted b ++ rest)) as [ts|] eqn:E; [|reflexivity]. exfalso.
    apply lex_exact in E as [items [Hl _]].
    apply lexes_quoted_inv in Hl as [items' [_ Hl']]; [|exact Hb].
    apply lex_complete in Hl'. congruence.
Qed.

(* What stands between the quotes does not matter to anything but the text of that one token. *)
Theorem lex_quoted_body_irrelevant b1 b2 rest : plain_body b1 -> plain_body b2 ->
  match lex (quoted b1 ++ rest), lex (quoted b2 ++ rest) with
  | Some (t1 :: ts1), Some (t2 :: ts2) => t1 = (R_STRING, quoted b1) /\ t2 = (R_STRING, quoted b2) /\ ts1 = ts2
  | None, None => True
  | _, _ => False
  end.
Proof.
  intros H1 H2. rewrite !lex_quoted_opaque by assumption.
  destruct (lex rest); cbn [option_map]; auto.
Qed.

(* non-vacuity: a two-line body whose second line starts with % and contains a full stop, a comma and clause text;
   the corruption that follows the closing quote (a doubled comma) is seen by the lexer as two COMMA tokens *)
Example quoted_opaque_example :
  let b := d "see" ++ [10%N] ++ d "% chapter 2. p(a) :- q, r" in
  plain_body b /\
  lex (quoted b ++ d ", , x") = Some [(R_STRING, quoted b); (R_COMMA, d ","); (R_COMMA, d ","); (R_ATOM, d "x")].
Proof.
  cbv zeta. split.
  - split; [vm_compute; intuition discriminate | vm_compute; discriminate].
  - vm_compute. reflexivity.
Qed.
