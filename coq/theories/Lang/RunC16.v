(* executable entry point of the C16 check (round 3): Lang/Denote.run_c16 plus the fingerprint of the UTF-8 bytes of
   the source text as the model encodes it (Lang/Utf8.v) -- the harness compares it with the bytes Python writes to the
   file that compile_prolog_from_file and the command line read. *)
From Coq Require Import List NArith.
Import ListNotations.
From YP Require Import Base.Str Lang.Ast Lang.Denote Lang.Utf8.

Definition run_c16b (s : str) (envs : list (list (str * sterm))) (calls : list (bool * str)) : obs :=
  OL [run_c16 s envs calls; utf8_fingerprint s].

(* a FILE given as bytes (any bytes, not necessarily valid UTF-8) holding one fact whose first argument is a quoted atom:
   what compile_prolog_from_file / the command line read -- "undecodable" (UnicodeDecodeError), "syntax" (the decoded
   text is refused by the front end, e.g. a byte order mark in front of the first clause), or the name of the atom *)
From Coq Require Import String.
From YP Require Import Lang.Front Lang.FileEntry.
Local Open Scope string_scope.

Definition run_bytes (b : list N) : obs :=
  match utf8_decode b with
  | None => otag "undecodable" nil
  | Some s =>
      match front s with
      | Some (c :: _) =>
          match c_args c with
          | SAtom a :: _ => otag "atom" (OS a :: nil)
          | _ => otag "other" nil
          end
      | _ => otag "syntax" nil
      end
  end.
