(* executable entry point of the C16 check (round 3): Lang/Denote.run_c16 plus the fingerprint of the UTF-8 bytes of
   the source text as the model encodes it (Lang/Utf8.v) -- the harness compares it with the bytes Python writes to the
   file that compile_prolog_from_file and the command line read. *)
From Coq Require Import List NArith.
Import ListNotations.
From YP Require Import Base.Str Lang.Ast Lang.Denote Lang.Utf8.

Definition run_c16b (s : str) (envs : list (list (str * sterm))) (calls : list (bool * str)) : obs :=
  OL [run_c16 s envs calls; utf8_fingerprint s].
