(* Observation of ASTs for the correspondence harness (harness/lib/ast_io.py uses the same shape). *)
From Coq Require Import String.
From Coq Require Import List ZArith.
Import ListNotations.
From YP Require Import Base.Str Lang.Ast.
Local Open Scope string_scope.

Fixpoint sterm_obs (t : sterm) : obs :=
  match t with
  | SAtom a => otag "atom" [OS a]
  | SNum n => otag "num" [OS n]
  | SVar v => otag "var" [OS v]
  | SFun f args => otag "fun" [OS f; OL (map sterm_obs args)]
  | SList items => otag "list" [OL (map sterm_obs items)]
  | SPair h t => otag "pair" [sterm_obs h; sterm_obs t]
  end.

Fixpoint body_obs (b : body) : obs :=
  match b with
  | BTrue => otag "true" []
  | BFail => otag "fail" []
  | BCut => otag "cut" []
  | BCall f args => otag "call" [OS f; OL (map sterm_obs args)]
  | BMark l => otag "mark" [onat l]
  | BAnd a b => otag "and" [body_obs a; body_obs b]
  | BOr a b => otag "or" [body_obs a; body_obs b]
  | BIf a b => otag "if" [body_obs a; body_obs b]
  | BNot a => otag "not" [body_obs a]
  end.

Definition clause_obs (c : clause) : obs :=
  OL [OS (c_name c); OL (map sterm_obs (c_args c)); body_obs (c_body c)].
Definition program_obs (p : program) : obs := OL (map clause_obs p).
