(* The visitor YPPrologVisitor (yp_prolog_visitor.py): parse tree -> AST of Lang/Ast.v.

   * unquoteString as written: the characters strictly between the first and the last one, every
     backslash dropped (so \' gives ', and a backslash can never be part of an atom).
   * terms: atoms, numerals (digits kept as written), variables, compound terms (also for the
     prefix and infix operators and for BINOP '(' t ',' t ')'), parentheses vanish, `[...]` gives
     ListTerm, `[t1,...,tn|V]` is folded to ListPairTerm(t1, ... ListPairTerm(tn, V)).
   * every VARIABLE token whose text is `_` becomes AnonymousVariableTerm(counter) named x<counter+1>
     and increments the visitor's counter; the counter lives as long as the visitor = one compilation.
     Sub-terms are visited in source order.
   * what is refused.  visitTermpredicate raises CompilerError unless the visited term is an Atom or a
     Functor (`callable_shape`).  visitClause raises unless the head name matches
     [A-Za-z_][A-Za-z0-9_]* ; a head that is true/fail/! makes visitProgram raise (AttributeError).
     Two kinds of term objects are built by the visitor without complaint and make the COMPILER raise:
     - the value None for `name/arity`: compile_function_body reads `.variables` of the whole clause (head and
       body, dead code included), which raises AttributeError on None wherever it occurs in the clause.  The
       model has no AST for it: v_term returns None for the term (the counter still advances), a clause
       containing one has no AST, front fails;
     - a Functor whose name is a NumeralTerm (`1(a)`): its `.variables` work, and only compile_expression /
       compile_predicate raise (`.name.value`) when they are actually CALLED on it -- which does not happen for
       goals that compile_body drops as dead code (the continuation of `fail`: `p :- fail, 1(a).` compiles).
       The model therefore keeps such a functor in the AST under the name `\` ++ digits (a backslash can never
       occur in the name of an atom of a source text, unquoteString removes them all; the only other names with a
       backslash are the operators \= and \==), and the compiler model
       (Lang/FrontCompile.compile_front) refuses exactly when that name reaches the intermediate code.
   * directives are visited -- they can raise, and their `_` advance the counter -- and dropped. *)
From Coq Require Import List NArith Arith Bool.
Import ListNotations.
From YP Require Import Base.Str Lang.Ast Lang.Lexer Lang.Cst Lang.Parser.

(* i = 1; while i < len(s)-1: if s[i] == '\\': i += 1  else: r += s[i]; i += 1 *)
Fixpoint unq_loop (s : str) : str :=
  match s with
  | [] => []
  | [_] => []
  | c :: r => if N.eqb c 92 then unq_loop r else c :: unq_loop r
  end.
Definition unquote (s : str) : str := unq_loop (tl s).

Definition anon_name (k : nat) : str := 120%N :: dec_of_nat (S k).      (* f'x{self.num+1}' *)
Definition is_anon (v : str) : bool := str_eqb v [95%N].

Definition atom_name (a : catom) : option str :=
  match a with
  | A_ATOM t => Some t
  | A_STRING t => Some (unquote t)
  | A_NUMERAL t => Some (92%N :: t)       (* Functor(NumeralTerm(t), ..): see above *)
  end.

Definition v_var (v : str) (k : nat) : sterm * nat :=
  if is_anon v then (SVar (anon_name k), S k) else (SVar v, k).

Definition opt2 {A B C} (f : A -> B -> C) (a : option A) (b : option B) : option C :=
  match a, b with Some x, Some y => Some (f x y) | _, _ => None end.

(* functools.reduce(lambda x,y: ListPairTerm(y,x), reversed(terms), var) *)
Definition fold_pairs (items : list sterm) (tail : sterm) : sterm := fold_right SPair tail items.

Fixpoint v_term (t : cterm) (k : nat) : option sterm * nat :=
  let v_terms := fix go (l : list cterm) (k : nat) : option (list sterm) * nat :=
    match l with
    | [] => (Some [], k)
    | x :: r =>
        let '(x', k1) := v_term x k in
        let '(r', k2) := go r k1 in
        (opt2 cons x' r', k2)
    end in
  match t with
  | T_atom (A_ATOM x) => (Some (SAtom x), k)
  | T_atom (A_NUMERAL x) => (Some (SNum x), k)
  | T_atom (A_STRING x) => (Some (SAtom (unquote x)), k)
  | T_functor a args =>
      let '(args', k1) := v_terms args k in
      (opt2 SFun (atom_name a) args', k1)
  | T_arity _ _ => (None, k)
  | T_var v => let '(x, k1) := v_var v k in (Some x, k1)
  | T_unop op t =>
      let '(t', k1) := v_term t k in
      (option_map (fun x => SFun op [x]) t', k1)
  | T_binop l op r | T_binop_prefix op l r =>
      let '(l', k1) := v_term l k in
      let '(r', k2) := v_term r k1 in
      (opt2 (fun x y => SFun op [x; y]) l' r', k2)
  | T_paren t => v_term t k
  | T_list items =>
      let '(l, k1) := v_terms items k in
      (option_map SList l, k1)
  | T_listpair1 h v =>
      let '(h', k1) := v_term h k in
      let '(x, k2) := v_var v k1 in
      (option_map (fun a => fold_pairs [a] x) h', k2)
  | T_listpair2 h rest v =>
      let '(h', k1) := v_term h k in
      let '(l, k2) := v_terms rest k1 in
      let '(x, k3) := v_var v k2 in
      (opt2 (fun a b => fold_pairs (a :: b) x) h' l, k3)
  end.

Fixpoint v_terms (l : list cterm) (k : nat) : option (list sterm) * nat :=
  match l with
  | [] => (Some [], k)
  | x :: r =>
      let '(x', k1) := v_term x k in
      let '(r', k2) := v_terms r k1 in
      (opt2 cons x' r', k2)
  end.

(* isinstance(t, Atom) or isinstance(t, Functor) for t = visitTerm(ctx) *)
Fixpoint callable_shape (t : cterm) : bool :=
  match t with
  | T_atom (A_ATOM _) | T_atom (A_STRING _) => true
  | T_functor _ _ | T_unop _ _ | T_binop _ _ _ | T_binop_prefix _ _ _ => true
  | T_paren t => callable_shape t
  | _ => false
  end.

(* a goal or head: name and arguments *)
Definition v_callable (t : cterm) (k : nat) : option (str * list sterm * nat) :=
  if callable_shape t then
    match v_term t k with
    | (Some (SAtom f), k1) => Some (f, [], k1)
    | (Some (SFun f args), k1) => Some (f, args, k1)
    | _ => None
    end
  else None.

Definition v_goal (sp : simplepred) (k : nat) : option (body * nat) :=
  match sp with
  | SP_true => Some (BTrue, k)
  | SP_fail => Some (BFail, k)
  | SP_cut => Some (BCut, k)
  | SP_term t => do '(f, args, k1) <- v_callable t k; Some (BCall f args, k1)
  end.

Fixpoint v_pe (p : pexpr) (k : nat) : option (body * nat) :=
  match p with
  | PE_simple sp => v_goal sp k
  | PE_not a => do '(a', k1) <- v_pe a k; Some (BNot a', k1)
  | PE_and a b => do '(a', k1) <- v_pe a k; do '(b', k2) <- v_pe b k1; Some (BAnd a' b', k2)
  | PE_if a b => do '(a', k1) <- v_pe a k; do '(b', k2) <- v_pe b k1; Some (BIf a' b', k2)
  | PE_or a b => do '(a', k1) <- v_pe a k; do '(b', k2) <- v_pe b k1; Some (BOr a' b', k2)
  | PE_paren a => v_pe a k
  end.

(* re.fullmatch(r'[A-Za-z_][A-Za-z0-9_]*', name) *)
Definition valid_pred_name (f : str) : bool :=
  match f with
  | c :: r => (is_lc c || is_uc c) && forallb is_character r
  | [] => false
  end.

Definition v_head (sp : simplepred) (k : nat) : option (str * list sterm * nat) :=
  match sp with
  | SP_term t =>
      do '(f, args, k1) <- v_callable t k;
      if valid_pred_name f then Some (f, args, k1) else None
  | _ => None          (* true. fail. !.  are clauses of the grammar that visitProgram cannot file *)
  end.

Definition v_clause (c : cclause) (k : nat) : option (clause * nat) :=
  match c with
  | C_fact h =>
      do '(f, args, k1) <- v_head h k;
      Some ({| c_name := f; c_args := args; c_body := BTrue |}, k1)
  | C_rule h b =>
      do '(f, args, k1) <- v_head h k;
      do '(b', k2) <- v_pe b k1;
      Some ({| c_name := f; c_args := args; c_body := b' |}, k2)
  end.

Definition v_directive (sp : simplepred) (k : nat) : option nat :=
  match sp with
  | SP_term t => if callable_shape t then Some (snd (v_term t k)) else None
  | _ => Some k
  end.

Fixpoint v_program (p : cprogram) (k : nat) : option (program * nat) :=
  match p with
  | [] => Some ([], k)
  | CD_directive sp :: r => do 'k1 <- v_directive sp k; v_program r k1
  | CD_clause c :: r =>
      do '(cl, k1) <- v_clause c k;
      do '(l, k2) <- v_program r k1;
      Some (cl :: l, k2)
  end.

(* ------------------------------------------------------------------ what the visitor keeps *)

(* AST_CLAUSE_COUNT: the program handed to the compiler has exactly one clause per `clause` node of the
   parse tree, in source order, each the image of its node (directives contribute nothing). *)
Definition clause_image (cc : cclause) (c : clause) : Prop := exists k k', v_clause cc k = Some (c, k').

Theorem v_program_clauses cst : forall k prog k', v_program cst k = Some (prog, k') ->
  Forall2 clause_image (clauses_of cst) prog.
Proof.
  induction cst as [|c cst IH]; intros k prog k' H; simpl in H.
  - injection H as <- _. constructor.
  - destruct c as [cc|sp].
    + destruct (v_clause cc k) as [[cl k1]|] eqn:E; [|discriminate].
      destruct (v_program cst k1) as [[l k2]|] eqn:E1; [|discriminate].
      injection H as <- _. simpl. constructor; [exists k, k1; exact E | eapply IH; eauto].
    + destruct (v_directive sp k) as [k1|]; [|discriminate]. simpl. eapply IH; eauto.
Qed.

Corollary v_program_count cst k prog k' : v_program cst k = Some (prog, k') ->
  length prog = length (clauses_of cst).
Proof.
  intros H. apply v_program_clauses in H. induction H; simpl; congruence.
Qed.

(* the head of an AST clause is the head of its node: name and arguments come from the visited head term *)
Lemma clause_image_head cc c : clause_image cc c ->
  exists t k k1, (cc = C_fact (SP_term t) \/ exists b, cc = C_rule (SP_term t) b) /\
    v_callable t k = Some (c_name c, c_args c, k1) /\ valid_pred_name (c_name c) = true.
Proof.
  intros [k [k' H]]. destruct cc as [h|h b]; simpl in H.
  - destruct h as [| | |t]; try discriminate. simpl in H.
    destruct (v_callable t k) as [[[f args] k1]|] eqn:E; [|discriminate].
    destruct (valid_pred_name f) eqn:Ev; [|discriminate]. injection H as <- _.
    exists t, k, k1. simpl. auto.
  - destruct h as [| | |t]; try discriminate. simpl in H.
    destruct (v_callable t k) as [[[f args] k1]|] eqn:E; [|discriminate].
    destruct (valid_pred_name f) eqn:Ev; [|discriminate].
    destruct (v_pe b k1) as [[b' k2]|]; [|discriminate]. injection H as <- _.
    exists t, k, k1. simpl. split; [right; eauto | auto].
Qed.
