(* The byte layer under compile_prolog_from_file and the command line (compiler.py):

     FileStream(path, encoding='utf8')  /  StdinStream(encoding='utf8')
       = read the BYTES of the file (binary mode: no line-ending conversion, no byte-order-mark handling),
         codecs.decode(bytes, 'utf8', 'strict'), hand the code points to the lexer

   so   compile_prolog_from_file(path) = compile_prolog_from_string(decode(bytes of path)).
   Modelled here: UTF-8 encoding and strict decoding (shortest form only, no surrogates, at most U+10FFFF), and
   the theorem that every text of Unicode scalar values written to a file as UTF-8 is read back as exactly that
   text -- every CR, CR LF, NEL, LS, PS, byte order mark and NUL included, inside and outside quoted atoms.
   Hence every statement about the literals of a source TEXT (Properties/C16.v) is a statement about the
   literals of the FILE that holds its UTF-8 bytes. *)
From Coq Require Import List NArith ZArith Bool Lia.
Import ListNotations.
From YP Require Import Base.Str.
Local Open Scope N_scope.

Definition is_scalar (c : N) : bool := (c <? 55296) || ((57344 <=? c) && (c <? 1114112)).

Definition enc1 (c : N) : list N :=
  if c <? 128 then [c]
  else if c <? 2048 then [192 + c / 64; 128 + c mod 64]
  else if c <? 65536 then [224 + c / 64 / 64; 128 + (c / 64) mod 64; 128 + c mod 64]
  else [240 + c / 64 / 64 / 64; 128 + (c / 64 / 64) mod 64; 128 + (c / 64) mod 64; 128 + c mod 64].

Definition utf8_encode (s : str) : list N := flat_map enc1 s.

Definition cont (b : N) : bool := (128 <=? b) && (b <? 192).

Definition ocons (c : N) (o : option str) : option str :=
  match o with Some r => Some (c :: r) | None => None end.

(* strict decoder: None = UnicodeDecodeError *)
Fixpoint utf8_decode (l : list N) : option str :=
  match l with
  | [] => Some []
  | b0 :: r =>
      if b0 <? 128 then ocons b0 (utf8_decode r)
      else if b0 <? 192 then None
      else if b0 <? 224 then
        match r with
        | b1 :: r1 =>
            let c := (b0 - 192) * 64 + (b1 - 128) in
            if cont b1 && (128 <=? c) then ocons c (utf8_decode r1) else None
        | _ => None
        end
      else if b0 <? 240 then
        match r with
        | b1 :: b2 :: r2 =>
            let c := (b0 - 224) * 4096 + (b1 - 128) * 64 + (b2 - 128) in
            if cont b1 && cont b2 && (2048 <=? c) && is_scalar c then ocons c (utf8_decode r2) else None
        | _ => None
        end
      else if b0 <? 248 then
        match r with
        | b1 :: b2 :: b3 :: r3 =>
            let c := (b0 - 240) * 262144 + (b1 - 128) * 4096 + (b2 - 128) * 64 + (b3 - 128) in
            if cont b1 && cont b2 && cont b3 && (65536 <=? c) && (c <? 1114112) then ocons c (utf8_decode r3) else None
        | _ => None
        end
      else None
  end.

Lemma cont_ok r : r < 64 -> cont (128 + r) = true.
Proof.
  intros H. unfold cont. apply andb_true_intro. split; [apply N.leb_le | apply N.ltb_lt]; lia.
Qed.

Lemma is_scalar_spec c : is_scalar c = true <-> (c < 55296 \/ (57344 <= c /\ c < 1114112)).
Proof.
  unfold is_scalar. rewrite orb_true_iff, andb_true_iff, N.ltb_lt, N.leb_le, N.ltb_lt. reflexivity.
Qed.

Lemma split64 a : exists q r, a = 64 * q + r /\ r < 64 /\ a / 64 = q /\ a mod 64 = r.
Proof.
  exists (a / 64), (a mod 64). repeat split.
  - apply N.div_mod. discriminate.
  - apply N.mod_lt. discriminate.
Qed.

Lemma dec_1 a rest : a < 128 -> utf8_decode (a :: rest) = ocons a (utf8_decode rest).
Proof. intros H. cbn [utf8_decode]. destruct (N.ltb_spec a 128); [reflexivity | lia]. Qed.

Lemma dec_2 a rest : 128 <= a -> a < 2048 ->
  utf8_decode ((192 + a / 64) :: (128 + a mod 64) :: rest) = ocons a (utf8_decode rest).
Proof.
  intros L H. destruct (split64 a) as [q [r [E [R [-> ->]]]]].
  cbn [utf8_decode].
  destruct (N.ltb_spec (192 + q) 128); [lia|].
  destruct (N.ltb_spec (192 + q) 192); [lia|].
  destruct (N.ltb_spec (192 + q) 224); [|lia].
  rewrite (cont_ok r R).
  replace ((192 + q - 192) * 64 + (128 + r - 128)) with a by lia.
  destruct (N.leb_spec 128 a); [reflexivity | lia].
Qed.

Lemma dec_3 a rest : 2048 <= a -> a < 65536 -> is_scalar a = true ->
  utf8_decode ((224 + a / 64 / 64) :: (128 + (a / 64) mod 64) :: (128 + a mod 64) :: rest) = ocons a (utf8_decode rest).
Proof.
  intros L H S. destruct (split64 a) as [q [r [E [R [-> ->]]]]].
  destruct (split64 q) as [q2 [r2 [E2 [R2 [-> ->]]]]].
  cbn [utf8_decode].
  destruct (N.ltb_spec (224 + q2) 128); [lia|].
  destruct (N.ltb_spec (224 + q2) 192); [lia|].
  destruct (N.ltb_spec (224 + q2) 224); [lia|].
  destruct (N.ltb_spec (224 + q2) 240); [|lia].
  rewrite (cont_ok r R), (cont_ok r2 R2).
  replace ((224 + q2 - 224) * 4096 + (128 + r2 - 128) * 64 + (128 + r - 128)) with a by lia.
  rewrite S. destruct (N.leb_spec 2048 a); [reflexivity | lia].
Qed.

Lemma dec_4 a rest : 65536 <= a -> a < 1114112 ->
  utf8_decode ((240 + a / 64 / 64 / 64) :: (128 + (a / 64 / 64) mod 64) :: (128 + (a / 64) mod 64) :: (128 + a mod 64) :: rest)
  = ocons a (utf8_decode rest).
Proof.
  intros L H. destruct (split64 a) as [q [r [E [R [-> ->]]]]].
  destruct (split64 q) as [q2 [r2 [E2 [R2 [-> ->]]]]].
  destruct (split64 q2) as [q3 [r3 [E3 [R3 [-> ->]]]]].
  cbn [utf8_decode].
  destruct (N.ltb_spec (240 + q3) 128); [lia|].
  destruct (N.ltb_spec (240 + q3) 192); [lia|].
  destruct (N.ltb_spec (240 + q3) 224); [lia|].
  destruct (N.ltb_spec (240 + q3) 240); [lia|].
  destruct (N.ltb_spec (240 + q3) 248); [|lia].
  rewrite (cont_ok r R), (cont_ok r2 R2), (cont_ok r3 R3).
  replace ((240 + q3 - 240) * 262144 + (128 + r3 - 128) * 4096 + (128 + r2 - 128) * 64 + (128 + r - 128)) with a by lia.
  destruct (N.leb_spec 65536 a); [|lia].
  destruct (N.ltb_spec a 1114112); [reflexivity | lia].
Qed.

Lemma dec_enc1 a rest : is_scalar a = true -> utf8_decode (enc1 a ++ rest) = ocons a (utf8_decode rest).
Proof.
  intros S. pose proof (proj1 (is_scalar_spec a) S) as Sp. unfold enc1.
  destruct (N.ltb_spec a 128); [apply dec_1; assumption|].
  destruct (N.ltb_spec a 2048); [apply dec_2; assumption|].
  destruct (N.ltb_spec a 65536); [apply dec_3; assumption|].
  apply dec_4; lia.
Qed.

(* ROUND TRIP: a text of Unicode scalar values, stored as UTF-8, is read back as itself *)
Theorem utf8_roundtrip s : forallb is_scalar s = true -> utf8_decode (utf8_encode s) = Some s.
Proof.
  induction s as [|a s IH]; intros H; [reflexivity|].
  cbn [forallb] in H. apply andb_true_iff in H. destruct H as [Ha Hs].
  cbn [utf8_encode flat_map]. rewrite dec_enc1 by exact Ha.
  fold (utf8_encode s). rewrite (IH Hs). reflexivity.
Qed.

Lemma utf8_encode_app s t : utf8_encode (s ++ t) = utf8_encode s ++ utf8_encode t.
Proof. unfold utf8_encode. apply flat_map_app. Qed.

(* no byte of an encoded non-ASCII character is an ASCII byte: CR (13), LF (10), quote (39) and backslash (92)
   bytes of the file are exactly the CR, LF, quote and backslash characters of the text *)
Lemma enc1_ascii_bytes a b : In b (enc1 a) -> b < 128 -> a = b.
Proof.
  unfold enc1. destruct (N.ltb_spec a 128).
  - intros [<-|[]] _. reflexivity.
  - intros Hin Hb. exfalso.
    assert (G : forall x, b <> 128 + x) by (intros x; lia).
    assert (G1 : forall x, b <> 192 + x) by (intros x; lia).
    assert (G2 : forall x, b <> 224 + x) by (intros x; lia).
    assert (G3 : forall x, b <> 240 + x) by (intros x; lia).
    destruct (N.ltb_spec a 2048); [|destruct (N.ltb_spec a 65536)]; cbn [In] in Hin;
      repeat (destruct Hin as [Hin|Hin]; [symmetry in Hin; first [apply G in Hin | apply G1 in Hin | apply G2 in Hin | apply G3 in Hin]; exact Hin|]);
      exact Hin.
Qed.

Theorem utf8_ascii_bytes_are_characters s b : In b (utf8_encode s) -> b < 128 -> In b s.
Proof.
  unfold utf8_encode. rewrite in_flat_map. intros [a [Ha Hb]] L.
  rewrite <- (enc1_ascii_bytes a b Hb L). exact Ha.
Qed.

(* a cheap fingerprint of a byte string, for the differential check: (length, polynomial hash) *)
Fixpoint poly_hash (l : list N) (h : N) : N :=
  match l with [] => h | b :: r => poly_hash r ((h * 257 + b + 1) mod 1000000007) end.

Definition utf8_fingerprint (s : str) : obs :=
  let b := utf8_encode s in
  OL [OZ (Z.of_N (N.of_nat (length b))); OZ (Z.of_N (poly_hash b 0));
      obool (match utf8_decode b with Some s' => str_eqb s' s | None => false end)].
