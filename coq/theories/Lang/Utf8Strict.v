(* Strictness of the UTF-8 decoder of Lang/Utf8.v (what codecs.decode(bytes, 'utf8', 'strict') accepts): only encodings. *)
From Coq Require Import List NArith ZArith Bool Lia.
Import ListNotations.
From YP Require Import Base.Str Lang.Utf8.
Local Open Scope N_scope.
Ltac Zify.zify_post_hook ::= Z.div_mod_to_equations.

Lemma cont_spec b : cont b = true -> 128 <= b /\ b < 192.
Proof. unfold cont. rewrite andb_true_iff, N.leb_le, N.ltb_lt. tauto. Qed.

Lemma ocons_some c o s : ocons c o = Some s -> exists r, o = Some r /\ s = c :: r.
Proof. destruct o as [r|]; cbn; [|discriminate]. intros H. injection H as <-. eauto. Qed.

Lemma enc1_2 b0 b1 : 192 <= b0 -> b0 < 224 -> 128 <= b1 -> b1 < 192 -> 128 <= (b0 - 192) * 64 + (b1 - 128) ->
  enc1 ((b0 - 192) * 64 + (b1 - 128)) = [b0; b1].
Proof.
  intros A0 A1 B0 B1 L.
  remember (b0 - 192) as q eqn:Eq. remember (b1 - 128) as r eqn:Er.
  assert (Q : q < 32) by lia. assert (R : r < 64) by lia.
  assert (D : (q * 64 + r) / 64 = q) by (symmetry; apply (N.div_unique _ 64 q r); lia).
  assert (M : (q * 64 + r) mod 64 = r) by (symmetry; apply (N.mod_unique _ 64 q r); lia).
  unfold enc1.
  destruct (N.ltb_spec (q * 64 + r) 128); [lia|]. destruct (N.ltb_spec (q * 64 + r) 2048); [|lia].
  rewrite D, M. f_equal; [lia|]. f_equal. lia.
Qed.

Lemma enc1_3 b0 b1 b2 : 224 <= b0 -> b0 < 240 -> 128 <= b1 -> b1 < 192 -> 128 <= b2 -> b2 < 192 ->
  2048 <= (b0 - 224) * 4096 + (b1 - 128) * 64 + (b2 - 128) ->
  enc1 ((b0 - 224) * 4096 + (b1 - 128) * 64 + (b2 - 128)) = [b0; b1; b2].
Proof.
  intros A0 A1 B0 B1 C0 C1 L.
  remember (b0 - 224) as q eqn:Eq. remember (b1 - 128) as r1 eqn:Er1. remember (b2 - 128) as r eqn:Er.
  assert (Q : q < 16) by lia. assert (R1 : r1 < 64) by lia. assert (R : r < 64) by lia.
  assert (D : (q * 4096 + r1 * 64 + r) / 64 = q * 64 + r1) by (symmetry; apply (N.div_unique _ 64 _ r); lia).
  assert (M : (q * 4096 + r1 * 64 + r) mod 64 = r) by (symmetry; apply (N.mod_unique _ 64 (q * 64 + r1) r); lia).
  assert (D2 : (q * 64 + r1) / 64 = q) by (symmetry; apply (N.div_unique _ 64 q r1); lia).
  assert (M2 : (q * 64 + r1) mod 64 = r1) by (symmetry; apply (N.mod_unique _ 64 q r1); lia).
  unfold enc1.
  destruct (N.ltb_spec (q * 4096 + r1 * 64 + r) 128); [lia|].
  destruct (N.ltb_spec (q * 4096 + r1 * 64 + r) 2048); [lia|].
  destruct (N.ltb_spec (q * 4096 + r1 * 64 + r) 65536); [|lia].
  rewrite D, M, D2, M2. f_equal; [lia|]. f_equal; [lia|]. f_equal. lia.
Qed.

Lemma enc1_4 b0 b1 b2 b3 : 240 <= b0 -> b0 < 248 -> 128 <= b1 -> b1 < 192 -> 128 <= b2 -> b2 < 192 -> 128 <= b3 -> b3 < 192 ->
  65536 <= (b0 - 240) * 262144 + (b1 - 128) * 4096 + (b2 - 128) * 64 + (b3 - 128) ->
  enc1 ((b0 - 240) * 262144 + (b1 - 128) * 4096 + (b2 - 128) * 64 + (b3 - 128)) = [b0; b1; b2; b3].
Proof.
  intros A0 A1 B0 B1 C0 C1 D0 D1 L.
  remember (b0 - 240) as q eqn:Eq. remember (b1 - 128) as r2 eqn:Er2. remember (b2 - 128) as r1 eqn:Er1. remember (b3 - 128) as r eqn:Er.
  assert (Q : q < 8) by lia. assert (R2 : r2 < 64) by lia. assert (R1 : r1 < 64) by lia. assert (R : r < 64) by lia.
  assert (D : (q * 262144 + r2 * 4096 + r1 * 64 + r) / 64 = q * 4096 + r2 * 64 + r1) by (symmetry; apply (N.div_unique _ 64 _ r); lia).
  assert (M : (q * 262144 + r2 * 4096 + r1 * 64 + r) mod 64 = r) by (symmetry; apply (N.mod_unique _ 64 (q * 4096 + r2 * 64 + r1) r); lia).
  assert (D2 : (q * 4096 + r2 * 64 + r1) / 64 = q * 64 + r2) by (symmetry; apply (N.div_unique _ 64 _ r1); lia).
  assert (M2 : (q * 4096 + r2 * 64 + r1) mod 64 = r1) by (symmetry; apply (N.mod_unique _ 64 (q * 64 + r2) r1); lia).
  assert (D3 : (q * 64 + r2) / 64 = q) by (symmetry; apply (N.div_unique _ 64 q r2); lia).
  assert (M3 : (q * 64 + r2) mod 64 = r2) by (symmetry; apply (N.mod_unique _ 64 q r2); lia).
  unfold enc1.
  destruct (N.ltb_spec (q * 262144 + r2 * 4096 + r1 * 64 + r) 128); [lia|].
  destruct (N.ltb_spec (q * 262144 + r2 * 4096 + r1 * 64 + r) 2048); [lia|].
  destruct (N.ltb_spec (q * 262144 + r2 * 4096 + r1 * 64 + r) 65536); [lia|].
  rewrite D, M, D2, M2, D3, M3. f_equal; [lia|]. f_equal; [lia|]. f_equal; [lia|]. f_equal. lia.
Qed.

(* STRICTNESS: the decoder accepts nothing but encodings -- bytes that decode to a text are THE encoding of that text
   (shortest form, no surrogates, nothing above U+10FFFF), so a file and the text read from it determine each other *)
Lemma utf8_decode_strict_n : forall n l, (length l <= n)%nat -> forall s, utf8_decode l = Some s -> l = utf8_encode s.
Proof.
  induction n as [|n IH]; intros l Hn s H.
  - destruct l; [|cbn in Hn; lia]. cbn in H. injection H as <-. reflexivity.
  - destruct l as [|b0 r]; [cbn in H; injection H as <-; reflexivity|].
    cbn [length] in Hn. cbn [utf8_decode] in H.
    destruct (N.ltb_spec b0 128) as [L0|L0].
    { apply ocons_some in H. destruct H as [rest [Hd ->]]. rewrite (IH r ltac:(lia) rest Hd).
      cbn [utf8_encode flat_map]. unfold enc1. destruct (N.ltb_spec b0 128); [reflexivity|lia]. }
    destruct (N.ltb_spec b0 192) as [L1|L1]; [discriminate|].
    destruct (N.ltb_spec b0 224) as [L2|L2].
    { destruct r as [|b1 r1]; [discriminate|]. cbn [length] in Hn.
      destruct (cont b1 && (128 <=? (b0 - 192) * 64 + (b1 - 128))) eqn:C; [|discriminate].
      rewrite andb_true_iff in C. destruct C as [C1 C2]. apply cont_spec in C1. apply N.leb_le in C2.
      apply ocons_some in H. destruct H as [rest [Hd ->]]. rewrite (IH r1 ltac:(lia) rest Hd).
      cbn [utf8_encode flat_map]. rewrite enc1_2 by lia. reflexivity. }
    destruct (N.ltb_spec b0 240) as [L3|L3].
    { destruct r as [|b1 [|b2 r2]]; try discriminate. cbn [length] in Hn.
      destruct (cont b1 && cont b2 && (2048 <=? (b0 - 224) * 4096 + (b1 - 128) * 64 + (b2 - 128)) &&
                is_scalar ((b0 - 224) * 4096 + (b1 - 128) * 64 + (b2 - 128))) eqn:C; [|discriminate].
      rewrite !andb_true_iff in C. destruct C as [[[C1 C2] C3] C4].
      apply cont_spec in C1. apply cont_spec in C2. apply N.leb_le in C3.
      apply ocons_some in H. destruct H as [rest [Hd ->]]. rewrite (IH r2 ltac:(lia) rest Hd).
      cbn [utf8_encode flat_map]. rewrite enc1_3 by lia. reflexivity. }
    destruct (N.ltb_spec b0 248) as [L4|L4]; [|discriminate].
    destruct r as [|b1 [|b2 [|b3 r3]]]; try discriminate. cbn [length] in Hn.
    destruct (cont b1 && cont b2 && cont b3 &&
              (65536 <=? (b0 - 240) * 262144 + (b1 - 128) * 4096 + (b2 - 128) * 64 + (b3 - 128)) &&
              ((b0 - 240) * 262144 + (b1 - 128) * 4096 + (b2 - 128) * 64 + (b3 - 128) <? 1114112)) eqn:C; [|discriminate].
    rewrite !andb_true_iff in C. destruct C as [[[[C1 C2] C3] C4] C5].
    apply cont_spec in C1. apply cont_spec in C2. apply cont_spec in C3. apply N.leb_le in C4.
    apply ocons_some in H. destruct H as [rest [Hd ->]]. rewrite (IH r3 ltac:(lia) rest Hd).
    cbn [utf8_encode flat_map]. rewrite enc1_4 by lia. reflexivity.
Qed.

Theorem utf8_decode_strict l s : utf8_decode l = Some s -> l = utf8_encode s.
Proof. apply (utf8_decode_strict_n (length l)). apply le_n. Qed.

