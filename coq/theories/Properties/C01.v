(* C01 - compiled clauses compute exactly Prolog's answers, in order.
   Only statements; every proof is `exact <lemma>`. *)
From Coq Require Import String.
From Coq Require Import List Arith ZArith.
Import ListNotations.
From YP Require Import Base.Str Term.Term Unify.Unify Lang.Ast Comp.IR Comp.CompileBody Comp.CompileClause Comp.CompileTotal
  Sem.Res Sem.RefSem Sem.IRSem Sem.ControlCorrect Sem.Machine Sem.ClauseSem Sem.ProgramCorrect Sem.SpecLemmas Sem.Fresh Sem.SldR Sem.RenameSim Sem.Main.
From YP Require Import Unify.Rename Lang.Front Comp.Emit Comp.PyRepr Comp.CompileText Sem.SourceMain.
From YP Require Import Lang.Lexer Lang.Cst Lang.Unquote Lang.Literals.

(* the model compiler produces code for every program (it never gets stuck, whatever the nesting) *)
Theorem C01_compile_program_total : forall p, compile_program p <> None.
Proof. exact compile_program_total. Qed.
Print Assumptions C01_compile_program_total.

(* MAIN THEOREM.  For every program P (any number of predicates, arities, clauses; heads with repeated,
   nested and anonymous variables; bodies over calls, =, \=, true, fail and all control constructs; good_program only
   says that the bodies contain no internal $CUTIF marker, which source text cannot produce), for every call depth n,
   every predicate name, every argument list and every state (store of active bindings + next fresh cell):
   running the emitted code of the compiled program (Machine.query: the model of the generated Python -
   nested for-loops over unify()/query(), the doBreak / cutIfN flag protocol, return for cut, variable()
   allocations) yields EXACTLY the answer sequence - same stores, same order, same multiplicity, same
   way of ending (normally or by the depth error) - of the clause-level reference semantics solveA
   (ClauseSem.v: clauses in source order, fresh cells for the clause variables, head unification left to
   right by the engine's unification, body under the textbook control semantics RefSem.sem, cut local
   to the predicate). *)
Theorem C01_compiled_program_computes_reference : forall n p ir,
  compile_program p = Some ir -> good_program p ->
  forall name args s, query n ir name args s = solveA n p name args s.
Proof. exact machine_computes_clause_semantics. Qed.
Print Assumptions C01_compiled_program_computes_reference.

(* END-TO-END.  SldR.solveR is SLD resolution in its plainest form: every clause is renamed apart (all its
   variables get fresh cells), the head is unified with the goal by the engine's unification (a most general
   unifier: C02), clauses in source order, bodies depth-first and left to right under the textbook control
   semantics, cut local to the predicate.  For every program,
   every depth, predicate, argument list and well-formed state: the compiled program's answer sequence and
   solveR's have the same length and end the same way, and the k-th answers agree on every cell that
   existed before the query up to an injective renaming p' of the cells created during the query, p' being
   the identity on the old cells - i.e. the same bindings up to renaming of unbound variables, including the
   aliasing between them (same_answer). *)
Theorem C01_compiled_program_is_sld : forall n p ir,
  compile_program p = Some ir -> good_program p ->
  forall name args s, wf (sto s) -> inv s -> Forall (bounded (nxt s)) args ->
  Forall2 (same_answer s) (fst (query n ir name args s)) (fst (solveR n p name args s)) /\
  snd (query n ir name args s) = snd (solveR n p name args s).
Proof. exact compiled_program_is_sld. Qed.
Print Assumptions C01_compiled_program_is_sld.

(* FROM SOURCE TEXT.  compile_text is the model of compile_prolog_from_string (lexer, parser, visitor,
   compiler, emitter with Python's repr, CPython's static limits; compared byte for byte with the
   implementation in the C11 check).  Whatever text it accepts is a program P (front s = Some P) whose emitted
   text is the emission of intermediate code that computes, for every query, depth and well-formed state, the
   answers of SLD resolution of P - no side condition on P is left: every program the front end produces is
   free of internal markers (C01_front_good). *)
Theorem C01_source_text_is_sld : forall printable s text,
  compile_text printable s = CText text ->
  exists p ir, front s = Some p /\ compile_program p = Some ir /\ text = emit_program (py_repr printable) ir /\
    forall n name args st, wf (sto st) -> inv st -> Forall (bounded (nxt st)) args ->
      Forall2 (same_answer st) (fst (query n ir name args st)) (fst (solveR n p name args st)) /\
      snd (query n ir name args st) = snd (solveR n p name args st).
Proof. exact source_text_is_sld. Qed.
Print Assumptions C01_source_text_is_sld.

Theorem C01_front_good : forall s p, front s = Some p -> good_program p.
Proof. exact front_good. Qed.
Print Assumptions C01_front_good.

(* the same between the two references: naming a goal argument versus renaming every variable apart *)
Theorem C01_naming_equals_renaming_apart : forall n prog name args s,
  wf (sto s) -> inv s -> Forall (bounded (nxt s)) args ->
  Forall2 (same_answer s) (fst (solveA n prog name args s)) (fst (solveR n prog name args s)) /\
  snd (solveA n prog name args s) = snd (solveR n prog name args s).
Proof. exact naming_equals_renaming_apart. Qed.
Print Assumptions C01_naming_equals_renaming_apart.

(* The rewriting compiler for clause bodies is correct for every interpretation of the calls and every
   state type: the code emitted for a body yields exactly the answers of the reference control semantics,
   in order, and ends the same way (return <-> cut, exception <-> error). *)
Theorem C01_body_code_correct : forall (S : Type) (I : str -> list sterm -> S -> list S * bool)
  (J : expr -> S -> list S * bool) (assign : str -> expr -> S -> S),
  (forall f args s, J (query_expr f args) s = I f args s) ->
  forall n b cnt code cnt',
  comp n b cnt = Some (code, cnt') -> nomark b = true ->
  forall s, (let '(ys, k) := run_function J assign code s in (ys, fin_of_compl k)) = sem I b s.
Proof. exact control_correct_function. Qed.
Print Assumptions C01_body_code_correct.

(* naming a goal argument (X := arg_i, step 1 of solveA) is what unifying it with a fresh variable does:
   that unification cannot fail, binds only the fresh variable (or the goal's unbound variable to it), and
   makes both denote the same term *)
Theorem C01_fresh_head_variable : forall n s a x,
  wf s -> lookup x s = None -> occurs x (den s a) = false ->
  exists s', unify (S n) s a (TVar x) = UOk s' /\ wf s' /\ den s' (TVar x) = den s' a /\
             (s' = (x, den s a) :: s \/ exists v, den s a = TVar v /\ s' = (v, TVar x) :: s).
Proof. exact fresh_head_variable. Qed.
Print Assumptions C01_fresh_head_variable.

(* "Every clause activation works on fresh variables (recursive and repeated calls never share bindings)
   and every `_` is a distinct variable."  inv s = every cell mentioned by the store is below the allocation
   counter nxt s.  From such a state and goal arguments below the counter, every answer state again
   satisfies inv, its counter has only grown, its store extends the store of the call.  So the cells that a
   clause activation allocates (nxt s, nxt s + 1, ...) occur neither in the store nor in the goal, and no
   later activation on the search path gets them again. *)
Theorem C01_activations_use_fresh_cells : forall n p name args s,
  inv s -> Forall (bounded (nxt s)) args ->
  forall x, In x (fst (solveA n p name args s)) -> inv x /\ nxt s <= nxt x /\ ext (sto s) (sto x).
Proof. exact solveA_fresh. Qed.
Print Assumptions C01_activations_use_fresh_cells.

(* the i-th variable of a clause's variable list gets cell k + i (distinct variables - in particular the
   x1, x2, ... that the front end writes for the occurrences of `_` - get distinct cells) *)
Theorem C01_distinct_variables_distinct_cells : forall vars r k,
  fresh_env vars r k = (rev (combine (map pyvar vars) (map TVar (seq k (length vars)))) ++ r, k + length vars).
Proof. exact fresh_env_cells. Qed.
Print Assumptions C01_distinct_variables_distinct_cells.

(* "every `_` is a distinct variable", at the level of the source text.  The visitor writes x<N+1> for the N-th `_` of the whole
   text (Lang/Unquote.v anon_name; N counts over all clauses and directives).  Over one compilation the anonymous variables of
   the program carry strictly increasing numbers (numbered: each number at most once, in textual order), different numbers are
   different names, and no such name is the text of a VARIABLE token (a source variable starts with an upper-case letter or `_`,
   an anonymous name with the lower-case letter x) - so a `_` can coincide neither with another `_` nor with a variable the
   programmer wrote, whatever that variable is called (_1, _G1, X1, V_x1, ...).  The check generates such names on purpose. *)
Theorem C01_anon_numbered : forall cst k prog k', v_program cst k = Some (prog, k') -> numbered k k' (prog_vars prog).
Proof. exact anon_fresh. Qed.
Print Assumptions C01_anon_numbered.

Theorem C01_anon_name_injective : forall i j, anon_name i = anon_name j -> i = j.
Proof. exact anon_name_inj. Qed.
Print Assumptions C01_anon_name_injective.

Theorem C01_anon_name_not_a_source_variable : forall i v, rule_lang R_VARIABLE v -> anon_name i <> v.
Proof. exact anon_not_source. Qed.
Print Assumptions C01_anon_name_not_a_source_variable.

(* the call of a predicate never propagates the callee's cut *)
Theorem C01_call_never_cuts : forall call f args c,
  snd (sem (leafA call) (BCall f args) c) = FNorm \/ snd (sem (leafA call) (BCall f args) c) = FErr.
Proof. exact call_never_cuts. Qed.
Print Assumptions C01_call_never_cuts.

(* non-vacuity: member/2 is a good program, compiles, and mem(Q0,[a,b,c]) has three answers *)
Local Open Scope string_scope.
Definition mem_prog : program :=
  [ {| c_name := d "mem"; c_args := [SVar (d "X"); SPair (SVar (d "X")) (SVar (d "x1"))]; c_body := BTrue |};
    {| c_name := d "mem"; c_args := [SVar (d "X"); SPair (SVar (d "x2")) (SVar (d "T"))];
       c_body := BCall (d "mem") [SVar (d "X"); SVar (d "T")] |} ].
Example C01_nonvacuous :
  good_program mem_prog /\
  exists ir, compile_program mem_prog = Some ir /\
  map (fun x => den (sto x) (TVar 0))
      (fst (query 10 ir (d "mem") [TVar 0; mk_list [TAtom (d "a"); TAtom (d "b"); TAtom (d "c")]] {| sto := []; nxt := 1 |}))
  = [TAtom (d "a"); TAtom (d "b"); TAtom (d "c")].
Proof.
  split.
  - repeat constructor.
  - eexists. split; [vm_compute; reflexivity|]. vm_compute. reflexivity.
Qed.

(* ------------------------------------------------------------------ round 4: a numeral denotes its value, however it is spelled *)
From YP Require Import Sem.NumeralSpelling.

(* NUMERAL is DIGIT+: 007, 07 and 7 are the same integer.  The expression the compiler emits for a numeral evaluates to the same
   term whatever the number of leading zeros (zeros z: z consists of characters `0`) ... *)
Theorem C01_numeral_value_any_spelling : forall r z w, zeros z ->
  eval_expr r (compile_expression (SNum (z ++ w)%list)) = eval_expr r (compile_expression (SNum w)).
Proof. exact numeral_code_value. Qed.
Print Assumptions C01_numeral_value_any_spelling.

(* ... so the goal  0..0w = w  has exactly one answer, which leaves the state as it is (no error) ... *)
Theorem C01_numeral_eq_any_spelling : forall call r z w s, zeros z ->
  builtin call (s_ "=") [eval_expr r (compile_expression (SNum (z ++ w)%list)); eval_expr r (compile_expression (SNum w))] s
  = Some ([s], false).
Proof. exact numeral_eq_any_spelling. Qed.
Print Assumptions C01_numeral_eq_any_spelling.

(* ... and the goal  0..0w \= w  has none. *)
Theorem C01_numeral_neq_any_spelling : forall call r z w s, zeros z ->
  builtin call (s_ "\=") [eval_expr r (compile_expression (SNum (z ++ w)%list)); eval_expr r (compile_expression (SNum w))] s
  = Some ([], false).
Proof. exact numeral_neq_any_spelling. Qed.
Print Assumptions C01_numeral_neq_any_spelling.

Example C01_numeral_nonvacuous :
  zeros (d "00") /\ eval_expr [] (compile_expression (SNum (d "00" ++ d "7")%list)) = TInt 7.
Proof. split; reflexivity. Qed.
