(* C01 - compiled clauses compute exactly Prolog's answers, in order. (under construction) *)
From Coq Require Import List Arith.
Import ListNotations.
From YP Require Import Base.Str Lang.Ast Comp.IR Comp.CompileBody Comp.CompileTotal.

Theorem C01_compile_body_total : forall b cnt, exists code cnt', comp (fuel_body b) b cnt = Some (code, cnt').
Proof. exact comp_total_exists. Qed.
Print Assumptions C01_compile_body_total.
