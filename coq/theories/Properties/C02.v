(* C02 - unification computes a most general unifier, or fails.
   Only statements; every proof is `exact <lemma>` to a lemma proved in Unify/. *)
From Coq Require Import String.
From Coq Require Import List Arith ZArith.
Import ListNotations.
From YP Require Import Base.Str Term.Term Unify.Unify Unify.Mgu Unify.Rename Unify.Base Unify.UnifyGen Unify.LateStart Unify.RunUnifySched Unify.SchedSpec Unify.ConstRecode.

(* "started under any stack of already active bindings" = any acyclic store s (wf s);
   "at the yield both terms dereference to the same term": den s' t1 = den s' t2 where
   den is the engine's deep get_value; the new bindings extend the active ones. *)
Theorem C02_unify_sound : forall n s t1 t2 s',
  wf s -> unify n s t1 t2 = UOk s' -> wf s' /\ ext s s' /\ den s' t1 = den s' t2.
Proof. exact unify_sound. Qed.
Print Assumptions C02_unify_sound.

(* "it yields iff the terms are syntactically unifiable ... the new bindings form a most
   general unifier": if any substitution th that respects the active bindings unifies t1 and
   t2, then unification succeeds (with fuel size(th t1)+1, so always for finite terms),
   never reports a cyclic case, and th is an instance of the result. *)
Theorem C02_unify_complete_mgu : forall s t1 t2 th,
  wf s -> sat th s -> app th t1 = app th t2 ->
  exists n s', unify n s t1 t2 = UOk s' /\ wf s' /\ ext s s' /\ den s' t1 = den s' t2 /\ sat th s'.
Proof. exact unify_mgu. Qed.
Print Assumptions C02_unify_complete_mgu.

(* whatever fuel the successful run used, every unifier is an instance of its result:
   no variable is bound that need not be, aliasing is preserved *)
Theorem C02_unify_most_general : forall n s t1 t2 s' th,
  wf s -> unify n s t1 t2 = UOk s' -> sat th s -> app th t1 = app th t2 -> sat th s'.
Proof. exact unify_most_general. Qed.
Print Assumptions C02_unify_most_general.

(* "it yields iff ...": failure means that there is no unifier at all *)
Theorem C02_unify_fail_no_unifier : forall n s t1 t2 th,
  wf s -> unify n s t1 t2 = UFail -> sat th s -> app th t1 <> app th t2.
Proof. exact unify_fail_no_unifier. Qed.
Print Assumptions C02_unify_fail_no_unifier.

(* "The outcome is the same for unify(t2,t1)" *)
Theorem C02_unify_sym_ok : forall n s t1 t2 s',
  wf s -> unify n s t1 t2 = UOk s' ->
  exists k s'', unify k s t2 t1 = UOk s'' /\ wf s'' /\ sat (sub_of s') s'' /\ sat (sub_of s'') s'.
Proof. exact unify_sym_ok. Qed.
Print Assumptions C02_unify_sym_ok.

Theorem C02_unify_sym_fail : forall n s t1 t2,
  wf s -> unify n s t1 t2 = UFail -> forall k s'', unify k s t2 t1 <> UOk s''.
Proof. exact unify_sym_fail. Qed.
Print Assumptions C02_unify_sym_fail.

(* "compound terms unify only if both name and number of arguments agree" *)
Theorem C02_unify_functor_arity : forall n s f xs g ys s',
  wf s -> unify n s (TFun f xs) (TFun g ys) = UOk s' -> f = g /\ length xs = length ys.
Proof. exact unify_functor_arity. Qed.
Print Assumptions C02_unify_functor_arity.

(* the outcome does not depend on the fuel once there is enough of it *)
Theorem C02_unify_fuel_irrelevant : forall n m s a b r,
  unify n s a b = r -> r <> UOof -> n <= m -> unify m s a b = r.
Proof. exact unify_mono. Qed.
Print Assumptions C02_unify_fuel_irrelevant.

(* the outcome does not depend on the identity of the variables: unification commutes with every
   injective renaming of cells (so it is a function of the shape of the terms and of which variables
   coincide) *)
Theorem C02_unify_equivariant : forall p, injective p -> forall n s a b,
  unify n (ren_store p s) (ren p a) (ren p b) = ren_res p (unify n s a b).
Proof. exact unify_equivariant. Qed.
Print Assumptions C02_unify_equivariant.

(* "started under any stack of already active bindings": the active bindings matter only through the
   dereferenced values of the two arguments - the new bindings are those computed, from no bindings at
   all, for the dereferenced terms, put on top of the unchanged stack *)
Theorem C02_unify_increment : forall n s a b, wf s ->
  unify n s a b = lift s (unify n [] (den s a) (den s b)).
Proof. exact unify_increment. Qed.
Print Assumptions C02_unify_increment.

(* "yields at most once": on the generator-object model of unify (Unify/UnifyGen.v: a mutable heap,
   generator objects with try/finally unbinding, held sub-generators of unify_arrays), whatever sequence of
   next/close/drop operations the consumer performs, at most one of the nexts yields *)
Theorem C02_unify_yields_at_most_once : forall n h t1 t2 ops hf gf ys,
  drive n h (mk_unify h t1 t2) ops = Some (hf, gf, ys) -> count_true ys <= 1.
Proof. exact unify_gen_yields_at_most_once. Qed.
Print Assumptions C02_unify_yields_at_most_once.

(* the generator object realises the store-passing algorithm the theorems above are about: it yields exactly
   when unify succeeds, the heap at the yield is the result store, closing it there gives back the heap *)
Theorem C02_generator_is_unify : forall n h t1 t2, wf h ->
  (forall s', unify n h t1 t2 = UOk s' ->
     exists g1, next n h (mk_unify h t1 t2) = Some (s', g1, true) /\ fst (close s' g1) = h) /\
  (unify n h t1 t2 = UFail -> exists g1, next n h (mk_unify h t1 t2) = Some (h, g1, false)).
Proof. exact unify_gen_matches_unify. Qed.
Print Assumptions C02_generator_is_unify.

(* ---- creation and start are different moments ------------------------------------------------
   unify(t1,t2) is CALLED under the bindings h (mk_unify h t1 t2: both sides are dereferenced, the
   dispatch is done) and the object it returns is STARTED (first next) under the bindings h' - after
   other unifications have been created, started, advanced or closed.  Variable.unify dereferences its
   argument again when it starts, unify_arrays dereferences its elements when it starts. *)

(* structural: the first next under h' is the store-passing algorithm under h' on the two
   creation-time values (h, h' arbitrary, not related) *)
Theorem C02_late_start_is_unify : forall n h h' t1 t2, wf h' ->
  (forall s', unify n h' (fst (start_pair h t1 t2)) (snd (start_pair h t1 t2)) = UOk s' ->
     exists g1, next (S (S n)) h' (mk_unify h t1 t2) = Some (s', g1, true) /\ fst (close s' g1) = h') /\
  (unify n h' (fst (start_pair h t1 t2)) (snd (start_pair h t1 t2)) = UFail ->
     exists g1, next (S (S n)) h' (mk_unify h t1 t2) = Some (h', g1, false)).
Proof. exact late_start_matches_unify. Qed.
Print Assumptions C02_late_start_is_unify.

(* "started under any stack of already active bindings": the bindings of the call are still active at
   the start (h' extends h); whatever happened in between, if t1 and t2 are unifiable relative to h' the
   first next yields, both terms dereference to the same term, the bindings are a most general unifier
   relative to the bindings current AT THAT FIRST NEXT (every unifier is an instance: nothing is bound
   that need not be), no cycle, and closing gives back h' *)
Theorem C02_late_start_mgu : forall h h' t1 t2 th, wf h -> wf h' -> ext h h' -> sat th h' -> app th t1 = app th t2 ->
  exists n hf g1, next n h' (mk_unify h t1 t2) = Some (hf, g1, true) /\
    wf hf /\ ext h' hf /\ den hf t1 = den hf t2 /\
    (forall th', sat th' h' -> app th' t1 = app th' t2 -> sat th' hf) /\
    fst (close hf g1) = h'.
Proof. exact late_start_mgu. Qed.
Print Assumptions C02_late_start_mgu.

(* ... and if it does not yield, nothing is bound and there is no unifier *)
Theorem C02_late_start_fail : forall n h h' t1 t2 hf g1, wf h -> wf h' -> ext h h' ->
  next n h' (mk_unify h t1 t2) = Some (hf, g1, false) ->
  hf = h' /\ forall th, sat th h' -> app th t1 <> app th t2.
Proof. exact late_start_fail. Qed.
Print Assumptions C02_late_start_fail.

(* without any relation between h and h' (the bindings of the call were undone before the start): the
   same for the two creation-time values den h t1, den h t2 *)
Theorem C02_late_start_snapshot_mgu : forall h h' t1 t2 th, wf h' -> sat th h' ->
  app th (den h t1) = app th (den h t2) ->
  exists n hf g1, next n h' (mk_unify h t1 t2) = Some (hf, g1, true) /\
    wf hf /\ ext h' hf /\ den hf (den h t1) = den hf (den h t2) /\
    (forall th', sat th' h' -> app th' (den h t1) = app th' (den h t2) -> sat th' hf) /\
    fst (close hf g1) = h'.
Proof. exact late_start_snapshot_mgu. Qed.
Print Assumptions C02_late_start_snapshot_mgu.

Theorem C02_late_start_snapshot_fail : forall n h h' t1 t2 hf g1, wf h' ->
  next n h' (mk_unify h t1 t2) = Some (hf, g1, false) ->
  hf = h' /\ forall th, sat th h' -> app th (den h t1) <> app th (den h t2).
Proof. exact late_start_snapshot_fail. Qed.
Print Assumptions C02_late_start_snapshot_fail.

(* "The outcome is the same for unify(t2,t1)", late start *)
Theorem C02_late_start_sym : forall h h' t1 t2 n hf g1, wf h -> wf h' -> ext h h' ->
  next n h' (mk_unify h t1 t2) = Some (hf, g1, true) -> wf hf -> den hf t1 = den hf t2 ->
  exists m hf' g1', next m h' (mk_unify h t2 t1) = Some (hf', g1', true) /\ wf hf' /\ den hf' t1 = den hf' t2 /\
    sat (sub_of hf) hf'.
Proof. exact late_start_sym. Qed.
Print Assumptions C02_late_start_sym.

(* "yields at most once", late start: any sequence of next / close on an object created under h and
   driven from h' *)
Theorem C02_late_drive_restores : forall n h h' t1 t2 ops hf gf ys,
  drive n h' (mk_unify h t1 t2) ops = Some (hf, gf, ys) ->
  fst (close hf gf) = h' /\ count_true ys <= 1 /\
  (forall m h2 g2, next m hf gf = Some (h2, g2, false) -> h2 = h').
Proof. exact late_drive_restores. Qed.
Print Assumptions C02_late_drive_restores.

(* "all stacks of earlier, still active unifications": the bindings at the top of a stack are a most
   general unifier of ALL the equations of the stack together (the check's intrinsic oracle compares
   the implementation's bindings with an independently computed mgu of the active equations) *)
Theorem C02_stack_mgu : forall fuel stk s0 s, wf s0 -> stack fuel s0 stk = UOk s ->
  wf s /\ ext s0 s /\ (forall a b, In (a, b) stk -> den s a = den s b) /\
  (forall th, sat th s0 -> unifies th stk -> sat th s).
Proof. exact stack_mgu. Qed.
Print Assumptions C02_stack_mgu.

Theorem C02_stack_fail_no_unifier : forall fuel stk s0, wf s0 -> stack fuel s0 stk = UFail ->
  forall th, sat th s0 -> ~ unifies th stk.
Proof. exact stack_fail_no_unifier. Qed.
Print Assumptions C02_stack_fail_no_unifier.

(* what the check evaluates for its event sequences is the generator model these theorems are about *)
Theorem C02_run_events_is_generator_model : forall fuel evs nvars,
  run_events_x fuel evs nvars = run_events fuel evs nvars.
Proof. exact run_events_x_eq. Qed.
Print Assumptions C02_run_events_is_generator_model.

(* ---- the schedule theorem ----------------------------------------------------------------------
   exec = the event runner on generator objects (the call unify(..) = mk_unify, __next__ = next, close()/drop =
   close, any number of objects, events in any order); srun = the SPECIFICATION of the same events by the
   store-passing algorithm alone (Unify/SchedSpec.v): a stack of active unifications, starting an object =
   Unify.unify under the bindings of THAT moment on the two terms as dereferenced at the call, exhausting /
   closing the top one = back to the bindings before its start; undefined outside the property's domain (a
   start needing a cyclic term, an active generator used out of stack order, next on an object closed before
   it was started).  Wherever the specification is defined, the generator objects - with whatever fuel they
   return a value - yield exactly when it says, and the bindings after EVERY event are its bindings. *)
Theorem C02_sched_refines : forall n m evs tr tr',
  srun n [] [] [] evs = Some tr -> exec m [] [] evs = Some tr' -> tr' = tr_of tr.
Proof. exact sched_refines. Qed.
Print Assumptions C02_sched_refines.

(* after every event of the specification the bindings are acyclic, equate the two sides of every ACTIVE
   unification, and every substitution unifying the active equations is an instance of them: a most general
   unifier of the equations of the active unifications, nothing bound that need not be *)
Theorem C02_srun_mgu : forall n evs tr, srun n [] [] [] evs = Some tr ->
  Forall (fun x => let h := snd (fst x) in let eqs := snd x in
            wf h /\ (forall a b, In (a, b) eqs -> den h a = den h b) /\
            (forall th, unifies th eqs -> sat th h)) tr.
Proof. exact srun_mgu. Qed.
Print Assumptions C02_srun_mgu.

(* what the check's model evaluation prints for an event sequence (when it does not cut the case at a
   cyclic binding) is the specification's trace *)
Theorem C02_run_events_spec : forall fuel n nvars evs l tr,
  run_events fuel evs nvars = otag "ok" [OL l] -> existsb is_cyc l = false ->
  srun n [] [] [] evs = Some tr -> l = show_tr nvars (tr_of tr).
Proof. exact run_events_spec. Qed.
Print Assumptions C02_run_events_spec.

Example C02_sched_nonvacuous :
  let evs := [SCreate 0 (TVar 0) (TVar 1); SCreate 1 (TVar 1) (TVar 0); SNext 1; SNext 0; SClose 0; SClose 1] in
  srun 5 [] [] [] evs = Some
    [(false, [], []); (false, [], []);
     (true, [(1, TVar 0)], [(TVar 1, TVar 0)]);
     (true, [(1, TVar 0)], [(TVar 1, TVar 0); (TVar 0, TVar 1)]);
     (false, [(1, TVar 0)], [(TVar 1, TVar 0)]);
     (false, [], [])]
  /\ exec 5 [] [] evs = Some [(false, []); (false, []); (true, [(1, TVar 0)]); (true, [(1, TVar 0)]); (false, [(1, TVar 0)]); (false, [])].
Proof. exact srun_late_alias. Qed.

(* non-vacuity of the late-start theorems: unify(X,Y) created under no binding and started after Y was
   aliased to X (directly / through a chain) yields and binds nothing; started after X = f(Z), it binds Y *)
Example C02_late_start_nonvacuous :
  let h' := [(1, TVar 0)] in
  wf h' /\ ext [] h' /\
  next 5 h' (mk_unify [] (TVar 0) (TVar 1)) = Some (h', GVarSelf, true) /\
  next 5 [(1, TVar 2); (2, TVar 0)] (mk_unify [] (TVar 0) (TVar 1)) = Some ([(1, TVar 2); (2, TVar 0)], GVarSelf, true) /\
  next 5 [(0, TFun [102%N] [TVar 2])] (mk_unify [] (TVar 0) (TVar 1))
    = Some ([(1, TFun [102%N] [TVar 2]); (0, TFun [102%N] [TVar 2])], GVarDeleg (GVarBound 1), true).
Proof. exact late_start_alias. Qed.

(* non-vacuity: a store with two active bindings is wf, and a unification under it succeeds *)
Example C02_nonvacuous :
  let s := [(1, TFun (d "f"%string) [TVar 2]); (0, TVar 1)] in
  wf s /\ exists s', unify 10 s (TFun (d "g"%string) [TVar 0; TVar 3]) (TFun (d "g"%string) [TFun (d "f"%string) [TAtom (d "a"%string)]; TVar 2]) = UOk s'
  /\ den s' (TVar 3) = TAtom (d "a"%string).
Proof.
  split.
  - repeat constructor.
  - eexists. vm_compute. split; reflexivity.
Qed.

(* round 4: unification depends on the constants in the terms only through which of them are equal - it commutes with every
   injective recoding of the integer and string constants.  The correspondence check relies on this when it hands Python
   constants (None, floats, bools, big integers, bytes ... built through the API) to the model as codes of their classes
   under Python `==` (harness/lib/pyconsts.py): outcome and bindings do not depend on the choice of codes. *)
Theorem C02_unify_constant_recoding : forall (fi : Z -> Z) (fs : str -> str),
  (forall a b, fi a = fi b -> a = b) -> (forall a b, fs a = fs b -> a = b) ->
  forall n s a b, unify n (rc_store fi fs s) (rc fi fs a) (rc fi fs b) = rc_res fi fs (unify n s a b).
Proof. exact unify_recode. Qed.
Print Assumptions C02_unify_constant_recoding.

(* non-vacuity: recoding 1 -> 7, 2 -> 9 (injective: z -> 2z+5) on f(X, 1, X) = f(2, Y, Z) *)
Example C02_recoding_nonvacuous :
  let fi := fun z => (2 * z + 5)%Z in
  let a := TFun (d "f"%string) [TVar 0; TInt 1; TVar 0] in let b := TFun (d "f"%string) [TInt 2; TVar 1; TVar 2] in
  unify 10 [] a b = UOk [(2, TInt 2); (1, TInt 1); (0, TInt 2)] /\
  unify 10 [] (rc fi (fun s => s) a) (rc fi (fun s => s) b) = UOk [(2, TInt 9); (1, TInt 7); (0, TInt 9)].
Proof. vm_compute. split; reflexivity. Qed.
