(* C03 - backtracking leaves no trace, however a query ends.
   Only statements; every proof is `exact <lemma>` to a lemma proved in Unify/UnifyGen.v or
   Engine/Restore.v.  heap = the cells that are bound now; generator objects as in UnifyGen.v
   (unification) and GenMachine.v (frames of compiled / builtin / user-written generator functions). *)
From Coq Require Import String.
From Coq Require Import List Arith ZArith.
Import ListNotations.
From YP Require Import Base.Str Term.Term Unify.Unify Unify.UnifyGen Lang.Ast Comp.IR Comp.CompileClause Sem.Machine
  Sem.Native Engine.GenMachine Engine.Restore Engine.RunGen Engine.IRMachine Engine.QueryFacts Engine.Refine Engine.RefineCompiled
  Engine.RefineNative Engine.RefineExc Engine.RefineRaising Engine.RunMachine Engine.FindallRaise Engine.DelayedClose.

(* A unification generator created under ANY heap h and driven by ANY sequence of
   __next__ / close() (= drop) operations:
   at every point the heap is h plus bindings of cells that were unbound in h, namely exactly
   the cells the generator still owns; close()/drop at that point gives back exactly h; a
   further __next__ that does not yield gives back exactly h; it yields at most once. *)
Theorem C03_unify_gen_restores : forall n h t1 t2 ops hf gf ys,
  drive n h (mk_unify h t1 t2) ops = Some (hf, gf, ys) ->
  (exists nw, hf = nw ++ h /\ (forall k, In k (keys nw) -> lookup k h = None)
              /\ (forall k, In k (keys nw) <-> In k (cells gf)))
  /\ fst (close hf gf) = h
  /\ (forall m h2 g2 y2, next m hf gf = Some (h2, g2, y2) -> y2 = false -> h2 = h)
  /\ count_true ys <= 1.
Proof. exact unify_gen_restores. Qed.
Print Assumptions C03_unify_gen_restores.

Theorem C03_unify_gen_close_restores : forall n h t1 t2 ops hf gf ys,
  drive n h (mk_unify h t1 t2) (ops ++ [OClose]) = Some (hf, gf, ys) -> hf = h.
Proof. exact unify_gen_close_restores. Qed.
Print Assumptions C03_unify_gen_close_restores.

Theorem C03_unify_gen_exhaust_restores : forall n h t1 t2 ops hf gf ys,
  drive n h (mk_unify h t1 t2) (ops ++ [ONext]) = Some (hf, gf, ys ++ [false]) -> hf = h.
Proof. exact unify_gen_exhaust_restores. Qed.
Print Assumptions C03_unify_gen_exhaust_restores.

Theorem C03_unify_gen_yields_at_most_once : forall n h t1 t2 ops hf gf ys,
  drive n h (mk_unify h t1 t2) ops = Some (hf, gf, ys) -> count_true ys <= 1.
Proof. exact unify_gen_yields_at_most_once. Qed.
Print Assumptions C03_unify_gen_yields_at_most_once.

(* "the bindings visible at the answer are exactly that answer's": the heap at the yield IS the
   result store of the unification algorithm of C02 (for which soundness and most-generality are
   proved there), and closing it there gives back h *)
Theorem C03_unify_gen_matches_unify : forall n h t1 t2, wf h ->
  (forall s', unify n h t1 t2 = UOk s' ->
     exists g1, next n h (mk_unify h t1 t2) = Some (s', g1, true) /\ fst (close s' g1) = h) /\
  (unify n h t1 t2 = UFail -> exists g1, next n h (mk_unify h t1 t2) = Some (h, g1, false)).
Proof. exact unify_gen_matches_unify. Qed.
Print Assumptions C03_unify_gen_matches_unify.

(* The frame machine, for ANY leaf iterator type satisfying the restoring contract (LInv with the
   four contract hypotheses), any program, any frame-local data flow, any fuel n and recursion
   limit d: one __next__ of any iterator that is consistent with the heap h0 of its creation
   leaves it consistent; exhaustion gives back h0; closing/dropping it afterwards (also after it
   raised) gives back h0. *)
Theorem C03_frame_next_restores :
  forall (L X E P : Type) (mkleaf : X -> heap -> L) (lnext : nat -> heap -> L -> option (heap * L * res))
         (lclose : heap -> L -> heap) (prog : P -> code X E P * E) (gho : E -> nat) (LInv : heap -> L -> heap -> Prop),
  (forall x h, LInv h (mkleaf x h) h) ->
  (forall n h0 l hc h' l' r, LInv h0 l hc -> lnext n hc l = Some (h', l', r) -> LInv h0 l' h' /\ (r = RStop -> h' = h0)) ->
  (forall h0 l hc, LInv h0 l hc -> lclose hc l = h0) ->
  forall n d h0 it h h' it' r,
    Inv LInv h0 it h -> inext mkleaf lnext lclose prog gho n d h it = Some (h', it', r) ->
    Inv LInv h0 it' h' /\ (r = RStop -> h' = h0) /\ iclose lclose h' it' = h0.
Proof. exact frame_next_restores. Qed.
Print Assumptions C03_frame_next_restores.

(* an exception (raise in a user predicate at any step and depth, a leaf that raises, the
   recursion limit) or a return leaves a frame only after every enclosing loop was unwound:
   the heap is h0 when the exception arrives at the consumer *)
Theorem C03_throw_restores :
  forall (L X E P : Type) (mkleaf : X -> heap -> L) (lnext : nat -> heap -> L -> option (heap * L * res))
         (lclose : heap -> L -> heap) (prog : P -> code X E P * E) (gho : E -> nat) (LInv : heap -> L -> heap -> Prop),
  (forall x h, LInv h (mkleaf x h) h) ->
  (forall n h0 l hc h' l' r, LInv h0 l hc -> lnext n hc l = Some (h', l', r) -> LInv h0 l' h' /\ (r = RStop -> h' = h0)) ->
  (forall h0 l hc, LInv h0 l hc -> lclose hc l = h0) ->
  forall n d h0 it h h' it' r,
    Inv LInv h0 it h -> is_frame it -> d <> 0 ->
    inext mkleaf lnext lclose prog gho n d h it = Some (h', it', r) -> r <> RYield -> h' = h0 /\ it' = IDone.
Proof. exact throw_restores. Qed.
Print Assumptions C03_throw_restores.

(* every query of every program whose leaves are the engine's unification generators: after up
   to k answers, however the last __next__ ended (another answer: r = RYield, exhausted: RStop,
   exception: RRaise): closing / dropping the generator gives back h; if it did not end in an
   answer the heap already is h; at every answer the heap is h plus newer bindings on top. *)
Theorem C03_query_restores : forall (E P : Type) (prog : P -> code (term * term) E P * E) (gho : E -> nat) n d k h c e hf itf ys r,
  nexts umkleaf ulnext ulclose prog gho n d k h (IFresh c e) = Some (hf, itf, ys, r) ->
  iclose ulclose hf itf = h /\ (r <> RYield -> hf = h)
  /\ Forall (fun y => exists nw, y = nw ++ h) ys.
Proof. exact query_restores_unify. Qed.
Print Assumptions C03_query_restores.

(* "re-running a side-effect-free query on the same engine and the same variables gives the same
   answer sequence again" *)
Theorem C03_rerun_same : forall (E P : Type) (prog : P -> code (term * term) E P * E) (gho : E -> nat) n d k h c e hf itf ys r,
  r <> RYield ->
  nexts umkleaf ulnext ulclose prog gho n d k h (IFresh c e) = Some (hf, itf, ys, r) ->
  nexts umkleaf ulnext ulclose prog gho n d k hf (IFresh c e) = Some (hf, itf, ys, r).
Proof. exact rerun_same_unify. Qed.
Print Assumptions C03_rerun_same.

(* the consumer throws an exception into the generator object (suspended at any answer, or not
   yet started): it comes back to the consumer with the heap of creation restored *)
Theorem C03_consumer_throw_restores :
  forall (L X E P : Type) (lclose : heap -> L -> heap) (LInv : heap -> L -> heap -> Prop),
  (forall h0 l hc, LInv h0 l hc -> lclose hc l = h0) ->
  forall h0 (it : iter L X E P) hc, Inv LInv h0 it hc -> ithrow lclose hc it = (h0, IDone, RRaise).
Proof. exact consumer_throw_restores. Qed.
Print Assumptions C03_consumer_throw_restores.

(* ANY consumer: an arbitrary sequence of __next__ / close() (= drop) / throw() on one generator
   object (each call under the heap the previous one left): it stays consistent with the heap h0 of
   its creation - closing or dropping it at the end gives back h0 - and directly after a close or a
   throw the heap is h0 *)
Theorem C03_any_consumer_restores :
  forall (L X E P : Type) (mkleaf : X -> heap -> L) (lnext : nat -> heap -> L -> option (heap * L * res))
         (lclose : heap -> L -> heap) (prog : P -> code X E P * E) (gho : E -> nat) (LInv : heap -> L -> heap -> Prop),
  (forall x h, LInv h (mkleaf x h) h) ->
  (forall n h0 l hc h' l' r, LInv h0 l hc -> lnext n hc l = Some (h', l', r) -> LInv h0 l' h' /\ (r = RStop -> h' = h0)) ->
  (forall h0 l hc, LInv h0 l hc -> lclose hc l = h0) ->
  forall n d ops h0 it h hf itf rs,
    Inv LInv h0 it h -> fdrive mkleaf lnext lclose prog gho n d h it ops = Some (hf, itf, rs) ->
    Inv LInv h0 itf hf /\ iclose lclose hf itf = h0 /\
    (match rev ops with (FClose | FThrow) :: _ => hf = h0 | _ => True end).
Proof. exact fdrive_restores. Qed.
Print Assumptions C03_any_consumer_restores.

(* THE ENGINE RUNNING COMPILED CODE (IRMachine.v): for every IR program (every compiled program),
   every fact database, every set of registered Python predicates written as ARBITRARY machine code
   (they may raise at any step), the builtins =, \=, call/N, once/1, findall/3 as frames, every
   query, heap, fuel, recursion limit d and abandonment point k: close()/drop gives back h, an
   exception thrown in by the consumer comes back with h restored, exhaustion or an exception
   coming out leaves h, and every answer only adds bindings on top of h *)
Theorem C03_compiled_query_restores :
  forall (ir : ir_program) (facts : str -> nat -> list fact) (user : str -> list term -> option (code lx fr callp * fr))
         n d k h name args nx hf itf ys r,
  m_nexts ir facts user n d k h (m_query ir facts user name args nx) = Some (hf, itf, ys, r) ->
  m_iclose hf itf = h
  /\ ithrow lclose hf itf = (h, IDone, RRaise)
  /\ (r <> RYield -> hf = h)
  /\ Forall (fun y => exists nw, y = nw ++ h) ys.
Proof. exact compiled_query_restores. Qed.
Print Assumptions C03_compiled_query_restores.

(* evaluate_bounded (a consumer that leaves its loop after k answers because the projection
   function raises, or because the query ends / raises under the lowered recursion limit d, and
   closes the query in its finally): every variable is restored when it returns *)
Theorem C03_bounded_consumer_restores :
  forall (ir : ir_program) (facts : str -> nat -> list fact) (user : str -> list term -> option (code lx fr callp * fr))
         n d k h name args nx hf ys,
  bounded_m ir facts user n d k h name args nx = Some (hf, ys) -> hf = h.
Proof. exact bounded_restores. Qed.
Print Assumptions C03_bounded_consumer_restores.

(* machine_refines_irsem: "the bindings visible at each answer are exactly that answer's".
   The small-step machine with destructive bindings and the big-step semantics of C01/C05/C06
   (Sem.Machine.query: lists of persistent answer stores) are the same object: for every compiled
   program, query, well-formed heap, recursion limit d and ABANDONMENT POINT k, the generator
   object resumed at most k times yields exactly the first k answer stores of the big-step
   semantics, in order; past the last answer it ends by StopIteration / by an exception exactly as
   the big-step semantics says, and the heap is the initial one. *)
Theorem C03_machine_refines_irsem : forall p ir, compile_program p = Some ir ->
  forall d name args nx h k, wf h ->
  exists N hf itf, forall n, N <= n ->
    m_nexts ir nofacts nouser n d k h (m_query ir nofacts nouser name args nx) =
    Some (hf, itf, map sto (firstn k (fst (query d ir name args (mkst h nx)))),
          if Nat.leb k (length (fst (query d ir name args (mkst h nx)))) then RYield
          else rend (snd (query d ir name args (mkst h nx))))
    /\ (length (fst (query d ir name args (mkst h nx))) < k -> hf = h).
Proof. exact compiled_machine_refines_irsem. Qed.
Print Assumptions C03_machine_refines_irsem.

(* the same for whatever fuel the machine returns a value at; consequence: a query that is run
   again on the heap it left (= the heap before, by the theorems above) gives the same answer
   sequence again - it is a function of the program, the query and that heap alone *)
Theorem C03_machine_refines_irsem_fuel : forall p ir, compile_program p = Some ir ->
  forall d name args nx h k n hf itf ys r, wf h ->
  m_nexts ir nofacts nouser n d k h (m_query ir nofacts nouser name args nx) = Some (hf, itf, ys, r) ->
  ys = map sto (firstn k (fst (query d ir name args (mkst h nx)))) /\
  r = (if Nat.leb k (length (fst (query d ir name args (mkst h nx)))) then RYield
       else rend (snd (query d ir name args (mkst h nx)))).
Proof. exact compiled_machine_refines_irsem_fuel. Qed.
Print Assumptions C03_machine_refines_irsem_fuel.

(* ... and with ANY database of dynamic facts: the big-step side is QueryFacts.queryF = Sem.Machine.query
   with the facts of name/arity tried first, each matched against a copy with new variables
   (queryF_nofacts: with an empty database it is Sem.Machine.query) *)
Theorem C03_machine_refines_facts : forall p ir, compile_program p = Some ir ->
  forall (DB : str -> nat -> list fact) d name args nx h k, wf h ->
  exists N hf itf, forall n, N <= n ->
    m_nexts ir DB nouser n d k h (m_query ir DB nouser name args nx) =
    Some (hf, itf, map sto (firstn k (fst (queryF ir DB d name args (mkst h nx)))),
          if Nat.leb k (length (fst (queryF ir DB d name args (mkst h nx)))) then RYield
          else rend (snd (queryF ir DB d name args (mkst h nx))))
    /\ (length (fst (queryF ir DB d name args (mkst h nx))) < k -> hf = h).
Proof. exact compiled_machine_refines_facts. Qed.
Print Assumptions C03_machine_refines_facts.

Theorem C03_queryF_nofacts : forall p n name args s, queryF p (fun _ _ => []) n name args s = query n p name args s.
Proof. exact queryF_nofacts. Qed.
Print Assumptions C03_queryF_nofacts.

(* ---------------------------------------------------------------------------------------------------------------
   machine_refines_nquery: ALL of YP.query.  The machine program RefineNative.wprog runs the dynamic facts of name/arity first
   (each against a copy with new variables), never calls an API name, then eval_context.get('<name>_<k>',
   eval_context.get('<name>_n')): a registered Python predicate (fixed key, before the compiled function; variadic key,
   after the builtins except for call/N), the generator function of the compiled program, a builtin.  A registered Python
   predicate is ARBITRARY machine code (ucode) on the machine side and its answer function (Sem/Native.nfun: answers, then
   normal end or an exception after j answers) on the big-step side; `orealizes`: the generator object of the code yields the
   answers of the function and ends as it says.  Then, for every compiled program, fact database, table of registered
   predicates, query, wf heap, recursion limit d and ABANDONMENT POINT k: the generator object of the query resumed at most k
   times yields exactly the first k answer stores of Sem/Native.nquery - the big-step engine of C20 and of evaluate_bounded
   (C17) -, ends as nquery says (normally / with the exception), and leaves the initial heap. *)
Theorem C03_machine_refines_nquery : forall p ir, compile_program p = Some ir ->
  forall (dyn : str -> nat -> list frow) (ufix : str -> nat -> option ucode) (uvar : str -> option ucode)
         (ffix : str -> nat -> option nfun) (fvar : str -> option nfun),
  (forall name k, orealizes ir dyn ufix uvar (ufix name k) (ffix name k)) ->
  (forall name, orealizes ir dyn ufix uvar (uvar name) (fvar name)) ->
  forall d name args nx h k, wf h ->
  exists N hf itf, forall n, N <= n ->
    w_nexts ir dyn ufix uvar n d k h (w_query ir dyn ufix uvar name args nx) =
    Some (hf, itf, map sto (firstn k (fst (nquery d (mkw ir ffix fvar dyn) name args (mkst h nx)))),
          if Nat.leb k (length (fst (nquery d (mkw ir ffix fvar dyn) name args (mkst h nx)))) then RYield
          else rend (snd (nquery d (mkw ir ffix fvar dyn) name args (mkst h nx))))
    /\ (length (fst (nquery d (mkw ir ffix fvar dyn) name args (mkst h nx))) < k -> hf = h).
Proof. exact compiled_machine_refines_nquery. Qed.
Print Assumptions C03_machine_refines_nquery.

(* ... for whatever fuel the machine returns a value at (=> a rerun gives the same sequence) *)
Theorem C03_machine_refines_nquery_fuel : forall p ir, compile_program p = Some ir ->
  forall (dyn : str -> nat -> list frow) (ufix : str -> nat -> option ucode) (uvar : str -> option ucode)
         (ffix : str -> nat -> option nfun) (fvar : str -> option nfun),
  (forall name k, orealizes ir dyn ufix uvar (ufix name k) (ffix name k)) ->
  (forall name, orealizes ir dyn ufix uvar (uvar name) (fvar name)) ->
  forall d name args nx h k n hf itf ys r, wf h ->
  w_nexts ir dyn ufix uvar n d k h (w_query ir dyn ufix uvar name args nx) = Some (hf, itf, ys, r) ->
  ys = map sto (firstn k (fst (nquery d (mkw ir ffix fvar dyn) name args (mkst h nx)))) /\
  r = (if Nat.leb k (length (fst (nquery d (mkw ir ffix fvar dyn) name args (mkst h nx)))) then RYield
       else rend (snd (nquery d (mkw ir ffix fvar dyn) name args (mkst h nx)))).
Proof. exact compiled_machine_refines_nquery_fuel. Qed.
Print Assumptions C03_machine_refines_nquery_fuel.

(* restoration for this machine program, with NO hypothesis on the registered predicates (arbitrary code): close / drop /
   throw / exhaustion / exception give back the initial heap *)
Theorem C03_world_query_restores :
  forall (ir : ir_program) (dyn : str -> nat -> list frow) (ufix : str -> nat -> option ucode) (uvar : str -> option ucode)
         n d k h name args nx hf itf ys r,
  w_nexts ir dyn ufix uvar n d k h (w_query ir dyn ufix uvar name args nx) = Some (hf, itf, ys, r) ->
  w_iclose hf itf = h
  /\ ithrow lclose hf itf = (h, IDone, RRaise)
  /\ (r <> RYield -> hf = h)
  /\ Forall (fun y => exists nw, y = nw ++ h) ys.
Proof. exact world_query_restores. Qed.
Print Assumptions C03_world_query_restores.

(* the hypothesis is inhabited by the Python predicates of property C20 - `for row in rows: for _ in unify_arrays(args,
   row): yield v`, optionally raising after the last row -: the machine code of that text realizes the answer function
   native_rows (Sem/Native.v) *)
Theorem C03_pyrows_realizes : forall ir dyn ufix uvar rows vals raises,
  realizes ir dyn ufix uvar (pyrows rows raises) (pyrows_fun rows vals raises).
Proof. exact pyrows_realizes. Qed.
Print Assumptions C03_pyrows_realizes.

(* ... and by the RAISING predicate of C20's exception_passthrough, Native.raising f j = "raises instead of delivering its answer
   number j" (every point at which a user predicate raises): its text `n = 0; for row in rows: for _ in unify_arrays(args,
   row): if n == j: raise E; yield v; n += 1` as machine code (pyrows_at, the counter is frame-local state) realizes
   raising (native_rows rows vals) j - so the two theorems above and below cover the worlds `with_raising_fix` of C20 *)
Theorem C03_raising_predicate_realized : forall ir dyn ufix uvar rows vals j,
  realizes ir dyn ufix uvar (pyrows_at rows j) (raising (native_rows rows vals) j).
Proof. exact pyrows_at_realizes. Qed.
Print Assumptions C03_raising_predicate_realized.

(* exception_passthrough at machine level.  NE.nqueryE = nquery carrying the exception OBJECT (XPy tag = the object a
   registered Python predicate raised).  If the query ends with the object e after the answers xs, the consumer of the
   machine's generator object receives exactly xs (each with exactly that answer's bindings), the next resumption raises, the
   heap is the initial one when the exception arrives, and e has every property that the engine's own exceptions and the
   objects raised by the registered predicates have (e.g. Q e := e = XPy tag \/ engine_exn e): it is the object that was
   raised.  (The machine's RRaise carries no payload: it cannot catch or replace an exception - see Engine/RefineExc.v.) *)
Theorem C03_machine_exception_passthrough : forall p ir, compile_program p = Some ir ->
  forall (dyn : str -> nat -> list frow) (ufix : str -> nat -> option ucode) (uvar : str -> option ucode)
         (efix : str -> nat -> option NE.nfunE) (evar : str -> option NE.nfunE),
  (forall name k, orealizes ir dyn ufix uvar (ufix name k) (option_map NE.erf (efix name k))) ->
  (forall name, orealizes ir dyn ufix uvar (uvar name) (option_map NE.erf (evar name))) ->
  forall d name args nx h xs e, wf h ->
  NE.nqueryE d (mkwE ir efix evar dyn) name args (mkst h nx) = (xs, Some e) ->
  (exists N itf, forall n, N <= n ->
     w_nexts ir dyn ufix uvar n d (S (length xs)) h (w_query ir dyn ufix uvar name args nx) =
     Some (h, itf, map sto xs, RRaise))
  /\ (forall Q : NE.exn -> Prop, Q NE.XDepth -> Q NE.XUnify -> Q NE.XGoal -> Q NE.XCode ->
        (forall name k f args s e, efix name k = Some f -> snd (f args s) = Some e -> Q e) ->
        (forall name f args s e, evar name = Some f -> snd (f args s) = Some e -> Q e) -> Q e).
Proof. exact machine_exception_passthrough. Qed.
Print Assumptions C03_machine_exception_passthrough.

Theorem C03_machine_refines_nqueryE : forall p ir, compile_program p = Some ir ->
  forall (dyn : str -> nat -> list frow) (ufix : str -> nat -> option ucode) (uvar : str -> option ucode)
         (efix : str -> nat -> option NE.nfunE) (evar : str -> option NE.nfunE),
  (forall name k, orealizes ir dyn ufix uvar (ufix name k) (option_map NE.erf (efix name k))) ->
  (forall name, orealizes ir dyn ufix uvar (uvar name) (option_map NE.erf (evar name))) ->
  forall d name args nx h k, wf h ->
  exists N hf itf, forall n, N <= n ->
    w_nexts ir dyn ufix uvar n d k h (w_query ir dyn ufix uvar name args nx) =
    Some (hf, itf, map sto (firstn k (fst (NE.nqueryE d (mkwE ir efix evar dyn) name args (mkst h nx)))),
          if Nat.leb k (length (fst (NE.nqueryE d (mkwE ir efix evar dyn) name args (mkst h nx)))) then RYield
          else rendE (snd (NE.nqueryE d (mkwE ir efix evar dyn) name args (mkst h nx))))
    /\ (length (fst (NE.nqueryE d (mkwE ir efix evar dyn) name args (mkst h nx))) < k -> hf = h).
Proof. exact machine_refines_nqueryE. Qed.
Print Assumptions C03_machine_refines_nqueryE.

(* ROUND 3 - an exception raised inside findall/3's OWN frame while the goal's generator object is suspended at an answer
   (the RecursionError of get_value(template): the answer could be computed within the recursion limit, copying it cannot).
   findall_r rz = the builtin with `if rz(frame state): raise` in front of the copy, rz an ARBITRARY predicate of findall's
   frame state (results collected so far included); installed in the engine program of C03_compiled_query_restores in
   place of the builtin.  For every IR program, fact database, registered predicates, rz, query (findall anywhere below it),
   fuel, recursion limit and abandonment point: close / throw / exhaustion / the exception give back the initial heap -
   also through evaluate_bounded. *)
Theorem C03_findall_copy_raise_restores :
  forall (ir : ir_program) (facts : str -> nat -> list fact) (user : str -> list term -> option (code lx fr callp * fr))
         (rz : fr -> bool) n d k h name args nx hf itf ys r,
  m_nexts ir facts (with_findall_r rz user) n d k h (m_query ir facts (with_findall_r rz user) name args nx) = Some (hf, itf, ys, r) ->
  m_iclose hf itf = h
  /\ ithrow lclose hf itf = (h, IDone, RRaise)
  /\ (r <> RYield -> hf = h)
  /\ Forall (fun y => exists nw, y = nw ++ h) ys.
Proof. exact findall_copy_raise_restores. Qed.
Print Assumptions C03_findall_copy_raise_restores.

Theorem C03_findall_copy_raise_bounded_restores :
  forall (ir : ir_program) (facts : str -> nat -> list fact) (user : str -> list term -> option (code lx fr callp * fr))
         (rz : fr -> bool) n d k h name args nx hf ys,
  bounded_m ir facts (with_findall_r rz user) n d k h name args nx = Some (hf, ys) -> hf = h.
Proof. exact findall_copy_raise_bounded_restores. Qed.
Print Assumptions C03_findall_copy_raise_bounded_restores.

(* the scenario itself: the goal's generator delivers an answer (it is then suspended, it1, its bindings are in h1), the copy
   raises: findall's frame ends by the exception, and the heap that arrives is h1 with the suspended generator closed = h *)
Theorem C03_findall_copy_raise_step :
  forall (ir : ir_program) (facts : str -> nat -> list fact) (user : str -> list term -> option (code lx fr callp * fr))
         (rz : fr -> bool) n d h t g l (e : fr) h1 it1,
  rz e = true ->
  m_inext ir facts (with_findall_r rz user) (S (S (S n))) d h
    (mkiter mkleaf (prog ir facts (with_findall_r rz user)) (call_expr g [] (f_nxt e) e h) h) = Some (h1, it1, RYield) ->
  m_inext ir facts (with_findall_r rz user) (S (S (S (S (S (S (S n))))))) (S d) h (IFresh (findall_r rz t g l) e)
    = Some (m_iclose h1 it1, IDone, RRaise)
  /\ m_iclose h1 it1 = h.
Proof. exact findall_r_raise_step. Qed.
Print Assumptions C03_findall_copy_raise_step.

(* The ORDER of finalisation does not matter.  In CPython the suspended goal generator of the scenario above sits in a local
   of findall's frame, which the traceback keeps alive: it is finalised when the exception object dies, AFTER the enclosing
   generators were closed by the unwinding; the machine closes it first.  For the engine instance closing a generator object
   removes exactly the cells its leaves own, from any heap: closing `it` after the continuation k was unwound = closing it
   first; any two generator objects can be closed in either order. *)
Theorem C03_delayed_close_commutes : forall (it : iter leaf lx fr callp) (k : kont leaf lx fr callp) h,
  iclose lclose (unwind lclose h k) it = unwind lclose (iclose lclose h it) k.
Proof. exact delayed_close_commutes. Qed.
Print Assumptions C03_delayed_close_commutes.

Theorem C03_close_order_irrelevant : forall (it1 it2 : iter leaf lx fr callp) h,
  iclose lclose (iclose lclose h it1) it2 = iclose lclose (iclose lclose h it2) it1.
Proof. exact close_order_irrelevant. Qed.
Print Assumptions C03_close_order_irrelevant.

(* non-vacuity: findall(g(X), p(X), L) over the facts p(a). p(f(b)). under a non-empty heap: without a raising copy one
   answer L = [g(a), g(f(b))]; when the copy of the SECOND answer raises (the goal is suspended at p(f(b)) with X bound)
   the exception arrives with exactly the initial heap *)
Example C03_findall_copy_raises_nonvacuous :
  ex_findall_run (fun e => Nat.eqb (length (f_acc e)) 1) 1 = Some ([(7, TAtom (d "keep"))], IDone, [], RRaise).
Proof. exact ex_findall_copy_raises. Qed.

(* non-vacuity: a query three frames deep yields an answer with two new bindings on top of a
   non-empty heap, and asking for the next answer makes a user predicate raise; the heap is then
   the initial one *)
Example C03_nonvacuous :
  ex_run 2 = Some ([(7, A "keep")], IDone, [[(2, TFun (d "f") [A "a"]); (1, A "a"); (7, A "keep")]], RRaise).
Proof. exact ex_raise. Qed.

(* non-vacuity of the refinement: r(X,L) :- mem(X,[a,b,c]), findall(Y, mem(Y,[X,d]), L), \+ X = b.
   compiled by the model compiler; the machine yields two answers (X = a, X = c) whose stores are
   those of the big-step semantics, then stops with the empty heap *)
Example C03_refines_nonvacuous : refine_example = true.
Proof. vm_compute. reflexivity. Qed.

Example C03_refines_facts_nonvacuous : refine_example_facts = true.
Proof. vm_compute. reflexivity. Qed.

(* non-vacuity of machine_refines_nquery / machine_exception_passthrough:  t(X,Y) :- pyq(X), d0(Y).  with the dynamic facts
   d0(f(_)). d0([]). and the Python predicate pyq/1 = rows a, c, then `raise E` (E = XPy 7): the table satisfies the
   hypotheses (ex_table_ok), the machine yields the four answer stores of nqueryE, then raises with the empty heap, and
   nqueryE ends with exactly XPy 7 *)
Example C03_refines_native_nonvacuous :
  (forall ir dyn name k, orealizes ir dyn ex_ufix novar (ex_ufix name k) (option_map NE.erf (ex_efix name k)))
  /\ refine_example_native = true
  /\ (forall ir dyn name k, orealizes ir dyn ex_ufix_at novar (ex_ufix_at name k) (ex_ffix_at name k))
  /\ refine_example_raising = true.      (* pyq raises instead of its answer number 1: two answers, then the exception *)
Proof. split; [exact ex_table_ok|split; [vm_compute; reflexivity|split; [exact ex_table_at_ok|vm_compute; reflexivity]]]. Qed.

From YP Require Import Engine.Forwarded.

(* round 4: close() must REACH the open iterator of a delegating frame (Engine/Forwarded.v).  YP.query delegates to the iterator
   a user predicate returns; closing the query closes that iterator (the machine: unwind over KLoop it body k).  If the frame
   is torn down WITHOUT closing `it` (a `for` loop in place of `yield from`, the iterator object still referenced by the
   application) the heap is `unwind h k`: every bound cell that `it` owns stays bound - and with the forwarded close none does. *)
Theorem C03_close_must_be_forwarded : forall (it : iter leaf lx fr callp) body (k : kont leaf lx fr callp) (h : heap) n,
  In n (icells it) -> ~ In n (kcells k) -> In n (keys h) ->
  In n (keys (unwind lclose h k)) /\ ~ In n (keys (unwind lclose h (KLoop it body k))).
Proof. exact close_must_be_forwarded. Qed.
Print Assumptions C03_close_must_be_forwarded.

Theorem C03_forwarded_close_releases : forall (it : iter leaf lx fr callp) body (k : kont leaf lx fr callp) (h : heap) n,
  In n (icells it ++ kcells k) -> ~ In n (keys (unwind lclose h (KLoop it body k))).
Proof. exact forwarded_close_releases. Qed.
Print Assumptions C03_forwarded_close_releases.

Example C03_forwarded_nonvacuous :
  In 3 (icells fw_it) /\ ~ In 3 (kcells fw_k) /\ In 3 (keys fw_heap) /\
  unwind lclose fw_heap fw_k = fw_heap /\
  unwind lclose fw_heap (KLoop fw_it CSkip fw_k) = [(7, TAtom (d "keep"%string))].
Proof. exact forwarded_example. Qed.
