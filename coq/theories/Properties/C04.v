(* C04 - engine instances are isolated; interleaved queries do not interfere. (placeholder, replaced below) *)
From Coq Require Import List Arith.
From YP Require Import Engine.World.
Theorem C04_eng_of_cell : forall n e m, e < n -> eng_of n (cell n e m) = e.
Proof. exact eng_of_cell. Qed.
Print Assumptions C04_eng_of_cell.
