(* C04 - engine instances are isolated; interleaved queries do not interfere.
   Only statements; every proof is `exact <lemma>` to a lemma proved in Engine/Isolation.v, Engine/Slots.v,
   Engine/SlotsReach.v, Engine/Footprint.v, Engine/CursorFrame.v, Engine/Frame.v (examples: Engine/IsolationExamples.v,
   Engine/SlotsExamples.v, Engine/NonLifoExamples.v, Engine/SharedExamples.v).

   Model (Engine/World.v): a world = n engine records (atom table, fact store, eval_context, reserved names,
   the query generators the caller holds) + ONE heap of variable bindings shared by all engines (a Variable
   is not owned by an engine in the code either).  A step = (engine id, operation); operations: atom,
   assert (assert_fact/asserta/assertz), retract(all), register_function, load_script (overwrite / chained),
   clear, start / next / close-or-drop / drain of a query generator in a slot, peek (get_value of terms over the
   user's variables between two steps).  A query runs clause bodies that call facts, rules, = and the database
   builtins asserta/1, assertz/1, retract/1, retractall/1 (copy-on-write fact lists, stored copies with variables of
   their own, retract by identity in the current list): a generator step may write the fact store of ITS engine.
   The thread part of the property is NOT a theorem: the model's schedules
   are at operation (= generator step) granularity; threads are a test of the harness (run (c)).
   Pe n i = the cells of engine i (its user variables and everything its queries allocate);
   fP P h / fN P h = the bindings of the heap h whose cell is / is not in P (order kept);
   winv = world invariant: engine ids < n, each generator of engine i holds terms over Pe n i only, and the value
   bound to a cell of engine j mentions cells of engine j only ("engines do not share variables").
   Fuel is the search fuel of one generator step; all statements hold for every fuel (an out-of-fuel step is the
   observation "err", the same on both sides). *)
From Coq Require Import String.
From Coq Require Import List Arith Bool.
Import ListNotations.
From YP Require Import Base.Str Term.Term Unify.Unify Engine.Frame Engine.Db Engine.World Engine.CursorFrame
  Engine.Isolation Engine.Footprint Engine.Slots Engine.SlotsReach Engine.IsolationExamples Engine.SlotsExamples Engine.NonLifoExamples Engine.SharedExamples Engine.MetaExamples.

(* the initial world of any number of engines satisfies the invariant, and every step keeps it (see step_local) *)
Theorem C04_init_world_inv : forall n, winv (init_world n).
Proof. exact init_world_inv. Qed.
Print Assumptions C04_init_world_inv.

(* 1. step_local: one operation of engine i, whatever it is,
      - leaves the record of every other engine untouched,
      - leaves every binding of a cell that is not engine i's in place (same value, same position),
        in particular the part of the heap every other engine j can see,
      - adds bindings of engine i's cells only,
      - and reads nothing but engine i's record and engine i's part of the heap: run on the heap cut down to
        engine i's cells it gives the same new record, the same observation and the same new own part. *)
Theorem C04_step_local : forall fuel w i o w' ob,
  winv w -> wstep fuel w (i, o) = (w', ob) ->
  winv w' /\ wn w' = wn w
  /\ (forall j, j <> i -> aget Nat.eqb j (engs w') = aget Nat.eqb j (engs w))
  /\ fN (Pe (wn w) i) (heap w') = fN (Pe (wn w) i) (heap w)
  /\ (forall j, j <> i -> fP (Pe (wn w) j) (heap w') = fP (Pe (wn w) j) (heap w))
  /\ newP (Pe (wn w) i) (heap w) (heap w')
  /\ match aget Nat.eqb i (engs w) with
     | None => w' = w
     | Some e => exists e', aget Nat.eqb i (engs w') = Some e'
                   /\ estep fuel (wn w) i o e (fP (Pe (wn w) i) (heap w)) = (e', fP (Pe (wn w) i) (heap w'), ob)
     end.
Proof. exact step_local. Qed.
Print Assumptions C04_step_local.

(* the same as a noninterference statement: on two heaps that agree on engine i's cells, an operation of engine i
   gives the same record and the same observation, heaps that agree again, and changes nothing else in either *)
Theorem C04_step_noninterference : forall n i, i < n -> forall fuel o e h1 h2 e1 h1' ob1 e2 h2' ob2,
  closed (Pe n i) h1 -> closed (Pe n i) h2 -> einv n i e -> fP (Pe n i) h1 = fP (Pe n i) h2 ->
  estep fuel n i o e h1 = (e1, h1', ob1) -> estep fuel n i o e h2 = (e2, h2', ob2) ->
  e1 = e2 /\ ob1 = ob2 /\ fP (Pe n i) h1' = fP (Pe n i) h2'
  /\ fN (Pe n i) h1' = fN (Pe n i) h1 /\ fN (Pe n i) h2' = fN (Pe n i) h2.
Proof. exact estep_agree. Qed.
Print Assumptions C04_step_noninterference.

(* 2. interleave_alone: any number of engines, EVERY schedule (= every merge of the per-engine histories
      `only i sched`), from any world that satisfies the invariant: for every engine i, the sequence of its
      observations (proj i tr), the record it ends with and its part of the final heap are exactly those of
      running its own operations alone on a private heap (erun = estep iterated, no other engine exists there). *)
Theorem C04_interleave_alone : forall fuel sched w w' tr,
  winv w -> wrun fuel w sched = (w', tr) ->
  winv w' /\
  forall i e, aget Nat.eqb i (engs w) = Some e ->
    exists e', aget Nat.eqb i (engs w') = Some e' /\
      erun (wn w) i fuel (map snd (only i sched)) e (fP (Pe (wn w) i) (heap w))
      = (e', fP (Pe (wn w) i) (heap w'), proj i tr).
Proof. exact interleave_alone. Qed.
Print Assumptions C04_interleave_alone.

(* ... from freshly created engines: *)
Theorem C04_interleave_alone_init : forall fuel n sched i, i < n ->
  proj i (snd (wrun fuel (init_world n) sched))
  = snd (erun n i fuel (map snd (only i sched)) init_engine []).
Proof. exact interleave_alone_init. Qed.
Print Assumptions C04_interleave_alone_init.

(* ... which is what engine i observes when the other engines never do anything: *)
Theorem C04_interleaved_eq_alone : forall fuel n sched i, i < n ->
  proj i (snd (wrun fuel (init_world n) sched)) = map snd (snd (wrun fuel (init_world n) (only i sched))).
Proof. exact interleave_alone_world. Qed.
Print Assumptions C04_interleaved_eq_alone.

(* ... so no engine can tell two merges of the same histories apart: *)
Theorem C04_merges_indistinguishable : forall fuel n s1 s2 i, i < n -> only i s1 = only i s2 ->
  proj i (snd (wrun fuel (init_world n) s1)) = proj i (snd (wrun fuel (init_world n) s2)).
Proof. exact merges_indistinguishable. Qed.
Print Assumptions C04_merges_indistinguishable.

(* the same with the histories given: hists[i] = the operations of engine i; is_merge n hists sched says that sched is
   one of their merges (the operations of engine i appear in sched in their order).  EVERY merge shows engine i the
   observations of its history run alone, hence the same as the merge "back to back" (b2b: the whole history of engine
   0, then the whole history of engine 1, ...), which is a merge too. *)
Theorem C04_every_merge : forall fuel n hists sched, is_merge n hists sched ->
  forall i, i < n ->
  proj i (snd (wrun fuel (init_world n) sched)) = snd (erun n i fuel (nth i hists []) init_engine []).
Proof. exact every_merge. Qed.
Print Assumptions C04_every_merge.

Theorem C04_back_to_back_is_merge : forall n hists, is_merge n hists (b2b 0 hists).
Proof. exact b2b_is_merge. Qed.
Print Assumptions C04_back_to_back_is_merge.

Theorem C04_merge_eq_back_to_back : forall fuel n hists sched, is_merge n hists sched ->
  forall i, i < n ->
  proj i (snd (wrun fuel (init_world n) sched)) = proj i (snd (wrun fuel (init_world n) (b2b 0 hists))).
Proof. exact merge_eq_back_to_back. Qed.
Print Assumptions C04_merge_eq_back_to_back.

(* 3. same_engine_disjoint, engine level: any number of generators of ONE engine, suspended simultaneously, over
      pairwise disjoint sets of cells PQ q (sinv: the generator in slot q holds terms over PQ q and allocates in
      PQ q; heap values of PQ q cells are over PQ q).  Generators of one engine share its fact store, and clause bodies
      may write it.  Every access of a step to the fact store is in the log of the step (step_log: key = (name, arity),
      read or written).  K = any set of keys.  foot_ok K q: in this run every step on slot q touches only keys of K and
      every step on another slot WRITES only keys outside K (it may read anything).  Then, for EVERY sequence of next /
      close / drain operations on the slots, what is observed on slot q is what is observed when only the operations on
      slot q are run, on q's part of the heap.  (q itself may write, inside K.) *)
Theorem C04_same_engine_slots_K : forall n i PQ,
  (forall q q' v, q <> q' -> PQ q v = true -> PQ q' v = false) ->
  forall K fuel ops e h q, Forall qop ops -> sinv n i PQ e h -> foot_ok n i K q fuel ops e h ->
  pick q ops (snd (erun n i fuel ops e h)) = snd (erun n i fuel (filter (is_slot q) ops) e (fP (PQ q) h)).
Proof. exact same_engine_slots_K. Qed.
Print Assumptions C04_same_engine_slots_K.

(* the invariant form: also the generator left in slot q and q's part of the heap are those of the run alone, and the fact
   stores of the two runs agree on K (simK: same definitions, same facts under every key of K, same generator in q),
   from any engine record that agrees with e in this sense *)
Theorem C04_slots_alone_K : forall n i PQ,
  (forall q q' v, q <> q' -> PQ q v = true -> PQ q' v = false) ->
  forall K fuel q ops e h e' h' bs, Forall qop ops -> sinv n i PQ e h -> erun n i fuel ops e h = (e', h', bs) ->
  foot_ok n i K q fuel ops e h ->
  sinv n i PQ e' h' /\
  forall ea, simK K q e ea ->
    exists ea', erun n i fuel (filter (is_slot q) ops) ea (fP (PQ q) h) = (ea', fP (PQ q) h', pick q ops bs)
                /\ simK K q e' ea'.
Proof. exact slots_alone_K. Qed.
Print Assumptions C04_slots_alone_K.

(* the two facts about one generator step behind it: on two fact stores that agree on K, a step that touches only K gives the
   same generator, heap, result and log, and stores that agree on K again; a step that writes only outside K leaves the
   store as it was on K *)
Theorem C04_step_footprint_agree : forall K fuel d1 d2 fresh h c c' h' r lg d1', dbK K d1 d2 ->
  cnext fuel d1 fresh h c = (c', h', r, lg, d1') -> Forall (inK K) lg ->
  exists d2', cnext fuel d2 fresh h c = (c', h', r, lg, d2') /\ dbK K d1' d2'.
Proof. exact cnext_agree. Qed.
Print Assumptions C04_step_footprint_agree.

Theorem C04_step_footprint_writes : forall K fuel d fresh h c c' h' r lg d',
  cnext fuel d fresh h c = (c', h', r, lg, d') -> Forall (wrOut K) lg -> dbK K d d'.
Proof. exact cnext_writes. Qed.
Print Assumptions C04_step_footprint_writes.

(* read-only queries (the case the property text promises): nowrite = no step of the run writes the fact store.  Then
   every slot q observes what it observes alone (K = all keys). *)
Theorem C04_same_engine_slots : forall n i PQ,
  (forall q q' v, q <> q' -> PQ q v = true -> PQ q' v = false) ->
  forall fuel ops e h q, Forall qop ops -> sinv n i PQ e h -> nowrite n i fuel ops e h ->
  pick q ops (snd (erun n i fuel ops e h)) = snd (erun n i fuel (filter (is_slot q) ops) e (fP (PQ q) h)).
Proof. exact same_engine_slots. Qed.
Print Assumptions C04_same_engine_slots.

Theorem C04_slots_alone : forall n i PQ,
  (forall q q' v, q <> q' -> PQ q v = true -> PQ q' v = false) ->
  forall fuel ops e h e' h' bs, Forall qop ops -> sinv n i PQ e h -> erun n i fuel ops e h = (e', h', bs) ->
  nowrite n i fuel ops e h ->
  sinv n i PQ e' h' /\
  forall q ea, simK (fun _ => true) q e ea ->
    exists ea', erun n i fuel (filter (is_slot q) ops) ea (fP (PQ q) h) = (ea', fP (PQ q) h', pick q ops bs)
                /\ simK (fun _ => true) q e' ea'.
Proof. exact slots_alone. Qed.
Print Assumptions C04_slots_alone.

(* how the hypothesis sinv comes about: it holds when the engine holds no generator, and starting a query in slot q
   whose argument terms are over a set of cells Pnew (which contains the cells the new query will allocate: they are named
   after the engine's start counter) extends the family by PQ q := Pnew; a generator that was in the slot is dropped.
   With Pnew disjoint from the other PQ q' this is "simultaneously suspended queries over disjoint variables". *)
Theorem C04_slots_none : forall n i PQ e h, cursors e = [] -> (forall q, closed (PQ q) h) -> sinv n i PQ e h.
Proof. exact sinv_nocursors. Qed.
Print Assumptions C04_slots_none.

Theorem C04_slots_start : forall fuel n i PQ q Pnew nm args e h e' h' ob,
  sinv n i PQ e h ->
  Forall (tin Pnew) (map (rn (ucell n i)) args) -> (forall k, Pnew (ccell n i (nstart e) k) = true) -> closed Pnew h ->
  estep fuel n i (OStart q nm args) e h = (e', h', ob) ->
  sinv n i (fun q' => if Nat.eqb q' q then Pnew else PQ q') e' h'.
Proof. exact sinv_start. Qed.
Print Assumptions C04_slots_start.

(* ... and in every state an engine can reach: R n i e h = invariant of (engine record, heap): every held generator c has a
   query number below the start counter, argument variables that are user cells of this engine, and holds terms over
   PQc c (= the cells named after its query number + the variables of its arguments) only; generators in different slots
   have different query numbers and no argument variable in common; every binding of a cell of this engine in the heap is
   in the trail of a held generator.  EVERY operation keeps R, provided a start uses variables that do not occur in the
   queries held in the other slots at that moment (op_ok / hist_ok); R gives sinv for the family read off the record. *)
Theorem C04_reach_invariant : forall n i, i < n -> forall fuel ops e h e' h' bs,
  R n i e h -> hist_ok n i fuel ops e h -> erun n i fuel ops e h = (e', h', bs) -> R n i e' h'.
Proof. exact R_run. Qed.
Print Assumptions C04_reach_invariant.

Theorem C04_reach_sinv : forall n i, i < n -> forall e h, R n i e h -> sinv n i (PQ_of n i e) e h.
Proof. exact R_sinv. Qed.
Print Assumptions C04_reach_sinv.

(* the last sentence of the property text, self-contained: a new engine, ANY history pre of operations of all kinds in
   which queries are started over variables not occurring in the other queries held, then ANY sequence of next / close /
   drain on the slots: what is observed on slot q is what is observed when only the operations on q are run, if q touches
   only K and the others write only outside K ... *)
Theorem C04_disjoint_queries_alone_K : forall n i, i < n -> forall K fuel pre ops e h bs0 q,
  hist_ok n i fuel pre init_engine [] -> erun n i fuel pre init_engine [] = (e, h, bs0) -> Forall qop ops ->
  foot_ok n i K q fuel ops e h ->
  pick q ops (snd (erun n i fuel ops e h))
  = snd (erun n i fuel (filter (is_slot q) ops) e (fP (PQ_of n i e q) h)).
Proof. exact disjoint_queries_alone_K. Qed.
Print Assumptions C04_disjoint_queries_alone_K.

(* ... in particular if no step writes (side-effect free queries) *)
Theorem C04_disjoint_queries_alone : forall n i, i < n -> forall fuel pre ops e h bs0 q,
  hist_ok n i fuel pre init_engine [] -> erun n i fuel pre init_engine [] = (e, h, bs0) -> Forall qop ops ->
  nowrite n i fuel ops e h ->
  pick q ops (snd (erun n i fuel ops e h))
  = snd (erun n i fuel (filter (is_slot q) ops) e (fP (PQ_of n i e q) h)).
Proof. exact disjoint_queries_alone. Qed.
Print Assumptions C04_disjoint_queries_alone.

(* ... and NOT without such a condition: the literal reading of the last sentence of the property text ("simultaneously
   suspended queries over disjoint variables each produce the answers they produce when run alone") for queries with
   side effects is false of the model - and of the code, see notes/C04.md: p(a); g0 = query p(X0); g1 = query
   assertz(p(b)); next(g1); then g0 answers a, b, but a alone (the snapshot of p/1 is taken at the first next). *)
Theorem C04_disjoint_queries_alone_writes_refuted :
  exists n i fuel pre ops e h bs0 q, i < n /\
    hist_ok n i fuel pre init_engine [] /\ erun n i fuel pre init_engine [] = (e, h, bs0) /\ Forall qop ops /\
    pick q ops (snd (erun n i fuel ops e h))
    <> snd (erun n i fuel (filter (is_slot q) ops) e (fP (PQ_of n i e q) h)).
Proof. exact disjoint_queries_alone_writes_refuted. Qed.
Print Assumptions C04_disjoint_queries_alone_writes_refuted.

(* both halves of the property in one statement: any number of engines, ANY schedule; the operations of engine i are a
   history pre (any operations; queries started over variables not occurring in the other queries it holds) followed by
   next / close / drain operations ops, interleaved in any way with the operations of the other engines.  What engine i
   observes on slot q during ops is what that slot shows when it is the only one advanced, in an engine that ran alone. *)
Theorem C04_world_disjoint_queries_alone_K : forall K fuel n i sched pre ops e h bs0 q, i < n ->
  map snd (only i sched) = pre ++ ops ->
  hist_ok n i fuel pre init_engine [] -> erun n i fuel pre init_engine [] = (e, h, bs0) -> Forall qop ops ->
  foot_ok n i K q fuel ops e h ->
  pick q ops (skipn (length pre) (proj i (snd (wrun fuel (init_world n) sched))))
  = snd (erun n i fuel (filter (is_slot q) ops) e (fP (PQ_of n i e q) h)).
Proof. exact world_disjoint_queries_alone_K. Qed.
Print Assumptions C04_world_disjoint_queries_alone_K.

Theorem C04_world_disjoint_queries_alone : forall fuel n i sched pre ops e h bs0 q, i < n ->
  map snd (only i sched) = pre ++ ops ->
  hist_ok n i fuel pre init_engine [] -> erun n i fuel pre init_engine [] = (e, h, bs0) -> Forall qop ops ->
  nowrite n i fuel ops e h ->
  pick q ops (skipn (length pre) (proj i (snd (wrun fuel (init_world n) sched))))
  = snd (erun n i fuel (filter (is_slot q) ops) e (fP (PQ_of n i e q) h)).
Proof. exact world_disjoint_queries_alone. Qed.
Print Assumptions C04_world_disjoint_queries_alone.

(* the dereference / unification frame property everything rests on (Engine/Frame.v): over a heap that is closed
   for P, unifying terms over P on the heap cut down to P gives the cut-down result, and the result only adds
   bindings of P cells with values over P on top of the old heap *)
Theorem C04_unify_frame : forall (P : nat -> bool) n s xs ys,
  closed P s -> Forall (tin P) xs -> Forall (tin P) ys ->
  unify_arrays n (fP P s) xs ys = umap P (unify_arrays n s xs ys) /\ upost P s (unify_arrays n s xs ys).
Proof. exact unify_arrays_frame. Qed.
Print Assumptions C04_unify_frame.

(* non-vacuity: two engines with the same script and the same predicate name p/1 but different facts; after 10
   steps of the schedule both generators are suspended and the shared heap holds the bindings of both, interleaved;
   engine 0 sees a, b, done and engine 1 sees c, done *)
Example C04_nonvacuous_world :
  proj 0 (snd (wrun 100 (init_world 2) xsched))
  = [otag "ok" []; otag "ok" []; otag "ok" []; otag "started" []; xans "a"; xans "b"; otag "done" []; otag "atom" [OL [onat 1]]]
  /\ proj 1 (snd (wrun 100 (init_world 2) xsched))
  = [otag "ok" []; otag "ok" []; otag "started" []; xans "c"; otag "done" []; otag "atom" [OL [onat 1]]]
  /\ heap (fst (wrun 100 (init_world 2) (firstn 10 xsched)))
  = [(2, xA "b"); (0, TVar 2); (3, xA "c"); (1, TVar 3)].
Proof. exact ex_world. Qed.

(* non-vacuity of the slot theorem: an engine reached by assert, assert, start, start; the hypotheses hold for the
   family xPQ; both generators enumerate p/1 and each sees a, b although the other is advanced in between *)
Example C04_nonvacuous_slots :
  Forall qop xops /\ sinv 1 0 xPQ xe []
  /\ pick 0 xops (snd (erun 1 0 50 xops xe [])) = [xans "a"; xans "b"; otag "done" []]
  /\ pick 1 xops (snd (erun 1 0 50 xops xe [])) = [xans "a"; xans "b"; otag "closed" []; otag "done" []]
  /\ snd (fst (erun 1 0 50 (firstn 2 xops) xe [])) <> [].
Proof. exact ex_slots. Qed.

(* non-vacuity of C04_disjoint_queries_alone: the history assert, assert, start p(X0), start p(X1) satisfies hist_ok and
   reaches the engine xe of the previous example *)
Example C04_nonvacuous_reach :
  hist_ok 1 0 50 xprep init_engine [] /\ fst (fst (erun 1 0 50 xprep init_engine [])) = xe
  /\ snd (fst (erun 1 0 50 xprep init_engine [])) = [] /\ Forall qop xops
  /\ pick 0 xops (snd (erun 1 0 50 xops xe [])) = [xans "a"; xans "b"; otag "done" []]
  /\ pick 1 xops (snd (erun 1 0 50 xops xe [])) = [xans "a"; xans "b"; otag "closed" []; otag "done" []].
Proof. exact ex_reach. Qed.

(* non-vacuity of the footprint theorem: p(a). p(b). q(c). q(c).  w(X) :- p(X), assertz(q(X)), retract(q(c)).  Slot 0 holds
   p(X0), slot 1 holds w(X1); K = {p/1}.  The steps of slot 1 assert and retract facts of q/1 while slot 0 is suspended;
   foot_ok holds; slot 0 sees a, b, done as alone; the fact store q/1 changed from [c; c] to [a; b] *)
Example C04_nonvacuous_footprint :
  hist_ok 1 0 80 wprep init_engine [] /\ Forall qop wops
  /\ foot_ok 1 0 wK 0 80 wops we []
  /\ pick 0 wops (snd (erun 1 0 80 wops we [])) = [xans "a"; xans "b"; otag "done" []]
  /\ pick 1 wops (snd (erun 1 0 80 wops we [])) = [xans "a"; xans "a"; otag "done" []; otag "done" []]
  /\ map fargs (find_facts (edb we) xq 1) = [[xA "c"]; [xA "c"]]
  /\ map fargs (find_facts (edb (fst (fst (erun 1 0 80 wops we [])))) xq 1) = [[xA "a"]; [xA "b"]]
  /\ pick 0 wops (snd (erun 1 0 80 wops we [])) = snd (erun 1 0 80 (filter (is_slot 0) wops) we []).
Proof. exact ex_foot. Qed.

(* the witness of the refutation: interleaved the reader sees a, b, done; alone a, done, done *)
Example C04_refuted_values :
  let e := fst (fst (erun 1 0 50 rprep init_engine [])) in
  pick 0 rops (snd (erun 1 0 50 rops e [])) = [xans "a"; xans "b"; otag "done" []]
  /\ snd (erun 1 0 50 (filter (is_slot 0) rops) e []) = [xans "a"; otag "done" []; otag "done" []].
Proof. exact ex_refuted_values. Qed.

(* the hypotheses of the read-only theorem C04_same_engine_slots hold for the run of C04_nonvacuous_slots *)
Example C04_nonvacuous_readonly : nowrite 1 0 50 xops xe [] /\ Forall qop xops /\ sinv 1 0 xPQ xe [].
Proof. exact ex_nowrite. Qed.

(* round 3: the hypotheses of C04_disjoint_queries_alone on a history whose generator lifetimes do NOT nest, over a dynamic
   fact with a shared variable: p(X,X).  g0 = query p(V0,a); next g0; g1 = query p(V1,b); next g1; close g0 (the OLDER one,
   g1 stays suspended, its bindings are in the heap); g2 = query p(V2,c).  Then next g2; next g1; next g2; next g1: g2
   answers (c, c) and ends - its pattern clashes with g1's binding of the fact's variable, which it must not see - exactly as
   in the run in which only g2 is advanced *)
Example C04_nonvacuous_nonlifo :
  hist_ok 1 0 50 nprep init_engine [] /\ Forall qop nops /\ nowrite 1 0 50 nops ne nh
  /\ snd (erun 1 0 50 nprep init_engine [])
     = [otag "ok" []; otag "started" []; xans2 "a" "a"; otag "started" []; xans2 "b" "b"; otag "closed" []; otag "started" []]
  /\ length nh = 2
  /\ pick 2 nops (snd (erun 1 0 50 nops ne nh)) = [xans2 "c" "c"; otag "done" []]
  /\ pick 1 nops (snd (erun 1 0 50 nops ne nh)) = [otag "done" []; otag "done" []]
  /\ pick 2 nops (snd (erun 1 0 50 nops ne nh))
     = snd (erun 1 0 50 (filter (is_slot 2) nops) ne (fP (PQ_of 1 0 ne 2) nh)).
Proof. exact ex_nonlifo. Qed.

(* round 3: generators suspended INSIDE A RECURSION at the same time: n(z). n(s(X)) :- n(X).  c(a).  g0, g1, g2 enumerate n/1
   and are suspended two, one and two calls deep (their steps interleaved); the oldest, g0, is closed; the probe g3 = c(V3) is
   started.  Then next g3; next g1; next g3; next g2: the probe answers a and ends, g1 and g2 go on with s(s(z)) and
   s(s(s(z))); probe and g1 observe what they observe when only they are advanced *)
Example C04_nonvacuous_deep :
  hist_ok 1 0 80 dprep init_engine [] /\ Forall qop dops /\ nowrite 1 0 80 dops de dh
  /\ pick 3 dops (snd (erun 1 0 80 dops de dh)) = [xans "a"; otag "done" []]
  /\ pick 1 dops (snd (erun 1 0 80 dops de dh)) = [xobs1 (xS (xS (xA "z")))]
  /\ pick 2 dops (snd (erun 1 0 80 dops de dh)) = [xobs1 (xS (xS (xS (xA "z"))))]
  /\ 4 <= length dh
  /\ pick 3 dops (snd (erun 1 0 80 dops de dh))
     = snd (erun 1 0 80 (filter (is_slot 3) dops) de (fP (PQ_of 1 0 de 3) dh))
  /\ pick 1 dops (snd (erun 1 0 80 dops de dh))
     = snd (erun 1 0 80 (filter (is_slot 1) dops) de (fP (PQ_of 1 0 de 1) dh)).
Proof. exact ex_deep. Qed.

(* round 4: the SAME inputs given to two engines (in the model an argument is a value: the same rows srow2 = [7; 1],
   srow1 = [42] in two ORegister operations).  Engine 0 registers them with variable arity, engine 1 under arity 1 (what arity=None has to infer for a
   `*args` function); both query w/2 and w/1.  Engine 0 answers both, engine 1 only w/1 - in the interleaved schedule, back to
   back in the other order, and alone (instance of C04_interleave_alone_init that is not trivial: the two engines differ) *)
Example C04_nonvacuous_shared_inputs :
  proj 0 (snd (wrun 100 (init_world 2) ssched))
  = [otag "ok" []; otag "started" []; sall [srow2]; otag "started" []; sall [srow1]]
  /\ proj 1 (snd (wrun 100 (init_world 2) ssched))
  = [otag "ok" []; otag "started" []; sall []; otag "started" []; sall [srow1]]
  /\ proj 0 (snd (wrun 100 (init_world 2) ssched')) = proj 0 (snd (wrun 100 (init_world 2) ssched))
  /\ proj 1 (snd (wrun 100 (init_world 2) ssched')) = proj 1 (snd (wrun 100 (init_world 2) ssched))
  /\ proj 0 (snd (wrun 100 (init_world 2) ssched)) = snd (erun 2 0 100 (map snd (only 0 ssched)) init_engine [])
  /\ proj 1 (snd (wrun 100 (init_world 2) ssched)) = snd (erun 2 1 100 (map snd (only 1 ssched)) init_engine []).
Proof. exact ex_shared_inputs. Qed.

(* Round 6: the generator machine of the world model runs the meta-call builtins \= /2, call/N, once/1, findall/3 in clause
   bodies and as queries (World.metastep, ctl_goal, coll_finish; frames FBar / FNeg / FColl); every theorem above is about
   this extended machine (the per-step lemmas sstep_frame, sstep_agree, sstep_log, sstep_writes have the new cases).
   Non-vacuity: two engines load the SAME script  u(L) :- findall(s(X,Y), p(X), L).  f(X) :- once(p(X)).
   n(X) :- p(X), X \= a.  c(X) :- G = p, call(G, X).  over different facts p/1; their generators are advanced in an
   interleaved schedule (after 13 steps four generators are suspended, 10 bindings in the one heap); engine 0 observes
   c: a | u: [s(a,_36), s(b,_50)] | f: a, done | c: b, done | n: [b] | '=' interned as its 4th atom; engine 1 observes
   n: c | u: [s(c,_37)] | done; and both sequences are those of the engine ALONE (the instance of C04_interleave_alone_init) *)
(* one step of the generator machine - ANY frame on top of the stack: goal, fact, function, clause, retract, the meta-call
   builtins (metastep), the control goals of once / \= / findall (ctl_goal), FBar, FNeg, FColl (coll_finish) - whose frames are
   over the cell set P, on a heap that is closed for P: run on the heap cut down to P it gives the same result (same new stack,
   answer, fact store, log), and the new stack is over P again.  This is the lemma that is lifted to search / cnext / estep. *)
Theorem C04_generator_step_frame : forall (P : nat -> bool) (fresh : nat -> nat),
  (forall k, P (fresh k) = true) -> forall newid h0 m, closed P h0 -> Forall (fgood P) (mfr m) ->
  sstep (fP P h0) fresh newid m = sstep h0 fresh newid m /\ kgood P (sstep h0 fresh newid m).
Proof. exact (@sstep_frame). Qed.
Print Assumptions C04_generator_step_frame.

(* the steps of the meta-call builtins and of their control goals (everything that goes through lift_m) neither touch the
   fact store nor the access log: whatever once / call / findall / \= read or write, they do through the goals they start *)
Theorem C04_meta_steps_silent : forall m x, klog m (lift_m m x) = mlog m /\ kdb m (lift_m m x) = mdb m.
Proof. exact lift_m_silent. Qed.
Print Assumptions C04_meta_steps_silent.

Example C04_nonvacuous_meta :
  proj 0 (snd (wrun 200 (init_world 2) msched))
  = [otag "ok" []; otag "ok" []; otag "ok" []; otag "started" []; mans (mA "a"); otag "started" [];
     mans (mlist [mS "a" 36; mS "b" 50]); otag "started" []; mans (mA "a"); otag "done" []; mans (mA "b"); otag "done" [];
     otag "started" []; otag "all" [OL [OL [Term.Show.term_obs (mA "b")]]; OL []]; otag "atom" [OL [onat 3]]]
  /\ proj 1 (snd (wrun 200 (init_world 2) msched))
  = [otag "ok" []; otag "ok" []; otag "started" []; mans (mA "c"); otag "started" []; mans (mlist [mS "c" 37]); otag "done" []]
  /\ proj 0 (snd (wrun 200 (init_world 2) msched)) = snd (erun 2 0 200 (map snd (only 0 msched)) init_engine [])
  /\ proj 1 (snd (wrun 200 (init_world 2) msched)) = snd (erun 2 1 200 (map snd (only 1 msched)) init_engine [])
  /\ length (heap (fst (wrun 200 (init_world 2) (firstn 13 msched)))) = 10.
Proof. exact ex_meta_world. Qed.
