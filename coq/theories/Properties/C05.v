(* C05 - cut commits the clause and nothing else.  Only statements; proofs are `exact <lemma>`. *)
From Coq Require Import String.
From Coq Require Import List Arith ZArith.
Import ListNotations.
From YP Require Import Base.Str Term.Term Unify.Unify Lang.Ast Comp.IR Comp.CompileBody Comp.CompileClause Comp.CompileTotal
  Sem.Res Sem.RefSem Sem.IRSem Sem.ControlCorrect Sem.Machine Sem.ClauseSem Sem.ProgramCorrect Sem.SpecLemmas Sem.CutBranchSpec.

(* For every clause body (cuts at top level, in branches of a disjunction, in then/else branches; a cut inside
   a condition or under \+ is local to it), for every interpretation of the called goals (all solution counts) and
   whatever the label counter is: the emitted code (for-loops, `return` for cut, the doBreak protocol)
   yields exactly the answers of the reference semantics in order and ends by `return` exactly when the
   reference ends by cut. *)
Theorem C05_cut_code_correct : forall (S : Type) (I : str -> list sterm -> S -> list S * bool)
  (J : expr -> S -> list S * bool) (assign : str -> expr -> S -> S),
  (forall f args s, J (query_expr f args) s = I f args s) ->
  forall n b cnt code cnt',
  comp n b cnt = Some (code, cnt') -> nomark b = true ->
  forall s, (let '(ys, k) := run_function J assign code s in (ys, fin_of_compl k)) = sem I b s.
Proof. exact control_correct_function. Qed.
Print Assumptions C05_cut_code_correct.

(* whole programs: the compiled program computes the clause-level reference semantics, in which ... *)
Theorem C05_compiled_program_computes_reference : forall n p ir,
  compile_program p = Some ir -> good_program p ->
  forall name args s, query n ir name args s = solveA n p name args s.
Proof. exact machine_computes_clause_semantics. Qed.
Print Assumptions C05_compiled_program_computes_reference.

(* ... a cut reached in a clause discards the later clauses of the predicate (the answers so far stay), *)
Theorem C05_cut_prunes_later_clauses : forall call c rest cf ys,
  clause_res call c (clause_enter c cf) = (ys, FCut) -> clausesA call (c :: rest) cf = (ys, FCut).
Proof. exact cut_prunes_later_clauses. Qed.
Print Assumptions C05_cut_prunes_later_clauses.

(* ... while without a cut the later clauses are tried, *)
Theorem C05_no_cut_continues : forall call c rest cf ys,
  clause_res call c (clause_enter c cf) = (ys, FNorm) ->
  clausesA call (c :: rest) cf = (ys ++ fst (clausesA call rest (clause_enter c cf)), snd (clausesA call rest (clause_enter c cf))).
Proof. exact no_cut_continues. Qed.
Print Assumptions C05_no_cut_continues.

(* ... the caller's own alternatives are untouched: a call ends normally (or by an error), never by cut, *)
Theorem C05_cut_local_to_predicate : forall call f args c,
  snd (sem (leafA call) (BCall f args) c) = FNorm \/ snd (sem (leafA call) (BCall f args) c) = FErr.
Proof. exact call_never_cuts. Qed.
Print Assumptions C05_cut_local_to_predicate.

Theorem C05_query_result_after_cut : forall n p name args s c cs ys,
  clauses_for p name (length args) = c :: cs ->
  clausesA (solveA n p) (c :: cs) (bind_args 0 args, s) = (ys, FCut) ->
  solveA (S n) p name args s = (map snd ys, false).
Proof. exact solveA_cut_local. Qed.
Print Assumptions C05_query_result_after_cut.

(* ... and the reference is the textbook one: (A, !), B = the FIRST answer of A continued with ALL
   answers of B (goals right of the cut backtrack normally), after which the clause is cut. *)
Theorem C05_cut_spec_readable : forall (S : Type) (I : str -> list sterm -> S -> list S * bool) A B s,
  sem I (BAnd (BAnd A BCut) B) s =
  match sem I A s with
  | (x :: _, _) => let '(ys, g) := sem I B x in (ys, match g with FNorm => FCut | _ => g end)
  | ([], g) => ([], g)
  end.
Proof. exact cut_spec_readable. Qed.
Print Assumptions C05_cut_spec_readable.

Theorem C05_cut_first : forall (S : Type) (I : str -> list sterm -> S -> list S * bool) B s,
  sem I (BAnd BCut B) s = let '(ys, g) := sem I B s in (ys, match g with FNorm => FCut | _ => g end).
Proof. exact cut_first. Qed.
Print Assumptions C05_cut_first.

(* A cut that is not a top-level goal of the body.  ( A, ! ; B ): the first answer of A only, B is not tried, the
   clause is cut (FCut is what stops the clause loop: C05_cut_prunes_later_clauses); B runs iff A has no answer. *)
Theorem C05_cut_in_disjunction_branch : forall (S : Type) (I : str -> list sterm -> S -> list S * bool) A B s,
  sem I (BOr (BAnd A BCut) B) s =
  match sem I A s with
  | (x :: _, _) => ([x], FCut)
  | ([], FNorm) => sem I B s
  | ([], g) => ([], g)
  end.
Proof. exact cut_in_disjunction_branch. Qed.
Print Assumptions C05_cut_in_disjunction_branch.

(* ( C -> ! ; E ): commit to the first answer of C and cut the clause; E runs iff C has no answer *)
Theorem C05_cut_in_then_branch : forall (S : Type) (I : str -> list sterm -> S -> list S * bool) C E s,
  sem I (BOr (BIf C BCut) E) s =
  match opaque (sem I C s) with
  | (x :: _, _) => ([x], FCut)
  | ([], FNorm) => sem I E s
  | ([], f) => ([], f)
  end.
Proof. exact cut_in_then_branch. Qed.
Print Assumptions C05_cut_in_then_branch.

(* ( C -> T ; ! ): the cut is reached iff C has no answer *)
Theorem C05_cut_in_else_branch : forall (S : Type) (I : str -> list sterm -> S -> list S * bool) C T s,
  sem I (BOr (BIf C T) BCut) s =
  match opaque (sem I C s) with
  | (x :: _, _) => sem I T x
  | ([], FNorm) => ([s], FCut)
  | ([], f) => ([], f)
  end.
Proof. exact cut_in_else_branch. Qed.
Print Assumptions C05_cut_in_else_branch.

(* whatever construct A ended by cut (a cut nested in branches, at any depth), the goals B to its right do not make
   the cut forgotten: the body never ends normally, so the later clauses are never tried, ... *)
Theorem C05_cut_survives_continuation : forall (S : Type) (I : str -> list sterm -> S -> list S * bool) A B s xs,
  sem I A s = (xs, FCut) -> snd (sem I (BAnd A B) s) <> FNorm.
Proof. exact cut_survives_continuation. Qed.
Print Assumptions C05_cut_survives_continuation.

(* ... and the goals to the right still backtrack normally: all their answers, for every answer of A, in order *)
Theorem C05_cut_continuation_backtracks : forall (S : Type) (I : str -> list sterm -> S -> list S * bool) A B s xs,
  sem I A s = (xs, FCut) -> (forall x, In x xs -> snd (sem I B x) = FNorm) ->
  sem I (BAnd A B) s = (flat_map (fun x => fst (sem I B x)) xs, FCut).
Proof. exact cut_continuation_backtracks. Qed.
Print Assumptions C05_cut_continuation_backtracks.

(* non-vacuity:  t(X,Y) :- q(X), !, q(Y).   t(z,z).   q(a). q(b).   gives (a,a), (a,b) only *)
Local Open Scope string_scope.
Definition cut_prog : program :=
  [ {| c_name := d "t"; c_args := [SVar (d "X"); SVar (d "Y")];
       c_body := BAnd (BCall (d "q") [SVar (d "X")]) (BAnd BCut (BCall (d "q") [SVar (d "Y")])) |};
    {| c_name := d "t"; c_args := [SAtom (d "z"); SAtom (d "z")]; c_body := BTrue |};
    {| c_name := d "q"; c_args := [SAtom (d "a")]; c_body := BTrue |};
    {| c_name := d "q"; c_args := [SAtom (d "b")]; c_body := BTrue |} ].
Example C05_nonvacuous :
  good_program cut_prog /\
  exists ir, compile_program cut_prog = Some ir /\
  map (fun x => (den (sto x) (TVar 0), den (sto x) (TVar 1)))
      (fst (query 10 ir (d "t") [TVar 0; TVar 1] {| sto := []; nxt := 2 |}))
  = [(TAtom (d "a"), TAtom (d "a")); (TAtom (d "a"), TAtom (d "b"))].
Proof.
  split.
  - repeat constructor.
  - eexists. split; [vm_compute; reflexivity|]. vm_compute. reflexivity.
Qed.

(* non-vacuity of the branch theorems, on the compiled-code model: a cut in a then branch behind a long run of goals, and the
   cut of a recursive predicate's base clause that must not touch the callers' alternatives
     t(X,Y) :- s, s, s, s, s, s, s, s, s, s, s, s, q(X), ( X = a -> ! ; true ), q(Y).   t(z,z).       (a,a), (a,b) only
     r(X,X) :- !.   r(X,Z) :- e(X,Y), r(Y,Z).   e(a,b). e(a,c). e(b,d). e(c,d).      ?- r(a,d)  has two answers *)
Definition conj_of (gs : list body) (last : body) : body := fold_right BAnd last gs.
Definition long_prog : program :=
  [ {| c_name := d "t"; c_args := [SVar (d "X"); SVar (d "Y")];
       c_body := conj_of (repeat (BCall (d "s") []) 12 ++
                          [BCall (d "q") [SVar (d "X")];
                           BOr (BIf (BCall (d "=") [SVar (d "X"); SAtom (d "a")]) BCut) BTrue])
                         (BCall (d "q") [SVar (d "Y")]) |};
    {| c_name := d "t"; c_args := [SAtom (d "z"); SAtom (d "z")]; c_body := BTrue |};
    {| c_name := d "s"; c_args := []; c_body := BTrue |};
    {| c_name := d "q"; c_args := [SAtom (d "a")]; c_body := BTrue |};
    {| c_name := d "q"; c_args := [SAtom (d "b")]; c_body := BTrue |} ].
Definition rec_prog : program :=
  [ {| c_name := d "r"; c_args := [SVar (d "X"); SVar (d "X")]; c_body := BCut |};
    {| c_name := d "r"; c_args := [SVar (d "X"); SVar (d "Z")];
       c_body := BAnd (BCall (d "e") [SVar (d "X"); SVar (d "Y")]) (BCall (d "r") [SVar (d "Y"); SVar (d "Z")]) |};
    {| c_name := d "e"; c_args := [SAtom (d "a"); SAtom (d "b")]; c_body := BTrue |};
    {| c_name := d "e"; c_args := [SAtom (d "a"); SAtom (d "c")]; c_body := BTrue |};
    {| c_name := d "e"; c_args := [SAtom (d "b"); SAtom (d "d")]; c_body := BTrue |};
    {| c_name := d "e"; c_args := [SAtom (d "c"); SAtom (d "d")]; c_body := BTrue |} ].
Example C05_nonvacuous_shapes :
  (exists ir, compile_program long_prog = Some ir /\
     map (fun x => (den (sto x) (TVar 0), den (sto x) (TVar 1)))
         (fst (query 10 ir (d "t") [TVar 0; TVar 1] {| sto := []; nxt := 2 |}))
     = [(TAtom (d "a"), TAtom (d "a")); (TAtom (d "a"), TAtom (d "b"))]) /\
  (exists ir, compile_program rec_prog = Some ir /\
     length (fst (query 10 ir (d "r") [TAtom (d "a"); TAtom (d "d")] {| sto := []; nxt := 0 |})) = 2 /\
     length (fst (query 10 ir (d "r") [TAtom (d "a"); TVar 0] {| sto := []; nxt := 1 |})) = 1).
Proof.
  split.
  - eexists. split; [vm_compute; reflexivity|]. vm_compute. reflexivity.
  - eexists. split; [vm_compute; reflexivity|]. split; vm_compute; reflexivity.
Qed.

(* ------------------------------------------------------------------ round 4: the cut flag and the consumer APIs (Sem/Consumers.v)
   A clause that ends in `!` yields True ("this clause committed") and returns; the flag travels through `yield from` up to the
   consumer of the query.  The consumers - plain iteration, evaluate_bounded, list(), next()+close() - do not depend on it: *)
From YP Require Import Sem.Consumers Sem.Native Sem.NativeChain.

Theorem C05_consumers_ignore_cut_flag : forall (St A : Type) (read : St -> A) (r1 r2 : stream St),
  map fst (fst r1) = map fst (fst r2) -> snd r1 = snd r2 ->
  plain_iteration St A read r1 = plain_iteration St A read r2 /\
  evaluate_bounded St A (fun _ => read) r1 = evaluate_bounded St A (fun _ => read) r2 /\
  length (fst (list_query St r1)) = length (fst (list_query St r2)) /\ snd (list_query St r1) = snd (list_query St r2) /\
  next_then_close St A read r1 = next_then_close St A read r2.
Proof. exact consumers_ignore_flags. Qed.
Print Assumptions C05_consumers_ignore_cut_flag.

Theorem C05_evaluate_bounded_is_plain_iteration : forall (St A : Type) (read : St -> A) (r : stream St),
  evaluate_bounded St A (fun _ => read) r = fst (plain_iteration St A read r).
Proof. exact evaluate_bounded_is_plain_iteration. Qed.
Print Assumptions C05_evaluate_bounded_is_plain_iteration.

(* ... and a consumer that treats the flag as "no more answers" (stops after a flagged answer) delivers everything exactly when no
   flagged answer has a successor; as soon as one has (the caller's own alternatives, a later definition of the chain) it loses
   answers: the cut would discard alternatives that are not its clause's. *)
Theorem C05_cut_flag_is_not_the_end_of_the_query : forall (St A : Type) (proj : bool -> St -> A) (r : stream St),
  evaluate_bounded_stopping St A proj r = evaluate_bounded St A proj r <-> flag_only_last St (fst r).
Proof. exact stopping_complete_iff. Qed.
Print Assumptions C05_cut_flag_is_not_the_end_of_the_query.

Theorem C05_stopping_at_the_cut_flag_loses_answers : forall (St A : Type) (proj : bool -> St -> A) (r : stream St) pre s post,
  fst r = (pre ++ (s, true) :: post)%list -> post <> [] ->
  length (evaluate_bounded_stopping St A proj r) < length (evaluate_bounded St A proj r).
Proof. exact stopping_loses_answers. Qed.
Print Assumptions C05_stopping_at_the_cut_flag_loses_answers.

(* non-vacuity, on the engine with chains of definitions (Sem/NativeChain.v): script 1 `m(a) :- !.`, script 2 `m(b).`, both loaded
   with overwrite=False: the cut commits the definition it belongs to, the query m(X) has the answers a and b; and with a caller
   written in Python that passes the flagged answers of an inner query on inside its own loop (colour(C), first_shape(C,S)) the
   stream [(s1,true); (s2,true); (s3,true)] is cut to one answer by the stopping consumer, while evaluate_bounded delivers three. *)
Definition api_m1 : program := [ {| c_name := d "m"; c_args := [SAtom (d "a")]; c_body := BCut |} ].
Definition api_m2 : program := [ {| c_name := d "m"; c_args := [SAtom (d "b")]; c_body := BTrue |} ].
Definition api_f (p : list clause) : func :=
  {| fn_name := d "m"; fn_arity := 1; fn_body := match compile_clauses p 0 with Some (code, _) => code | None => [] end |}.
Example C05_consumers_nonvacuous :
  (let w := build cempty [OLoad [api_f api_m1] false; OLoad [api_f api_m2] false] in
   c_fix w (d "m") 1 = Some [CIr (api_f api_m1); CIr (api_f api_m2)] /\
   map (fun x => den (sto x) (TVar 0)) (fst (cquery 5 w (d "m") [TVar 0] {| sto := []; nxt := 1 |})) = [TAtom (d "a"); TAtom (d "b")]) /\
  (let r : stream nat := ([(1, true); (2, true); (3, true)], false) in
   evaluate_bounded nat nat (fun _ x => x) r = [1; 2; 3] /\ evaluate_bounded_stopping nat nat (fun _ x => x) r = [1] /\
   ~ flag_only_last nat (fst r)).
Proof.
  split.
  - split; [reflexivity|vm_compute; reflexivity].
  - split; [reflexivity|]. split; [reflexivity|].
    intros H. specialize (H [] (1, true) [(2, true); (3, true)] eq_refl). cbn in H. discriminate H. discriminate.
Qed.

(* ------------------------------------------------------------------ round 5: a cut that is not reached commits nothing (Sem/UntakenCut.v)
   Edits that reason statically about a cut ("the alternative behind a branch that ends in a cut is dead code", "the clauses behind
   a catch-all clause that starts with a cut are unreachable") are wrong exactly when the cut is not executed on a call. *)
From YP Require Import Sem.UntakenCut.

(* ( (C -> T ; !, E) ; B ): with C answered the cut of the else branch is not reached: T runs and, if it ends normally, B IS tried;
   with C unanswered the cut is reached: E runs, B is not tried *)
Theorem C05_untaken_else_cut : forall (S : Type) (I : str -> list sterm -> S -> list S * bool) C T E B s,
  sem I (BOr (BOr (BIf C T) (BAnd BCut E)) B) s =
  match opaque (sem I C s) with
  | (x :: _, _) => por (sem I T x) (sem I B s)
  | ([], FNorm) => seqr (sem I E) [s] FCut
  | ([], f) => ([], f)
  end.
Proof. exact untaken_else_cut. Qed.
Print Assumptions C05_untaken_else_cut.

Theorem C05_untaken_else_cut_alternative_tried : forall (S : Type) (I : str -> list sterm -> S -> list S * bool) C T E B s x r e ts,
  opaque (sem I C s) = (x :: r, e) -> sem I T x = (ts, FNorm) ->
  sem I (BOr (BOr (BIf C T) (BAnd BCut E)) B) s = (ts ++ fst (sem I B s), snd (sem I B s))%list.
Proof. exact untaken_else_cut_alternative_tried. Qed.
Print Assumptions C05_untaken_else_cut_alternative_tried.

(* the mirror image ( (C -> !, T ; E) ; B ) *)
Theorem C05_untaken_then_cut : forall (S : Type) (I : str -> list sterm -> S -> list S * bool) C T E B s,
  sem I (BOr (BOr (BIf C (BAnd BCut T)) E) B) s =
  match opaque (sem I C s) with
  | (x :: _, _) => seqr (sem I T) [x] FCut
  | ([], FNorm) => por (sem I E s) (sem I B s)
  | ([], f) => ([], f)
  end.
Proof. exact untaken_then_cut. Qed.
Print Assumptions C05_untaken_then_cut.

(* ( (G, !, E) ; B ): B is tried iff G fails *)
Theorem C05_guarded_cut_alternative : forall (S : Type) (I : str -> list sterm -> S -> list S * bool) G E B s,
  sem I (BOr (BAnd G (BAnd BCut E)) B) s =
  match sem I G s with
  | ([], FNorm) => sem I B s
  | ([], g) => ([], g)
  | (x :: _, _) => seqr (sem I E) [x] FCut
  end.
Proof. exact guarded_cut_alternative. Qed.
Print Assumptions C05_guarded_cut_alternative.

(* with a continuation K behind the construct (which the compiler duplicates into the branches) *)
Theorem C05_untaken_else_cut_with_continuation : forall (S : Type) (I : str -> list sterm -> S -> list S * bool) C T E B K s x r e,
  opaque (sem I C s) = (x :: r, e) ->
  sem I (BAnd (BOr (BOr (BIf C T) (BAnd BCut E)) B) K) s = bindr (por (sem I T x) (sem I B s)) (sem I K).
Proof. exact untaken_else_cut_with_continuation. Qed.
Print Assumptions C05_untaken_else_cut_with_continuation.

(* a clause whose head does not match the call is not entered: whatever its body (a neck cut included), the later clauses are tried *)
Theorem C05_head_mismatch_skips_clause : forall call c rest cf,
  head_unify 0 (clause_pos c) (c_args c) (fst (clause_enter c cf)) (snd (clause_enter c cf)) = HFail ->
  clausesA call (c :: rest) cf = clausesA call rest (clause_enter c cf).
Proof. exact head_mismatch_skips_clause. Qed.
Print Assumptions C05_head_mismatch_skips_clause.

Theorem C05_head_mismatch_body_irrelevant : forall call name args b1 b2 rest cf,
  let c1 := {| c_name := name; c_args := args; c_body := b1 |} in
  let c2 := {| c_name := name; c_args := args; c_body := b2 |} in
  clause_fv_body c1 = clause_fv_body c2 ->
  head_unify 0 (clause_pos c1) (c_args c1) (fst (clause_enter c1 cf)) (snd (clause_enter c1 cf)) = HFail ->
  clausesA call (c1 :: rest) cf = clausesA call (c2 :: rest) cf.
Proof. exact head_mismatch_body_irrelevant. Qed.
Print Assumptions C05_head_mismatch_body_irrelevant.

(* non-vacuity on the compiled-code model:
     different(X,X) :- !, fail.   different(_,_).          (the head of clause 1 consists of variables only and does not match (a,b))
     p(X,R) :- ( ( q(X) -> R = t ; !, R = e ) ; R = alt ).   p(_,late).   q(a).
   different(a,b) has one answer, different(a,a) none; p(a,R): t, alt, late (cut not reached); p(b,R): e only (cut reached). *)
Definition different_prog : program :=
  [ {| c_name := d "different"; c_args := [SVar (d "X"); SVar (d "X")]; c_body := BAnd BCut BFail |};
    {| c_name := d "different"; c_args := [SVar (d "x1"); SVar (d "x2")]; c_body := BTrue |} ].
Definition untaken_prog : program :=
  [ {| c_name := d "p"; c_args := [SVar (d "X"); SVar (d "R")];
       c_body := BOr (BOr (BIf (BCall (d "q") [SVar (d "X")]) (BCall (d "=") [SVar (d "R"); SAtom (d "t")]))
                          (BAnd BCut (BCall (d "=") [SVar (d "R"); SAtom (d "e")])))
                     (BCall (d "=") [SVar (d "R"); SAtom (d "alt")]) |};
    {| c_name := d "p"; c_args := [SVar (d "x1"); SAtom (d "late")]; c_body := BTrue |};
    {| c_name := d "q"; c_args := [SAtom (d "a")]; c_body := BTrue |} ].
Example C05_untaken_nonvacuous :
  (exists ir, compile_program different_prog = Some ir /\
     length (fst (query 10 ir (d "different") [TAtom (d "a"); TAtom (d "b")] {| sto := []; nxt := 0 |})) = 1 /\
     length (fst (query 10 ir (d "different") [TAtom (d "a"); TAtom (d "a")] {| sto := []; nxt := 0 |})) = 0) /\
  (exists ir, compile_program untaken_prog = Some ir /\
     map (fun x => den (sto x) (TVar 0)) (fst (query 10 ir (d "p") [TAtom (d "a"); TVar 0] {| sto := []; nxt := 1 |}))
       = [TAtom (d "t"); TAtom (d "alt"); TAtom (d "late")] /\
     map (fun x => den (sto x) (TVar 0)) (fst (query 10 ir (d "p") [TAtom (d "b"); TVar 0] {| sto := []; nxt := 1 |}))
       = [TAtom (d "e")]).
Proof.
  split.
  - eexists. split; [vm_compute; reflexivity|]. split; vm_compute; reflexivity.
  - eexists. split; [vm_compute; reflexivity|]. split; vm_compute; reflexivity.
Qed.
