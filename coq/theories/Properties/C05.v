(* C05 - cut commits the clause and nothing else.  Only statements; proofs are `exact <lemma>`. *)
From Coq Require Import String.
From Coq Require Import List Arith ZArith.
Import ListNotations.
From YP Require Import Base.Str Term.Term Unify.Unify Lang.Ast Comp.IR Comp.CompileBody Comp.CompileClause Comp.CompileTotal
  Sem.Res Sem.RefSem Sem.IRSem Sem.ControlCorrect Sem.Machine Sem.ClauseSem Sem.ProgramCorrect Sem.SpecLemmas.

(* For every clause body (cuts at top level, in branches of a disjunction, in then/else branches; a cut inside
   a condition or under \+ is local to it), for every interpretation of the called goals (all solution counts) and
   whatever the label counter is: the emitted code (for-loops, `return` for cut, the doBreak protocol)
   yields exactly the answers of the reference semantics in order and ends by `return` exactly when the
   reference ends by cut. *)
Theorem C05_cut_code_correct : forall (S : Type) (I : str -> list sterm -> S -> list S * bool)
  (J : expr -> S -> list S * bool) (assign : str -> expr -> S -> S),
  (forall f args s, J (query_expr f args) s = I f args s) ->
  forall n b cnt code cnt',
  comp n b cnt = Some (code, cnt') -> nomark b = true ->
  forall s, (let '(ys, k) := run_function J assign code s in (ys, fin_of_compl k)) = sem I b s.
Proof. exact control_correct_function. Qed.
Print Assumptions C05_cut_code_correct.

(* whole programs: the compiled program computes the clause-level reference semantics, in which ... *)
Theorem C05_compiled_program_computes_reference : forall n p ir,
  compile_program p = Some ir -> good_program p ->
  forall name args s, query n ir name args s = solveA n p name args s.
Proof. exact machine_computes_clause_semantics. Qed.
Print Assumptions C05_compiled_program_computes_reference.

(* ... a cut reached in a clause discards the later clauses of the predicate (the answers so far stay), *)
Theorem C05_cut_prunes_later_clauses : forall call c rest cf ys,
  clause_res call c (clause_enter c cf) = (ys, FCut) -> clausesA call (c :: rest) cf = (ys, FCut).
Proof. exact cut_prunes_later_clauses. Qed.
Print Assumptions C05_cut_prunes_later_clauses.

(* ... while without a cut the later clauses are tried, *)
Theorem C05_no_cut_continues : forall call c rest cf ys,
  clause_res call c (clause_enter c cf) = (ys, FNorm) ->
  clausesA call (c :: rest) cf = (ys ++ fst (clausesA call rest (clause_enter c cf)), snd (clausesA call rest (clause_enter c cf))).
Proof. exact no_cut_continues. Qed.
Print Assumptions C05_no_cut_continues.

(* ... the caller's own alternatives are untouched: a call ends normally (or by an error), never by cut, *)
Theorem C05_cut_local_to_predicate : forall call f args c,
  snd (sem (leafA call) (BCall f args) c) = FNorm \/ snd (sem (leafA call) (BCall f args) c) = FErr.
Proof. exact call_never_cuts. Qed.
Print Assumptions C05_cut_local_to_predicate.

Theorem C05_query_result_after_cut : forall n p name args s c cs ys,
  clauses_for p name (length args) = c :: cs ->
  clausesA (solveA n p) (c :: cs) (bind_args 0 args, s) = (ys, FCut) ->
  solveA (S n) p name args s = (map snd ys, false).
Proof. exact solveA_cut_local. Qed.
Print Assumptions C05_query_result_after_cut.

(* ... and the reference is the textbook one: (A, !), B = the FIRST answer of A continued with ALL
   answers of B (goals right of the cut backtrack normally), after which the clause is cut. *)
Theorem C05_cut_spec_readable : forall (S : Type) (I : str -> list sterm -> S -> list S * bool) A B s,
  sem I (BAnd (BAnd A BCut) B) s =
  match sem I A s with
  | (x :: _, _) => let '(ys, g) := sem I B x in (ys, match g with FNorm => FCut | _ => g end)
  | ([], g) => ([], g)
  end.
Proof. exact cut_spec_readable. Qed.
Print Assumptions C05_cut_spec_readable.

Theorem C05_cut_first : forall (S : Type) (I : str -> list sterm -> S -> list S * bool) B s,
  sem I (BAnd BCut B) s = let '(ys, g) := sem I B s in (ys, match g with FNorm => FCut | _ => g end).
Proof. exact cut_first. Qed.
Print Assumptions C05_cut_first.

(* non-vacuity:  t(X,Y) :- q(X), !, q(Y).   t(z,z).   q(a). q(b).   gives (a,a), (a,b) only *)
Local Open Scope string_scope.
Definition cut_prog : program :=
  [ {| c_name := d "t"; c_args := [SVar (d "X"); SVar (d "Y")];
       c_body := BAnd (BCall (d "q") [SVar (d "X")]) (BAnd BCut (BCall (d "q") [SVar (d "Y")])) |};
    {| c_name := d "t"; c_args := [SAtom (d "z"); SAtom (d "z")]; c_body := BTrue |};
    {| c_name := d "q"; c_args := [SAtom (d "a")]; c_body := BTrue |};
    {| c_name := d "q"; c_args := [SAtom (d "b")]; c_body := BTrue |} ].
Example C05_nonvacuous :
  good_program cut_prog /\
  exists ir, compile_program cut_prog = Some ir /\
  map (fun x => (den (sto x) (TVar 0), den (sto x) (TVar 1)))
      (fst (query 10 ir (d "t") [TVar 0; TVar 1] {| sto := []; nxt := 2 |}))
  = [(TAtom (d "a"), TAtom (d "a")); (TAtom (d "a"), TAtom (d "b"))].
Proof.
  split.
  - repeat constructor.
  - eexists. split; [vm_compute; reflexivity|]. vm_compute. reflexivity.
Qed.
