(* C05 (under construction) *)
From Coq Require Import List Arith.
From YP Require Import Base.Str Lang.Ast Comp.IR Comp.CompileBody Comp.CompileTotal.
Theorem C05_compile_body_total : forall b cnt, exists code cnt', comp (fuel_body b) b cnt = Some (code, cnt').
Proof. exact comp_total_exists. Qed.
Print Assumptions C05_compile_body_total.
