(* C06 - disjunction, if-then-else and negation follow standard semantics.
   Only statements; proofs are `exact <lemma>`.  (The precedence / associativity part of the property is
   a statement about the parser: Properties/C10.v, Lang/Parser.v.) *)
From Coq Require Import String.
From Coq Require Import List Arith ZArith.
Import ListNotations.
From YP Require Import Base.Str Term.Term Unify.Unify Lang.Ast Comp.IR Comp.CompileBody Comp.CompileClause Comp.CompileTotal
  Sem.Res Sem.RefSem Sem.IRSem Sem.ControlCorrect Sem.Machine Sem.ClauseSem Sem.ProgramCorrect Sem.SpecLemmas.

(* For EVERY body expression tree over {call, true, fail, !, ',', ';', '->', '\+'} (a cut inside a condition or under \+ is local to it), every interpretation of the leaves (all solution counts), every
   continuation (the theorem is about whole bodies, and ',' is one of the constructors) and every value
   of the label counter: the code emitted by the rewriting compiler (distribution of the continuation
   over ';', breakable blocks with cutIfN labels, the doBreak protocol, `if doBreak: break` after every
   loop) yields exactly the answers of the reference semantics, in order, ending the same way. *)
Theorem C06_control_code_correct : forall (S : Type) (I : str -> list sterm -> S -> list S * bool)
  (J : expr -> S -> list S * bool) (assign : str -> expr -> S -> S),
  (forall f args s, J (query_expr f args) s = I f args s) ->
  forall n b cnt code cnt',
  comp n b cnt = Some (code, cnt') -> nomark b = true ->
  forall s, (let '(ys, k) := run_function J assign code s in (ys, fin_of_compl k)) = sem I b s.
Proof. exact control_correct_function. Qed.
Print Assumptions C06_control_code_correct.

(* the flag protocol is left clean: doBreak is false again whenever the body ends normally, and the
   code contains no assignment *)
Theorem C06_control_correct_flags : forall (S : Type) (I : str -> list sterm -> S -> list S * bool)
  (J : expr -> S -> list S * bool) (assign : str -> expr -> S -> S),
  (forall f args s, J (query_expr f args) s = I f args s) ->
  forall n b cnt code cnt',
  comp n b cnt = Some (code,cnt') -> nomark b = true ->
  noasg code = true /\
  forall s f, doBreak f = false ->
    exists f', exec_list J assign code s f = (fst (sem I b s), cof (snd (sem I b s)), f') /\
               (snd (sem I b s) = FNorm -> doBreak f' = false) /\
               (forall l, snd (sem I b s) <> FExit l).
Proof. exact control_correct. Qed.
Print Assumptions C06_control_correct_flags.

Theorem C06_compile_body_total : forall b cnt, exists code cnt', comp (fuel_body b) b cnt = Some (code, cnt').
Proof. exact comp_total_exists. Qed.
Print Assumptions C06_compile_body_total.

Theorem C06_compiled_program_computes_reference : forall n p ir,
  compile_program p = Some ir -> good_program p ->
  forall name args s, query n ir name args s = solveA n p name args s.
Proof. exact machine_computes_clause_semantics. Qed.
Print Assumptions C06_compiled_program_computes_reference.

(* the reference semantics is the standard one *)
Theorem C06_or_spec : forall (S : Type) (I : str -> list sterm -> S -> list S * bool) A B s, isif A = false ->
  sem I (BOr A B) s = match sem I A s with (xs, FNorm) => let '(ys, g) := sem I B s in (xs ++ ys, g) | r => r end.
Proof. exact or_spec. Qed.
Print Assumptions C06_or_spec.

Theorem C06_ite_spec : forall (S : Type) (I : str -> list sterm -> S -> list S * bool) C T E s,
  sem I (BOr (BIf C T) E) s =
  match opaque (sem I C s) with
  | (x :: _, _) => sem I T x
  | ([], FNorm) => sem I E s
  | ([], f) => ([], f)
  end.
Proof. exact ite_spec. Qed.
Print Assumptions C06_ite_spec.

Theorem C06_if_no_else_spec : forall (S : Type) (I : str -> list sterm -> S -> list S * bool) C T s,
  sem I (BIf C T) s = sem I (BOr (BIf C T) BFail) s.
Proof. exact if_no_else_spec. Qed.
Print Assumptions C06_if_no_else_spec.

Theorem C06_not_spec : forall (S : Type) (I : str -> list sterm -> S -> list S * bool) G s,
  sem I (BNot G) s = match opaque (sem I G s) with
                     | (_ :: _, _) => ([], FNorm)
                     | ([], FNorm) => ([s], FNorm)
                     | ([], f) => ([], f)
                     end.
Proof. exact not_spec. Qed.
Print Assumptions C06_not_spec.

Theorem C06_neg_binds_nothing : forall (S : Type) (I : str -> list sterm -> S -> list S * bool) G s x,
  In x (fst (sem I (BNot G) s)) -> x = s.
Proof. exact neg_binds_nothing. Qed.
Print Assumptions C06_neg_binds_nothing.

Theorem C06_and_spec : forall (S : Type) (I : str -> list sterm -> S -> list S * bool) A B s,
  sem I (BAnd A B) s = let '(xs, e) := sem I A s in seqr (sem I B) xs e.
Proof. exact and_spec. Qed.
Print Assumptions C06_and_spec.

(* A cut inside a condition or under \+ is local to it (the former finding KF-C06-1, repaired in the
   compiler: such a condition gets a block of its own that the cut leaves).  q :- \+ (!, fail).  succeeds once;
   r(X) :- ( (m(X), !, n(X)) -> Y = then ; Y = else ) commits to the first m and takes the else branch. *)
Local Open Scope string_scope.
Definition opaque_cut_prog : program :=
  [ {| c_name := d "q"; c_args := []; c_body := BNot (BAnd BCut BFail) |};
    {| c_name := d "r"; c_args := [SVar (d "X"); SVar (d "Y")];
       c_body := BOr (BIf (BAnd (BCall (d "m") [SVar (d "X")]) (BAnd BCut (BCall (d "n") [SVar (d "X")])))
                          (BCall (d "=") [SVar (d "Y"); SAtom (d "then")]))
                     (BCall (d "=") [SVar (d "Y"); SAtom (d "else")]) |};
    {| c_name := d "m"; c_args := [SAtom (d "a")]; c_body := BTrue |};
    {| c_name := d "m"; c_args := [SAtom (d "b")]; c_body := BTrue |};
    {| c_name := d "n"; c_args := [SAtom (d "b")]; c_body := BTrue |} ].
Example C06_cut_in_condition_is_local :
  good_program opaque_cut_prog /\
  exists ir, compile_program opaque_cut_prog = Some ir /\
  length (fst (query 5 ir (d "q") [] {| sto := []; nxt := 0 |})) = 1 /\
  map (fun x => (den (sto x) (TVar 0), den (sto x) (TVar 1)))
      (fst (query 5 ir (d "r") [TVar 0; TVar 1] {| sto := []; nxt := 2 |})) = [(TVar 0, TAtom (d "else"))].
Proof.
  split.
  - repeat constructor.
  - eexists. split; [vm_compute; reflexivity|]. vm_compute. split; reflexivity.
Qed.

(* non-vacuity:  p(X,R) :- ( q(X) -> R = then ; R = else ), \+ X = b.   q(a). q(b). *)
Definition ite_prog : program :=
  [ {| c_name := d "p"; c_args := [SVar (d "X"); SVar (d "R")];
       c_body := BAnd (BOr (BIf (BCall (d "q") [SVar (d "X")]) (BCall (d "=") [SVar (d "R"); SAtom (d "then")]))
                           (BCall (d "=") [SVar (d "R"); SAtom (d "else")]))
                      (BNot (BCall (d "=") [SVar (d "X"); SAtom (d "b")])) |};
    {| c_name := d "q"; c_args := [SAtom (d "a")]; c_body := BTrue |};
    {| c_name := d "q"; c_args := [SAtom (d "b")]; c_body := BTrue |} ].
Example C06_nonvacuous :
  good_program ite_prog /\
  exists ir, compile_program ite_prog = Some ir /\
  map (fun x => (den (sto x) (TVar 0), den (sto x) (TVar 1)))
      (fst (query 10 ir (d "p") [TVar 0; TVar 1] {| sto := []; nxt := 2 |}))
  = [(TAtom (d "a"), TAtom (d "then"))].
Proof.
  split.
  - repeat constructor.
  - eexists. split; [vm_compute; reflexivity|]. vm_compute. reflexivity.
Qed.

(* ------------------------------------------------------------------ round 4: negation applied directly to a builtin test *)
From YP Require Import Term.Fast Unify.Fast Sem.NegBuiltin.

(* \+ \+ G succeeds exactly when G has an answer, and delivers the state it was entered with *)
Theorem C06_not_not_spec : forall (S : Type) (I : str -> list sterm -> S -> list S * bool) G s,
  sem I (BNot (BNot G)) s = match opaque (sem I G s) with
                            | (_ :: _, _) => ([s], FNorm)
                            | ([], FNorm) => ([], FNorm)
                            | ([], f) => ([], f)
                            end.
Proof. exact not_not_spec. Qed.
Print Assumptions C06_not_not_spec.

(* \+ (A \= B), for the builtin \= of the engine (neq_result is what SpecLemmas.neq_spec says `builtin` computes): one answer -
   the UNCHANGED state - exactly when A and B unify ... *)
Theorem C06_neg_neq_spec : forall (call : str -> list term -> st -> list st * bool) r s a b,
  call (s_ "\=") [instA r a; instA r b] s = neq_result s (instA r a) (instA r b) ->
  sem (leafA call) (BNot (BCall (s_ "\=") [a; b])) (r, s) =
  match unify_fast ufuel (sto s) (instA r a) (instA r b) with
  | UOk _ => ([(r, s)], FNorm)
  | UFail => ([], FNorm)
  | _ => ([], FErr)
  end.
Proof. exact neg_neq_spec. Qed.
Print Assumptions C06_neg_neq_spec.

(* ... whereas A = B delivers the state extended by the unifier: the two goals differ whenever the unifier binds something *)
Theorem C06_neg_neq_is_not_eq : forall (call : str -> list term -> st -> list st * bool) r s a b s',
  call (s_ "\=") [instA r a; instA r b] s = neq_result s (instA r a) (instA r b) ->
  call (s_ "=") [instA r a; instA r b] s = unify_st s (instA r a) (instA r b) ->
  unify_fast ufuel (sto s) (instA r a) (instA r b) = UOk s' -> s' <> sto s ->
  sem (leafA call) (BNot (BCall (s_ "\=") [a; b])) (r, s) <> sem (leafA call) (BCall (s_ "=") [a; b]) (r, s).
Proof. exact neg_neq_differs_from_eq. Qed.
Print Assumptions C06_neg_neq_is_not_eq.

(* non-vacuity: \+ X \= a with X unbound *)
Example C06_neg_neq_nonvacuous :
  let r := [(pyvar (d "X"), TVar 0)] in
  let s := {| sto := []; nxt := 1 |} in
  unify_fast ufuel (sto s) (instA r (SVar (d "X"))) (instA r (SAtom (d "a"))) = UOk [(0, TAtom (d "a"))]
  /\ [(0, TAtom (d "a"))] <> sto s.
Proof. exact neg_neq_nonvacuous. Qed.
