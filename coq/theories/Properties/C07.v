(* C07 - the fact database behaves as ordered lists for every history (placeholder, extended below) *)
From Coq Require Import List Arith.
Import ListNotations.
From YP Require Import Base.Str Term.Term Engine.Db Engine.DbCursor.

Theorem C07_run_length : forall mt s evs s' outs, run mt s evs = Some (s', outs) -> length outs = length evs.
Proof. exact run_length. Qed.
Print Assumptions C07_run_length.
