(* C07 - the fact database behaves as ordered lists for every history.
   Only statements; the proofs are in Engine/DbSpec.v (refinement), Engine/DbCursorThms.v (invariants).
   Spec (DbSpec.v, readable): a database is key -> list of argument lists; sstep says what each
   operation returns and how it changes the lists (cons / snoc / answers in list order / remove the
   first matching element per answer / filter / empty).  Model: the cursor machine DbCursor.v, which
   mirrors engine.py (identities of Answer objects, copy-on-write lists, generator objects).
   The theorems hold for every matching function mt, in particular for DbFacts.match_fact. *)
From Coq Require Import String.
From Coq Require Import List Arith ZArith.
Import ListNotations.
From YP Require Import Base.Str Term.Term Term.Show Engine.Db Engine.DbCursor Engine.DbCursorThms Engine.DbClear Engine.DbSpec Engine.DbTotal Engine.DbFacts Engine.DbProg Engine.DbProgThms Engine.RunDbProg Engine.DbProgInv Engine.DbProgSim Engine.DbOpen Engine.DbProgMeta Engine.DbProgMetaThms Engine.RunDbProgMeta.

(* For every history of asserta / assertz / assert_fact / query (all answers, or j answers then
   close) / retract (j answers requested, then closed; j larger than the number of matches = run to
   exhaustion) / retractall / clear, on any keys: the results the caller sees, step by step, and
   the final contents of every predicate are those of the list specification.  R d s: the
   specification database d is the model database without the identities. *)
Theorem C07_db_refines_list_spec : forall mt ops s s' outs d,
  ids_ok (sdb s) (snext s) -> R d s -> run mt s (flat_map compile ops) = Some (s', outs) ->
  map vis outs = snd (srun mt d ops) /\ R (fst (srun mt d ops)) s'.
Proof. exact db_refines_list_spec. Qed.
Print Assumptions C07_db_refines_list_spec.

(* the same from the empty engine *)
Theorem C07_db_refines_list_spec_from_init : forall mt ops s' outs,
  run mt init (flat_map compile ops) = Some (s', outs) ->
  map vis outs = snd (srun mt (fun _ => []) ops) /\ R (fst (srun mt (fun _ => []) ops)) s'.
Proof.
  intros mt ops s' outs. apply db_refines_list_spec.
  - apply ids_ok_empty.
  - intros k. reflexivity.
Qed.
Print Assumptions C07_db_refines_list_spec_from_init.

(* one operation at a time (the simulation step) *)
Theorem C07_sim_op : forall mt op s s' outs d,
  ids_ok (sdb s) (snext s) -> R d s -> run mt s (compile op) = Some (s', outs) ->
  map vis outs = snd (sstep mt d op) /\ R (fst (sstep mt d op)) s'.
Proof. exact sim_op. Qed.
Print Assumptions C07_sim_op.

(* "a query enumerates the matching facts in list order", also when it is suspended between its
   answers and other events happen: see C14_cursor_visits_snapshot.  Here: the atomic EQueryAll and the
   cursor give the same answers *)
Theorem C07_query_cursor_answers : forall mt pat j s s' outs rest,
  step mt s (ENext 0) = qnext mt s 0 pat rest ->
  run mt s (repeat (ENext 0) j) = Some (s', outs) ->
  map vis outs = stake (smatches mt pat (map fargs rest)) j /\ sdb s' = sdb s /\ snext s' = snext s /\
  (scur s 0 <> CNone -> scur s' 0 <> CNone).
Proof. exact query_nexts. Qed.
Print Assumptions C07_query_cursor_answers.

(* "each answer of retract ... binds the pattern to it": an answer of the concrete matching function
   is the pattern under bindings that make it equal to a fresh copy of the stored fact *)
Theorem C07_match_binds_pattern : forall fuel pat args a, match_fact fuel pat args = MYes a ->
  exists s, wf s /\ a = map (den s) pat /\
            a = map (den s) (fst (copy_args [] args (Nat.max (bound_list pat) (bound_list args)))).
Proof. exact match_fact_sound. Qed.
Print Assumptions C07_match_binds_pattern.

(* identities stay unique and the database is the fold of the atomic updates (used by the refinement) *)
Theorem C07_ids_invariant : forall mt evs s s' outs,
  ids_ok (sdb s) (snext s) -> run mt s evs = Some (s', outs) -> ids_ok (sdb s') (snext s').
Proof. intros mt evs s s' outs I H. exact (proj2 (@no_lost_update mt evs s s' outs I H)). Qed.
Print Assumptions C07_ids_invariant.

(* "none of these raises": the model has exactly one way of not returning a result - a match outside the
   specified domain (MStuck: it would build a cyclic term, or the model's fuel ran out).  For every matching
   function that is never stuck, every event of every history returns: zero-argument facts, goals that are
   not callable, predicates without facts, exhausted and closed cursors included *)
Theorem C07_nothing_raises : forall mt, (forall pat args, mt pat args <> MStuck) ->
  forall evs s, exists s' outs, run mt s evs = Some (s', outs).
Proof. exact run_total. Qed.
Print Assumptions C07_nothing_raises.

(* non-vacuity: a history over p/1, flag/0 (zero arguments), q/2 and a predicate without facts, with the
   concrete matching function: nothing raises, nothing is ignored *)
Example C07_history :
  let a := TAtom (d "a") in let b := TAtom (d "b") in
  let p x := TFun (d "p") [x] in
  let ops := [AAssert false (p a); AAssert true (p b); AAssertFact (d "q") [a; TVar 0] true; AAssert false (TAtom (d "flag"));
              ARetract (TAtom (d "flag")) 2; ARetract (p (TVar 0)) 1; AQuery (d "p") [TVar 0];
              ARetractAll (TFun (d "nofacts") [TVar 0]); ARetract (TFun (d "nofacts") [TVar 0]) 1; AQuery (d "nofacts") [];
              AQuery (d "q") [TVar 0; b]; AClear; AQuery (d "q") [TVar 0; TVar 1]] in
  exists s' outs, run (match_fact 20) init (flat_map compile ops) = Some (s', outs) /\
    map vis outs = [VOk; VOk; VOk; VOk;
                    VOk; VAns []; VEnd; VOk;
                    VOk; VAns [b]; VOk;
                    VAll [[a]];
                    VOk; VOk; VEnd; VOk; VAll [];
                    VAll [[a; b]]; VOk; VAll []] /\
    map vis outs = snd (srun (match_fact 20) (fun _ => []) ops).
Proof. eexists. eexists. split; [vm_compute; reflexivity|]. split; vm_compute; reflexivity. Qed.

(* ---- round 3: operations whose arguments mention variables of a query that is still OPEN ----
   (`for _ in yp.query('name', [Y]): yp.assert_fact(yp.atom('pet'), [Y])`; a Python predicate registered with
   register_function that stores the clause variables it receives).  DbOpen.v extends the cursor machine with the
   bindings each suspended cursor holds (the store its match produced); XOpen c e = the event e written over the
   pattern variables of cursor c.  For every fuel, state and extended history: the extended run IS a run of the
   cursor machine on the base history es that it names - so every theorem above and in C14.v holds for it. *)
Theorem C07_open_history_is_history : forall fuel xs x x' es outs,
  xrun fuel x xs = Some (x', es, outs) ->
  run (match_fact fuel) (xs_st x) es = Some (xs_st x', outs) /\ length es = length xs.
Proof. exact xrun_is_run. Qed.
Print Assumptions C07_open_history_is_history.

(* assert_fact over the variables of an open cursor stores, as ONE new Answer at the end / front of the list that is
   current then, the value its arguments have under the cursor's bindings at that moment (deep get_value); the
   cursors and their bindings are untouched *)
Theorem C07_open_assert_stores_value : forall fuel x c name args append,
  xstep fuel x (XOpen c (EAssertFact name args append)) =
  let vals := map (den (xs_bind x c)) args in
  let k := (name, length args) in
  let f := mkfact (snext (xs_st x)) vals in
  Some (mkx (mkst (upd k (ins (negb append) f (sdb (xs_st x) k)) (sdb (xs_st x))) (S (snext (xs_st x))) (scur (xs_st x)))
            (xs_bind x),
        EAssertFact name vals append, OIns k (negb append) f).
Proof. exact open_assert_stores_value. Qed.
Print Assumptions C07_open_assert_stores_value.

(* the bindings kept for a suspended cursor are those of the answer the caller saw: a well-formed store under which
   the pattern reads as that answer *)
Theorem C07_open_bindings_are_the_answer : forall fuel pat args a, match_fact fuel pat args = MYes a ->
  wf (bind_of fuel pat args) /\ a = map (den (bind_of fuel pat args)) pat.
Proof. exact bind_of_answer. Qed.
Print Assumptions C07_open_bindings_are_the_answer.

(* and whatever the cursors do afterwards (advance, end, close), the database is the fold of the atomic updates in
   the order in which they were issued: a stored fact never changes *)
Theorem C07_open_no_lost_update : forall fuel xs x x' es outs,
  ids_ok (sdb (xs_st x)) (snext (xs_st x)) -> xrun fuel x xs = Some (x', es, outs) ->
  (forall k, sdb (xs_st x') k = apply_outs outs (sdb (xs_st x)) k) /\ ids_ok (sdb (xs_st x')) (snext (xs_st x')).
Proof. exact xrun_no_lost_update. Qed.
Print Assumptions C07_open_no_lost_update.

(* non-vacuity: p = [p(a), p(f(b))]; for every answer of p(Y): assert_fact(q, [Y]) resp. assert_fact(q, [who(Y)]);
   once more after the query has ended (Y is unbound again).  q = [q(a), q(who(f(b))), q(_)] *)
Example C07_open_history :
  let a := TAtom (d "a") in let b := TAtom (d "b") in
  let fb := TFun (d "f") [b] in
  let xs := [XBase (EAssertFact (d "p") [a] true); XBase (EAssertFact (d "p") [fb] true);
             XBase (EStart 0 (QQuery (d "p") [TVar 0])); XBase (ENext 0);
             XOpen 0 (EAssertFact (d "q") [TVar 0] true); XBase (ENext 0);
             XOpen 0 (EAssertFact (d "q") [TFun (d "who") [TVar 0]] true); XBase (ENext 0);
             XOpen 0 (EAssertFact (d "q") [TVar 0] true)] in
  exists x' es outs, xrun 20 xinit xs = Some (x', es, outs) /\
    map fargs (sdb (xs_st x') (d "q", 1)) = [[a]; [TFun (d "who") [fb]]; [TVar 0]] /\
    nth 4 es EClear = EAssertFact (d "q") [a] true.
Proof. eexists. eexists. eexists. split; [vm_compute; reflexivity|]. split; vm_compute; reflexivity. Qed.

(* ---- "issued through the Python API or FROM COMPILED CODE" ----
   DbProg.solve runs clause bodies (goals on dynamic facts and on compiled predicates, =, asserta/assertz/
   retract/retractall, goals held in bound variables, and - round 5 - the control constructs !, fail, ( A ; B ),
   ( C -> T ; E ), ( C -> T ), \+ C with the semantics of the repaired compiler: a cut inside a condition or under
   \+ is local to it, a cut elsewhere ends the clause loop of its predicate and is not passed to the caller)
   depth first on a shared heap, the database being threaded through the whole search - also through the
   branches that a cut or a commit discards: a goal stays suspended while the rest of the body - which may
   update the same predicate - runs for each of its answers.  For every program, body, store, state and
   fuel: the database updates of the run (tr) are atomic LIST OPERATIONS, each applied to the list that is
   current when it happens -
     OIns k front f : the list of k becomes  f :: l  (asserta) or  l ++ [f]  (assertz), f a new Answer;
     ORet k i a     : an answer of retract: Answer i IS in the current list of k and is deleted from it;
     ORAll k gone   : retractall: the current list of k without the (distinct, present) Answers gone
   (valid_trace), the database after the run is their fold in execution order, identities stay unique. *)
Theorem C07_compiled_updates_are_list_operations : forall uf prog n gs s g g' a tr fl,
  ids_ok (gdb g) (gid g) -> solve uf prog n gs s g = Some (g', a, tr, fl) ->
  valid_trace (gdb g) (gid g) tr /\ (forall k, gdb g' k = apply_outs tr (gdb g) k) /\ ids_ok (gdb g') (gid g').
Proof. exact prog_no_lost_update. Qed.
Print Assumptions C07_compiled_updates_are_list_operations.

(* non-vacuity, compiled code: zero-argument facts, a predicate without facts, goals in bound variables
     m :- assertz(flag), flag, retract(flag), retractall(nope(_)), G = p(7), assertz(G), H = p(X), retract(H), \+... p(X)
   nothing is stuck (= raises), nothing is ignored: flag/0 is stored and removed, p(7) is stored through G and
   removed through H, so the final p(X) fails and the query has no answer; 2 Answers were created *)
Example C07_compiled_history :
  let flag := TAtom (d "flag") in let p x := TFun (d "p") [x] in
  let body := [GAssert false flag; GCall (d "flag") []; GRetract flag; GRetractAll (TFun (d "nope") [TVar 0]);
               GUnify (TVar 1) (p (TInt 7)); GAssert false (TVar 1); GUnify (TVar 2) (p (TVar 0)); GRetract (TVar 2)] in
  run_prog 100 50 1000 [mkcl (d "m") 3 [] body; mkcl (d "m2") 3 [] (body ++ [GCall (d "p") [TVar 0]])]
           [(d "m", [], 0); (d "m2", [], 0)] [(d "flag", 0); (d "p", 1); (d "nope", 1)]
  = OL [OL [otag "answers" [OL [OL []]]; otag "answers" [OL []]]; OL [OL []; OL []; OL []]; onat 4].
Proof. vm_compute. reflexivity. Qed.

(* non-vacuity, control constructs:  m :- ( flag -> retract(flag) ; assertz(flag) ), \+ nope(_), ( p(X), ! ; assertz(p(7)) ).
   called three times: flag/0 is stored, removed, stored; nope/1 has no facts (the \+ succeeds, nothing raises); the first
   call stores p(7) through the right branch, the later ones find it and commit: 3 Answers created *)
Example C07_compiled_control :
  let flag := TAtom (d "flag") in let p x := TFun (d "p") [x] in
  let body := [GIf [GCall (d "flag") []] [GRetract flag] [GAssert false flag]; GNot [GCall (d "nope") [TVar 1]];
               GOr [GCall (d "p") [TVar 0]; GCut] [GAssert false (p (TInt 7))]] in
  run_prog 100 50 1000 [mkcl (d "m") 2 [] body] [(d "m", [], 0); (d "m", [], 0); (d "m", [], 0)] [(d "flag", 0); (d "p", 1); (d "nope", 1)]
  = OL [OL [otag "answers" [OL [OL []]]; otag "answers" [OL [OL []]]; otag "answers" [OL [OL []]]];
        OL [OL [OL []]; OL [OL [term_obs (TInt 7)]]; OL []]; onat 3].
Proof. vm_compute. reflexivity. Qed.

(* ---- compiled code, through the trace inclusion (Engine/DbProgSim.v, see C14_compiled_run_is_cursor_history) ----
   Every run of compiled code is a history of the cursor machine with the same database, the same identities
   and the same answers (up to the names of new variables).  So C07_db_refines_list_spec speaks about compiled code:
   whenever the history of the run is a sequence of atomic operations (flat_map compile ops: no goal is suspended
   around another database operation), what the run sees, step by step, and the final contents of every
   predicate are those of the list specification srun.  (With goals suspended inside each other the
   identity-free specification does not apply - that case is C14's; the operations are then still atomic list
   operations on the current list: C07_compiled_updates_are_list_operations.)  The history is given
   existentially; its shape is described in DbProgSim.v. *)
Theorem C07_compiled_refines_list_spec : forall uf prog, prog_ok prog -> forall n gs s g g' a tr fl F,
  cinv F gs s g -> ids_ok (gdb g) (gid g) -> solve uf prog n gs s g = Some (g', a, tr, fl) ->
  exists evs st' outs, run (match_fact uf) (st_of g) evs = Some (st', outs) /\ Rst g' st' /\ tr_eqv tr (dbouts outs) /\
    forall ops d0, evs = flat_map compile ops -> R d0 (st_of g) ->
      map vis outs = snd (srun (match_fact uf) d0 ops) /\ R (fst (srun (match_fact uf) d0 ops)) st'.
Proof. exact prog_history_refines_list_spec. Qed.
Print Assumptions C07_compiled_refines_list_spec.

Theorem C07_compiled_run_is_cursor_history : forall uf prog, prog_ok prog -> forall n gs s g g' a tr fl F st,
  cinv F gs s g -> solve uf prog n gs s g = Some (g', a, tr, fl) -> Rst g st ->
  exists evs st' outs, run (match_fact uf) st evs = Some (st', outs) /\ Rst g' st' /\ tr_eqv tr (dbouts outs).
Proof. exact prog_run_is_cursor_history. Qed.
Print Assumptions C07_compiled_run_is_cursor_history.

(* round 4 - clear() at any point of a history, also while queries and retracts are suspended (Engine/DbClear.v).
   "each answer of retract removes exactly the first remaining matching fact ... clear removes everything": at every
   point of every history (any interleaving, any number of suspended cursors, clear() anywhere) an answer of a retract
   cursor returns an Answer that IS stored under the cursor's key at that moment, and afterwards it is stored nowhere *)
Theorem C07_retract_answer_is_stored : forall mt evs s s1 outs1 e s2 k i a,
  ids_ok (sdb s) (snext s) -> run mt s evs = Some (s1, outs1) -> step mt s1 e = Some (s2, ORet k i a) ->
  In i (map fid (sdb s1 k)) /\ (forall k', ~ In i (map fid (sdb s2 k'))).
Proof. exact retract_answer_is_stored. Qed.
Print Assumptions C07_retract_answer_is_stored.

(* after clear(), as long as nothing is asserted: no retract cursor - suspended in whatever snapshot - has an answer, and
   every predicate stays empty, whatever else is resumed, started, closed, retracted *)
Theorem C07_clear_then_resume : forall mt evs s s' outs,
  forallb (fun e => negb (is_assert e)) evs = true -> run mt s (EClear :: evs) = Some (s', outs) ->
  db_empty s' /\ forallb (fun o => negb (is_ret o)) outs = true.
Proof. exact clear_then_resume. Qed.
Print Assumptions C07_clear_then_resume.

(* non-vacuity: p(1), p(2), p(3); first answer of retract(p(X)) (X = 1); a query is suspended at p(2); clear(); the same
   facts are asserted again (new Answers); the retract, resumed, has no further answer and the new facts stay; the query
   goes on in the list it read (3, then the end) *)
Example C07_clear_while_suspended :
  let p := d "p"%string in
  let f x := TFun p [TInt x] in
  let evs := [EAssert false (f 1%Z); EAssert false (f 2%Z); EAssert false (f 3%Z);
              EStart 0 (QRetract (TFun p [TVar 0])); ENext 0; EStart 1 (QQuery p [TVar 0]); ENext 1;
              EClear; EAssert false (f 2%Z); EAssert false (f 3%Z); ENext 0; ENext 0; ENext 1; ENext 1] in
  exists s' outs, run (match_fact 20) init evs = Some (s', outs) /\
    skipn 4 outs = [ORet (p, 1) 0 [TInt 1%Z]; OStart; OAns 1 [TInt 2%Z]; OClr;
                    OIns (p, 1) false (mkfact 3 [TInt 2%Z]); OIns (p, 1) false (mkfact 4 [TInt 3%Z]);
                    OEnd; OEnd; OAns 2 [TInt 3%Z]; OEnd] /\
    map fid (sdb s' (p, 1)) = [3; 4].
Proof. eexists. eexists. split; [vm_compute; reflexivity|]. repeat split. Qed.

(* ---- round 6: compiled code that reaches the database THROUGH META-CALLS (Engine/DbProgMeta.v) ----
   msolve = DbProg.solve in which a goal name(args) is YP.query literally: the facts of name/arity, then the clauses of
   the program or the registered builtin of that name: call/N (goal dereferenced, extra arguments appended, the target
   queried again: a dynamic predicate, a rule, assertz/asserta/retract/retractall, a further meta-call), once/1 (first
   answer, then the call's generators are closed), findall/3 (its goal run to exhaustion in a run of its own, one copy of
   the template per answer, then the bag is unified), =, \=.  For every program, body, store, state and fuel: the updates
   of the run - however they were reached - are atomic list operations each applied to the list current at that moment,
   the final database is their fold in execution order, identities stay unique. *)
Theorem C07_meta_updates_are_list_operations : forall uf prog n gs s g g' a tr fl,
  ids_ok (gdb g) (gid g) -> msolve uf prog n gs s g = Some (g', a, tr, fl) ->
  valid_trace (gdb g) (gid g) tr /\ (forall k, gdb g' k = apply_outs tr (gdb g) k) /\ ids_ok (gdb g') (gid g').
Proof. exact mprog_no_lost_update. Qed.
Print Assumptions C07_meta_updates_are_list_operations.

(* non-vacuity:  init :- assertz(p(a)), assertz(p(b)).      u :- p(X), call(assertz, p(X)), fail.   u.
                 v(L) :- G = p(X), findall(X, call(G), L).  t(L) :- findall(X, retract(p(X)), L).
   queries init, u, v(L), t(L), t(L): u appends a copy of each of the two facts it started on (the goal p(X) stays
   suspended around call/2 and does not see them); v collects [a,b,a,b] through a goal held in a variable; the first t
   removes all four in list order and returns them, the second finds nothing ([]); p/1 is empty at the end; 4 Answers *)
Example C07_meta_history :
  let p x := TFun (d "p") [x] in let a := TAtom (d "a") in let b := TAtom (d "b") in
  show (run_prog_meta 100 50 1000
    [mkcl (d "init") 0 [] [GAssert false (p a); GAssert false (p b)];
     mkcl (d "t") 2 [TVar 0] [GCall (d "findall") [TVar 1; TFun (d "retract") [p (TVar 1)]; TVar 0]];
     mkcl (d "u") 1 [] [GCall (d "p") [TVar 0]; GCall (d "call") [TAtom (d "assertz"); p (TVar 0)]; GFail];
     mkcl (d "u") 0 [] [];
     mkcl (d "v") 3 [TVar 0] [GUnify (TVar 2) (p (TVar 1)); GCall (d "findall") [TVar 1; TFun (d "call") [TVar 2]; TVar 0]]]
    [(d "init", [], 0); (d "u", [], 0); (d "v", [TVar 0], 1); (d "t", [TVar 0], 1); (d "t", [TVar 0], 1)] [(d "p", 1)])
  = "((({answers} (())) ({answers} (())) ({answers} (((4 {.} ((0 {a}) (4 {.} ((0 {b}) (4 {.} ((0 {a}) (4 {.} ((0 {b}) (0 {[]})))))))))))) ({answers} (((4 {.} ((0 {a}) (4 {.} ((0 {b}) (4 {.} ((0 {a}) (4 {.} ((0 {b}) (0 {[]})))))))))))) ({answers} (((0 {[]}))))) (()) 4)"%string.
Proof. vm_compute. reflexivity. Qed.
