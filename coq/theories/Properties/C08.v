(* C08 - call resolution (statements only; proofs in Engine/) *)
From Coq Require Import String.
From Coq Require Import List Arith.
Import ListNotations.
From YP Require Import Base.Str Engine.Resolve.

Theorem C08_load_broken_atomic : forall c sc ow, s_broken sc = true -> load c sc ow = None.
Proof. intros c sc ow H. unfold load. rewrite H. reflexivity. Qed.
Print Assumptions C08_load_broken_atomic.
