(* C08 - call resolution: facts first, exact arity, load order, late binding.
   Only statements; every proof is `exact <lemma>` to a lemma proved in Engine/.

   Vocabulary (Engine/Resolve.v).  An engine is (fact store, context); the context is keyed by
   the strings mkkey name (AFix n) = '<name>_<n>' and mkkey name AVar = '<name>_n' and holds the
   chain of definitions filed under the key (chain order = load order).  A generator is a
   function  engine -> Done fin | Yield answer generator  : it is resumed under the engine as
   it is at that moment.  query_gen (S f) name args nx s  is YP.query(name, args) started with
   the bindings s (f = call depth still available).  `drain e g` runs a generator to its end
   while the engine stays e: (answers in order, how it ended: Norm / Raise / Oof = out of call
   depth).  `run_sched [e1; e2; ...] g` resumes it under e1, then e2, ... (the engine may have
   been changed between two answers). *)
From Coq Require Import String.
From Coq Require Import List Arith NArith Bool.
Import ListNotations.
From YP Require Import Base.Str Engine.Resolve Engine.ResolveProofs Engine.Keys Engine.ResolveLate
  Engine.RunResolve Engine.ResolveHist.

(* ---- "A call name/N resolves to the dynamic facts of name/N in order followed by the answers of
   the definitions registered for exactly N arguments (a variadic registration is used only when
   there is none)".  A chain member that cannot take N arguments makes the call raise after
   the facts (TypeError of the Python call). *)
Theorem C08_lookup_spec : forall f name args nx s e,
  reserved name = false ->
  let n := length args in
  let facts := fact_answers (db_get (e_db e) (name, n)) args s in
  let ds := match ctx_get (e_ctx e) (mkkey name (AFix n)) with
            | Some ds => ds
            | None => match ctx_get (e_ctx e) (mkkey name AVar) with Some ds => ds | None => [] end
            end in
  drain e (query_gen (S f) name args nx s e) =
  if forallb (params_ok n) ds
  then let r := drain e (chain_gen (query_gen f) ds args nx s e) in
       (map (prune nx) (facts ++ fst r), snd r)
  else (map (prune nx) facts, Raise).
Proof. exact lookup_spec. Qed.
Print Assumptions C08_lookup_spec.

(* ---- "the dynamic facts of name/N in order": assert_fact puts the new fact at the end (or the
   front) of name/N and touches nothing else; a call with distinct unbound variables answers every
   stored fact, in the stored order *)
Theorem C08_assert_fact_get : forall m name vals app k,
  db_get (assert_fact m name vals app) k =
  if dbkey_eqb k (name, length vals)
  then (if app then db_get m (name, length vals) ++ [vals] else vals :: db_get m (name, length vals))
  else db_get m k.
Proof. exact assert_fact_get. Qed.
Print Assumptions C08_assert_fact_get.

Theorem C08_fact_answers_in_order : forall fs args s,
  Forall (fun f => length f = length args) fs -> NoDup args ->
  (forall v, In v args -> slookup s v = None) ->
  map (fun s' => map (slookup s') args) (fact_answers fs args s) = map (map Some) fs.
Proof. exact fact_answers_fresh. Qed.
Print Assumptions C08_fact_answers_in_order.

(* ---- "an unknown predicate simply fails" (no exception) *)
Theorem C08_unknown_predicate_fails : forall f name args nx s e,
  db_get (e_db e) (name, length args) = [] ->
  ctx_get (e_ctx e) (mkkey name (AFix (length args))) = None ->
  ctx_get (e_ctx e) (mkkey name AVar) = None ->
  drain e (query_gen (S f) name args nx s e) = ([], Norm).
Proof. exact unknown_fails. Qed.
Print Assumptions C08_unknown_predicate_fails.

Theorem C08_exact_over_variadic : forall c name n ds,
  ctx_get c (mkkey name (AFix n)) = Some ds -> resolve c name n = Some ds.
Proof. exact exact_over_variadic. Qed.
Print Assumptions C08_exact_over_variadic.

Theorem C08_variadic_only_without_exact : forall c name n,
  ctx_get c (mkkey name (AFix n)) = None -> resolve c name n = ctx_get c (mkkey name AVar).
Proof. exact variadic_only_without_exact. Qed.
Print Assumptions C08_variadic_only_without_exact.

(* ---- the string-level keys: (name, arity) can be read back from '<name>_<arity>' / '<name>_n'
   (split at the last underscore); foo/1 is 'foo_1', foo_1/0 is 'foo_1_0', never the same key *)
Theorem C08_key_determines_name_and_arity : forall n1 a1 n2 a2,
  mkkey n1 a1 = mkkey n2 a2 -> n1 = n2 /\ a1 = a2.
Proof. exact mkkey_inj. Qed.
Print Assumptions C08_key_determines_name_and_arity.

(* ---- "never to a definition of another arity": whatever is assigned to the key of another
   name/arity (by register_function or a load) does not change what name/N resolves to *)
Theorem C08_other_arity_never : forall c name n name2 a2 v,
  (name2, a2) <> (name, AFix n) -> (name2, a2) <> (name, AVar) ->
  resolve (ctx_set c (mkkey name2 a2) v) name n = resolve c name n.
Proof. exact resolve_set_other. Qed.
Print Assumptions C08_other_arity_never.

(* ---- "(Names of the engine's own API functions are reserved and never callable as
   predicates.)": exactly the 15 names of the default context are refused; a call of such a name
   gives its facts and nothing else whatever the context holds; and no predicate key collides
   with an API entry of the context *)
Theorem C08_reserved_exact : forall name, reserved name = true <-> In name api_names.
Proof. exact reserved_iff. Qed.
Print Assumptions C08_reserved_exact.

Theorem C08_reserved_only_facts : forall f name args nx s e,
  reserved name = true ->
  drain e (query_gen (S f) name args nx s e) =
  (map (prune nx) (fact_answers (db_get (e_db e) (name, length args)) args s), Norm).
Proof. exact reserved_only_facts. Qed.
Print Assumptions C08_reserved_only_facts.

Theorem C08_predicate_keys_never_api_names : forall name a, ~ In (mkkey name a) api_names.
Proof. exact mkkey_not_api. Qed.
Print Assumptions C08_predicate_keys_never_api_names.

(* ---- loading.  A script is Python: its statements bind keys to NEW function objects (`def`,
   lambda), to constants (not callable), to None, delete keys of the copy, assign a key to itself,
   or raise.  last_eff ss k = the last thing the script does to key k (None: nothing; Some None:
   deleted in the copy; Some (Some v): bound to v); last_def ss k = the (last) object it binds k to.
   ctx_val c k = what k is bound to (None / an object / a chain closure); ctx_get c k = the objects
   a call finds there. *)

(* complete description of a load that returns, for every key k and every kind of statement.
   (`!=` of the merge loop = same_value: a function made by the script differs from everything;
   None equals "not bound"; a constant equals the same constant bound directly.) *)
Theorem C08_load_val : forall c sc ow c' k,
  load c sc ow = Some c' ->
  ctx_val c' k =
  match last_eff (s_stmts sc) k with
  | Some (Some v) =>
      if same_value (ctx_val c k) v then ctx_val c k
      else if ow then Some v
      else Some (VChain (old_members c k ++ members v))
  | _ => ctx_val c k
  end.
Proof. exact load_val. Qed.
Print Assumptions C08_load_val.

Theorem C08_load_get : forall c sc ow c' k,
  load c sc ow = Some c' ->
  ctx_get c' k =
  match last_eff (s_stmts sc) k with
  | Some (Some v) =>
      if same_value (ctx_val c k) v then ctx_get c k
      else if ow then Some (members v)
      else Some (old_members c k ++ members v)
  | _ => ctx_get c k
  end.
Proof. exact load_get. Qed.
Print Assumptions C08_load_get.

(* the case of the property text: the script DEFINES k (a function d): replaced / appended *)
Theorem C08_load_get_def : forall c sc ow c' k d,
  load c sc ow = Some c' -> last_def (s_stmts sc) k = Some d -> d_const d = None ->
  ctx_get c' k = if ow then Some [d] else Some (old_members c k ++ [d]).
Proof. exact load_get_def. Qed.
Print Assumptions C08_load_get_def.

(* "Loading a script with overwrite replaces exactly the definitions it contains" *)
Theorem C08_load_overwrite_exact : forall c sc c' k d,
  load c sc true = Some c' -> last_def (s_stmts sc) k = Some d -> d_const d = None -> ctx_get c' k = Some [d].
Proof. exact load_overwrite_exact. Qed.
Print Assumptions C08_load_overwrite_exact.

(* "loading without overwrite appends its definitions after the existing ones for the same
   name/arity in load order" - for any number of loads (scripts of definitions) *)
Theorem C08_load_chain_order : forall scs c c' k,
  forallb plain_script scs = true ->
  load_all c scs = Some c' ->
  chain_of c' k = chain_of c k ++
    flat_map (fun sc => match last_def (s_stmts sc) k with Some d => [d] | None => [] end) scs.
Proof. exact load_chain_order. Qed.
Print Assumptions C08_load_chain_order.

(* "definitions it does not mention are unaffected" (bound_keys = every key a statement names) *)
Theorem C08_load_frame : forall c sc ow c' k,
  load c sc ow = Some c' -> ~ In k (bound_keys (s_stmts sc)) -> ctx_val c' k = ctx_val c k.
Proof. exact load_frame. Qed.
Print Assumptions C08_load_frame.

(* ... nor are keys the script deletes (`del k` acts on the copy only) *)
Theorem C08_load_del_unaffected : forall c sc ow c' k,
  load c sc ow = Some c' -> last_eff (s_stmts sc) k = Some None -> ctx_val c' k = ctx_val c k.
Proof. exact load_del_unaffected. Qed.
Print Assumptions C08_load_del_unaffected.

(* "a load that raises leaves the engine unchanged": text that does not compile, or any
   statement raising while the script runs - whatever it bound before - gives no new context *)
Theorem C08_load_fail_atomic : forall c sc ow,
  s_broken sc = true \/ In SFail (s_stmts sc) -> load c sc ow = None.
Proof. exact load_fail_atomic. Qed.
Print Assumptions C08_load_fail_atomic.

(* exactly when a load returns: the text compiles and every statement runs (exec_ok: no raising
   statement; `del k` / `k = k` only of keys bound at that point) - nothing else can make it raise,
   in particular not WHAT the script binds (the merge does not look at the values) *)
Theorem C08_load_ok_iff : forall c sc ow,
  (exists c', load c sc ow = Some c') <-> (s_broken sc = false /\ exec_ok (s_stmts sc) (bound_in c) = true).
Proof. exact load_ok_iff. Qed.
Print Assumptions C08_load_ok_iff.

(* the load OPERATION in any state of a history, any script: it raises and the state is the same
   state, or it returns and every key is as C08_load_val says - never something in between *)
Theorem C08_load_op_atomic : forall fuel sc ow st,
  (load (e_ctx (st_eng st)) sc ow = None /\ do_op fuel (OLoad sc ow) st = (otag "raised" [], st)) \/
  (exists c', load (e_ctx (st_eng st)) sc ow = Some c' /\
     do_op fuel (OLoad sc ow) st = (otag "ok" [], mkState (mkEngine (e_db (st_eng st)) c') (st_susp st)) /\
     forall k, ctx_val c' k =
       match last_eff (s_stmts sc) k with
       | Some (Some v) =>
           if same_value (ctx_val (e_ctx (st_eng st)) k) v then ctx_val (e_ctx (st_eng st)) k
           else if ow then Some v
           else Some (VChain (old_members (e_ctx (st_eng st)) k ++ members v))
       | _ => ctx_val (e_ctx (st_eng st)) k
       end).
Proof. exact load_op_atomic. Qed.
Print Assumptions C08_load_op_atomic.

Theorem C08_raised_load_resolves_as_before : forall fuel sc ow st,
  fst (do_op fuel (OLoad sc ow) st) = otag "raised" [] -> snd (do_op fuel (OLoad sc ow) st) = st.
Proof. exact raised_load_resolves_as_before. Qed.
Print Assumptions C08_raised_load_resolves_as_before.

(* what the code does with `name_N = None` (the model says exactly that; the property text is
   silent): under overwrite the key stays bound, to None - nothing to call and the variadic
   registration is not consulted; for a key that is not bound nothing is bound *)
Theorem C08_load_none_hides_variadic : forall c sc c' name n,
  load c sc true = Some c' -> last_eff (s_stmts sc) (mkkey name (AFix n)) = Some (Some VNone) ->
  ctx_get c (mkkey name (AFix n)) <> None -> ctx_get c (mkkey name (AFix n)) <> Some [] ->
  resolve c' name n = Some [].
Proof. exact load_none_hides_variadic. Qed.
Print Assumptions C08_load_none_hides_variadic.

Theorem C08_load_none_unbound : forall c sc ow c' k,
  load c sc ow = Some c' -> last_eff (s_stmts sc) k = Some (Some VNone) -> ctx_val c k = None ->
  ctx_val c' k = None.
Proof. exact load_none_unbound. Qed.
Print Assumptions C08_load_none_unbound.

(* a module constant under a predicate key, alone or inside a chain (what a combining load makes
   of `name_N = 4`): every call that resolves to it raises, after the facts and before any
   definition answers - it never silently answers something else *)
Theorem C08_noncallable_member_raises : forall f name args nx s e ds d z,
  reserved name = false ->
  resolve (e_ctx e) name (length args) = Some ds -> In d ds -> d_const d = Some z ->
  drain e (query_gen (S f) name args nx s e) =
  (map (prune nx) (fact_answers (db_get (e_db e) (name, length args)) args s), Raise).
Proof. exact noncallable_member_raises. Qed.
Print Assumptions C08_noncallable_member_raises.

(* register_function assigns exactly one key (no chaining) *)
Theorem C08_register_get : forall c name st d k,
  ctx_get (register c name st d) k =
  if str_eqb k (mkkey name (reg_arity st d)) then Some [d] else ctx_get c k.
Proof. exact register_get. Qed.
Print Assumptions C08_register_get.

(* ---- all of the above for EVERY history.  spec_step (Engine/ResolveHist.v) is the property text
   as a state machine on total maps key -> definition list and name/arity -> fact list: register
   assigns one key, a raising load changes nothing, an overwrite load replaces the keys it
   mentions, a combining load appends to them, unmentioned keys are unaffected, assert_fact
   appends/prepends one fact, clear empties both, queries change nothing.  After any history
   from the empty engine the engine's dictionaries ARE these maps (and no key holds an empty
   chain), and a call uses the spec's definitions for exactly its arity, else the variadic ones.
   plain_op: what is registered / loaded are functions and raising statements (the vocabulary of
   the property text; scripts binding constants / None / deleting keys: C08_load_val above). *)
Theorem C08_history_refines_spec : forall fuel ops,
  forallb plain_op ops = true ->
  abs_ok (st_eng (exec_ops fuel ops (mkState empty_engine []))) (spec_run ops spec_init).
Proof. exact history_refines_spec. Qed.
Print Assumptions C08_history_refines_spec.

Theorem C08_defs_of_spec : forall e sp name n,
  abs_ok e sp -> defs_of (e_ctx e) name n = spec_defs (fst sp) name n.
Proof. exact defs_of_spec. Qed.
Print Assumptions C08_defs_of_spec.

(* ---- "each keeping its own cuts": a member of a chain that returns by cut (or ends normally)
   is followed by the next member; an exception ends the call *)
Theorem C08_chain_cut_local : forall call d r args nx s e l fi,
  drain e (def_gen call d args nx s e) = (l, fi) -> fi = Norm \/ fi = Cut ->
  drain e (chain_gen call (d :: r) args nx s e) =
  (l ++ fst (drain e (chain_gen call r args nx s e)), snd (drain e (chain_gen call r args nx s e))).
Proof. exact chain_cut_local. Qed.
Print Assumptions C08_chain_cut_local.

Theorem C08_chain_concat : forall call ds args nx s e,
  Forall (fun d => snd (drain e (def_gen call d args nx s e)) = Norm \/
                   snd (drain e (def_gen call d args nx s e)) = Cut) ds ->
  drain e (chain_gen call ds args nx s e) =
  (flat_map (fun d => fst (drain e (def_gen call d args nx s e))) ds, Norm).
Proof. exact chain_concat. Qed.
Print Assumptions C08_chain_concat.

Theorem C08_chain_raise_stops : forall call d r args nx s e l,
  drain e (def_gen call d args nx s e) = (l, Raise) ->
  drain e (chain_gen call (d :: r) args nx s e) = (l, Raise).
Proof. exact chain_raise_stops. Qed.
Print Assumptions C08_chain_raise_stops.

(* ---- "references between scripts and to registered Python predicates are resolved at call time
   so load order is irrelevant".  Answers depend on the engine only through the contents of its
   dictionaries (definitions hold no reference to the context they were loaded into) ... *)
Theorem C08_late_binding : forall e1 e2, eng_equiv e1 e2 -> forall fuel name args nx s,
  drain e1 (query_gen fuel name args nx s e1) = drain e2 (query_gen fuel name args nx s e2).
Proof. exact query_ext. Qed.
Print Assumptions C08_late_binding.

(* ... and scripts binding different keys can be loaded in either order (any overwrite flags):
   both orders succeed and every query has the same answers afterwards *)
Theorem C08_load_order_irrelevant : forall m c sc1 ow1 sc2 ow2 c1 c12,
  (forall k, In k (bound_keys (s_stmts sc1)) -> ~ In k (bound_keys (s_stmts sc2))) ->
  load c sc1 ow1 = Some c1 -> load c1 sc2 ow2 = Some c12 ->
  exists c2 c21, load c sc2 ow2 = Some c2 /\ load c2 sc1 ow1 = Some c21 /\
    forall fuel name args nx s,
      drain (mkEngine m c12) (query_gen fuel name args nx s (mkEngine m c12)) =
      drain (mkEngine m c21) (query_gen fuel name args nx s (mkEngine m c21)).
Proof. exact load_order_irrelevant. Qed.
Print Assumptions C08_load_order_irrelevant.

(* ---- "resolves, at the moment it is made".  The call is made at the FIRST resumption of the
   query object (YP.query is a generator function: creating the object runs nothing).  For every
   schedule e0 :: es: the fact list and the result of the lookup (blacklist, '<name>_<N>', else
   '<name>_n') are those of e0; the engines that come later are only handed to the bodies of the
   definitions found in e0 (call_phase), after the facts. *)
Theorem C08_resolution_at_first_resumption : forall f name args nx s e0 es,
  let facts := fact_answers (db_get (e_db e0) (name, length args)) args s in
  let fn := lookup_phase (e_ctx e0) name (length args) in
  run_sched (e0 :: es) (query_gen (S f) name args nx s) =
  if length es <? length facts
  then (map (prune nx) (firstn (S (length es)) facts), None)
  else let r := run_sched (skipn (length facts) (e0 :: es)) (call_phase (query_gen f) fn args nx s) in
       (map (prune nx) (facts ++ fst r), snd r).
Proof. exact resolution_at_first_resumption. Qed.
Print Assumptions C08_resolution_at_first_resumption.

(* the same, split at the moment the facts run out (es0: one engine per fact answer): the
   definitions called under e' are those of the engine of the first resumption, not those of e' *)
Theorem C08_resolution_moment : forall f name args nx s es0 e' es,
  let e0 := hd e' es0 in
  let facts := fact_answers (db_get (e_db e0) (name, length args)) args s in
  let fn := lookup_phase (e_ctx e0) name (length args) in
  length es0 = length facts ->
  run_sched (es0 ++ e' :: es) (query_gen (S f) name args nx s) =
  let r := run_sched (e' :: es) (call_phase (query_gen f) fn args nx s) in
  (map (prune nx) (facts ++ fst r), snd r).
Proof. exact resolution_moment. Qed.
Print Assumptions C08_resolution_moment.

(* a call that has taken its chain from the context keeps it: its answers are the same under
   every later history of the engine (definitions without calls; a call made from a body is a
   new call and is resolved at its own first resumption) *)
Theorem C08_resolved_call_keeps_definitions : forall call ds args nx s es1 es2,
  forallb callfree ds = true -> length es1 = length es2 ->
  run_sched es1 (chain_gen call ds args nx s) = run_sched es2 (chain_gen call ds args nx s).
Proof. exact resolved_call_keeps_definitions. Qed.
Print Assumptions C08_resolved_call_keeps_definitions.

(* CALL-TIME RESOLUTION (this statement was refuted by the code before the repair of YP.query, which
   looked the definitions up when the facts ran out).  call_defs e0 name N = the definitions the
   call takes from e0 (none for an API name).  If they make no calls, the answers of the call are
   the same under ALL later histories es1, es2 of the engine (asserts, loads with or without
   overwrite, register, clear - while the call is suspended on a fact or inside a definition) ... *)
Theorem C08_call_time_resolution : forall f name args nx s e0 es1 es2,
  forallb callfree (call_defs e0 name (length args)) = true ->
  length es1 = length es2 ->
  run_sched (e0 :: es1) (query_gen (S f) name args nx s) =
  run_sched (e0 :: es2) (query_gen (S f) name args nx s).
Proof. exact call_time_resolution. Qed.
Print Assumptions C08_call_time_resolution.

(* ... namely the answers computed in e0 alone (by C08_lookup_spec: the facts of e0 in order, then
   the definitions e0 holds for exactly N arguments, else the variadic ones) *)
Theorem C08_call_time_resolution_answers : forall f name args nx s e0 es,
  forallb callfree (call_defs e0 name (length args)) = true ->
  let r := drain e0 (query_gen (S f) name args nx s e0) in
  length (fst r) <= length es ->
  run_sched (e0 :: es) (query_gen (S f) name args nx s) = (fst r, Some (snd r)).
Proof. exact call_time_resolution_answers. Qed.
Print Assumptions C08_call_time_resolution_answers.

(* Before the first resumption nothing is fixed.  The query object made by `start` is the closed
   term query_gen fuel name args .. whatever the engine is at that time, it stays that object
   under all operations that do not resume it (engine changes, other queries), and its first
   `next` is computed from the engine of the moment of that `next`. *)
Theorem C08_created_query_unresolved : forall fuel name n st ops,
  let i := length (st_susp st) in
  forallb (leaves i) ops = true ->
  nth_error (st_susp (exec_ops fuel ops (snd (do_op fuel (OStart name n) st)))) i =
  Some (Some (query_gen fuel name (seq 0 n) n []), n).
Proof. exact created_query_unresolved. Qed.
Print Assumptions C08_created_query_unresolved.

Theorem C08_unstarted_query_sees_engine_of_first_next : forall fuel name n st ops,
  let i := length (st_susp st) in
  forallb (leaves i) ops = true ->
  let st' := exec_ops fuel ops (snd (do_op fuel (OStart name n) st)) in
  fst (do_op fuel (ONext i) st') = step_obs n (query_gen fuel name (seq 0 n) n [] (st_eng st')).
Proof. exact unstarted_query_sees_engine_of_first_next. Qed.
Print Assumptions C08_unstarted_query_sees_engine_of_first_next.

(* ---- the same over HISTORIES (what the correspondence check runs).  The results of the `next`
   operations on suspended query i in a history are the run of its generator under the schedule of
   the engines current at these `next` (no `close i` in the history) ... *)
Theorem C08_nexts_are_schedule : forall fuel i n ops st g,
  nth_error (st_susp st) i = Some (g, n) ->
  forallb (fun o => negb (is_close i o)) ops = true ->
  nexts_of fuel i ops st = sched_obs n (engines_at fuel i ops st) g.
Proof. exact nexts_are_schedule. Qed.
Print Assumptions C08_nexts_are_schedule.

(* ... so: two arbitrary histories in which the first `next` of the not yet started query object of
   a call name/n finds the same engine e0 (whose definitions for name/n make no calls) and which
   resume it equally often report the same at every `next` of it, whatever else they do to the
   engine (register, loads, asserts, clear, other queries) before, between and after *)
Theorem C08_history_call_time_resolution : forall f name n i1 i2 ops1 ops2 st1 st2 e0 es1 es2,
  let q := query_gen (S f) name (seq 0 n) n [] in
  nth_error (st_susp st1) i1 = Some (Some q, n) -> nth_error (st_susp st2) i2 = Some (Some q, n) ->
  forallb (fun o => negb (is_close i1 o)) ops1 = true -> forallb (fun o => negb (is_close i2 o)) ops2 = true ->
  engines_at (S f) i1 ops1 st1 = e0 :: es1 -> engines_at (S f) i2 ops2 st2 = e0 :: es2 ->
  length es1 = length es2 ->
  forallb callfree (call_defs e0 name n) = true ->
  nexts_of (S f) i1 ops1 st1 = nexts_of (S f) i2 ops2 st2.
Proof. exact history_call_time_resolution. Qed.
Print Assumptions C08_history_call_time_resolution.

(* the big-step reading used above is the schedule in which the engine never changes *)
Theorem C08_drain_is_constant_schedule : forall e st n,
  length (fst (drain e st)) < n ->
  forall g, g e = st -> run_sched (repeat e n) g = (fst (drain e st), Some (snd (drain e st))).
Proof. exact run_sched_const. Qed.
Print Assumptions C08_drain_is_constant_schedule.

(* non-vacuity: three scripts combined for p/1 (the second one cuts), a fact, an unrelated arity
   and a variadic registration; the call p(X) gives the fact, then the three definitions in load
   order, the cut of the second one does not end the third, p/2 and the variadic one are not used *)
Local Open Scope string_scope.
Example C08_nonvacuous :
  let df (a : string) (cut : bool) := mkDef (Some 1) [mkClause 0 (GUnify 0 (d a) :: if cut then [GCut] else []);
                                  mkClause 0 [GUnify 0 (d (String.append a "2"))]] in
  let sc (a : string) (cut : bool) := mkScript false [SDef (mkkey (d "p") (AFix 1)) (df a cut)] in
  let c0 := register (register [] (d "p") RVariadic (mkDef None [mkClause 0 [GUnify 0 (d "variadic")]]))
                     (d "p") (RExplicit 2) (mkDef (Some 2) [mkClause 0 [GUnify 0 (d "two")]]) in
  exists c', load_all c0 [sc "x" false; sc "y" true; sc "z" false] = Some c' /\
    let e := mkEngine (assert_fact [] (d "p") [d "fact"] true) c' in
    drain e (query_gen 3 (d "p") [0] 1 [] e) =
    ([[(0, d "fact")]; [(0, d "x")]; [(0, d "x2")]; [(0, d "y")]; [(0, d "z")]; [(0, d "z2")]], Norm).
Proof. eexists. split; [vm_compute; reflexivity | vm_compute; reflexivity]. Qed.

(* non-vacuity for scripts that are not only definitions.  The context has color/1 (old).  A script
   binds color_1 (new), shape_1, the constant MAX_SIZE = <constant 4>, size_1 - loaded WITHOUT
   overwrite it returns and everything is merged (color/1 = old, new; shape/1; size/1; MAX_SIZE a
   chain around the constant); the same script with a raising statement in the middle raises and
   the load has no new context; a key bound to a constant makes the call raise after the facts. *)
Example C08_nondef_globals_nonvacuous :
  let df (a : string) := mkDef (Some 1) [mkClause 0 [GUnify 0 (d a)]] in
  let k (nm : string) := mkkey (d nm) (AFix 1) in
  let c0 : ctx := [(k "color", VObj (df "blue"))] in
  let ss := [SDef (k "color") (df "red"); SDef (k "shape") (df "square"); SDef (d "MAX_SIZE") (mkConst 4);
             SDef (k "size") (df "four"); SDef (k "lim") (mkConst 7)] in
  (exists c', load c0 (mkScript false ss) false = Some c' /\
     ctx_val c' (k "color") = Some (VChain [df "blue"; df "red"]) /\
     ctx_val c' (k "shape") = Some (VChain [df "square"]) /\
     ctx_val c' (d "MAX_SIZE") = Some (VChain [mkConst 4]) /\
     ctx_val c' (k "size") = Some (VChain [df "four"]) /\
     let e := mkEngine (assert_fact [] (d "lim") [d "fact"] true) c' in
     drain e (query_gen 3 (d "color") [0] 1 [] e) = ([[(0, d "blue")]; [(0, d "red")]], Norm) /\
     drain e (query_gen 3 (d "lim") [0] 1 [] e) = ([[(0, d "fact")]], Raise)) /\
  load c0 (mkScript false (firstn 2 ss ++ SFail :: skipn 2 ss)) false = None /\
  load c0 (mkScript false (ss ++ [SDel (k "nosuch")])) false = None /\
  (exists c', load c0 (mkScript false (ss ++ [SDel (k "color"); SNone (k "shape")])) true = Some c' /\
     ctx_val c' (k "color") = Some (VObj (df "blue")) /\ ctx_val c' (k "shape") = None).
Proof.
  cbv zeta. split; [|split; [|split]].
  - eexists. split; [vm_compute; reflexivity|]. repeat split; vm_compute; reflexivity.
  - vm_compute; reflexivity.
  - vm_compute; reflexivity.
  - eexists. split; [vm_compute; reflexivity|]. split; vm_compute; reflexivity.
Qed.

(* non-vacuity of call-time resolution: fact p(f), definition p(old); started (answers f); p(old) is
   replaced by p(new); resumed: old, although a call made now answers new.  And of "nothing is fixed
   before the first next": Engine/ResolveHist.v unstarted_query_witness. *)
Example C08_call_time_nonvacuous :
  forallb callfree (call_defs wit_e0 (d "p") 1) = true /\
  run_sched [wit_e0; wit_e1; wit_e1] (query_gen 2 (d "p") [0] 1 []) = ([[(0, d "f")]; [(0, d "old")]], Some Norm) /\
  run_sched [wit_e1; wit_e1; wit_e1] (query_gen 2 (d "p") [0] 1 []) = ([[(0, d "f")]; [(0, d "new")]], Some Norm).
Proof. exact call_time_resolution_witness. Qed.
