(* C09 - call/N, once/1, findall/3, = and \= agree with their standard definitions.
   Only statements; proofs are `exact <lemma>`.  `builtin call` is the engine's table of builtin
   predicates over an arbitrary resolution function `call` (YP.query one level down); it is the SAME
   function in the model of the compiled code (Machine.query) and in the reference (solveA). *)
From Coq Require Import String.
From Coq Require Import List Arith ZArith.
Import ListNotations.
From YP Require Import Base.Str Term.Term Term.Fast Unify.Unify Unify.Fast Lang.Ast Comp.IR Comp.CompileBody Comp.CompileClause
  Sem.Res Sem.RefSem Sem.IRSem Sem.ControlCorrect Sem.Machine Sem.ClauseSem Sem.ProgramCorrect Sem.SpecLemmas Sem.FindallShare Sem.ScopeSpec.
Local Open Scope string_scope.
Local Open Scope list_scope.

(* programs that use the builtins are covered by the program theorem: a goal whose name/arity has no
   clause resolves to the builtin table in both semantics *)
Theorem C09_compiled_program_computes_reference : forall n p ir,
  compile_program p = Some ir -> good_program p ->
  forall name args s, query n ir name args s = solveA n p name args s.
Proof. exact machine_computes_clause_semantics. Qed.
Print Assumptions C09_compiled_program_computes_reference.

(* the builtins depend on the program only through the answers of the goals they call *)
Theorem C09_builtin_extensional : forall call call',
  (forall f a s, call f a s = call' f a s) -> forall name args s, builtin call name args s = builtin call' name args s.
Proof. exact builtin_ext. Qed.
Print Assumptions C09_builtin_extensional.

(* call(G,A1..An): G is dereferenced through any chain of bound variables (den_fast = deep get_value);
   compound goal: its answers are those of name(G)(args(G) ++ A1..An); atom goal: of name(G)(A1..An) *)
Theorem C09_call_spec_compound : forall call g extra s f gargs, den_fast (sto s) g = TFun f gargs ->
  builtin call (s_ "call") (g :: extra) s = Some (call f (gargs ++ extra) s).
Proof. exact call_spec_fun. Qed.
Print Assumptions C09_call_spec_compound.

Theorem C09_call_spec_atom : forall call g extra s a, den_fast (sto s) g = TAtom a ->
  builtin call (s_ "call") (g :: extra) s = Some (call a extra s).
Proof. exact call_spec_atom. Qed.
Print Assumptions C09_call_spec_atom.

(* once(G): the first answer of G only; no answer and NO error when G has none *)
Theorem C09_once_spec : forall call g s,
  builtin call (s_ "once") [g] s =
  Some (match call_goal call g [] s with (x :: _, _) => ([x], false) | ([], e) => ([], e) end).
Proof. exact once_spec. Qed.
Print Assumptions C09_once_spec.

(* findall(T,G,L): when G's enumeration ends without error with answer states xs, the answers are those
   of unifying L with the list of the collected instances of T - one per answer, in order - computed from
   the store of the call: no binding made by G survives *)
Theorem C09_findall_spec : forall call t g l s xs,
  call_goal call g [] s = (xs, false) ->
  builtin call (s_ "findall") [t; g; l] s =
  Some (let '(es, b) := collect 0 (nxt s) t xs in unify_st {| sto := sto s; nxt := b |} l (mk_list es)).
Proof. exact findall_spec. Qed.
Print Assumptions C09_findall_spec.

Theorem C09_findall_one_instance_per_answer : forall lo t xs base, length (fst (collect lo base t xs)) = length xs.
Proof. exact collect_length. Qed.
Print Assumptions C09_findall_one_instance_per_answer.

(* the collected instances are COPIES of the instances of T under each answer, in order: instance j is the dereferenced
   template with every variable c renamed to base_j + c (one injective renaming per instance), base_1 = the variable
   counter of the call, base_(j+1) = base_j + the counter at answer j *)
Theorem C09_findall_instances : forall t xs base,
  fst (collect 0 base t xs) = map (fun bx => shift_by (fst bx) (den_fast (sto (snd bx)) t)) (combine (copy_bases base xs) xs) /\
  snd (collect 0 base t xs) = fold_left (fun b x => b + nxt x) xs base.
Proof. exact collect_copies. Qed.
Print Assumptions C09_findall_instances.

(* every variable of a collected instance is new (>= the counter of the call): an instance shares no variable with the
   caller, the goal, the template or the bag *)
Theorem C09_findall_copies_are_fresh : forall t xs base e v,
  In e (fst (collect 0 base t xs)) -> occurs v e = true -> base <= v.
Proof. exact collect_copies_fresh. Qed.
Print Assumptions C09_findall_copies_are_fresh.

(* and two different instances share no variable *)
Theorem C09_findall_copies_are_disjoint : forall t xs base i j ei ej v,
  (forall x, In x xs -> forall w, occurs w (den_fast (sto x) t) = true -> w < nxt x) ->
  nth_error (fst (collect 0 base t xs)) i = Some ei -> nth_error (fst (collect 0 base t xs)) j = Some ej ->
  occurs v ei = true -> occurs v ej = true -> i = j.
Proof. exact collect_copies_disjoint. Qed.
Print Assumptions C09_findall_copies_are_disjoint.

Theorem C09_findall_at_most_once : forall call t g l s r,
  builtin call (s_ "findall") [t; g; l] s = Some r -> length (fst r) <= 1.
Proof. exact findall_at_most_once. Qed.
Print Assumptions C09_findall_at_most_once.

(* non-vacuity / witness: an unbound variable of the caller inside an instance is a NEW variable inside the list (the
   engine copies since the repair D27, as standard Prolog).  On the compiled-code model and on the clause-level reference:
     t(V) :- findall(X, X = V, [b]).         ?- t(V).     one answer, V stays unbound (before D27: V = b)
     u(V,L) :- findall(X, X = V, L), V = a.   ?- u(V,L).   V = a and L = [_G], _G a variable other than V (before: L = [a]) *)
Theorem C09_findall_copies_instances :
  exists ir, compile_program share_prog = Some ir /\
  map (fun x => den (sto x) (TVar 0)) (fst (query 10 ir (d "t") [TVar 0] {| sto := []; nxt := 1 |})) = [TVar 0] /\
  map (fun x => den (sto x) (TVar 0)) (fst (solveA 10 share_prog (d "t") [TVar 0] {| sto := []; nxt := 1 |})) = [TVar 0] /\
  map (fun x => match den (sto x) (TVar 1) with
                | TFun _ [e; _] => (den (sto x) (TVar 0), is_var_other_than 0 e)
                | _ => (TVar 0, false) end)
      (fst (query 10 ir (d "u") [TVar 0; TVar 1] {| sto := []; nxt := 2 |})) = [(TAtom (d "a"), true)].
Proof. exact findall_copies_instances. Qed.
Print Assumptions C09_findall_copies_instances.

(* X = Y has the answers of unification (C02) *)
Theorem C09_eq_spec : forall call a b s, builtin call (s_ "=") [a; b] s = Some (unify_st s a b).
Proof. exact eq_spec. Qed.
Print Assumptions C09_eq_spec.

(* ... and its bindings live in those answers only: whatever a goal A binds (A may be X = T, the first occurrence of X or
   not), when the goals G after it in the same scope fail for every answer of A, the construct around the scope goes on from
   the state in which it was ENTERED: the else branch of an if-then-else, *)
Theorem C09_condition_failure_discards_bindings : forall (S : Type) (I : str -> list sterm -> S -> list S * bool) A G T E s xs,
  sem I A s = (xs, FNorm) -> (forall x, In x xs -> sem I G x = ([], FNorm)) ->
  sem I (BOr (BIf (BAnd A G) T) E) s = sem I E s.
Proof. exact condition_failure_discards_bindings. Qed.
Print Assumptions C09_condition_failure_discards_bindings.

(* ... the goals after the if-then-else, *)
Theorem C09_after_failed_condition : forall (S : Type) (I : str -> list sterm -> S -> list S * bool) A G T E K s xs,
  sem I A s = (xs, FNorm) -> (forall x, In x xs -> sem I G x = ([], FNorm)) ->
  sem I (BAnd (BOr (BIf (BAnd A G) T) E) K) s = sem I (BAnd E K) s.
Proof. exact after_failed_condition. Qed.
Print Assumptions C09_after_failed_condition.

(* ... the goals after a negation (which never passes a binding on, whatever its goal does), *)
Theorem C09_negation_discards_bindings : forall (S : Type) (I : str -> list sterm -> S -> list S * bool) G s x,
  In x (fst (sem I (BNot G) s)) -> x = s.
Proof. exact negation_answers_entry_state. Qed.
Print Assumptions C09_negation_discards_bindings.

(* ... and the other branch of a disjunction. *)
Theorem C09_branch_failure_discards_bindings : forall (S : Type) (I : str -> list sterm -> S -> list S * bool) A G B s xs,
  sem I A s = (xs, FNorm) -> (forall x, In x xs -> sem I G x = ([], FNorm)) ->
  sem I (BOr (BAnd A G) B) s = sem I B s.
Proof. exact branch_failure_discards_bindings. Qed.
Print Assumptions C09_branch_failure_discards_bindings.

(* X \= Y succeeds once, with the unchanged state, exactly when X and Y do not unify *)
Theorem C09_neq_spec : forall call a b s,
  builtin call (s_ "\=") [a; b] s =
  Some (match unify_fast ufuel (sto s) a b with UOk _ => ([], false) | UFail => ([s], false) | _ => ([], true) end).
Proof. exact neq_spec. Qed.
Print Assumptions C09_neq_spec.

(* non-vacuity:  t(L) :- G = q(X), findall(X, call(G), L).   q(a). q(b).   gives L = [a,b] *)
Definition findall_prog : program :=
  [ {| c_name := d "t"; c_args := [SVar (d "L")];
       c_body := BAnd (BCall (d "=") [SVar (d "G"); SFun (d "q") [SVar (d "X")]])
                      (BCall (d "findall") [SVar (d "X"); SFun (d "call") [SVar (d "G")]; SVar (d "L")]) |};
    {| c_name := d "q"; c_args := [SAtom (d "a")]; c_body := BTrue |};
    {| c_name := d "q"; c_args := [SAtom (d "b")]; c_body := BTrue |} ].
Example C09_nonvacuous :
  good_program findall_prog /\
  exists ir, compile_program findall_prog = Some ir /\
  map (fun x => den (sto x) (TVar 0)) (fst (query 10 ir (d "t") [TVar 0] {| sto := []; nxt := 1 |}))
  = [mk_list [TAtom (d "a"); TAtom (d "b")]].
Proof.
  split.
  - repeat constructor.
  - eexists. split; [vm_compute; reflexivity|]. vm_compute. reflexivity.
Qed.

(* non-vacuity of the scope theorems on the compiled-code model:
   t(R) :- ( X = a, ok(X) -> R = then(X) ; R = else(X) ).   ok(b).      ?- t(R).   R = else(_): the binding X = a is gone *)
Definition scope_prog : program :=
  [ {| c_name := d "t"; c_args := [SVar (d "R")];
       c_body := BOr (BIf (BAnd (BCall (d "=") [SVar (d "X"); SAtom (d "a")]) (BCall (d "ok") [SVar (d "X")]))
                          (BCall (d "=") [SVar (d "R"); SFun (d "then") [SVar (d "X")]]))
                     (BCall (d "=") [SVar (d "R"); SFun (d "else") [SVar (d "X")]]) |};
    {| c_name := d "ok"; c_args := [SAtom (d "b")]; c_body := BTrue |} ].
Example C09_nonvacuous_scope :
  exists ir, compile_program scope_prog = Some ir /\
  exists k, map (fun x => den (sto x) (TVar 0)) (fst (query 10 ir (d "t") [TVar 0] {| sto := []; nxt := 1 |})) = [TFun (d "else") [TVar k]].
Proof. eexists. split; [vm_compute; reflexivity|]. eexists. vm_compute. reflexivity. Qed.
(* round 3: findall unifies the bag only AFTER the enumeration of G is complete.  What is collected - the list of
   instances and the variable counter, or the fact that G ended in an error - is a function of the call, the template,
   the goal and the state of the call (findall_collected), fixed before the bag l is looked at; the bag is then unified
   with that list in the store of the call.  So G runs in the state of the call whatever the bag is (unbound, closed or
   partial list, sharing variables with G or not), and no binding flows from the bag into the enumeration of G. *)
Theorem C09_findall_bag_after_enumeration : forall call t g s,
  exists r : option (list term * nat),
    r = findall_collected call t g s /\
    forall l, builtin call (s_ "findall") [t; g; l] s =
              Some (match r with
                    | None => ([], true)
                    | Some (es, b) => unify_st {| sto := sto s; nxt := b |} l (mk_list es)
                    end).
Proof. exact findall_bag_after_enumeration. Qed.
Print Assumptions C09_findall_bag_after_enumeration.

(* non-vacuity: a goal whose SECOND answer exists only while V is unbound-or-b, called with a partial list as bag that
   shares V with the goal through the first instance:
     r(V,X) :- X = V.      r(V,X) :- V = b, X = c.      t(V,T) :- findall(X, r(V,X), [a|T]).
   On its own r(V,X) has the answers X = V and V = b, X = c, so the instances are [_G, c] (the first one a copy of the
   unbound V) and [a|T] = [_G, c] gives T = [c] and leaves V unbound.  (Matching the bag while r is still running
   would bind V to a after the first answer and lose the second: T = [].) *)
Definition bag_prog : program :=
  [ {| c_name := d "r"; c_args := [SVar (d "V"); SVar (d "X")]; c_body := BCall (d "=") [SVar (d "X"); SVar (d "V")] |};
    {| c_name := d "r"; c_args := [SVar (d "V"); SVar (d "X")];
       c_body := BAnd (BCall (d "=") [SVar (d "V"); SAtom (d "b")]) (BCall (d "=") [SVar (d "X"); SAtom (d "c")]) |};
    {| c_name := d "t"; c_args := [SVar (d "V"); SVar (d "T")];
       c_body := BCall (d "findall") [SVar (d "X"); SFun (d "r") [SVar (d "V"); SVar (d "X")]; SPair (SAtom (d "a")) (SVar (d "T"))] |} ].
Example C09_bag_nonvacuous :
  good_program bag_prog /\
  exists ir, compile_program bag_prog = Some ir /\
  map (fun x => (den (sto x) (TVar 0), den (sto x) (TVar 1))) (fst (query 10 ir (d "t") [TVar 0; TVar 1] {| sto := []; nxt := 2 |}))
  = [(TVar 0, mk_list [TAtom (d "c")])].
Proof.
  split.
  - repeat constructor.
  - eexists. split; [vm_compute; reflexivity|]. vm_compute. reflexivity.
Qed.

(* round 3: findall(T,G,L) is "collect, then match": findall(T,G,V), L = V for a new variable V (unbound, occurring
   neither in L nor in the collected list).  The first step succeeds exactly once and binds only V; matching L against
   V afterwards ends exactly as the direct call does (success / failure / error) with the SAME new bindings nw; the two
   final stores differ only by the binding of the auxiliary V. *)
Theorem C09_findall_is_collect_then_match : forall call t g l s v es b,
  wf (sto s) -> lookup v (sto s) = None ->
  occurs v (den (sto s) l) = false ->
  findall_collected call t g s = Some (es, b) ->
  occurs v (den (sto s) (mk_list es)) = false ->
  let m := den (sto s) (mk_list es) in
  let s1 := {| sto := (v, m) :: sto s; nxt := b |} in
  builtin call (s_ "findall") [t; g; TVar v] s = Some ([s1], false) /\
  match unify ufuel [] (den (sto s) l) m with
  | UOk nw => builtin call (s_ "findall") [t; g; l] s = Some ([{| sto := nw ++ sto s; nxt := b |}], false) /\
              unify_st s1 l (TVar v) = ([{| sto := nw ++ (v, m) :: sto s; nxt := b |}], false)
  | UFail => builtin call (s_ "findall") [t; g; l] s = Some ([], false) /\ unify_st s1 l (TVar v) = ([], false)
  | _ => builtin call (s_ "findall") [t; g; l] s = Some ([], true) /\ unify_st s1 l (TVar v) = ([], true)
  end.
Proof. exact findall_as_fresh_bag_then_unify. Qed.
Print Assumptions C09_findall_is_collect_then_match.

(* non-vacuity: the hypotheses hold for the call of bag_prog above - template X = cell 2, goal r(V,X) with V = cell 0,
   bag [a|T] with T = cell 1, auxiliary variable cell 3, in the empty store with 4 cells allocated; the collected list is
   [_4, c] (the first instance is a copy of the unbound V: cell 0 of the first answer moved to 4 + 0) and the match binds
   that copy to a and T to [c] *)
Example C09_collect_then_match_nonvacuous :
  let call := query 9 (match compile_program bag_prog with Some ir => ir | None => [] end) in
  let s := {| sto := []; nxt := 4 |} in
  let g := TFun (d "r") [TVar 0; TVar 2] in
  let l := cons_term (TAtom (d "a")) (TVar 1) in
  findall_collected call (TVar 2) g s = Some ([TVar 4; TAtom (d "c")], 12) /\
  wf (sto s) /\ lookup 3 (sto s) = None /\ occurs 3 (den (sto s) l) = false /\
  occurs 3 (den (sto s) (mk_list [TVar 4; TAtom (d "c")])) = false /\
  unify ufuel [] (den (sto s) l) (den (sto s) (mk_list [TVar 4; TAtom (d "c")])) =
    UOk [(1, mk_list [TAtom (d "c")]); (4, TAtom (d "a"))].
Proof. vm_compute. repeat split; constructor. Qed.
