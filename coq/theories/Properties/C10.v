(* C10 - text outside the grammar is rejected, never partially compiled.
   Only statements; every proof is `exact <lemma>` to a lemma proved in Lang/. *)
From Coq Require Import String.
From Coq Require Import List NArith Arith.
Import ListNotations.
From YP Require Import Base.Str Lang.Ast Lang.Lexer Lang.Cst Lang.Parser Lang.Unquote Lang.Front.

(* If the lexer returns tokens, the texts of all items (skipped white space and comments included)
   concatenate to the input, every item text is in the language of its rule, every item is the maximal
   munch at its position (`lexes`), and the parser gets exactly the non-skipped items, in order. *)
Theorem C10_lex_exact : forall s toks, lex s = Some toks ->
  exists items, lexes s items [] /\
    concat (map snd items) = s /\
    Forall (fun it => rule_lang (fst it) (snd it)) items /\
    toks = filter keep items.
Proof. exact lex_exact. Qed.
Print Assumptions C10_lex_exact.
