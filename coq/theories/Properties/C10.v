(* C10 - text outside the grammar is rejected, never partially compiled.
   Only statements; every proof is `exact <lemma>` to a lemma proved in Lang/.

   front : str -> option program  is the model of lexer + parser + end-of-input test + visitor
   (Lang/Front.v).  None = the compiler raises; Some p = the AST handed to the code generator. *)
From Coq Require Import String.
From Coq Require Import List NArith Arith.
Import ListNotations.
From YP Require Import Base.Str Lang.Ast Lang.Lexer Lang.Cst Lang.Parser Lang.ParserSound Lang.Unquote Lang.Front
  Lang.ParserMono Lang.ParserComplete Lang.ParserCanon Lang.ParserFuel Lang.ParserNorm Lang.FrontSpec
  Comp.IR Comp.NumeralName Comp.CompileClause Lang.FrontCompile Lang.QuotedOpaque.
From YP Require Import Comp.CompileText Cli.Comment Cli.Cli Cli.CliCompile Cli.CliSentence.

(* The scan of every token rule computes exactly the longest prefix in the rule's language
   (rdef_lang is the specification of the four kinds of rule, rule_def the table of prolog.g4). *)
Theorem C10_rule_scan_exact : forall rd s n, longest rd s = Some n ->
  is_match rd s n /\ forall m, is_match rd s m -> m <= n.
Proof. exact longest_some. Qed.
Print Assumptions C10_rule_scan_exact.

Theorem C10_rule_scan_none : forall rd s, longest rd s = None -> forall m, ~ is_match rd s m.
Proof. exact longest_none. Qed.
Print Assumptions C10_rule_scan_none.

(* Maximal munch with the rule-order tie-break: the token chosen at a position is a match of its
   rule, no rule matches a longer prefix, and no rule listed earlier matches one of the same length. *)
Theorem C10_lex_maximal_munch : forall s r n, lex_one s = Some (r, n) ->
  is_match (rule_def r) s n /\
  forall r' m, is_match (rule_def r') s m -> m < n \/ (m = n /\ ridx r <= ridx r').
Proof. exact lex_one_some. Qed.
Print Assumptions C10_lex_maximal_munch.

(* If the lexer returns tokens, the texts of all items (skipped white space and comments included)
   concatenate to the input, every item text is in the language of its rule, every item is the maximal
   munch at its position (`lexes`), and the parser gets exactly the non-skipped items, in order. *)
Theorem C10_lex_exact : forall s toks, lex s = Some toks ->
  exists items, lexes s items [] /\
    concat (map snd items) = s /\
    Forall (fun it => rule_lang (fst it) (snd it)) items /\
    toks = filter keep items.
Proof. exact lex_exact. Qed.
Print Assumptions C10_lex_exact.

(* The lexer refuses a text only at a position, reached by maximal munch, where no prefix of the
   remaining text belongs to any rule ("characters outside the lexicon", an unterminated quoted atom,
   a comment without line break); conversely such a text is never lexed (lex_complete + uniqueness). *)
Theorem C10_lex_error_spec : forall s, lex s = None ->
  exists items rest, lexes s items rest /\ rest <> [] /\
    forall r w rest', rest = w ++ rest' -> ~ rule_lang r w.
Proof. exact lex_error_spec. Qed.
Print Assumptions C10_lex_error_spec.

(* The lexer is the only maximal-munch tokenisation: whatever satisfies the specification is what it returns. *)
Theorem C10_lex_complete : forall s items, lexes s items [] -> lex s = Some (filter keep items).
Proof. exact lex_complete. Qed.
Print Assumptions C10_lex_complete.

(* A parse tree is a derivation tree of prolog.g4 (one constructor per alternative, Lang/Cst.v); its
   leaves are all the tokens, in order: nothing skipped, nothing left over after the last clause. *)
Theorem C10_parse_yield : forall ts cst, parse ts = Some cst -> yield cst = map norm ts.
Proof. exact parse_yield. Qed.
Print Assumptions C10_parse_yield.

(* One AST clause per clause node, in order, each the visitor's image of its node. *)
Theorem C10_ast_clause_count : forall cst k prog k', v_program cst k = Some (prog, k') ->
  Forall2 clause_image (clauses_of cst) prog.
Proof. exact v_program_clauses. Qed.
Print Assumptions C10_ast_clause_count.

(* Accepted => the whole text is a sentence of the grammar and every clause of it is in the AST. *)
Theorem C10_front_whole_input : forall s prog, front s = Some prog ->
  exists items cst k,
    lexes s items [] /\ concat (map snd items) = s /\
    Forall (fun it => rule_lang (fst it) (snd it)) items /\
    yield cst = map norm (filter keep items) /\
    v_program cst 0 = Some (prog, k) /\
    Forall2 clause_image (clauses_of cst) prog /\
    length prog = length (clauses_of cst).
Proof. exact front_whole_input. Qed.
Print Assumptions C10_front_whole_input.

(* PARSE_COMPLETE.  The recogniser accepts EVERY sentence of prolog.g4: for any derivation tree p of the grammar
   (Lang/Cst.v: one constructor per alternative, so also the readings that precedence does not select), `parse`
   -- with the depth fuel 5 * #tokens + 10 it supplies itself -- accepts the yield of p and returns the canonical
   tree of that sentence. *)
Theorem C10_parse_complete : forall p, parse (yield p) = Some (canon_program p).
Proof. exact parse_complete. Qed.
Print Assumptions C10_parse_complete.

(* the same for all sufficiently large depth fuels (`ev f x` = f n = Some x for all n from some n0 on) *)
Theorem C10_parse_complete_fuel : forall p,
  ev (fun n => p_program (length (yield p)) n (yield p)) (canon_program p).
Proof. exact parse_complete_fuel. Qed.
Print Assumptions C10_parse_complete_fuel.

(* PARSE_SPEC: the complete specification of the parser as a recogniser of the grammar's language.
   It returns c exactly when c is the canonical derivation tree whose leaves are the given tokens ... *)
Theorem C10_parse_spec : forall ts c, parse ts = Some c <-> (canonical c = true /\ yield c = map norm ts).
Proof. exact parse_spec. Qed.
Print Assumptions C10_parse_spec.

(* ... and it rejects exactly when NO derivation tree of the grammar has these leaves *)
Theorem C10_parse_none_spec : forall ts, parse ts = None <-> (forall p : cprogram, yield p <> map norm ts).
Proof. exact parse_none_spec. Qed.
Print Assumptions C10_parse_none_spec.

(* UNAMBIGUOUS: the tree returned is the only canonical derivation tree of the token sequence *)
Theorem C10_parse_unambiguous : forall ts c, parse ts = Some c ->
  forall c', canonical c' = true -> yield c' = map norm ts -> c' = c.
Proof. exact parse_unique. Qed.
Print Assumptions C10_parse_unambiguous.

(* At the level of texts.  `sentence s`: s has a maximal-munch tokenisation whose tokens are the leaves of some
   derivation tree.  A text that is not a sentence is refused; a sentence is refused only by the visitor. *)
Theorem C10_front_rejects_non_sentences : forall s, ~ sentence s -> front s = None.
Proof. exact front_rejects_non_sentences. Qed.
Print Assumptions C10_front_rejects_non_sentences.

Theorem C10_front_spec : forall s prog, front s = Some prog <->
  exists items cst k, lexes s items [] /\ canonical cst = true /\ yield cst = map norm (filter keep items) /\
                      v_program cst 0 = Some (prog, k).
Proof. exact front_spec. Qed.
Print Assumptions C10_front_spec.

Theorem C10_front_none_spec : forall s, front s = None <->
  (~ sentence s) \/
  (exists items cst, lexes s items [] /\ canonical cst = true /\ yield cst = map norm (filter keep items) /\
                     v_program cst 0 = None).
Proof. exact front_none_spec. Qed.
Print Assumptions C10_front_none_spec.

(* every derivation tree has a canonical one (the shape ANTLR's precedence rules select) with the same yield *)
Theorem C10_canonical_tree_exists : forall p, canonical (canon_program p) = true /\ yield (canon_program p) = yield p.
Proof. exact canon_program_spec. Qed.
Print Assumptions C10_canonical_tree_exists.

(* on canonical trees the parser is exact: parsing the yield of c returns c itself ... *)
Theorem C10_parse_canonical_exact : forall c, canonical c = true -> forall m, length c <= m ->
  ev (fun n => p_program m n (yield c)) c.
Proof. exact program_complete. Qed.
Print Assumptions C10_parse_canonical_exact.

(* ... hence UNAMBIGUOUS: a token sequence is the yield of at most one canonical derivation tree *)
Theorem C10_canonical_unique : forall p1 p2,
  canonical p1 = true -> canonical p2 = true -> yield p1 = yield p2 -> p1 = p2.
Proof. exact canonical_unique. Qed.
Print Assumptions C10_canonical_unique.

(* the depth fuel only bounds recursion: a term that parses with some fuel parses identically with more *)
Theorem C10_term_fuel_monotone : forall n m ts x, n <= m -> p_term n ts = Some x -> p_term m ts = Some x.
Proof. exact p_term_mono. Qed.
Print Assumptions C10_term_fuel_monotone.

(* the compiler keeps everything the front end hands over: one function per head key (first-occurrence order, no
   key twice), its body the code of exactly the clauses with that key in source order *)
Theorem C10_compile_whole_program : forall p, exists ir ks,
  compile_program p = Some ir /\ keys_ok ks p /\
  Forall2 (fun k f => fn_key f = k /\ exists pieces, fn_body f = concat pieces /\
                      Forall2 clause_code (filter (has_key k) p) pieces) ks ir.
Proof. exact compile_whole_program. Qed.
Print Assumptions C10_compile_whole_program.

(* accepted => complete sentence of the grammar AND every clause of it reaches the compiled program *)
Theorem C10_front_compile_whole : forall s prog, front s = Some prog ->
  (exists items cst k,
     lexes s items [] /\ concat (map snd items) = s /\ yield cst = map norm (filter keep items) /\
     v_program cst 0 = Some (prog, k) /\ Forall2 clause_image (clauses_of cst) prog) /\
  exists ir ks,
    compile_program prog = Some ir /\ keys_ok ks prog /\
    Forall2 (fun k f => fn_key f = k /\ exists pieces, fn_body f = concat pieces /\
                        Forall2 clause_code (filter (has_key k) prog) pieces) ks ir.
Proof. exact front_compile_whole. Qed.
Print Assumptions C10_front_compile_whole.

(* The whole of _compile_prolog_from_stream up to the intermediate code (compile_front = front, compile_program, and the
   compiler's own refusal of a numeral-named compound term that it reaches): code is produced only for complete
   sentences of the grammar, and then for the whole sentence -- every clause node is one AST clause, every AST clause
   has its code in the one function of its head key. *)
Theorem C10_compile_front_rejects_non_sentences : forall s, ~ sentence s -> compile_front s = None.
Proof. exact compile_front_rejects_non_sentences. Qed.
Print Assumptions C10_compile_front_rejects_non_sentences.

Theorem C10_compile_front_whole : forall s prog ir, compile_front s = Some (prog, ir) ->
  front s = Some prog /\ compile_program prog = Some ir /\ ir_bad ir = false /\
  (exists items cst k,
     lexes s items [] /\ concat (map snd items) = s /\ yield cst = map norm (filter keep items) /\
     v_program cst 0 = Some (prog, k) /\ Forall2 clause_image (clauses_of cst) prog) /\
  exists ks, keys_ok ks prog /\
    Forall2 (fun k f => fn_key f = k /\ exists pieces, fn_body f = concat pieces /\
                        Forall2 clause_code (filter (has_key k) prog) pieces) ks ir.
Proof. exact compile_front_whole. Qed.
Print Assumptions C10_compile_front_whole.

(* Round 3.  A quoted atom is opaque: between its quotes everything is atom text (a % at the start of a line, line breaks,
   full stops, clause text); for every body without a quote that does not end in a backslash and EVERY continuation `rest`,
   the token stream is the STRING token followed by the token stream of `rest`, and the text is unlexable exactly when
   `rest` is.  So what follows the closing quote - a stray separator, a bracket, a foreign character - is always seen. *)
Theorem C10_quoted_atom_opaque : forall b rest, plain_body b ->
  lex (quoted b ++ rest) = option_map (cons (R_STRING, quoted b)) (lex rest).
Proof. exact lex_quoted_opaque. Qed.
Print Assumptions C10_quoted_atom_opaque.

Theorem C10_quoted_body_irrelevant : forall b1 b2 rest, plain_body b1 -> plain_body b2 ->
  match lex (quoted b1 ++ rest), lex (quoted b2 ++ rest) with
  | Some (t1 :: ts1), Some (t2 :: ts2) => t1 = (R_STRING, quoted b1) /\ t2 = (R_STRING, quoted b2) /\ ts1 = ts2
  | None, None => True
  | _, _ => False
  end.
Proof. exact lex_quoted_body_irrelevant. Qed.
Print Assumptions C10_quoted_body_irrelevant.

(* non-vacuity of the two: a two-line body whose second line starts with % and holds clause text; the doubled comma
   after the closing quote reaches the parser as two COMMA tokens *)
Example C10_quoted_nonvacuous :
  let b := d "see" ++ [10%N] ++ d "% chapter 2. p(a) :- q, r" in
  plain_body b /\
  lex (quoted b ++ d ", , x") = Some [(R_STRING, quoted b); (R_COMMA, d ","); (R_COMMA, d ","); (R_ATOM, d "x")].
Proof. exact quoted_opaque_example. Qed.

(* non-vacuity: a two-clause text with a comment is accepted with both clauses; the D9 inputs are refused *)
Example C10_nonvacuous :
  (exists c1 c2, front (d "p(a). % c\10;q(X) :- p(X), \92;+ r.") = Some [c1; c2] /\ c_name c1 = d "p" /\ c_name c2 = d "q") /\
  front (d "foo(a). ) garbage") = None /\
  front (d "a(X) :- b(X),, c(X).") = None /\
  front (d "foo(a). 'unterminated") = None /\
  front (d "foo(a). bar(b)") = None /\
  (* an ambiguous derivation tree (a = b = c read to the right, \+ over a conjunction, a bracketed term read as a
     bracketed predicate expression) is not canonical; its canonical tree is what `parse` returns for its yield *)
  (let t := [CD_clause (C_rule (SP_term (T_atom (A_ATOM (d "p"))))
               (PE_not (PE_and (PE_paren (PE_simple (SP_term (T_binop (T_var (d "A")) (d "=") (T_binop (T_var (d "B")) (d "=") (T_var (d "C")))))))
                               (PE_simple SP_cut))))] in
   canonical t = false /\ canonical (canon_program t) = true /\ parse (yield t) = Some (canon_program t) /\
   canon_program t <> t).
Proof.
  split; [|repeat split; try (vm_compute; reflexivity); try discriminate; eexists; vm_compute; reflexivity].
  eexists; eexists. vm_compute. repeat split; reflexivity.
Qed.

(* Round 4.  The command line judges every source text ALONE (model command line Cli/Cli.v over the model compiler
   compile_text): a run that exits with status 0 has read only sentences of the grammar - each file, standard input -, so
   a source that ends inside a comment, a quoted atom or a clause is refused even when the beginning of the next source
   would complete it; one source that is not a sentence makes the run fail, whatever the other sources are. *)
Theorem C10_cli_sources_are_sentences : forall printable failure trace f outfile srcs fs stdin,
  status (r_end (yldpc_lib printable failure trace f outfile srcs fs stdin)) = 0%N ->
  all_exist fs srcs /\
  Forall (fun r => exists t, r = RText t /\ sentence t) (contents (fs_seen fs outfile) stdin srcs).
Proof. exact cli_sources_sentences. Qed.
Print Assumptions C10_cli_sources_are_sentences.

Theorem C10_cli_non_sentence_fails : forall printable failure trace f outfile srcs fs stdin t,
  In (RText t) (contents (fs_seen fs outfile) stdin srcs) -> ~ sentence t ->
  status (r_end (yldpc_lib printable failure trace f outfile srcs fs stdin)) <> 0%N.
Proof. exact cli_non_sentence_fails. Qed.
Print Assumptions C10_cli_non_sentence_fails.

(* non-vacuity: one sentence cut inside a quoted atom into two sources - the joined text compiles, each piece alone is
   refused, the run over both has status 1 and writes nothing *)
Example C10_cli_pieces_refused :
  let printable := fun _ : N => false in
  let failure := fun _ : str => CErr 1 0 (d "syntax error") in
  let trace := fun (dfn : bool) (s t : str) => @nil (chan * str) in
  let a := d "k(1).\10;p('ab" in
  let b := d "cd').\10;" in
  let fs := fun s => if str_eqb s (d "x.pl") then Some (RText a) else
                     if str_eqb s (d "y.pl") then Some (RText b) else None in
  let r := yldpc_lib printable failure trace (Flags false false false false) (d "-") [d "x.pl"; d "y.pl"] fs (RText []) in
  (exists text, compile_text printable (a ++ b)%list = CText text)
  /\ compile_text printable a = CRejectFront /\ compile_text printable b = CRejectFront
  /\ status (r_end r) = 1%N /\ output r = [].
Proof. exact cli_pieces_refused. Qed.
