(* C11 - whatever the compiler accepts loads and defines exactly the program's predicates. *)
From Coq Require Import List Arith.
Import ListNotations.
From YP Require Import Base.Str Lang.Ast Comp.IR Comp.CompileBody Comp.CompileClause Comp.CompileTotal.

(* the compiler (model) produces code for every program: compile_body never gets stuck,
   whatever the nesting of the body and whatever the label counter *)
Theorem C11_compile_body_total : forall b cnt, exists code cnt', comp (fuel_body b) b cnt = Some (code, cnt').
Proof. exact comp_total_exists. Qed.
Print Assumptions C11_compile_body_total.

Theorem C11_compile_program_total : forall p, compile_program p <> None.
Proof. exact compile_program_total. Qed.
Print Assumptions C11_compile_program_total.
