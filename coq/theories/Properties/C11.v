(* C11 - whatever the compiler accepts loads and defines exactly the program's predicates.

   compile_text printable source (Comp/CompileText.v) is the model of compile_prolog_from_string:
   front end (Lang/Front.v) + compile_program + the static size limits of CPython (Comp/Limits.v) + emit_program with
   repr = py_repr printable.  `printable` (the Unicode database behind repr) is universally quantified.
   Only statements here; every proof is `exact <lemma>`. *)
From Coq Require Import String.
From Coq Require Import List Arith NArith Bool.
Import ListNotations.
From YP Require Import Base.Str Lang.Ast Lang.Unquote Lang.Front Comp.IR Comp.NumeralName Comp.CompileBody Comp.CompileClause Comp.CompileTotal Comp.Emit
  Comp.PyRepr Comp.Limits Comp.CompileText Comp.EmitShape Comp.EmitNames Comp.EmitPieces Comp.EmitLines Comp.CompileTextSound Comp.FrontLex.
From YP Require Engine.Resolve.
Local Open Scope string_scope.
Local Open Scope list_scope.

(* compile_body never gets stuck, whatever the nesting of the body and the label counter; the compiler produces code
   for every program: the only rejections are those of compile_text_cases below *)
Theorem C11_compile_body_total : forall b cnt, exists code cnt', comp (fuel_body b) b cnt = Some (code, cnt').
Proof. exact comp_total_exists. Qed.
Print Assumptions C11_compile_body_total.

Theorem C11_compile_program_total : forall p, compile_program p <> None.
Proof. exact compile_program_total. Qed.
Print Assumptions C11_compile_program_total.

(* the four ways compile_prolog_from_string can end, each with its exact cause *)
Theorem C11_compile_text_cases : forall printable s,
  match compile_text printable s with
  | CRejectFront => front s = None \/ exists p ir, front s = Some p /\ compile_program p = Some ir /\ ir_bad ir = true
  | CRejectNumeral => exists p ir, front s = Some p /\ compile_program p = Some ir /\ ir_nums_ok ir = false
  | CTooLarge => exists p ir, front s = Some p /\ compile_program p = Some ir /\ ir_nums_ok ir = true /\ py_limits ir = false
  | CText text => exists p ir, front s = Some p /\ compile_program p = Some ir /\ ir_nums_ok ir = true /\ py_limits ir = true /\
                    text = emit_program (py_repr printable) ir
  end.
Proof. exact compile_text_cases. Qed.
Print Assumptions C11_compile_text_cases.

(* emit_defs_exact: the accepted text is emit_lines joined by line feeds; its top-level lines (not empty, not indented, not a
   comment) are exactly one `def <name>_<arity>(arg1,...,argN):` per head key of the program in order of first occurrence;
   different keys give different def names; the keys are exactly the (name, arity) of the clauses; every def name is an
   identifier.  (head_keys, def_line, def_name, is_top: Comp/EmitShape.v, Comp/EmitLines.v) *)
Theorem C11_emit_defs_exact : forall printable s text, compile_text printable s = CText text ->
  exists p ir, front s = Some p /\ compile_program p = Some ir /\
    text = join [10%N] (emit_lines (py_repr printable) ir) /\
    filter is_top (emit_lines (py_repr printable) ir) = map def_line (head_keys p) /\
    NoDup (map def_name (head_keys p)) /\
    (forall k, In k (head_keys p) <-> In k (map clause_key p)) /\
    Forall (fun k => valid_pred_name (def_name k) = true) (head_keys p).
Proof. exact emit_defs_exact. Qed.
Print Assumptions C11_emit_defs_exact.

Theorem C11_head_keys_spec : forall p, NoDup (head_keys p) /\ (forall k, In k (head_keys p) <-> In k (map clause_key p)).
Proof. exact head_keys_spec. Qed.
Print Assumptions C11_head_keys_spec.

(* the def name is the engine's context key '<name>_<arity>': it determines name and arity and is never an API name *)
Theorem C11_def_name_determines_key : forall k1 k2, def_name k1 = def_name k2 -> k1 = k2.
Proof. exact def_name_inj. Qed.
Print Assumptions C11_def_name_determines_key.

(* every function: def line, `doBreak = False`, the wrapper loop, a NON-EMPTY body indented at least two levels, and the
   trailing `if False:` / `yield False` that makes it a generator function whatever the body is *)
Theorem C11_function_frame : forall repr f, exists body,
  emit_function repr f =
    def_line (fn_key f) :: ind 1 (s_ "doBreak = False") :: ind 1 (s_ "for _ in [1]:") :: body
    ++ [ind 1 (s_ "if False:"); ind 3 (s_ "yield False")] /\
  body <> [] /\ Forall (at_least 2) body.
Proof. exact function_frame. Qed.
Print Assumptions C11_function_frame.

Theorem C11_toplevel_defs : forall repr ir, filter is_top (emit_lines repr ir) = map (fun f => def_line (fn_key f)) ir.
Proof. exact toplevel_defs. Qed.
Print Assumptions C11_toplevel_defs.

(* the lines of the text are these lines (no line contains a line break), for lexically well-formed programs: variable names
   over [A-Za-z0-9_], numerals over [0-9], head names identifiers (lexical_ok, Comp/EmitLines.v) *)
Theorem C11_text_lines : forall printable s text, compile_text printable s = CText text ->
  exists p ir, front s = Some p /\ compile_program p = Some ir /\
    (lexical_ok p = true -> split_nl text = emit_lines (py_repr printable) ir).
Proof. exact text_lines. Qed.
Print Assumptions C11_text_lines.

(* every program the front end returns is lexically well-formed (lexer rule languages + parse_yield + the visitor copies token
   texts; anonymous variables are x<n>), so the hypothesis lexical_ok holds for every accepted source text ... *)
Theorem C11_front_lexical : forall s p, front s = Some p -> lexical_ok p = true.
Proof. exact front_lexical. Qed.
Print Assumptions C11_front_lexical.

(* ... and the lines of an accepted text are, unconditionally, the lines of emit_lines *)
Theorem C11_text_lines_exact : forall printable s text, compile_text printable s = CText text ->
  exists p ir, front s = Some p /\ compile_program p = Some ir /\ split_nl text = emit_lines (py_repr printable) ir.
Proof. exact text_lines_exact. Qed.
Print Assumptions C11_text_lines_exact.

(* emit_lexemes_valid: integer literals are canonical decimals; a Prolog variable becomes an ASCII identifier with the reserved
   prefix V_, which is none of Python's keywords / constants / __debug__, no engine API name, and none of the names the
   generated code uses itself (arg<n>, l<n>, cutIf<n>, doBreak, _); def names are identifiers and never API names *)
Theorem C11_emit_lexemes_valid : forall p, lexical_ok p = true ->
  (forall d, In (KNum, d) (program_strs p) -> canonical_dec (strip_zeros d) = true) /\
  (forall v, In (KVar, v) (program_strs p) ->
     valid_pred_name (pyvar v) = true /\ local_form (pyvar v) = true /\ ~ In (pyvar v) reserved_names /\
     (forall i, pyvar v <> argvar i) /\ (forall n, pyvar v <> loopvar n) /\ (forall l, pyvar v <> label_name l) /\
     pyvar v <> DOBREAK /\ pyvar v <> UNDERSCORE) /\
  (forall k, In k (head_keys p) -> valid_pred_name (def_name k) = true /\ ~ In (def_name k) Resolve.api_names).
Proof. exact lexemes_valid. Qed.
Print Assumptions C11_emit_lexemes_valid.

(* whatever the variable is called: the prefixed name has the form of a local and is not reserved (no hypothesis) *)
Theorem C11_prefixed_variable_not_reserved : forall v, local_form (pyvar v) = true /\ ~ In (pyvar v) reserved_names.
Proof. exact (fun v => conj (local_pyvar v) (local_not_reserved _ (local_pyvar v))). Qed.
Print Assumptions C11_prefixed_variable_not_reserved.

(* too_large_reported: code beyond CPython's static limits is reported, never returned; accepted code is within them *)
Theorem C11_too_large_reported : forall printable s p ir, front s = Some p -> compile_program p = Some ir ->
  (py_limits ir = false \/ ir_nums_ok ir = false) -> forall text, compile_text printable s <> CText text.
Proof. exact too_large_reported. Qed.
Print Assumptions C11_too_large_reported.

Theorem C11_accepted_within_limits : forall printable s text, compile_text printable s = CText text ->
  exists p ir, front s = Some p /\ compile_program p = Some ir /\
    Forall (fun f => func_fdepth f <= CO_MAXBLOCKS /\ func_bdepth f <= MAXLEVEL) ir.
Proof. exact accepted_within_limits. Qed.
Print Assumptions C11_accepted_within_limits.

(* non-vacuity: a two-predicate source with a leading-zero numeral, a variable named like a Python constant and a body that
   can never succeed is accepted, its text has exactly two top-level lines; 20 goals are reported as too large *)
Example C11_nonvacuous :
  let src := d "foo(007, True) :- bar(True).\10;p :- fail.\10;foo(x, _)." in
  (exists text, compile_text (fun _ => false) src = CText text /\
     filter is_top (split_nl text) = [d "def foo_2(arg1,arg2):"; d "def p_0():"]) /\
  compile_text (fun _ => false) (d "p :- q,q,q,q,q,q,q,q,q,q,q,q,q,q,q,q,q,q,q,q.") = CTooLarge /\
  compile_text (fun _ => false) (d "'hello world'(a).") = CRejectFront.
Proof.
  cbv zeta. split; [|split].
  - eexists. split; [vm_compute; reflexivity | vm_compute; reflexivity].
  - vm_compute. reflexivity.
  - vm_compute. reflexivity.
Qed.
