(* C12 - Prolog text cannot become Python code; loaded code sees only the engine API.
   (first version: the repr part, re-exported from C12R; the emitter theorems follow) *)
From Coq Require Import List NArith Bool.
Import ListNotations.
From YP Require Import Base.Str Comp.PyRepr Comp.PyLex Comp.PyReprSound.
Local Open Scope N_scope.

Theorem C12_repr_cannot_escape : forall printable, surrogates_unprintable printable -> forall s rest,
  valid s -> no_triple s rest ->
  py_lex_string (py_repr printable s ++ rest) = Some (s, rest).
Proof. exact repr_cannot_escape. Qed.
Print Assumptions C12_repr_cannot_escape.
