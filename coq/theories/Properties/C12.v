(* C12 - Prolog text cannot become Python code; loaded code sees only the engine API.

   Parts:  (1) a string written with repr() cannot escape its quotes (proved in Comp/PyReprSound.v; all 14 statements are in
               Properties/C12R.v, the two used by the emitter argument are repeated here);
           (2) source_text_positions: where source text can occur in the emitted text (Comp/EmitPieces.v);
           (3) emit_names_whitelisted / no_capture: the names the emitted functions call, read and bind (Comp/EmitNames.v);
           (4) api_not_callable: a query for an engine API name never reaches a definition, and no predicate key is an API
               name (Engine/Resolve.v, Engine/Keys.v - shared with C08).
   Only statements here; every proof is `exact <lemma>`. *)
From Coq Require Import String.
From Coq Require Import List Arith NArith Bool.
Import ListNotations.
From YP Require Import Base.Str Lang.Ast Lang.Unquote Lang.Front Comp.IR Comp.CompileBody Comp.CompileClause Comp.Emit
  Comp.PyRepr Comp.PyLex Comp.PyReprSound Comp.CompileText Comp.EmitShape Comp.EmitNames Comp.EmitPieces Comp.EmitLines Comp.CompileTextSound Comp.FrontLex.
From YP Require Import Engine.Resolve Engine.ResolveProofs Engine.Keys.
Local Open Scope string_scope.
Local Open Scope list_scope.

(* ---- (1) repr *)

Theorem C12_repr_cannot_escape : forall printable, surrogates_unprintable printable -> forall s rest,
  valid s -> no_triple s rest ->
  py_lex_string (py_repr printable s ++ rest) = Some (s, rest).
Proof. exact repr_cannot_escape. Qed.
Print Assumptions C12_repr_cannot_escape.

(* the form that applies to the emitter: every literal is followed by `,` or `)` (never by a quote) *)
Theorem C12_repr_cannot_escape_before : forall printable, surrogates_unprintable printable -> forall c s rest,
  valid s -> c <> SQ ->
  py_lex_string (py_repr printable s ++ c :: rest) = Some (s, c :: rest).
Proof. exact repr_cannot_escape_before. Qed.
Print Assumptions C12_repr_cannot_escape_before.

Theorem C12_repr_no_newline : forall printable s, Forall (fun x => x <> 10%N /\ x <> 13%N) (py_repr printable s).
Proof. exact repr_no_newline. Qed.
Print Assumptions C12_repr_no_newline.

(* ---- (2) source_text_positions.  The text of every program the compiler produces is, line by line, a sequence of pieces
   (Comp/EmitPieces.v): PFix w = text that does not come from the source, and the four renderings PRepr s = repr(s),
   PNum d = str(int(d)), PVar v = "V_" ++ v, PDef f n = f_<n>.  Rendering the pieces gives exactly the lines of the text (for
   every repr); every PFix piece satisfies the closed test fixed_ok (a word of the fixed vocabulary, blanks, a decimal number,
   arg<n>); every other piece carries a string of the program of the matching kind: an atom/functor/goal name, a numeral, a
   variable name, a head key.  Hence every character that depends on the source lies inside one of the four renderings. *)
Theorem C12_source_text_positions : forall p ir, compile_program p = Some ir ->
  forall repr, map (flat repr) (program_pieces ir) = emit_lines repr ir /\
    emit_program repr ir = join [10%N] (emit_lines repr ir) /\
    Forall (Forall (piece_ok (inl_ (program_strs p)) (fun k => In k (head_keys p)))) (program_pieces ir).
Proof. exact source_text_positions. Qed.
Print Assumptions C12_source_text_positions.

(* the renderings are harmless: no rendering and no fixed piece contains a line break, so a line of pieces is one line of text *)
Theorem C12_lines_one_line : forall printable p, lexical_ok p = true -> forall ir, compile_program p = Some ir ->
  Forall (fun l => Forall (fun c => c <> 10%N /\ c <> 13%N) l) (emit_lines (py_repr printable) ir).
Proof. exact lines_one_line. Qed.
Print Assumptions C12_lines_one_line.

(* lexical_ok holds for every program the front end returns *)
Theorem C12_front_lexical : forall s p, front s = Some p -> lexical_ok p = true.
Proof. exact front_lexical. Qed.
Print Assumptions C12_front_lexical.

(* the shape behind it: every function is the code of clauses of the program with its key; each of its statements has one of
   the nine shapes of stmt_ok (Comp/EmitShape.v) - no other statement or expression form is ever produced *)
Theorem C12_compile_program_shape : forall p ir, compile_program p = Some ir ->
  Forall (func_shape p) ir /\ map fn_key ir = head_keys p.
Proof. exact compile_program_shape. Qed.
Print Assumptions C12_compile_program_shape.

(* ---- (3) names.  In every emitted function: the only calls are to query unify atom functor listpair makelist variable; every
   name that is read is one of those, ATOM_NIL, or a name bound in the same function (so every Prolog variable that is used is
   assigned there: no free V_ name) *)
Theorem C12_emit_names_whitelisted : forall p ir, compile_program p = Some ir ->
  Forall (fun f => (forall x, In x (func_calls f) -> In x api_calls) /\
                   (forall x, In x (func_loads f) -> In x api_globals \/ In x (func_locals f))) ir.
Proof. exact compiled_names_whitelisted. Qed.
Print Assumptions C12_emit_names_whitelisted.

(* no_capture: every bound name is V_<source variable> | arg<i> | l<n> | cutIf<n> | doBreak | _ ; none of them is a Python
   keyword or constant, an engine API name or a whitelisted global *)
Theorem C12_no_capture : forall p ir, compile_program p = Some ir ->
  Forall (fun f => forall x, In x (func_locals f) ->
     local_form x = true /\ ~ In x reserved_names /\
     ((exists v, In (KVar, v) (program_strs p) /\ x = pyvar v) \/ (exists i, i < fn_arity f /\ x = argvar i) \/
      (exists n, x = loopvar n) \/ (exists l, x = label_name l) \/ x = DOBREAK \/ x = UNDERSCORE)) ir.
Proof. exact compiled_no_capture. Qed.
Print Assumptions C12_no_capture.

Theorem C12_reserved_not_local : forall x, local_form x = true -> ~ In x reserved_names.
Proof. exact local_not_reserved. Qed.
Print Assumptions C12_reserved_not_local.

(* ---- (4) api_not_callable *)

(* the blacklist is exactly the 15 API names *)
Theorem C12_reserved_exact : forall name, reserved name = true <-> In name api_names.
Proof. exact reserved_iff. Qed.
Print Assumptions C12_reserved_exact.

(* a query for a reserved name only ever answers from the fact database: no definition of the context is reached *)
Theorem C12_api_not_callable : forall f name args nx s e,
  reserved name = true ->
  drain e (query_gen (S f) name args nx s e) =
  (map (prune nx) (fact_answers (db_get (e_db e) (name, length args)) args s), Norm).
Proof. exact reserved_only_facts. Qed.
Print Assumptions C12_api_not_callable.

(* and whatever the name and arity of a query, the context key it looks up is never an API name *)
Theorem C12_predicate_keys_never_api_names : forall name a, ~ In (mkkey name a) api_names.
Proof. exact mkkey_not_api. Qed.
Print Assumptions C12_predicate_keys_never_api_names.

(* non-vacuity: a clause with hostile atoms in head, goal-name and argument positions and a variable called ATOM_NIL compiles;
   its functions call only API functions and bind V_ATOM_NIL, never ATOM_NIL *)
Example C12_nonvacuous :
  let p := [{| c_name := d "p"; c_args := [SVar (d "ATOM_NIL"); SList []; SAtom (d "');import os;('")];
               c_body := BCall (d "a\10;b") [SVar (d "ATOM_NIL"); SFun (d "it's") [SNum (d "007")]] |}] in
  exists ir, compile_program p = Some ir /\
    Forall (fun f => forallb (fun x => existsb (str_eqb x) api_calls) (func_calls f) = true /\
                     existsb (str_eqb (d "V_ATOM_NIL")) (func_locals f) = true /\
                     existsb (str_eqb (d "ATOM_NIL")) (func_locals f) = false /\
                     existsb (str_eqb (d "ATOM_NIL")) (func_loads f) = true) ir.
Proof.
  cbv zeta. eexists. split; [vm_compute; reflexivity|]. repeat constructor.
Qed.
