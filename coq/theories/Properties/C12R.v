(* C12R - helper check of C12 (Prolog text cannot become Python code): a string written
   with repr() can never escape its quotes.
   Only statements; every proof is `exact <lemma>` to a lemma proved in Comp/PyReprSound.v.
   `printable` (str.isprintable per code point, i.e. the Unicode database) is universally
   quantified; the only fact assumed about it (as an explicit premise, and checked against the
   running interpreter on every run) is that the 2048 surrogate code points are not printable:
     surrogates_unprintable printable := forall c, is_surrogate c = true -> printable c = false.
   valid s = every code point of s is < 0x110000. *)
From Coq Require Import List NArith Bool.
Import ListNotations.
From YP Require Import Base.Str Comp.PyRepr Comp.PyLex Comp.PyReprSound.
Local Open Scope N_scope.

(* The Python lexer, started at a literal written by repr and followed by ANY text, consumes
   exactly the literal and denotes exactly s: nothing in s can close the quote, open an
   escape sequence of its own, or end the line.
   no_triple s rest := s <> [] \/ hd_error rest <> Some 39: Python reads three quotes in a row
   as the opening of a triple-quoted literal, so the empty literal must not be followed directly
   by a single quote (the emitter follows every literal by `)` `,` or `]`). *)
Theorem C12R_repr_cannot_escape : forall printable, surrogates_unprintable printable -> forall s rest,
  valid s -> no_triple s rest ->
  py_lex_string (py_repr printable s ++ rest) = Some (s, rest).
Proof. exact repr_cannot_escape. Qed.
Print Assumptions C12R_repr_cannot_escape.

(* the statement without the side condition is false of Python (witness: repr of the empty
   string followed by a single quote) *)
Theorem C12R_repr_cannot_escape_unconditional_refuted : forall printable,
  exists s rest, valid s /\ py_lex_string (py_repr printable s ++ rest) <> Some (s, rest).
Proof. exact repr_cannot_escape_unconditional_refuted. Qed.
Print Assumptions C12R_repr_cannot_escape_unconditional_refuted.

(* once the tokenizer has decided that the literal is a short one, no side condition *)
Theorem C12R_repr_cannot_escape_short : forall printable, surrogates_unprintable printable -> forall s rest,
  valid s -> py_lex_short (py_repr printable s ++ rest) = Some (s, rest).
Proof. exact repr_cannot_escape_short. Qed.
Print Assumptions C12R_repr_cannot_escape_short.

(* the escaping is safe for EITHER delimiter: the quote choice of repr is cosmetic, safety does not
   depend on it (so a generator that always used one kind of quote with this escaping would be safe too) *)
Theorem C12R_repr_body_any_quote : forall printable, surrogates_unprintable printable -> forall q s rest,
  q = SQ \/ q = DQ -> valid s ->
  lex_body q LNorm (repr_body printable q s ++ q :: rest) = Some (s, rest).
Proof. exact lex_repr_body. Qed.
Print Assumptions C12R_repr_body_any_quote.

(* the form used by the emitter proofs: the literal is followed by some character other than
   a single quote *)
Theorem C12R_repr_cannot_escape_before : forall printable, surrogates_unprintable printable -> forall c s rest,
  valid s -> c <> SQ ->
  py_lex_string (py_repr printable s ++ c :: rest) = Some (s, c :: rest).
Proof. exact repr_cannot_escape_before. Qed.
Print Assumptions C12R_repr_cannot_escape_before.

(* no literal is a proper prefix of another literal followed by something: the end of a literal
   is determined by the literal alone; in particular repr is injective *)
Theorem C12R_repr_prefix_free : forall printable, surrogates_unprintable printable -> forall s1 s2 r1 r2,
  valid s1 -> valid s2 ->
  py_repr printable s1 ++ r1 = py_repr printable s2 ++ r2 -> s1 = s2 /\ r1 = r2.
Proof. exact repr_prefix_free. Qed.
Print Assumptions C12R_repr_prefix_free.

(* the output contains no line feed and no carriage return (no hypothesis on s at all) *)
Theorem C12R_repr_no_newline : forall printable s,
  Forall (fun x => x <> 10 /\ x <> 13) (py_repr printable s).
Proof. exact repr_no_newline. Qed.
Print Assumptions C12R_repr_no_newline.

(* ... and no other control character *)
Theorem C12R_repr_no_control : forall printable s,
  Forall (fun x => 32 <= x /\ x <> 127) (py_repr printable s).
Proof. exact repr_no_control. Qed.
Print Assumptions C12R_repr_no_control.

(* every code point of the output is printable ASCII or a non-ASCII code point of s that the
   Unicode database calls printable *)
Theorem C12R_repr_output_chars : forall printable s,
  Forall (fun x => (32 <= x < 127) \/ (127 < x /\ printable x = true /\ In x s)) (py_repr printable s).
Proof. exact repr_output_chars. Qed.
Print Assumptions C12R_repr_output_chars.

Theorem C12R_repr_ascii_when_nothing_printable : forall printable s,
  (forall c, In c s -> 127 < c -> printable c = false) ->
  Forall (fun x => 32 <= x < 127) (py_repr printable s).
Proof. exact repr_ascii_when_nothing_printable. Qed.
Print Assumptions C12R_repr_ascii_when_nothing_printable.

(* quote choice: the literal starts and ends with the same quote character, the double quote
   exactly when s contains a single quote and no double quote *)
Theorem C12R_repr_delimited : forall printable s, exists body,
  py_repr printable s = quote_of s :: body ++ [quote_of s] /\ (quote_of s = SQ \/ quote_of s = DQ).
Proof. exact repr_delimited. Qed.
Print Assumptions C12R_repr_delimited.

Theorem C12R_quote_choice : forall s,
  quote_of s = (if in_dec N.eq_dec SQ s then if in_dec N.eq_dec DQ s then SQ else DQ else SQ).
Proof. exact quote_of_spec. Qed.
Print Assumptions C12R_quote_choice.

(* whatever the lexer accepts is a prefix of its input (it never invents or reorders text) *)
Theorem C12R_lex_consumes_prefix : forall input out rest,
  py_lex_string input = Some (out, rest) -> exists lit, input = lit ++ rest /\ (2 <= length lit)%nat.
Proof. exact py_lex_string_suffix. Qed.
Print Assumptions C12R_lex_consumes_prefix.

(* every literal the lexer accepts is  quote, body, the same quote  where the body contains no line
   feed, carriage return, NUL, surrogate or out-of-range code point, and denotes valid code points *)
Theorem C12R_lex_literal_shape : forall input out rest,
  py_lex_string input = Some (out, rest) ->
  exists q body, input = q :: body ++ q :: rest /\ (q = SQ \/ q = DQ) /\
                 Forall (fun c => bad_raw c = false) body /\ Forall (fun c => c < MAXCP) out.
Proof. exact py_lex_string_shape. Qed.
Print Assumptions C12R_lex_literal_shape.

(* in particular an accepted literal never spans lines *)
Theorem C12R_lex_one_line : forall input out rest,
  py_lex_string input = Some (out, rest) ->
  exists lit, input = lit ++ rest /\ Forall (fun c => c <> 10 /\ c <> 13) lit.
Proof. exact py_lex_string_one_line. Qed.
Print Assumptions C12R_lex_one_line.

(* non-vacuity: a hostile string of valid code points (quotes of both kinds, backslash, line feed,
   NUL, U+2028, an astral code point) followed by hostile text; the literal has the expected
   spelling and lexes back to the string *)
Example C12R_nonvacuous :
  let s := [39; 41; 34; 92; 10; 0; 8232; 1114111] in
  let rest := [41; 39] in
  surrogates_unprintable (fun _ => false) /\ valid s /\ no_triple s rest /\
  py_repr (fun _ => false) s = [39; 92;39; 41; 34; 92;92; 92;110; 92;120;48;48; 92;117;50;48;50;56;
                                92;85;48;48;49;48;102;102;102;102; 39] /\
  py_lex_string (py_repr (fun _ => false) s ++ rest) = Some (s, rest).
Proof.
  cbv zeta. split; [|split; [|split; [|split]]].
  - intros c _. reflexivity.
  - repeat constructor.
  - left. discriminate.
  - vm_compute. reflexivity.
  - vm_compute. reflexivity.
Qed.
