(* C13 - a stored fact is an independent copy of the asserted term.
   Only statements; proofs in Engine/DbFactsThms.v (copy_term) and Engine/DbHeapThms.v (histories on a
   shared heap).  den s = the engine's deep get_value under the bindings s; cells are numbered by an
   allocation counter (Variable() returns cell n and the counter becomes n+1). *)
From Coq Require Import String.
From Coq Require Import List Arith ZArith.
Import ListNotations.
From YP Require Import Base.Str Term.Term Unify.Unify Engine.Db Engine.DbFacts Engine.DbFactsThms.

(* "A fact stored by assert holds the value its argument had at the moment of the assertion, at every
   depth of the term": the stored arguments are den s values (deep dereference: any chain, any nesting)
   with the variables that are still unbound renamed by an injective mapping m, the same for the whole
   fact (sharing inside the fact is kept), into cells n..n'-1 that did not exist before ("belong to
   the fact") *)
Theorem C13_stored_value_at_assert_time : forall s n values stored n',
  answer_init s n values = (stored, n') ->
  exists m, stored = map (mapp m) (map (den s) values) /\
            minj m /\ mrange m n n' /\ n <= n' /\
            (forall x, In x values -> covered (den s x) m) /\
            (forall w, occurs_l w stored = true -> n <= w < n').
Proof. exact stored_value_at_assert_time. Qed.
Print Assumptions C13_stored_value_at_assert_time.

(* "later binding, unbinding or backtracking of variables that occurred in it never changes what the
   fact matches": the term a use unifies with is computed from the stored arguments alone; two heaps
   in which the fact's own cells are unbound give the same copy *)
Theorem C13_stored_independent_of_later_heap : forall s1 s2 n stored,
  (forall t, In t stored -> free_in s1 t) -> (forall t, In t stored -> free_in s2 t) ->
  copy_args s1 stored n = copy_args s2 stored n.
Proof. exact stored_independent_of_later_heap. Qed.
Print Assumptions C13_stored_independent_of_later_heap.

Theorem C13_answer_match_independent : forall fuel s n goal stored,
  (forall t, In t stored -> free_in s t) ->
  answer_match fuel s n goal stored = (unify_arrays fuel s goal (fst (copy_args [] stored n)), snd (copy_args [] stored n)).
Proof. exact answer_match_independent. Qed.
Print Assumptions C13_answer_match_independent.

(* "fresh at every use, so two simultaneous uses of the same fact ... never constrain each other":
   the copies of two uses share no cell with each other nor with the fact *)
Theorem C13_two_uses_disjoint : forall s1 s2 stored n1 cs1 n1' n2 cs2 n2',
  copy_args s1 stored n1 = (cs1, n1') -> n1' <= n2 -> copy_args s2 stored n2 = (cs2, n2') ->
  (forall w, occurs_l w stored = true -> w < n1) ->
  forall w, (occurs_l w cs1 = true -> occurs_l w cs2 = false /\ occurs_l w stored = false) /\
            (occurs_l w cs2 = true -> occurs_l w stored = false).
Proof. exact two_uses_disjoint. Qed.
Print Assumptions C13_two_uses_disjoint.

(* non-vacuity: X = f(Y), Y = a (a chain inside a structure), Z unbound: assertz(p(X, Z, Z)) stores
   p(f(a), _G, _G) with one new cell *)
Example C13_nonvacuous :
  let s := [(1, TAtom (d "a")); (0, TFun (d "f") [TVar 1])] in
  wf s /\ answer_init s 3 [TVar 0; TVar 2; TVar 2] = ([TFun (d "f") [TAtom (d "a")]; TVar 3; TVar 3], 4).
Proof. split; [repeat constructor|vm_compute; reflexivity]. Qed.
