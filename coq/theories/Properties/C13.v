(* C13 - a stored fact is an independent copy of the asserted term.
   Only statements; proofs in Engine/DbFactsThms.v (copy_term) and Engine/DbHeapThms.v (histories on a
   shared heap).  den s = the engine's deep get_value under the bindings s; cells are numbered by an
   allocation counter (Variable() returns cell n and the counter becomes n+1). *)
From Coq Require Import String.
From Coq Require Import List Arith ZArith.
Import ListNotations.
From YP Require Import Base.Str Term.Term Term.Fast Unify.Unify Unify.Fast Engine.Frame Engine.Db Engine.DbCursor Engine.DbFacts Engine.DbFactsThms Engine.DbHeap Engine.DbHeapThms Engine.DbHeapRet Engine.DbProg Engine.DbProgInv Engine.DbProgVisits.

(* "A fact stored by assert holds the value its argument had at the moment of the assertion, at every
   depth of the term": the stored arguments are den s values (deep dereference: any chain, any nesting)
   with the variables that are still unbound renamed by an injective mapping m, the same for the whole
   fact (sharing inside the fact is kept), into cells n..n'-1 that did not exist before ("belong to
   the fact") *)
Theorem C13_stored_value_at_assert_time : forall s n values stored n',
  answer_init s n values = (stored, n') ->
  exists m, stored = map (mapp m) (map (den s) values) /\
            minj m /\ mrange m n n' /\ n <= n' /\
            (forall x, In x values -> covered (den s x) m) /\
            (forall w, occurs_l w stored = true -> n <= w < n').
Proof. exact stored_value_at_assert_time. Qed.
Print Assumptions C13_stored_value_at_assert_time.

(* "later binding, unbinding or backtracking of variables that occurred in it never changes what the
   fact matches": the term a use unifies with is computed from the stored arguments alone; two heaps
   in which the fact's own cells are unbound give the same copy *)
Theorem C13_stored_independent_of_later_heap : forall s1 s2 n stored,
  (forall t, In t stored -> free_in s1 t) -> (forall t, In t stored -> free_in s2 t) ->
  copy_args s1 stored n = copy_args s2 stored n.
Proof. exact stored_independent_of_later_heap. Qed.
Print Assumptions C13_stored_independent_of_later_heap.

Theorem C13_answer_match_independent : forall fuel s n goal stored,
  (forall t, In t stored -> free_in s t) ->
  answer_match fuel s n goal stored = (unify_arrays fuel s goal (fst (copy_args [] stored n)), snd (copy_args [] stored n)).
Proof. exact answer_match_independent. Qed.
Print Assumptions C13_answer_match_independent.

(* "fresh at every use, so two simultaneous uses of the same fact ... never constrain each other":
   the copies of two uses share no cell with each other nor with the fact *)
Theorem C13_two_uses_disjoint : forall s1 s2 stored n1 cs1 n1' n2 cs2 n2',
  copy_args s1 stored n1 = (cs1, n1') -> n1' <= n2 -> copy_args s2 stored n2 = (cs2, n2') ->
  (forall w, occurs_l w stored = true -> w < n1) ->
  forall w, (occurs_l w cs1 = true -> occurs_l w cs2 = false /\ occurs_l w stored = false) /\
            (occurs_l w cs2 = true -> occurs_l w stored = false).
Proof. exact two_uses_disjoint. Qed.
Print Assumptions C13_two_uses_disjoint.

(* "Unbound variables inside a stored fact belong to the fact": an invariant over ALL histories of the
   heap machine DbHeap.v (suspended unifications = bindings made before / after the assertion, through
   chains, inside structures; asserta/assertz under those bindings, also of a goal held in a variable;
   goals on the facts that stay suspended; resumption and closing in LIFO order = backtracking; reads).
   op_ok p: the program's terms mention only the program's own variables (cells < p; the API gives no
   access to the Variable objects inside an Answer).  In every reachable state, for every variable w
   inside a stored fact: w is unbound, no binding of the heap mentions w, no suspended goal mentions w,
   and w is not a program variable. *)
Theorem C13_fact_vars_never_bound : forall fuel p ops h outs,
  Forall (op_ok p) ops -> hrun fuel (hinit p) ops = Some (h, outs) ->
  forall k f t w, In f (hdb h k) -> In t (fargs f) -> occurs w t = true ->
    lookup w (hs h) = None /\
    (forall v u, In (v, u) (hs h) -> v <> w /\ occurs w u = false) /\
    (forall pat rest mk, In (FQuery pat rest mk) (hstk h) -> forall a, In a pat -> occurs w a = false) /\
    p <= w.
Proof. exact fact_vars_never_bound. Qed.
Print Assumptions C13_fact_vars_never_bound.

(* the invariant itself, from any state that satisfies it (F = the cells owned by facts) *)
Theorem C13_heap_invariant : forall fuel ops p F h h' outs, inv p F h -> Forall (op_ok p) ops ->
  hrun fuel h ops = Some (h', outs) -> exists F', inv p F' h' /\ (forall w, F w = true -> F' w = true).
Proof. exact hrun_inv. Qed.
Print Assumptions C13_heap_invariant.

(* "... and are fresh at every use, so two simultaneous uses of the same fact, or a use and the clause
   that asserted it, never constrain each other" + "later binding, unbinding or backtracking of
   variables that occurred in it never changes what the fact matches": in every reachable state, whatever
   the heap is, a use of a stored fact unifies the goal with copy_args [] (fargs f) n - a function of the
   stored arguments and the allocation counter only - and every cell of that copy is new (not allocated
   before), unbound, and occurs in no stored fact *)
Theorem C13_uses_see_stored_value : forall fuel p ops h outs,
  Forall (op_ok p) ops -> hrun fuel (hinit p) ops = Some (h, outs) ->
  forall k f goal, In f (hdb h k) ->
    answer_match fuel (hs h) (hn h) goal (fargs f) =
      (unify_arrays fuel (hs h) goal (fst (copy_args [] (fargs f) (hn h))), snd (copy_args [] (fargs f) (hn h))) /\
    (forall t w, In t (fst (copy_args [] (fargs f) (hn h))) -> occurs w t = true ->
       hn h <= w /\ lookup w (hs h) = None /\ forall g u, In g (hdb h k) -> In u (fargs g) -> occurs w u = false).
Proof. exact uses_see_stored_value. Qed.
Print Assumptions C13_uses_see_stored_value.

(* non-vacuity of the history theorems: X = f(Y), assertz(p(X, Z)), Y = a, then two simultaneous uses
   p(f(b), c) and p(U, d) both succeed (the stored Y and Z are nobody's variables), backtracking over all
   of it leaves the fact p(f(_), _) *)
Example C13_history_nonvacuous :
  let a := TAtom (d "a") in let b := TAtom (d "b") in let c := TAtom (d "c") in let dd := TAtom (d "d") in
  let f x := TFun (d "f") [x] in
  let ops := [HUnify (TVar 0) (f (TVar 1)); HAssert false (TFun (d "p") [TVar 0; TVar 2]); HUnify (TVar 1) a;
              HCall (d "p") [f b; c]; HCall (d "p") [TVar 3; dd]; HObs [TVar 0; TVar 3]; HPop; HPop; HPop; HPop;
              HRead (d "p") 2] in
  Forall (op_ok 4) ops /\
  exists h outs, hrun 50 (hinit 4) ops = Some (h, outs) /\
    outs = [HOk; HOk; HOk; HAns [f b; c]; HAns [f (TVar 8); dd]; HSeen [f a; f (TVar 8)]; HOk; HOk; HOk; HOk;
            HAll [[f (TVar 12); TVar 13]]].
Proof.
  cbv zeta. split.
  - repeat match goal with
    | |- Forall _ [] => apply Forall_nil
    | |- Forall _ (_ :: _) => apply Forall_cons
    | |- _ /\ _ => split
    | |- True => exact I
    | |- op_ok _ _ => simpl
    | |- tprog _ _ => intros w Hw; do 4 (destruct w as [|w]; [reflexivity|]); simpl in Hw; discriminate
    end.
  - eexists. eexists. split; vm_compute; reflexivity.
Qed.

(* non-vacuity: X = f(Y), Y = a (a chain inside a structure), Z unbound: assertz(p(X, Z, Z)) stores
   p(f(a), _G, _G) with one new cell *)
Example C13_nonvacuous :
  let s := [(1, TAtom (d "a")); (0, TFun (d "f") [TVar 1])] in
  wf s /\ answer_init s 3 [TVar 0; TVar 2; TVar 2] = ([TFun (d "f") [TAtom (d "a")]; TVar 3; TVar 3], 4).
Proof. split; [repeat constructor|vm_compute; reflexivity]. Qed.

(* ---- "fresh at every use" ACROSS TIME (Engine/DbHeapRet.v): histories that also contain findall/3 (the use of the
   fact runs to its end inside, the answers stay in the bag) and in which the caller keeps every answer it ever
   obtained (kept outs: the arguments of every goal at each of its answers, every row of every read).
   rrun = the heap machine with RBase (a step of DbHeap), RFindall, RKept (look at the retained answers). ----

   In the state reached by ANY such history, the copy that the NEXT use of a stored fact unifies with is made of cells
   that do not exist yet; so it shares no variable with any answer handed out before (neither as it was, nor in its
   value under the bindings of now), with any binding of the heap (findall results live there), or with the value of
   any term of the program.  A use that ended, and whose answers are still held by somebody, can therefore never be
   constrained by a later use, and a later use never finds its variables already bound. *)
Theorem C13_sequential_uses_fresh : forall fuel p ops h outs,
  Forall (rop_ok p) ops -> rrun fuel (hinit p) ops = Some (h, outs) ->
  forall k f goal, In f (hdb h k) ->
    answer_match fuel (hs h) (hn h) goal (fargs f) =
      (unify_arrays fuel (hs h) goal (fst (copy_args [] (fargs f) (hn h))), snd (copy_args [] (fargs f) (hn h))) /\
    (forall c w, In c (fst (copy_args [] (fargs f) (hn h))) -> occurs w c = true ->
      hn h <= w /\
      (forall a t, In a (kept outs) -> In t a -> occurs w t = false /\ occurs w (den (hs h) t) = false) /\
      (forall v u, In (v, u) (hs h) -> v <> w /\ occurs w u = false) /\
      (forall t, tprog p t -> occurs w (den (hs h) t) = false)).
Proof. exact sequential_uses_fresh. Qed.
Print Assumptions C13_sequential_uses_fresh.

(* "unbound variables inside a stored fact belong to the fact": the fact's own cells never escape - no answer ever
   handed out (then or under the bindings of now) and no value of a term of the program mentions one *)
Theorem C13_fact_vars_never_escape : forall fuel p ops h outs,
  Forall (rop_ok p) ops -> rrun fuel (hinit p) ops = Some (h, outs) ->
  forall k f u w, In f (hdb h k) -> In u (fargs f) -> occurs w u = true ->
    (forall a t, In a (kept outs) -> In t a -> occurs w t = false /\ occurs w (den (hs h) t) = false) /\
    (forall t, tprog p t -> occurs w (den (hs h) t) = false).
Proof. exact fact_vars_never_escape. Qed.
Print Assumptions C13_fact_vars_never_escape.

(* the invariant behind both, from any state that satisfies it: K = answers retained so far *)
Theorem C13_retained_answers_invariant : forall fuel ops p F h h' outs K,
  inv p F h -> Forall (lin (Pc (hn h) F)) K -> Forall (rop_ok p) ops -> rrun fuel h ops = Some (h', outs) ->
  exists F', inv p F' h' /\ (forall w, F w = true -> F' w = true) /\ Forall (lin (Pc (hn h') F')) (K ++ kept outs).
Proof. exact rrun_inv. Qed.
Print Assumptions C13_retained_answers_invariant.

(* non-vacuity: assertz(p(f(_))); findall(X, p(X), L) - the use ends inside, L = [f(_G5)] keeps its answer; a goal
   p(Y) whose use ends (redo), its answer f(_G6) retained by the caller; then p(Z), Z = f(a): the third use gets the
   new cell _G7; L is still [f(_G5)] and the retained answers are still f(_G6), f(_G7 := a) *)
Example C13_sequential_nonvacuous :
  let a := TAtom (d "a") in let f x := TFun (d "f") [x] in
  let ops := [RBase (HAssert false (TFun (d "p") [f (TVar 4)])); RFindall (TVar 0) (d "p") [TVar 0] (TVar 1);
              RBase (HCall (d "p") [TVar 2]); RBase HRedo; RBase (HCall (d "p") [TVar 3]);
              RBase (HUnify (TVar 3) (f a)); RKept; RBase (HObs [TVar 1; TVar 3])] in
  Forall (rop_ok 5) ops /\
  exists h outs, rrun 50 (hinit 5) ops = Some (h, outs) /\
    outs = [HOk; HOk; HAns [f (TVar 8)]; HEnd; HAns [f (TVar 9)]; HOk; HOk;
            HSeen [TFun (d ".") [f (TVar 7); TAtom (d "[]")]; f a]] /\
    kept outs = [[f (TVar 8)]; [f (TVar 9)]] /\
    map (map (den (hs h))) (kept outs) = [[f (TVar 8)]; [f a]].
Proof.
  cbv zeta. split.
  - repeat match goal with
    | |- Forall _ [] => apply Forall_nil
    | |- Forall _ (_ :: _) => apply Forall_cons
    | |- _ /\ _ => split
    | |- True => exact I
    | |- rop_ok _ _ => simpl
    | |- op_ok _ _ => simpl
    | |- tprog _ _ => intros w Hw; do 5 (destruct w as [|w]; [reflexivity|]); simpl in Hw; discriminate
    end.
  - eexists. eexists. split; [vm_compute; reflexivity|]. split; [reflexivity|]. split; vm_compute; reflexivity.
Qed.

(* ---- the same invariant OVER ALL COMPILED-CODE HISTORIES (DbProg.solve: goals on dynamic facts and on compiled
   predicates, =, asserta/assertz, retract, retractall, goals suspended inside each other to any depth) ----
   prog_ok: every clause mentions only its own variables 0 .. cnv-1.  visits uf prog n c c': the run of solve
   started in configuration c reaches the activation c' (DbProgVisits.v: the activations of the depth-first
   search in execution order; a configuration = goals still to run, bindings, global state, and - ghost - the
   stack of suspended goals with their arguments and the rest of their snapshots).  live_fact c' f: f is
   stored, or is still held in the snapshot of a suspended goal (it may have been retracted meanwhile).
   cfg_inv F c: the invariant for the set F of fact-owned cells; cfg_inv_init: it holds when a query starts. *)

(* the invariant is preserved along every run (F only grows, by cells that are new when they are added) *)
Theorem C13_compiled_invariant : forall uf prog, prog_ok prog -> forall n c c', visits uf prog n c c' ->
  forall F, cfg_inv F c -> exists F', grow F (gn (cg c)) F' (gn (cg c')) /\ cfg_inv F' c'.
Proof. exact visits_inv. Qed.
Print Assumptions C13_compiled_invariant.

(* ... and by a complete run of a body (the state in which the next query starts) *)
Theorem C13_compiled_invariant_big_step : forall uf prog, prog_ok prog -> forall n gs s g g' a tr fl F,
  cinv F gs s g -> solve uf prog n gs s g = Some (g', a, tr, fl) ->
  exists F', grow F (gn g) F' (gn g') /\ ginv F' g'.
Proof. exact solve_inv. Qed.
Print Assumptions C13_compiled_invariant_big_step.

(* "Unbound variables inside a stored fact belong to the fact": in every configuration a compiled run reaches,
   every variable w inside a live fact is unbound, occurs in no binding, in no goal still to run, in no
   suspended goal, and is an allocated cell (no later Variable() is w) *)
Theorem C13_compiled_fact_vars_never_bound : forall uf prog, prog_ok prog -> forall n c c' F,
  cfg_inv F c -> visits uf prog n c c' ->
  forall f t w, live_fact c' f -> In t (fargs f) -> occurs w t = true ->
    Term.lookup w (cst c') = None /\
    (forall v u, In (v, u) (cst c') -> v <> w /\ occurs w u = false) /\
    (forall gl a, In gl (cgs c') -> In a (goal_terms gl) -> occurs w a = false) /\
    (forall fr a, In fr (cstk c') -> In a (fst fr) -> occurs w a = false) /\
    w < gn (cg c').
Proof. exact prog_fact_vars_never_bound. Qed.
Print Assumptions C13_compiled_fact_vars_never_bound.

(* "... and are fresh at every use": in every configuration a compiled run reaches, a use of a live fact unifies
   the goal with copy_args [] (fargs f) n - a function of the stored arguments and the allocation counter alone -
   whose cells are new, unbound and occur in no live fact *)
Theorem C13_compiled_uses_see_stored_value : forall uf prog, prog_ok prog -> forall n c c' F,
  cfg_inv F c -> visits uf prog n c c' ->
  forall f goal, live_fact c' f ->
    answer_match_fast uf (cst c') (gn (cg c')) goal (fargs f) =
      (unify_arrays uf (cst c') goal (fst (copy_args [] (fargs f) (gn (cg c')))), snd (copy_args [] (fargs f) (gn (cg c')))) /\
    (forall t w, In t (fst (copy_args [] (fargs f) (gn (cg c')))) -> occurs w t = true ->
       gn (cg c') <= w /\ Term.lookup w (cst c') = None /\
       forall f' u, live_fact c' f' -> In u (fargs f') -> occurs w u = false).
Proof. exact prog_uses_see_stored_value. Qed.
Print Assumptions C13_compiled_uses_see_stored_value.

Theorem C13_compiled_invariant_at_query_start : forall nv work gs,
  Forall (goal_in (below nv)) gs -> cfg_inv (fun _ => false) (cfg_init nv work gs).
Proof. exact cfg_inv_init. Qed.
Print Assumptions C13_compiled_invariant_at_query_start.

(* non-vacuity: X0 = f(X1), assertz(p(X0, X2)), X1 = a, p(X3, d): the run reaches the activation inside the goal
   p(X3, d) - the fact p(f(_4), _5) is live, the goal is suspended with X3 = f(_6): the fact's cells 4, 5 are
   nobody's *)
Ltac tin_small := intros w Hw; do 8 (destruct w as [|w]; [try reflexivity; simpl in Hw; discriminate|]); simpl in Hw; discriminate.
Example C13_compiled_nonvacuous :
  let a := TAtom (d "a") in let dd := TAtom (d "d") in let f x := TFun (d "f") [x] in
  let gs := [GUnify (TVar 0) (f (TVar 1)); GAssert false (TFun (d "p") [TVar 0; TVar 2]); GUnify (TVar 1) a;
             GCall (d "p") [TVar 3; dd]] in
  cfg_inv (fun _ => false) (cfg_init 4 100 gs) /\
  exists s' g' stk', visits 20 [] 4 (cfg_init 4 100 gs) ([], s', g', stk') /\
    map fargs (gdb g' (d "p", 2)) = [[f (TVar 4); TVar 5]] /\ den s' (TVar 3) = f (TVar 6) /\ den s' (TVar 0) = f a /\
    stk' = [([TVar 3; dd], [])].
Proof.
  cbv zeta. split.
  - apply cfg_inv_init. repeat constructor; simpl; try tin_small.
  - eexists. eexists. eexists. split.
    + eapply v_call; [eapply c_unify; [reflexivity|vm_compute; reflexivity]|].
      eapply v_call; [eapply c_assert; [reflexivity|vm_compute; reflexivity|vm_compute; reflexivity]|].
      eapply v_call; [eapply c_unify; [reflexivity|vm_compute; reflexivity]|].
      eapply v_call; [eapply c_call_facts; [reflexivity|]|apply v_here].
      vm_compute. eapply cq_here. vm_compute. reflexivity.
    + vm_compute. repeat split.
Qed.

(* adequacy of `visits`: the relation covers the run - every solution (answer store) of a run of solve is a
   configuration that the run visits (so the theorems above hold in particular at every solution) *)
Theorem C13_compiled_visits_covers_solutions : forall uf prog n gs s g g' a tr fl stk s',
  solve uf prog n gs s g = Some (g', a, tr, fl) -> In s' a ->
  exists g'' stk', visits uf prog n (gs, s, g, stk) ([], s', g'', stk').
Proof. exact visits_answers. Qed.
Print Assumptions C13_compiled_visits_covers_solutions.
