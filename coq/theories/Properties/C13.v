(* C13 - a stored fact is an independent copy (placeholder, extended below) *)
From Coq Require Import List Arith.
Import ListNotations.
From YP Require Import Base.Str Term.Term Engine.Db Engine.DbFacts.

Theorem C13_ren_fun : forall f args st, ren (TFun f args) st = (TFun f (fst (ren_list args st)), snd (ren_list args st)).
Proof. exact ren_fun. Qed.
Print Assumptions C13_ren_fun.
