(* C14 - changing a predicate while it is being enumerated (logical update view).
   Only statements; every proof is `exact <lemma>` to a lemma proved in Engine/DbCursorThms.v.
   The theorems hold for EVERY matching function mt (in particular for Answer.match as modelled
   by DbFacts.match_fact with any fuel) and for every interleaving of events: there is no bound on
   the length of the history, the number of cursors or the size of the lists.  `run` returns a
   value unless a match is outside the specified domain (cyclic term / fuel). *)
From Coq Require Import String.
From Coq Require Import List Arith ZArith.
Import ListNotations.
From YP Require Import Base.Str Term.Term Term.Show Engine.Db Engine.DbCursor Engine.DbCursorThms Engine.DbClear Engine.DbRetractOrder Engine.DbFacts Engine.DbProg Engine.DbProgThms Engine.RunDbProg Engine.DbProgInv Engine.DbProgSim Engine.DbProgCut Engine.DbProgMeta Engine.DbProgMetaThms Engine.RunDbProgMeta.

(* "A goal that enumerates the dynamic facts of a predicate works on the facts as they were when the
   goal started: additions and removals made while the enumeration is suspended do not change which
   facts a call visits": once a query cursor has its snapshot (rest), the results of its next()
   calls are the matching facts of the snapshot, in order, then StopIteration - whatever other events
   (asserts, retracts by other cursors, retractall, clear, other cursors) happen in between. *)
Theorem C14_cursor_visits_snapshot : forall mt evs s s' outs c L,
  cur_stream mt (scur s c) = Some L -> no_ctl c evs -> run mt s evs = Some (s', outs) ->
  outs_of c evs outs = expect L (length (outs_of c evs outs)).
Proof. exact cursor_visits_snapshot. Qed.
Print Assumptions C14_cursor_visits_snapshot.

(* "as they were when the goal started" = the list stored at the goal's first next() *)
Theorem C14_query_snapshot_at_first_next : forall mt evs s s' outs c k pat,
  scur s c = CQNew k pat -> no_ctl c evs -> run mt s (ENext c :: evs) = Some (s', outs) ->
  outs_of c (ENext c :: evs) outs = expect (qstream mt pat (sdb s k)) (length (outs_of c (ENext c :: evs) outs)).
Proof. exact query_snapshot_at_first_next. Qed.
Print Assumptions C14_query_snapshot_at_first_next.

(* "a suspended retract skips facts that have meanwhile been removed, never removing or returning a
   fact twice": over all retract cursors and retractall calls of a history, the removed facts
   (identities) are pairwise different *)
Theorem C14_retract_at_most_once : forall mt evs s s' outs,
  ids_ok (sdb s) (snext s) -> run mt s evs = Some (s', outs) -> NoDup (removed outs).
Proof. exact retract_at_most_once. Qed.
Print Assumptions C14_retract_at_most_once.

Theorem C14_retract_at_most_once_from_init : forall mt evs s' outs,
  run mt init evs = Some (s', outs) -> NoDup (removed outs).
Proof. intros mt evs s' outs. apply retract_at_most_once. apply ids_ok_empty. Qed.
Print Assumptions C14_retract_at_most_once_from_init.

(* "a suspended retract skips facts that have meanwhile been removed": whatever happens between its next()
   calls, the Answers that a retract cursor removes and returns form a subsequence of the matching facts of
   ITS SNAPSHOT, in snapshot order - it never goes back, never visits a fact added meanwhile, and
   (C14_retract_at_most_once) never returns a fact that some other cursor has removed *)
Theorem C14_retract_cursor_in_snapshot_order : forall mt evs s s' outs c L,
  rcur_ids mt (scur s c) = Some L -> no_ctl c evs -> run mt s evs = Some (s', outs) ->
  subseq (ret_ids (outs_of c evs outs)) L.
Proof. exact retract_cursor_in_snapshot_order. Qed.
Print Assumptions C14_retract_cursor_in_snapshot_order.

(* "No modification made meanwhile is lost": the database after the history is the fold of the atomic
   updates (insert fact / delete fact id / delete ids / clear) of its events in the order in which
   they happened, each applied to the then current database *)
Theorem C14_no_lost_update : forall mt evs s s' outs,
  ids_ok (sdb s) (snext s) -> run mt s evs = Some (s', outs) ->
  (forall k, sdb s' k = apply_outs outs (sdb s) k) /\ ids_ok (sdb s') (snext s').
Proof. exact no_lost_update. Qed.
Print Assumptions C14_no_lost_update.

(* a cursor (query or retract) answers at most as often as its snapshot has facts left *)
Theorem C14_cursor_finite : forall mt evs s s' outs c n,
  cur_left (scur s c) = Some n -> no_start c evs -> run mt s evs = Some (s', outs) ->
  count_ans (outs_of c evs outs) <= n.
Proof. exact cursor_finite. Qed.
Print Assumptions C14_cursor_finite.

(* "the failure-driven update loop retract(c(N)), ..., assertz(c(N1)), fail terminates": the retract
   goal answers at most as often as the predicate had facts when the goal started, however many
   facts the loop body asserts in between *)
Theorem C14_retract_goal_finite : forall mt evs s s' outs c t name args,
  scur s c = CRNew t -> callable t = Some (name, args) -> no_start c evs ->
  run mt s (ENext c :: evs) = Some (s', outs) ->
  count_ans (outs_of c (ENext c :: evs) outs) <= length (sdb s (name, length args)).
Proof. exact retract_goal_finite. Qed.
Print Assumptions C14_retract_goal_finite.

(* non-vacuity: the drain loop  p(X), retract(p(X)), fail  over p(1), p(2), p(3) with an assertz in the
   body: cursor 0 is the goal p(X); it visits 1, 2, 3 exactly once and stops; the new facts survive *)
Example C14_drain :
  let p := d "p"%string in
  let f x := TFun p [TInt x] in
  let body c x := [EStart c (QRetract (f x)); ENext c; EAssert false (f (x + 10)%Z); ENext c] in
  let evs := [EAssert false (f 1%Z); EAssert false (f 2%Z); EAssert false (f 3%Z); EStart 0 (QQuery p [TVar 0]); ENext 0]
             ++ body 1 1%Z ++ [ENext 0] ++ body 2 2%Z ++ [ENext 0] ++ body 3 3%Z ++ [ENext 0] in
  exists s' outs, run (match_fact 20) init evs = Some (s', outs) /\
    outs_of 0 evs outs = [OAns 0 [TInt 1%Z]; OAns 1 [TInt 2%Z]; OAns 2 [TInt 3%Z]; OEnd] /\
    removed outs = [0; 1; 2] /\
    map fargs (sdb s' (p, 1)) = [[TInt 11%Z]; [TInt 12%Z]; [TInt 13%Z]].
Proof. eexists. eexists. split; [vm_compute; reflexivity|]. repeat split. Qed.

(* non-vacuity, cursors finished in an order that is NOT last-in-first-out (round 3): p = [1, 2]; cursor 0 and then
   cursor 1 are started; the OLDER cursor 0 runs to its end (resp. is closed) while cursor 1 stays suspended; p(3) is
   added; cursor 1, resumed, still visits 1, 2 only - and p = [1, 2, 3]: nothing is lost *)
Example C14_older_cursor_finishes_first :
  let p := d "p"%string in
  let f x := TFun p [TInt x] in
  let pre := [EAssert false (f 1%Z); EAssert false (f 2%Z); EStart 0 (QQuery p [TVar 0]); EStart 1 (QQuery p [TVar 0]);
              ENext 0; ENext 1] in
  let post := [EAssert false (f 3%Z); ENext 1; ENext 1; ENext 1] in
  forall fin, In fin [[ENext 0; ENext 0]; [EClose 0]] ->
  let evs := pre ++ fin ++ post in
  exists s' outs, run (match_fact 20) init evs = Some (s', outs) /\
    outs_of 1 evs outs = [OAns 0 [TInt 1%Z]; OAns 1 [TInt 2%Z]; OEnd; OEnd] /\
    map fargs (sdb s' (p, 1)) = [[TInt 1%Z]; [TInt 2%Z]; [TInt 3%Z]].
Proof.
  intros p f pre post fin [<-|[<-|[]]]; eexists; eexists; (split; [vm_compute; reflexivity|]); repeat split.
Qed.

(* ---- the same for goals that are suspended INSIDE COMPILED CODE ----
   DbProg.solve: clause bodies run depth first on a shared heap (goals share variables and bindings), the
   database threaded through the search; a goal p(X) or retract(p(X)) is suspended while the rest of the
   body runs for each of its answers, to any nesting depth.  A goal works on the list it read when it was
   reached (DbProg.scanq / scanr recurse over that list, whatever the rest of the body publishes). *)

(* "No modification made meanwhile is lost": the database after the run is the fold of the atomic updates
   in execution order, each of them valid in the database current at that moment (a retract answer
   deletes an Answer that is present THEN) *)
Theorem C14_compiled_no_lost_update : forall uf prog n gs s g g' a tr fl,
  ids_ok (gdb g) (gid g) -> solve uf prog n gs s g = Some (g', a, tr, fl) ->
  valid_trace (gdb g) (gid g) tr /\ (forall k, gdb g' k = apply_outs tr (gdb g) k) /\ ids_ok (gdb g') (gid g').
Proof. exact prog_no_lost_update. Qed.
Print Assumptions C14_compiled_no_lost_update.

(* "never removing or returning a fact twice": over all retract goals of a run, however nested, and all
   retractall calls *)
Theorem C14_compiled_retract_at_most_once : forall uf prog n gs s g g' a tr fl,
  ids_ok (gdb g) (gid g) -> solve uf prog n gs s g = Some (g', a, tr, fl) -> NoDup (removed tr).
Proof. exact prog_retract_at_most_once. Qed.
Print Assumptions C14_compiled_retract_at_most_once.

(* non-vacuity, compiled code: t(X) :- assertz(p(1)), p(X), assertz(p(2)).  has exactly the answer X = 1
   and leaves p(1), p(2);  bump :- retract(c(N)), assertz(c(s(N))), fail.  bump.  over two counters c(0),
   c(0) terminates, twice, and leaves c(s(s(0))), c(s(s(0))) *)
Example C14_compiled_programs :
  let p x := TFun (d "p") [x] in let c x := TFun (d "c") [x] in
  run_prog 100 50 1000 [mkcl (d "t") 1 [TVar 0] [GAssert false (p (TInt 1)); GCall (d "p") [TVar 0]; GAssert false (p (TInt 2))]]
           [(d "t", [TVar 0], 1)] [(d "p", 1)]
  = OL [OL [otag "answers" [OL [OL [term_obs (TInt 1)]]]]; OL [OL [OL [term_obs (TInt 1)]; OL [term_obs (TInt 2)]]]; onat 2] /\
  run_prog 100 50 1000
           [mkcl (d "init") 0 [] [GAssert false (c (TInt 0)); GAssert false (c (TInt 0))];
            mkcl (d "bump") 1 [] [GRetract (c (TVar 0)); GAssert false (c (TFun (d "s") [TVar 0])); GUnify (TAtom (d "a")) (TAtom (d "b"))];
            mkcl (d "bump") 0 [] []]
           [(d "init", [], 0); (d "bump", [], 0); (d "bump", [], 0)] [(d "c", 1)]
  = let ss := TFun (d "s") [TFun (d "s") [TInt 0]] in
    OL [OL [otag "answers" [OL [OL []]]; otag "answers" [OL [OL []]]; otag "answers" [OL [OL []]]];
        OL [OL [OL [term_obs ss]; OL [term_obs ss]]]; onat 6].
Proof. split; vm_compute; reflexivity. Qed.

(* control constructs around the updates (round 5; DbProg: GCut / GFail / GOr / GIf, GNot, GIfThen): the search, the
   database, the Answer identities and the allocation counter go through the branches that a cut or a commit
   discards - what they wrote stays.
   (1) the counter with a cut   t :- retract(c(N)), !, N1 = s(N), assertz(c(N1)).   over c(0), c(5): each call bumps
       exactly ONE counter (the retract goal is left suspended after its first answer) and terminates;
   (2) m :- ( p(X) -> retract(p(X)) ; assertz(p(a)) ).   toggles: three calls leave p(a);
   (3) m :- \+ p(_), assertz(p(1)).   stores once: the second call fails;
   (4) m :- \+ ( assertz(p(1)), !, fail ), p(X), assertz(q(X)).  m :- assertz(q(2)).   the cut under \+ is local (the second
       clause of m still runs), and p(1), written by the goal of the \+, is there afterwards. *)
Example C14_compiled_control_programs :
  let p x := TFun (d "p") [x] in let c x := TFun (d "c") [x] in let q x := TFun (d "q") [x] in
  let s x := TFun (d "s") [x] in let one := [OL []] in
  run_prog 100 50 1000
    [mkcl (d "init") 0 [] [GAssert false (c (TInt 0)); GAssert false (c (TInt 5))];
     mkcl (d "t") 2 [] [GRetract (c (TVar 0)); GCut; GUnify (TVar 1) (s (TVar 0)); GAssert false (c (TVar 1))]]
    [(d "init", [], 0); (d "t", [], 0); (d "t", [], 0)] [(d "c", 1)]
  = OL [OL [otag "answers" [OL one]; otag "answers" [OL one]; otag "answers" [OL one]];
        OL [OL [OL [term_obs (s (TInt 0))]; OL [term_obs (s (TInt 5))]]]; onat 4] /\
  run_prog 100 50 1000
    [mkcl (d "m") 1 [] [GIf [GCall (d "p") [TVar 0]] [GRetract (p (TVar 0))] [GAssert false (p (TAtom (d "a")))]]]
    [(d "m", [], 0); (d "m", [], 0); (d "m", [], 0)] [(d "p", 1)]
  = OL [OL [otag "answers" [OL one]; otag "answers" [OL one]; otag "answers" [OL one]];
        OL [OL [OL [term_obs (TAtom (d "a"))]]]; onat 2] /\
  run_prog 100 50 1000
    [mkcl (d "m") 1 [] [GNot [GCall (d "p") [TVar 0]]; GAssert false (p (TInt 1))]]
    [(d "m", [], 0); (d "m", [], 0)] [(d "p", 1)]
  = OL [OL [otag "answers" [OL one]; otag "answers" [OL []]]; OL [OL [OL [term_obs (TInt 1)]]]; onat 1] /\
  run_prog 100 50 1000
    [mkcl (d "m") 1 [] [GNot [GAssert false (p (TInt 1)); GCut; GFail]; GCall (d "p") [TVar 0]; GAssert false (q (TVar 0))];
     mkcl (d "m") 1 [] [GAssert false (q (TInt 2))]]
    [(d "m", [], 0)] [(d "p", 1); (d "q", 1)]
  = OL [OL [otag "answers" [OL [OL []; OL []]]];
        OL [OL [OL [term_obs (TInt 1)]]; OL [OL [term_obs (TInt 1)]; OL [term_obs (TInt 2)]]]; onat 3].
Proof. repeat split; vm_compute; reflexivity. Qed.

(* The scope of a cut in the model (Engine/DbProgCut.v).  A run of DbProg.solve ends with a flag: None = exhausted, Some j =
   frame j is being left.  For every program whose clause bodies are source bodies (src_prog: no internal markers), every
   fuel and state: a call with nothing behind it - a query - ends with None: whatever cuts the clauses of the called
   predicate (and of the predicates they call, to any depth) execute, nothing is propagated to the caller; and a source
   body ends with None or with Some 0 (its own clause is cut).  So the loop  t :- retract(c(N)), !, ... assertz(c(N1)).
   leaves its retract goal after the first answer and returns normally to whoever called t.  (General form:
   DbProgCut.solve_may - the flag of a run is one that the goals still to run allow, calls passing on only what the
   REST of the body says.) *)
Theorem C14_compiled_cut_not_propagated : forall uf prog, src_prog prog -> forall n name args s g g' a tr fl,
  solve uf prog n [GCall name args] s g = Some (g', a, tr, fl) -> fl = None.
Proof. exact call_ends_normally. Qed.
Print Assumptions C14_compiled_cut_not_propagated.

Theorem C14_compiled_cut_ends_own_clause_only : forall uf prog, src_prog prog -> forall n gs s g g' a tr fl,
  forallb src gs = true -> solve uf prog n gs s g = Some (g', a, tr, fl) -> fl = None \/ fl = Some 0.
Proof. exact source_body_flag. Qed.
Print Assumptions C14_compiled_cut_ends_own_clause_only.

(* non-vacuity: the counter program is a source program, and the body  c(X), t, !  really ends with Some 0 *)
Example C14_compiled_cut_nonvacuous :
  let c x := TFun (d "c") [x] in
  let prog := [mkcl (d "t") 2 [] [GRetract (c (TVar 0)); GCut; GUnify (TVar 1) (TFun (d "s") [TVar 0]); GAssert false (c (TVar 1))]] in
  src_prog prog /\
  exists g' a tr, solve 50 prog 100 [GAssert false (c (TInt 0)); GCall (d "c") [TVar 0]; GCall (d "t") []; GCut] [] (ginit 1 1000)
                  = Some (g', a, tr, Some 0) /\ length a = 1.
Proof.
  cbv zeta. split.
  - intros cl [<-|[]]. reflexivity.
  - eexists. eexists. eexists. split; [vm_compute; reflexivity|reflexivity].
Qed.

(* ---- TRACE INCLUSION: every run of compiled code IS a history of the cursor machine ----
   (Engine/DbProgSim.v)  For every program whose clauses mention only their own variables (prog_ok), every body,
   bindings and global state that satisfy C13's invariant (cinv; it holds when a query starts and is preserved:
   C13_compiled_invariant), every fuel: there is a history evs of EStart / ENext / EClose / EAssert / ERetractAll events -
   a goal reached at nesting depth d is the generator d, started with the dereferenced goal, one ENext per answer
   with the events of the rest of the body in between, a last ENext that returns StopIteration, EClose d; a goal whose
   loop is left by a cut or by the commit of an if-then-else (-> / \+) is closed while suspended: EClose d without the
   last ENext - that the cursor
   machine (with the concrete matching function match_fact, same fuel) runs from the same database and identity
   counter (Rst) to the same database and identity counter, and whose database outputs (dbouts: the outputs without
   OStart / OEnd / OClosed) are the trace of the compiled run, event by event: equal for stored facts (OIns) and
   retractall (ORAll), and for every answer of a goal (OAns) or of a retract (ORet) the same Answer identity and the
   same answer up to an injective renaming of cells (tr_eqv; the two machines allocate the copy of the fact at
   different cells; proof: increment property and equivariance of unify, C13's invariant). *)
Theorem C14_compiled_run_is_cursor_history : forall uf prog, prog_ok prog -> forall n gs s g g' a tr fl F st,
  cinv F gs s g -> solve uf prog n gs s g = Some (g', a, tr, fl) -> Rst g st ->
  exists evs st' outs, run (match_fact uf) st evs = Some (st', outs) /\ Rst g' st' /\ tr_eqv tr (dbouts outs).
Proof. exact prog_run_is_cursor_history. Qed.
Print Assumptions C14_compiled_run_is_cursor_history.

(* C14_cursor_visits_snapshot transferred: in the history of a compiled run, from any point on (pre ++ post), every
   generator that holds its snapshot returns exactly the matching facts of that snapshot, in order, then
   StopIteration - whatever the rest of the run asserts or retracts *)
Theorem C14_compiled_cursor_visits_snapshot : forall uf prog, prog_ok prog -> forall n gs s g g' a tr fl F,
  cinv F gs s g -> solve uf prog n gs s g = Some (g', a, tr, fl) ->
  exists evs st' outs, run (match_fact uf) (st_of g) evs = Some (st', outs) /\ Rst g' st' /\ tr_eqv tr (dbouts outs) /\
    forall pre post st1 o1 st2 o2 c L, evs = pre ++ post ->
      run (match_fact uf) (st_of g) pre = Some (st1, o1) -> run (match_fact uf) st1 post = Some (st2, o2) ->
      cur_stream (match_fact uf) (scur st1 c) = Some L -> no_ctl c post ->
      outs_of c post o2 = expect L (length (outs_of c post o2)).
Proof. exact prog_history_cursor_visits_snapshot. Qed.
Print Assumptions C14_compiled_cursor_visits_snapshot.

(* C14_no_lost_update and C14_retract_at_most_once transferred: the database after the compiled run is the fold
   of the atomic updates of its history, and the Answers removed by the run are those removed by the history,
   pairwise different *)
Theorem C14_compiled_history_no_lost_update : forall uf prog, prog_ok prog -> forall n gs s g g' a tr fl F,
  cinv F gs s g -> ids_ok (gdb g) (gid g) -> solve uf prog n gs s g = Some (g', a, tr, fl) ->
  exists evs st' outs, run (match_fact uf) (st_of g) evs = Some (st', outs) /\ Rst g' st' /\ tr_eqv tr (dbouts outs) /\
    (forall k, gdb g' k = apply_outs outs (gdb g) k) /\ ids_ok (gdb g') (gid g') /\
    NoDup (removed outs) /\ removed tr = removed outs.
Proof. exact prog_history_no_lost_update. Qed.
Print Assumptions C14_compiled_history_no_lost_update.

(* non-vacuity of the hypotheses: the program  t(X) :- assertz(p(1)), p(X), assertz(p(2)).  and the query t(X0);
   and a run with a cut, an if-then-else and a negation: the body  assertz(c(0)), assertz(c(5)), t  with
   t :- retract(c(N)), !, ( \+ c(N) -> assertz(c(s(N))) ; true ).   has one answer, 4 trace entries (2 OIns, ORet, OIns;
   no OAns: c(0) is gone and c(5) does not match when \+ c(0) asks), ends with flag None and leaves c(5), c(s(0)) *)
Ltac tin_small := intros w Hw; do 8 (destruct w as [|w]; [try reflexivity; simpl in Hw; discriminate|]); simpl in Hw; discriminate.
Example C14_compiled_history_nonvacuous :
  let p x := TFun (d "p") [x] in
  let prog := [mkcl (d "t") 1 [TVar 0] [GAssert false (p (TInt 1)); GCall (d "p") [TVar 0]; GAssert false (p (TInt 2))]] in
  prog_ok prog /\ cinv (fun _ => false) [GCall (d "t") [TVar 0]] [] (ginit 1 1000) /\ Rst (ginit 1 1000) init /\
  exists g' a tr, solve 50 prog 100 [GCall (d "t") [TVar 0]] [] (ginit 1 1000) = Some (g', a, tr, None) /\ length tr = 3 /\ length a = 1.
Proof.
  cbv zeta. split; [|split; [|split]].
  - repeat constructor; simpl; try tin_small.
  - constructor; simpl.
    + constructor; simpl; [intros k f []|intros w Hw; discriminate].
    + constructor.
    + intros v t [].
    + repeat constructor; simpl; try tin_small.
  - split; reflexivity.
  - eexists. eexists. eexists. split; [vm_compute; reflexivity|]. split; reflexivity.
Qed.

Example C14_compiled_history_nonvacuous_cut :
  let c x := TFun (d "c") [x] in
  let prog := [mkcl (d "t") 1 [] [GRetract (c (TVar 0)); GCut;
                                  GIf [GNot [GCall (d "c") [TVar 0]]] [GAssert false (c (TFun (d "s") [TVar 0]))] []]] in
  let gs := [GAssert false (c (TInt 0)); GAssert false (c (TInt 5)); GCall (d "t") []] in
  prog_ok prog /\ cinv (fun _ => false) gs [] (ginit 0 1000) /\
  exists g' a tr, solve 50 prog 100 gs [] (ginit 0 1000) = Some (g', a, tr, None) /\ length tr = 4 /\ length a = 1 /\
    map fargs (gdb g' (d "c", 1)) = [[TInt 5]; [TFun (d "s") [TInt 0]]].
Proof.
  cbv zeta. split; [|split].
  - repeat constructor; simpl; try tin_small.
  - constructor; simpl.
    + constructor; simpl; [intros k f []|intros w Hw; discriminate].
    + constructor.
    + intros v t [].
    + repeat constructor; simpl; try tin_small.
  - eexists. eexists. eexists. split; [vm_compute; reflexivity|]. repeat split.
Qed.

(* round 4 - clear() while retracts are suspended (Engine/DbClear.v).  "a suspended retract skips facts that have meanwhile
   been removed, never removing or returning a fact twice" - removed by WHATEVER operation, clear() included: an answer of
   a retract cursor, at any point of any history, returns an Answer that is in the store at that moment (under the
   cursor's key) and is in no list afterwards *)
Theorem C14_retract_answer_is_stored : forall mt evs s s1 outs1 e s2 k i a,
  ids_ok (sdb s) (snext s) -> run mt s evs = Some (s1, outs1) -> step mt s1 e = Some (s2, ORet k i a) ->
  In i (map fid (sdb s1 k)) /\ (forall k', ~ In i (map fid (sdb s2 k'))).
Proof. exact retract_answer_is_stored. Qed.
Print Assumptions C14_retract_answer_is_stored.

(* everything a retract cursor returns and a retractall removes after a clear() is an Answer created after that clear():
   a retract that was suspended before it never brings one of its old candidates back *)
Theorem C14_after_clear_only_new_facts : forall mt evs s s' outs,
  ids_ok (sdb s) (snext s) -> run mt s (EClear :: evs) = Some (s', outs) ->
  forall i, In i (removed outs) -> snext s <= i.
Proof. exact after_clear_only_new_facts. Qed.
Print Assumptions C14_after_clear_only_new_facts.

(* non-vacuity: the move loop  retract(p(X)), assertz(moved(X))  with a clear() after the first answer: moved stays empty
   of old facts - the resumed retract ends; with p(2) asserted again after the clear() it is the NEW p(2) (identity 4)
   that a later retract removes *)
Example C14_clear_while_retract_suspended :
  let p := d "p"%string in
  let f x := TFun p [TInt x] in
  let evs := [EAssert false (f 1%Z); EAssert false (f 2%Z); EAssert false (f 3%Z);
              EStart 0 (QRetract (TFun p [TVar 0])); ENext 0; EClear; EAssert false (f 2%Z); ENext 0; ENext 0;
              EStart 1 (QRetract (TFun p [TVar 0])); ENext 1; ENext 1] in
  exists s' outs, run (match_fact 20) init evs = Some (s', outs) /\
    outs_of 0 evs outs = [ORet (p, 1) 0 [TInt 1%Z]; OEnd; OEnd] /\
    outs_of 1 evs outs = [ORet (p, 1) 3 [TInt 2%Z]; OEnd] /\
    removed outs = [0; 3].
Proof. eexists. eexists. split; [vm_compute; reflexivity|]. repeat split. Qed.

(* ---- round 6: compiled code that reaches the database THROUGH META-CALLS (Engine/DbProgMeta.v, see Properties/C07.v) ----
   For every program, body (call/N, once/1, findall/3 to any depth, goals in bound variables), store, state, fuel. *)
Theorem C14_meta_no_lost_update : forall uf prog n gs s g g' a tr fl,
  ids_ok (gdb g) (gid g) -> msolve uf prog n gs s g = Some (g', a, tr, fl) ->
  valid_trace (gdb g) (gid g) tr /\ (forall k, gdb g' k = apply_outs tr (gdb g) k) /\ ids_ok (gdb g') (gid g').
Proof. exact mprog_no_lost_update. Qed.
Print Assumptions C14_meta_no_lost_update.

Theorem C14_meta_retract_at_most_once : forall uf prog n gs s g g' a tr fl,
  ids_ok (gdb g) (gid g) -> msolve uf prog n gs s g = Some (g', a, tr, fl) -> NoDup (removed tr).
Proof. exact mprog_retract_at_most_once. Qed.
Print Assumptions C14_meta_retract_at_most_once.

(* findall(T, G, B), R (no facts and no clauses under findall/3): G runs to completion first - a run of its own with an
   empty continuation, from the state in which findall was reached: every goal G suspends is resumed to its end inside
   it - and its updates t1 are a block of the trace in front of everything the rest R does; R starts in the database
   the block leaves, under the caller's bindings extended by the unification of the bag only *)
Theorem C14_meta_findall_runs_to_completion : forall uf prog n tm gl bag r s g g' a tr c,
  clauses_of prog (d "findall") 3 = [] -> gdb g (d "findall", 3) = [] ->
  msolve uf prog (S n) (GCall (d "findall") [tm; gl; bag] :: r) s g = Some (g', a, tr, c) ->
  exists nm args g0 g1 answers t1 c1 copies n2,
    call_target s gl [] = Some (nm, args) /\
    (forall k, gdb g0 k = gdb g k) /\ gid g0 = gid g /\
    msolve uf prog n [GCall nm args] s g0 = Some (g1, answers, t1, c1) /\
    copy_each tm answers (gn g1) = (copies, n2) /\ length copies = length answers /\
    match Unify.Fast.unify_fast uf s bag (mk_list copies) with
    | Unify.Unify.UOk s' => exists t2, tr = t1 ++ t2 /\ msolve uf prog n r s' (set_n g1 n2) = Some (g', a, t2, c)
    | Unify.Unify.UFail => tr = t1 /\ a = [] /\ g' = set_n g1 n2
    | _ => False
    end.
Proof. exact findall_block. Qed.
Print Assumptions C14_meta_findall_runs_to_completion.

(* non-vacuity:  init :- assertz(p(a)), assertz(p(b)), assertz(c(0)), assertz(c(5)).
     bump :- once(retract(c(N))), assertz(c(s(N))).         (the retract is left after its first answer: one counter per call)
     w(X,L) :- p(X), findall(Y, retract(p(Y)), L), assertz(p(X)).    (p(X) suspended around a findall that drains p)
     z(X) :- p(X), G = retract(p(X)), call(G), call(assertz(), p(f(X))).
   queries init, bump, bump, w(X,L), z(X): c/1 = [s(0), s(5)]; w visits its snapshot [a,b]: (a,[a,b]) then (b,[a]) - the
   first findall removed b, yet the suspended p(X) still visits it, and the second findall sees only the p(a) asserted
   meanwhile; z: X = b, p/1 = [f(b)]; 9 Answers created *)
Example C14_meta_programs :
  let p x := TFun (d "p") [x] in let c x := TFun (d "c") [x] in let a := TAtom (d "a") in let b := TAtom (d "b") in
  show (run_prog_meta 100 50 1000
    [mkcl (d "init") 0 [] [GAssert false (p a); GAssert false (p b); GAssert false (c (TInt 0)); GAssert false (c (TInt 5))];
     mkcl (d "bump") 1 [] [GCall (d "once") [TFun (d "retract") [c (TVar 0)]]; GAssert false (c (TFun (d "s") [TVar 0]))];
     mkcl (d "w") 3 [TVar 0; TVar 1] [GCall (d "p") [TVar 0]; GCall (d "findall") [TVar 2; TFun (d "retract") [p (TVar 2)]; TVar 1]; GAssert false (p (TVar 0))];
     mkcl (d "z") 2 [TVar 0] [GCall (d "p") [TVar 0]; GUnify (TVar 1) (TFun (d "retract") [p (TVar 0)]); GCall (d "call") [TVar 1];
                              GCall (d "call") [TFun (d "assertz") []; p (TFun (d "f") [TVar 0])]]]
    [(d "init", [], 0); (d "bump", [], 0); (d "bump", [], 0); (d "w", [TVar 0; TVar 1], 2); (d "z", [TVar 0], 1)] [(d "p", 1); (d "c", 1)])
  = "((({answers} (())) ({answers} (())) ({answers} (())) ({answers} (((0 {a}) (4 {.} ((0 {a}) (4 {.} ((0 {b}) (0 {[]})))))) ((0 {b}) (4 {.} ((0 {a}) (0 {[]})))))) ({answers} (((0 {b}))))) ((((4 {f} ((0 {b}))))) (((4 {s} ((1 0)))) ((4 {s} ((1 5)))))) 9)"%string.
Proof. vm_compute. reflexivity. Qed.
