(* C14 - logical update view (placeholder, extended below) *)
From Coq Require Import List Arith.
Import ListNotations.
From YP Require Import Base.Str Term.Term Engine.Db Engine.DbCursor.

Theorem C14_run_length : forall mt s evs s' outs, run mt s evs = Some (s', outs) -> length outs = length evs.
Proof. exact run_length. Qed.
Print Assumptions C14_run_length.
