(* C15 - answers are fully dereferenced and stay valid after backtracking.
   Only statements; every proof is `exact <lemma>` to a lemma proved in Engine/GetValue.v.

   gv n s t        the engine's get_value (Variable.get_value / Functor.get_value / get_value as they
                   are now) with Python recursion depth n, over a store s that is an arbitrary
                   association list variable -> stored value
   to_python n s t the engine's to_python
   resolved s t r  Spec: r is t with bound variables replaced by their values until none is left
   den s t         Spec on triangular stores (Term/Term.v; what unification is proved against)
   py_of r         Spec of to_python: a structural function of the resolved term *)
From Coq Require Import String.
From Coq Require Import List Arith ZArith Permutation Lia.
Import ListNotations.
From YP Require Import Base.Str Term.Term Engine.GetValue Engine.ValueHeap.

(* "get_value reflects all current bindings at every depth": whenever it returns, the result is the
   full resolution of t, mentions no bound variable, equals den on the stores unification builds,
   and does not depend on the recursion depth available *)
Theorem C15_get_value_is_resolve : forall n s t r, gv n s t = Some r ->
  resolved s t r /\ free_in s r /\ (wf s -> r = den s t) /\ (forall m r', gv m s t = Some r' -> r' = r).
Proof. exact get_value_is_resolve. Qed.
Print Assumptions C15_get_value_is_resolve.

(* the Spec value is unique, so "is resolved" determines the answer *)
Theorem C15_resolved_unique : forall s t r r', resolved s t r -> resolved s t r' -> r = r'.
Proof. exact resolved_unique. Qed.
Print Assumptions C15_resolved_unique.

(* it returns (needs only finitely many frames) on every store unification can build, with value den *)
Theorem C15_get_value_total_wf : forall s, wf s -> forall t, exists n, gv n s t = Some (den s t).
Proof. exact gv_wf_total. Qed.
Print Assumptions C15_get_value_total_wf.

(* ... and on every acyclic store, whatever its shape *)
Theorem C15_get_value_total_acyclic : forall s, acyclic s -> forall t, exists n r, gv n s t = Some r.
Proof. exact gv_acyclic_total. Qed.
Print Assumptions C15_get_value_total_acyclic.

(* "whatever the order in which the bindings were made" *)
Theorem C15_order_irrelevant : forall n s1 s2 t,
  NoDup (map fst s1) -> Permutation s1 s2 -> gv n s1 t = gv n s2 t.
Proof. exact gv_order_irrelevant. Qed.
Print Assumptions C15_order_irrelevant.

(* "if the answer is ground, the value returned by get_value contains no variable, so [it] still
   denotes the same term after the query has backtracked or finished": under every other store *)
Theorem C15_ground_value_stable : forall n s t r, gv n s t = Some r -> ground r ->
  forall s', den s' r = r /\ (exists m, gv m s' r = Some r) /\ (forall m r', gv m s' r = Some r' -> r' = r).
Proof. exact ground_value_stable. Qed.
Print Assumptions C15_ground_value_stable.

(* findall: the bag of saved ground values is itself stable *)
Theorem C15_findall_bag_stable : forall xs, Forall ground xs ->
  forall s', den s' (mklist xs) = mklist xs /\ (forall m r', gv m s' (mklist xs) = Some r' -> r' = mklist xs).
Proof. exact findall_bag_stable. Qed.
Print Assumptions C15_findall_bag_stable.

(* to_python of any term is the structural function py_of of its resolution *)
Theorem C15_to_python_resolve : forall n s t m r,
  gv m s t = Some r -> to_python n s t <> POof -> to_python n s t = py_of r.
Proof. exact to_python_resolve. Qed.
Print Assumptions C15_to_python_resolve.

Theorem C15_to_python_spec : forall n s r, free_in s r -> to_python n s r <> POof -> to_python n s r = py_of r.
Proof. exact to_python_spec. Qed.
Print Assumptions C15_to_python_spec.

(* atoms -> names, '[]' -> empty list, unbound -> None, ints/strs -> themselves,
   '.'/2 chains ending in [] -> lists, other compounds -> (name, args) *)
Theorem C15_to_python_spec_cases :
  (forall a, a <> nil_name -> py_of (TAtom a) = POk (PStr a)) /\
  py_of (TAtom nil_name) = POk (PList []) /\
  (forall v, py_of (TVar v) = POk PNone) /\
  (forall z, py_of (TInt z) = POk (PInt z)) /\
  (forall x, py_of (TStr x) = POk (PStr x)) /\
  (forall xs ys, Forall2 (fun x y => py_of x = POk y) xs ys -> py_of (mklist xs) = POk (PList ys)) /\
  (forall f args ys, f <> dot -> Forall2 (fun x y => py_of x = POk y) args ys ->
      py_of (TFun f args) = POk (PPair f ys)).
Proof. exact to_python_spec_cases. Qed.
Print Assumptions C15_to_python_spec_cases.

Theorem C15_ground_to_python_stable : forall r, ground r ->
  forall n s', to_python n s' r <> POof -> to_python n s' r = py_of r.
Proof. exact ground_to_python_stable. Qed.
Print Assumptions C15_ground_to_python_stable.

(* ---- object level (Engine/ValueHeap.v): the engine's objects on a heap, position = identity; gvh = get_value on objects.
   "Answers stay valid" also means that nobody else owns the pieces of a value that was handed out. *)

(* get_value writes no existing object, and every Functor object (hence every argument list) inside the value it
   returns is new: it is shared with nothing that existed before the call *)
Theorem C15_get_value_allocates_its_result : forall n h r r' h', wfh h -> r < length h -> gvh n h r = Some (r', h') ->
  (exists ext, h' = h ++ ext) /\ wfh h' /\ r' < length h' /\ forall p, fnode h' r' p -> length h <= p.
Proof. exact get_value_allocates_its_result. Qed.
Print Assumptions C15_get_value_allocates_its_result.

(* the structure of a value (Variables by identity) is the same in every later heap reached by allocating objects,
   binding and unbinding Variables and further get_value calls - by any step that writes no Functor / constant object *)
Theorem C15_value_structure_stable : forall n h h2 r v, evolve h h2 -> shape n h r = Some v -> shape n h2 r = Some v.
Proof. exact shape_stable. Qed.
Print Assumptions C15_value_structure_stable.

Theorem C15_engine_steps_evolve :
  (forall h, evolve h h) /\ (forall h1 h2 h3, evolve h1 h2 -> evolve h2 h3 -> evolve h1 h3) /\
  (forall h ext, evolve h (h ++ ext)) /\
  (forall n h r r' h', gvh n h r = Some (r', h') -> evolve h h') /\
  (forall h p b b', nth_error h p = Some (OVar b) -> evolve h (set_nth h p (OVar b'))).
Proof. exact engine_steps_evolve. Qed.
Print Assumptions C15_engine_steps_evolve.

(* extending the argument list of an object in place (what `goal_args += args` does when goal_args is the list of a
   live object) is not such a step: the value changes *)
Example C15_extend_in_place_breaks :
  let h := [OConst (TAtom (d "a"%string)); OFun (d "p"%string) [0]; OVar None] in
  shape 3 h 1 = Some (VFun (d "p"%string) [VConst (TAtom (d "a"%string))]) /\
  shape 3 (extend_in_place h 1 [2]) 1 = Some (VFun (d "p"%string) [VConst (TAtom (d "a"%string)); VRef 2]) /\
  ~ evolve h (extend_in_place h 1 [2]).
Proof. exact extend_in_place_breaks. Qed.

Example C15_object_level_nonvacuous :
  let h := [OConst (TAtom (d "a"%string)); OFun (d "p"%string) [0]; OVar (Some 1)] in
  gvh 5 h 2 = Some (3, h ++ [OFun (d "p"%string) [0]]) /\ wfh h.
Proof. exact gvh_example. Qed.

(* non-vacuity: outer structure bound first, inner variables later, the bindings listed in an order
   that is not the order in which they were made; the pinned behaviour is the named counter-example *)
Example C15_nonvacuous :
  let s := [(0, TFun (d "g"%string) [TVar 1; TVar 2]); (2, TVar 1); (1, TInt 1)] in
  acyclic s /\ gv 6 s (TVar 0) = Some (TFun (d "g"%string) [TInt 1; TInt 1]) /\
  to_python 8 s (TFun dot [TVar 0; TAtom nil_name]) = POk (PList [PPair (d "g"%string) [PInt 1; PInt 1]]).
Proof.
  cbv zeta. split; [|split].
  - exists (fun v => match v with 0 => 3 | 2 => 2 | 1 => 1 | _ => 0 end).
    intros v t w L O. simpl in L.
    destruct v as [|[|[|v]]]; simpl in L; try discriminate; injection L as <-; simpl in O.
    + destruct w as [|[|[|w]]]; simpl in O; try discriminate; lia.
    + discriminate.
    + destruct w as [|[|[|w]]]; simpl in O; try discriminate; lia.
  - vm_compute. reflexivity.
  - vm_compute. reflexivity.
Qed.

Example C15_pinned_get_value_leaks :
  let s := [(1, TInt 1); (0, TFun (d "g"%string) [TVar 1])] in
  gv_pinned 5 s (TVar 0) = Some (TFun (d "g"%string) [TVar 1]) /\ lookup 1 s = Some (TInt 1) /\
  gv 5 s (TVar 0) = Some (TFun (d "g"%string) [TInt 1]).
Proof. exact pinned_get_value_leaks. Qed.
