(* C16 - source literals and Python values denote the same terms (source side).
   Only statements; every proof is `exact <lemma>` to a lemma proved in Lang/.
   Source side: Lang/Literals.v (lexer / unquote / visitor).  Run-time side: Lang/Denote.v -- the expression
   yp_generator.compile_expression emits for a literal (Comp/CompileBody.compile_expression), evaluated by the
   engine constructors atom / functor / listpair / makelist / ATOM_NIL (Sem/Machine.eval_expr), builds the term
   the literal stands for (sden); to_python (Engine/GetValue.v, shared with C15) maps it to the prescribed
   Python value; the atom table gives one object per name and engine, unification looks at names only. *)
From Coq Require Import String.
From Coq Require Import List NArith ZArith Arith.
Import ListNotations.
From YP Require Import Base.Str Term.Term Unify.Unify Unify.Mgu Lang.Ast Lang.Lexer Lang.Cst Lang.Parser Lang.Unquote Lang.Literals Lang.Front
  Comp.IR Comp.CompileBody Sem.Machine Engine.GetValue Engine.PyObjects Lang.Denote Lang.Utf8 Lang.Utf8Strict Lang.FileEntry Cli.Cli.

(* quote s = ' s ' with \' for every quote in s.  For every text without backslash -- quotes, line
   breaks, any code point -- it is lexed as the single token STRING and unquoted back to s. *)
Theorem C16_quoted_atom_roundtrip : forall s, ~ In 92%N s ->
  lex (quote s) = Some [(R_STRING, quote s)] /\ unquote (quote s) = s.
Proof. exact quoted_atom_roundtrip. Qed.
Print Assumptions C16_quoted_atom_roundtrip.

(* ... and inside any program: whatever follows, the quoted form is the token taken at its position *)
Theorem C16_quoted_atom_in_context : forall s rest, ~ In 92%N s ->
  lex_one (quote s ++ rest) = Some (R_STRING, length (quote s)).
Proof. exact quoted_atom_munch. Qed.
Print Assumptions C16_quoted_atom_in_context.

(* the visitor turns it into the atom named s *)
Theorem C16_quoted_atom_literal : forall s k, ~ In 92%N s ->
  v_term (T_atom (A_STRING (quote s))) k = (Some (SAtom s), k).
Proof. exact quoted_atom_literal. Qed.
Print Assumptions C16_quoted_atom_literal.

(* unquoted atoms: a lower-case letter, then letters, digits, `_`; not the keywords true / fail *)
Theorem C16_plain_atom_token : forall c w, lc_letter c = true -> forallb is_character w = true ->
  c :: w <> [116; 114; 117; 101]%N -> c :: w <> [102; 97; 105; 108]%N ->
  lex (c :: w) = Some [(R_ATOM, c :: w)].
Proof. exact plain_atom_token. Qed.
Print Assumptions C16_plain_atom_token.

(* integers: every non-empty digit string is one NUMERAL; its value ignores leading zeros, and the
   decimal text of n denotes n *)
Theorem C16_numeral_token : forall w, w <> [] -> forallb is_digit w = true -> lex w = Some [(R_NUMERAL, w)].
Proof. exact numeral_token. Qed.
Print Assumptions C16_numeral_token.

Theorem C16_numeral_leading_zeros : forall z w, forallb (N.eqb 48) z = true -> num_value (z ++ w) = num_value w.
Proof. exact num_value_leading_zeros. Qed.
Print Assumptions C16_numeral_leading_zeros.

Theorem C16_numeral_roundtrip : forall n, num_value (dec_of_N n) = n.
Proof. exact num_value_dec. Qed.
Print Assumptions C16_numeral_roundtrip.

Theorem C16_variable_token : forall c w, is_varstart c = true -> forallb is_character w = true ->
  lex (c :: w) = Some [(R_VARIABLE, c :: w)].
Proof. exact variable_token. Qed.
Print Assumptions C16_variable_token.

(* [t1,...,tn|V] is the '.'/2 chain of its items ending in V; [t1,...,tn] is [t1,...,tn|[]]
   (sden = the run-time term a literal stands for: atom / int / functor / makelist / listpair) *)
Theorem C16_list_pattern_folds : forall h rest v k h' k1 rest' k2,
  v_term h k = (Some h', k1) -> v_terms rest k1 = (Some rest', k2) ->
  let x := fst (v_var v k2) in
  v_term (T_listpair2 h rest v) k = (Some (fold_pairs (h' :: rest') x), snd (v_var v k2)) /\
  forall rho, sden rho (fold_pairs (h' :: rest') x) =
              fold_right cons_term (sden rho x) (map (sden rho) (h' :: rest')).
Proof. exact list_pattern_folds. Qed.
Print Assumptions C16_list_pattern_folds.

Theorem C16_list_literal : forall rho items,
  sden rho (SList items) = sden rho (fold_pairs items (SAtom s_nil)).
Proof. exact list_literal. Qed.
Print Assumptions C16_list_literal.

(* `_` is a fresh variable: over one compilation (directives included) the anonymous variables carry
   strictly increasing numbers (`numbered`), different numbers are different names, and no such name
   can be written as a variable in the source *)
Theorem C16_anon_fresh : forall cst k prog k', v_program cst k = Some (prog, k') -> numbered k k' (prog_vars prog).
Proof. exact anon_fresh. Qed.
Print Assumptions C16_anon_fresh.

Theorem C16_anon_name_inj : forall i j, anon_name i = anon_name j -> i = j.
Proof. exact anon_name_inj. Qed.
Print Assumptions C16_anon_name_inj.

Theorem C16_anon_not_source : forall i v, rule_lang R_VARIABLE v -> anon_name i <> v.
Proof. exact anon_not_source. Qed.
Print Assumptions C16_anon_not_source.

(* LITERAL_DENOTATION: in an environment r that binds the Python variable V_<v> of every source variable v to
   rho v, the constructor calls emitted for the literal t build exactly the term t denotes under rho -- for atoms,
   integers, compound terms, [...] (makelist / ATOM_NIL), [..|T] (listpair) and variables, at any nesting *)
Theorem C16_literal_denotation : forall t r rho, binds r rho (sterm_vars t) ->
  eval_expr r (compile_expression t) = sden rho t.
Proof. exact literal_denotation. Qed.
Print Assumptions C16_literal_denotation.

(* makelist([x1..xn]) = listpair(x1, ... listpair(xn, ATOM_NIL)) = the '.'/2 chain ending in [] *)
Theorem C16_makelist_listpair_chain : forall r xs,
  eval_expr r (ECall (s_ "makelist") [EList xs]) = eval_expr r (listpair_chain xs) /\
  eval_expr r (listpair_chain xs) = fold_right cons_term (TAtom s_nil) (map (eval_expr r) xs).
Proof. exact makelist_listpair_chain. Qed.
Print Assumptions C16_makelist_listpair_chain.

(* to_python specification on literals: lit_py pv t is the value the property text prescribes (atoms -> names,
   [] -> [], ints, proper lists -> lists, compounds not named `.` -> (name, args), unbound -> None); py_of is the
   structural specification of to_python proved for the engine's to_python in C15 *)
Theorem C16_to_python_literal : forall pv rho, (forall x, py_of (rho x) = POk (pv x)) ->
  forall t v, lit_py pv t = Some v -> py_of (sden rho t) = POk v.
Proof. exact to_python_literal. Qed.
Print Assumptions C16_to_python_literal.

(* end to end: to_python of what the emitted constructor calls build *)
Theorem C16_to_python_compiled_literal : forall pv rho r n s t v,
  binds r rho (sterm_vars t) -> (forall x, py_of (rho x) = POk (pv x)) -> lit_py pv t = Some v ->
  free_in s (sden rho t) -> to_python n s (eval_expr r (compile_expression t)) <> POof ->
  to_python n s (eval_expr r (compile_expression t)) = POk v.
Proof. exact to_python_compiled_literal. Qed.
Print Assumptions C16_to_python_compiled_literal.

(* terms built through the API are the ones the source literals unify with *)
Theorem C16_api_term_unifies : forall t r1 r2 rho s,
  binds r1 rho (sterm_vars t) -> binds r2 rho (sterm_vars t) -> wf s ->
  eval_expr r1 (compile_expression t) = eval_expr r2 (compile_expression t) /\
  exists n s', unify n s (eval_expr r1 (compile_expression t)) (eval_expr r2 (compile_expression t)) = UOk s' /\
               wf s' /\ ext s s' /\ sat (sub_of s) s'.
Proof. exact api_term_unifies. Qed.
Print Assumptions C16_api_term_unifies.

(* one object per name and engine: after atom(name) has returned o, every later atom(name) on the same table
   returns o and leaves the table unchanged; ... *)
Theorem C16_atom_identity : forall tb name fresh tb' fresh',
  let '(o, tb1) := yp_atom name fresh tb in
  later tb1 tb' -> fst (yp_atom name fresh' tb') = o /\ snd (yp_atom name fresh' tb') = tb'.
Proof. exact atom_identity. Qed.
Print Assumptions C16_atom_identity.

(* ... yet atoms unify by name, whichever engine (table) made them *)
Theorem C16_atom_unify_by_name : forall n s a b,
  unify (S n) s (TAtom a) (TAtom b) = if str_eqb a b then UOk s else UFail.
Proof. exact atom_unify_by_name. Qed.
Print Assumptions C16_atom_unify_by_name.

(* the byte layer of compile_prolog_from_file / the command line (FileStream, StdinStream: the bytes, strictly decoded as
   UTF-8, no line-end conversion): a text of Unicode scalar values stored as UTF-8 is read back as itself ... *)
Theorem C16_file_bytes_roundtrip : forall s, forallb is_scalar s = true -> utf8_decode (utf8_encode s) = Some s.
Proof. exact utf8_roundtrip. Qed.
Print Assumptions C16_file_bytes_roundtrip.

(* ... so the front end reads from the file what it reads from the text: every theorem above about the literals of a
   source text holds for the literals of the file holding its bytes (CR, CR LF, NEL, LS, PS, BOM, NUL inside atoms included) *)
Theorem C16_file_entry_point : forall s, forallb is_scalar s = true -> front_bytes (utf8_encode s) = front s.
Proof. exact file_entry_point. Qed.
Print Assumptions C16_file_entry_point.

(* ... different texts are different files, and the CR / LF / quote / backslash BYTES of a file are exactly the
   CR / LF / quote / backslash characters of its text (no byte of a multi-byte character is below 128) *)
Theorem C16_file_encoding_injective : forall s t,
  forallb is_scalar s = true -> forallb is_scalar t = true -> utf8_encode s = utf8_encode t -> s = t.
Proof. exact utf8_encode_injective. Qed.
Print Assumptions C16_file_encoding_injective.

(* the command line reads such a file / standard input as that text (RText s of the command-line model of C19) *)
Theorem C16_cli_reads_text : forall s, forallb is_scalar s = true -> rd_of_bytes (utf8_encode s) = Cli.RText s.
Proof. exact cli_reads_text. Qed.
Print Assumptions C16_cli_reads_text.

(* and the other way round: bytes that the strict decoder accepts ARE the encoding of the text it returns (shortest forms only,
   no surrogates, nothing above U+10FFFF): the file and the text read from it determine each other *)
Theorem C16_file_decoding_strict : forall l s, utf8_decode l = Some s -> l = utf8_encode s.
Proof. exact utf8_decode_strict. Qed.
Print Assumptions C16_file_decoding_strict.

Theorem C16_file_ascii_bytes : forall s b, In b (utf8_encode s) -> (b < 128)%N -> In b s.
Proof. exact utf8_ascii_bytes_are_characters. Qed.
Print Assumptions C16_file_ascii_bytes.

(* round 4 - the OBJECTS to_python hands out (Engine/PyObjects.v: to_python with a counter of object identities, following
   the list displays, `+` and the comprehension of the code).  Forgetting the identities gives to_python: the value of a
   conversion depends on the term and the store alone, not on anything converted (or changed by a caller) before *)
Theorem C16_to_python_objects_value : forall n s t k, eres (fst (to_python_obj n s t k)) = to_python n s t.
Proof. exact obj_erase. Qed.
Print Assumptions C16_to_python_objects_value.

(* every list object reachable from a result was created by that conversion, and occurs once in it *)
Theorem C16_to_python_fresh_lists : forall n s t k v k', to_python_obj n s t k = (OOk v, k') ->
  k <= k' /\ NoDup (addrs v) /\ forall a, In a (addrs v) -> k <= a < k'.
Proof. exact obj_fresh. Qed.
Print Assumptions C16_to_python_fresh_lists.

(* two conversions (any terms, stores, fuel) share no list object; the same term converted twice gives equal values
   made of different objects - so nothing a caller does to one result shows in another *)
Theorem C16_to_python_results_disjoint : forall n1 s1 t1 k1 v1 k1' n2 s2 t2 k2 v2 k2',
  to_python_obj n1 s1 t1 k1 = (OOk v1, k1') -> k1' <= k2 -> to_python_obj n2 s2 t2 k2 = (OOk v2, k2') ->
  forall a, In a (addrs v1) -> ~ In a (addrs v2).
Proof. exact obj_disjoint. Qed.
Print Assumptions C16_to_python_results_disjoint.

Theorem C16_to_python_twice : forall n s t k v1 k1 v2 k2,
  to_python_obj n s t k = (OOk v1, k1) -> to_python_obj n s t k1 = (OOk v2, k2) ->
  erase v1 = erase v2 /\ forall a, In a (addrs v1) -> ~ In a (addrs v2).
Proof. exact obj_twice. Qed.
Print Assumptions C16_to_python_twice.

Example C16_objects_nonvacuous :
  let t := TFun dot [TAtom nil_name; TFun dot [TFun (d "f") [TAtom nil_name]; TFun dot [TAtom nil_name; TAtom nil_name]]] in
  exists v1 k1 v2 k2, to_python_obj 20 [] t 0 = (OOk v1, k1) /\ to_python_obj 20 [] t k1 = (OOk v2, k2) /\
    erase v1 = PList [PList []; PPair (d "f") [PList []]; PList []] /\ length (addrs v1) = 5 /\ k1 = 11 /\
    addrs v1 <> addrs v2.
Proof. exact obj_example. Qed.

(* literals that print alike once the quotes are left out are different literals and denote different terms:
   f('a,b') is f/1 of the atom named "a,b", f(a,b) is f/2; the text with CR LF in an atom, read from its bytes, keeps the CR *)
Example C16_print_alike_distinct :
  front (d "p(f('a,b')). q(f(a,b)). r(['x,y'], [x,y]).") =
    Some [{| c_name := d "p"; c_args := [SFun (d "f") [SAtom (d "a,b")]]; c_body := BTrue |};
          {| c_name := d "q"; c_args := [SFun (d "f") [SAtom (d "a"); SAtom (d "b")]]; c_body := BTrue |};
          {| c_name := d "r"; c_args := [SList [SAtom (d "x,y")]; SList [SAtom (d "x"); SAtom (d "y")]]; c_body := BTrue |}] /\
  sden (fun _ => TVar 0) (SFun (d "f") [SAtom (d "a,b")]) = TFun (d "f") [TAtom (d "a,b")] /\
  sden (fun _ => TVar 0) (SFun (d "f") [SAtom (d "a"); SAtom (d "b")]) = TFun (d "f") [TAtom (d "a"); TAtom (d "b")] /\
  front_bytes (utf8_encode (d "p('a\13;\10;b\233;\133;').")) =
    Some [{| c_name := d "p"; c_args := [SAtom (d "a\13;\10;b\233;\133;")]; c_body := BTrue |}] /\
  utf8_encode (d "\233;\13;") = [195; 169; 13]%N.
Proof. repeat split; vm_compute; reflexivity. Qed.

(* non-vacuity: a fact with a quoted atom containing a quote and a line break, a list pattern, a list,
   a numeral with leading zeros and two anonymous variables *)
Example C16_nonvacuous :
  front (d "p('it\92;'s\10;', [a,b|T], [c], 007, _, f(_)).") =
    Some [{| c_name := d "p";
             c_args := [SAtom (d "it's\10;"); SPair (SAtom (d "a")) (SPair (SAtom (d "b")) (SVar (d "T")));
                        SList [SAtom (d "c")]; SNum (d "007"); SVar (d "x1"); SFun (d "f") [SVar (d "x2")]];
             c_body := BTrue |}] /\
  num_value (d "007") = 7%N /\
  sden (fun _ => TVar 0) (SPair (SAtom (d "a")) (SPair (SAtom (d "b")) (SVar (d "T")))) =
    TFun (d ".") [TAtom (d "a"); TFun (d ".") [TAtom (d "b"); TVar 0]] /\
  (* the emitted code for [a,b|T] with V_T bound to [c] builds [a,b,c]; to_python gives the Python list *)
  (let r := [(pyvar (d "T"), mk_list [TAtom (d "c")])] in
   let t := SPair (SAtom (d "a")) (SPair (SAtom (d "b")) (SVar (d "T"))) in
   binds r (fun _ => mk_list [TAtom (d "c")]) (sterm_vars t) /\
   eval_expr r (compile_expression t) = mk_list [TAtom (d "a"); TAtom (d "b"); TAtom (d "c")] /\
   lit_py (fun _ => PList [PStr (d "c")]) t = Some (PList [PStr (d "a"); PStr (d "b"); PStr (d "c")]) /\
   to_python 9 [] (eval_expr r (compile_expression t)) = POk (PList [PStr (d "a"); PStr (d "b"); PStr (d "c")])).
Proof.
  repeat split; try (vm_compute; reflexivity).
  intros v [<-|[]]. vm_compute. reflexivity.
Qed.
