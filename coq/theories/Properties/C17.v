(* C17 - evaluate_bounded returns a prefix of the answers and restores the interpreter.
   Only statements; every proof is `exact <lemma>` to a lemma of Engine/Bounded.v / BoundedQuery.v.

   ans : nat -> list A * fin      the query as a depth-indexed answer sequence (Err = recursion limit hit)
   proj k a r                     outcome of the projection function at the k-th answer when the recursion
                                  limit is r: (value | exception, recursion limit it leaves behind)
   budget limit cur               depth available to the query when the limit is `limit` at interpreter
                                  depth cur: ARBITRARY (partial: the frame count per call is not modelled)
   evaluate_bounded ans proj budget cur has_close st limit = (outcome, final interpreter state)
   running cur st                 the interpreter is below its recursion limit (true of every running one) *)
From Coq Require Import String.
From Coq Require Import List Arith ZArith.
Import ListNotations.
From YP Require Import Base.Str Term.Term Term.Fast Unify.Unify Unify.UnifyGen Lang.Ast Comp.IR Comp.CompileClause Sem.Machine Sem.RunSem
  Engine.GenMachine Engine.RunGen Engine.BoundedHeap Engine.Bounded Engine.BoundedQuery Engine.RunBoundedM Engine.BoundedMachine
  Sem.ExecMono Sem.Native Sem.NativeExc Engine.NativeMono Engine.BoundedNative Engine.BoundedClose.

(* "for a deeper or infinite search it returns a prefix of that sequence": the sequences at all depths
   are prefixes of each other, and a search that ends within depth n is the same at every deeper m *)
Theorem C17_prefix_mono : forall (A : Type) (ans : nat -> res A),
  (forall n m, n <= m -> res_le (ans n) (ans m)) ->
  forall n m, n <= m -> prefix (fst (ans n)) (fst (ans m)) /\ (snd (ans n) = Norm -> ans m = ans n).
Proof. exact prefix_mono. Qed.
Print Assumptions C17_prefix_mono.

(* the hypothesis above is a theorem for the step-indexed SLD semantics over the C02 unification model *)
Theorem C17_sld_answers_prefix_monotone : forall (P : list clause) (fu : nat) (q : term) n m,
  n <= m -> res_le (sld_ans P fu q n) (sld_ans P fu q m).
Proof. exact sld_ans_mono. Qed.
Print Assumptions C17_sld_answers_prefix_monotone.

(* ... and for the engine model of compiled programs (Sem/Machine.v): EVERY query against EVERY IR program, with the
   builtins =, \=, call/N, once/1, findall/3, cut and if-then-else; n = nesting depth of YP.query calls, the
   call raises at depth 0.  machine_ans = the query variables resolved at each answer + how the search ended. *)
Theorem C17_machine_answers_prefix_monotone : forall (ir : ir_program) (name : str) (args : list term) (nq n m : nat),
  n <= m -> res_le (machine_ans ir name args nq n) (machine_ans ir name args nq m).
Proof. exact machine_ans_mono. Qed.
Print Assumptions C17_machine_answers_prefix_monotone.

(* ... and for the full YP.query of Sem/Native.v: dynamic facts, registered Python predicates (arbitrary answer functions
   that may raise; they do not depend on the depth) and the loaded script.  le_b r1 r2: r1 ended by an exception after a
   prefix of r2's answers, or r2 = r1 *)
Theorem C17_engine_with_python_predicates_prefix_monotone : forall (w : world) n m, n <= m ->
  forall name args s, le_b (nquery n w name args s) (nquery m w name args s).
Proof. exact nquery_depth_mono. Qed.
Print Assumptions C17_engine_with_python_predicates_prefix_monotone.

(* evaluate_bounded over such an engine (Sem/NativeExc.nqueryE: the exception OBJECT that ends the enumeration is known):
   world_ans = the resolved query variables at each answer + ended normally / by an exception; world_gexc = the Python class
   of that exception (RecursionError for the engine's depth error, another class for the object of a Python predicate) *)
Theorem C17_engine_answers_prefix_monotone : forall (w : worldE) name args nq n m, n <= m ->
  res_le (world_ans w name args nq n) (world_ans w name args nq m).
Proof. exact world_ans_mono. Qed.
Print Assumptions C17_engine_answers_prefix_monotone.

Theorem C17_engine_result_is_prefix : forall (w : worldE) name args nq (B : Type)
  (proj : nat -> list term -> nat -> pout B * nat) budget cur st limit (res_ : list B),
  gs st = Susp 0 ->
  fst (evaluate_bounded (world_ans w name args nq) (world_gexc w name args nq) proj budget cur true st limit) = Return res_ ->
  running cur st -> forall m, budget limit cur <= m ->
  exists l0, prefix l0 (fst (world_ans w name args nq m)) /\ projected proj 0 l0 res_.
Proof. exact world_result_is_prefix. Qed.
Print Assumptions C17_engine_result_is_prefix.

(* what escapes from evaluate_bounded over such an engine is never the depth error: a ValueError for a limit below 1, an
   exception of the projection function, or the exception object x of a Python predicate (or of a goal that is not callable)
   that ended the enumeration - limit restored and generator closed by C17_rlimit_restored / ..._closed_on_every_branch *)
Theorem C17_engine_no_depth_error_escapes : forall (w : worldE) name args nq (B : Type)
  (proj : nat -> list term -> nat -> pout B * nat) budget cur st limit e,
  running cur st ->
  fst (evaluate_bounded (world_ans w name args nq) (world_gexc w name args nq) proj budget cur true st limit) = Propagate e ->
  caught e = false /\
  ((limit < 1 /\ e = value_error) \/ (exists k a r0 r1, proj k a r0 = (PRaise e, r1)) \/
   (exists x, snd (nqueryE (budget limit cur) w name args (st0 nq)) = Some x /\ e = exc_of x /\ x <> XDepth /\ x <> XUnify)).
Proof. exact world_no_depth_error_escapes. Qed.
Print Assumptions C17_engine_no_depth_error_escapes.

(* the two result theorems below, instantiated with the machine's queries: no hypothesis on the query is left *)
Theorem C17_machine_result_is_prefix : forall (ir : ir_program) (name : str) (args : list term) (nq : nat) (B : Type)
  (proj : nat -> list term -> nat -> pout B * nat) budget cur st limit (res_ : list B),
  gs st = Susp 0 ->
  fst (evaluate_bounded (machine_ans ir name args nq) (fun _ => ERuntime) proj budget cur true st limit) = Return res_ -> running cur st ->
  forall m, budget limit cur <= m ->
  exists l0, prefix l0 (fst (machine_ans ir name args nq m)) /\ projected proj 0 l0 res_.
Proof. exact machine_result_is_prefix. Qed.
Print Assumptions C17_machine_result_is_prefix.

Theorem C17_machine_complete_when_shallow : forall (ir : ir_program) (name : str) (args : list term) (nq : nat) (B : Type)
  (proj : nat -> list term -> nat -> pout B * nat) budget cur st limit,
  gs st = Susp 0 -> running cur st -> setrl cur limit = inr limit ->
  snd (machine_ans ir name args nq (budget limit cur)) = Norm ->
  (forall k a r, exists b, proj k a r = (PVal b, r)) ->
  exists res_, fst (evaluate_bounded (machine_ans ir name args nq) (fun _ => ERuntime) proj budget cur true st limit) = Return res_ /\
    forall m, budget limit cur <= m ->
      projected proj 0 (fst (machine_ans ir name args nq m)) res_ /\ snd (machine_ans ir name args nq m) = Norm.
Proof. exact machine_complete_when_shallow. Qed.
Print Assumptions C17_machine_complete_when_shallow.

(* whatever happens, a returned result is the projection, in order, of a prefix of the answers at every
   depth at least the one the limit corresponds to *)
Theorem C17_result_is_prefix : forall (A B : Type) (ans : nat -> res A),
  (forall n m, n <= m -> res_le (ans n) (ans m)) ->
  forall gexc proj budget cur has_close st limit (res_ : list B),
  gs st = Susp 0 ->
  fst (evaluate_bounded ans gexc proj budget cur has_close st limit) = Return res_ -> running cur st ->
  forall m, budget limit cur <= m -> exists l0, prefix l0 (fst (ans m)) /\ projected proj 0 l0 res_.
Proof. exact result_is_prefix. Qed.
Print Assumptions C17_result_is_prefix.

(* "for a query whose search is finite and stays within the depth limit it returns the projection of
   every answer in order" *)
Theorem C17_complete_when_shallow : forall (A B : Type) (ans : nat -> res A),
  (forall n m, n <= m -> res_le (ans n) (ans m)) ->
  forall gexc (proj : nat -> A -> nat -> pout B * nat) budget cur has_close st limit,
  gs st = Susp 0 -> running cur st -> setrl cur limit = inr limit ->
  snd (ans (budget limit cur)) = Norm ->
  (forall k a r, exists b, proj k a r = (PVal b, r)) ->
  exists res_, fst (evaluate_bounded ans gexc proj budget cur has_close st limit) = Return res_ /\
    forall m, budget limit cur <= m -> projected proj 0 (fst (ans m)) res_ /\ snd (ans m) = Norm.
Proof. exact complete_when_shallow. Qed.
Print Assumptions C17_complete_when_shallow.

(* "never lets a recursion-depth error escape": what propagates is never a RuntimeError (RecursionError)
   or StopIteration; it is the ValueError for a limit below 1, an exception of another class that the
   projection function raised, or the exception gexc d of another class that ended the enumeration itself
   (a registered Python predicate raised it; gexc d = RecursionError for a search cut short by the limit) *)
Theorem C17_no_depth_error_escapes : forall (A B : Type) (ans : nat -> res A) (gexc : nat -> exc)
  (proj : nat -> A -> nat -> pout B * nat) budget cur has_close st limit e,
  running cur st ->
  fst (evaluate_bounded ans gexc proj budget cur has_close st limit) = Propagate e ->
  caught e = false /\
  ((limit < 1 /\ e = value_error) \/ (exists k a r0 r1, proj k a r0 = (PRaise e, r1)) \/
   (e = gexc (budget limit cur) /\ snd (ans (budget limit cur)) = Err)).
Proof. exact no_depth_error_escapes. Qed.
Print Assumptions C17_no_depth_error_escapes.

(* "in every case - including an exception raised by the projection function - the interpreter's
   recursion limit is afterwards what it was before the call": no hypothesis on ans, proj, limit *)
Theorem C17_rlimit_restored : forall (A B : Type) (ans : nat -> res A) (gexc : nat -> exc)
  (proj : nat -> A -> nat -> pout B * nat) budget cur has_close st limit,
  running cur st -> rl (snd (evaluate_bounded ans gexc proj budget cur has_close st limit)) = rl st.
Proof. exact rlimit_restored. Qed.
Print Assumptions C17_rlimit_restored.

(* the query object is closed on every branch ... *)
Theorem C17_generator_closed_on_every_branch : forall (A B : Type) (ans : nat -> res A) (gexc : nat -> exc)
  (proj : nat -> A -> nat -> pout B * nat) budget cur st limit,
  running cur st -> gs (snd (evaluate_bounded ans gexc proj budget cur true st limit)) = Done.
Proof. exact generator_closed_every_generator. Qed.
Print Assumptions C17_generator_closed_on_every_branch.

(* ... so "all query variables are unbound again".  On the generator-frame machine of C03 (frames over the heap of
   Variable cells, leaves = engine.py's unification generators, d = recursion depth left by the limit): the for loop
   resumes the query k times - it is left because the generator ended, because a RecursionError came up through its
   frames, or because the projection function raised at the k-th answer - and the finally block closes what is left.
   For every program, heap, fuel n, depth d and every k, the heap afterwards is the heap before the call. *)
Theorem C17_vars_unbound_after : forall (E P : Type) (prog : P -> code (term * term) E P * E) (gho : E -> nat) n d k h c e h',
  eb_final_heap prog gho n d k h c e = Some h' -> h' = h.
Proof. exact eb_heap_restored. Qed.
Print Assumptions C17_vars_unbound_after.

(* the result is exactly what was collected: the except clauses drop nothing *)
Theorem C17_result_collected_so_far : forall (A B : Type) (ans : nat -> res A) (gexc : nat -> exc)
  (proj : nat -> A -> nat -> pout B * nat) budget cur has_close st limit k0,
  gs st = Susp k0 -> running cur st -> forall r1, setrl cur limit = inr r1 ->
  forall e acc r2 g2,
  loop proj (gexc (budget limit cur)) (skipn k0 (fst (ans (budget limit cur)))) (snd (ans (budget limit cur))) k0 r1 [] = (e, acc, r2, g2) ->
  fst (evaluate_bounded ans gexc proj budget cur has_close st limit) = handle e acc.
Proof. exact result_collected_so_far. Qed.
Print Assumptions C17_result_collected_so_far.

(* evaluate_bounded nested inside a projection function leaves the limit of the outer call alone *)
Theorem C17_nested_keeps_rlimit : forall (A A' B' : Type) (ans' : A -> nat -> res A') proj' budget cur' limit' k a r,
  cur' < r -> snd (@nested_projection A A' B' ans' proj' budget cur' limit' k a r) = r.
Proof. exact nested_keeps_rlimit_all. Qed.
Print Assumptions C17_nested_keeps_rlimit.

(* non-vacuity: nat(z). nat(s(X)) :- nat(X).  The query nat(X) has infinitely many answers; at depth 3
   the limit is hit after three of them; a projection that raises ValueError at the second answer makes
   the exception propagate, with the limit restored and the generator closed. *)
Definition nat_prog : list clause :=
  [ (TFun (d "nat"%string) [TAtom (d "z"%string)], []);
    (TFun (d "nat"%string) [TFun (d "s"%string) [TVar 0]], [TFun (d "nat"%string) [TVar 0]]) ].
Definition nat_query : term := TFun (d "nat"%string) [TVar 0].

Example C17_nonvacuous :
  let z := TAtom (d "z"%string) in let s := fun t => TFun (d "s"%string) [t] in
  let n := fun t => TFun (d "nat"%string) [t] in
  sld_ans nat_prog 50 nat_query 3 = ([n z; n (s z); n (s (s z))], Err) /\
  (let proj := fun (k : nat) (a : term) (r : nat) => (PVal a, r) in
   evaluate_bounded (sld_ans nat_prog 50 nat_query) (fun _ => ERuntime) proj (fun l c => (l - c) / 10) 20 true
                    {| rl := 1000; gs := Susp 0 |} 50
   = (Return [n z; n (s z); n (s (s z))], {| rl := 1000; gs := Done |})) /\
  (let proj := fun (k : nat) (a : term) (r : nat) => if Nat.eqb k 1 then (PRaise (EOther 0), r) else (PVal a, r) in
   evaluate_bounded (sld_ans nat_prog 50 nat_query) (fun _ => ERuntime) proj (fun l c => (l - c) / 10) 20 true
                    {| rl := 1000; gs := Susp 0 |} 50
   = (Propagate (EOther 0), {| rl := 1000; gs := Done |})) /\
  (* a limit that does not fit above the current depth: RecursionError from setrecursionlimit, caught *)
  (let proj := fun (k : nat) (a : term) (r : nat) => (PVal a, r) in
   evaluate_bounded (sld_ans nat_prog 50 nat_query) (fun _ => ERuntime) proj (fun l c => (l - c) / 10) 20 true
                    {| rl := 1000; gs := Susp 0 |} 15
   = (Return [], {| rl := 1000; gs := Done |})).
Proof. vm_compute. repeat split. Qed.

(* the same through the compiler and the engine model: the compiled nat/1 at call depth 3, and a search that
   ends within depth 4 is the same at every larger depth *)
Definition nat_src : program :=
  [ {| c_name := d "nat"%string; c_args := [SAtom (d "z"%string)]; c_body := BTrue |};
    {| c_name := d "nat"%string; c_args := [SFun (d "s"%string) [SVar (d "X"%string)]]; c_body := BCall (d "nat"%string) [SVar (d "X"%string)] |};
    {| c_name := d "two"%string; c_args := [SVar (d "X"%string)];
       c_body := BAnd (BCall (d "nat"%string) [SVar (d "X"%string)]) (BCall (d "="%string) [SVar (d "X"%string); SFun (d "s"%string) [SAtom (d "z"%string)]]) |};
    {| c_name := d "first"%string; c_args := [SVar (d "X"%string)]; c_body := BCall (d "once"%string) [SFun (d "nat"%string) [SVar (d "X"%string)]] |} ].

Example C17_machine_nonvacuous :
  let z := TAtom (d "z"%string) in let s := fun t => TFun (d "s"%string) [t] in
  match compile_program nat_src with
  | Some ir =>
      machine_ans ir (d "nat"%string) [TVar 0] 1 3 = ([[z]; [s z]; [s (s z)]], Err) /\
      (* once(nat(X)) ends within depth 3 although nat/1 has infinitely many answers *)
      machine_ans ir (d "first"%string) [TVar 0] 1 3 = ([[z]], Norm) /\
      machine_ans ir (d "first"%string) [TVar 0] 1 2 = ([], Err) /\
      (* nat(X), X = s(z): one answer, then the search goes on for ever *)
      machine_ans ir (d "two"%string) [TVar 0] 1 6 = ([[s z]], Err) /\
      evaluate_bounded (machine_ans ir (d "two"%string) [TVar 0] 1) (fun _ => ERuntime) (fun k a r => (PVal a, r)) (fun l c => (l - c) / 2) 20 true
                       {| rl := 1000; gs := Susp 0 |} 32 = (Return [[s z]], {| rl := 1000; gs := Done |})
  | None => False
  end.
Proof. vm_compute. repeat split. Qed.

(* the heap theorem on the example of C03: a query abandoned after its first answer (the projection raised) and the
   same query ended by an exception three frames down both leave the heap [(7, keep)] they started from *)
Example C17_heap_nonvacuous :
  eb_final_heap ex_prog2 (fun _ => 0) 100 10 1 [(7, A "keep")] (fst (ex_prog2 1)) tt = Some [(7, A "keep")] /\
  eb_final_heap ex_prog2 (fun _ => 0) 100 10 2 [(7, A "keep")] (fst (ex_prog2 1)) tt = Some [(7, A "keep")] /\
  eb_final_heap ex_prog2 (fun _ => 0) 100 1 1 [(7, A "keep")] (fst (ex_prog2 1)) tt = Some [(7, A "keep")].
Proof. vm_compute. repeat split. Qed.

(* round 4: query.close() in the finally block may itself RAISE (the clean-up of a registered Python predicate that is closed
   early and is reached from the query by `yield from` delegation only: goal of the query itself, call/N).  Engine/BoundedClose.v:
   `cexc g` = what close() raises on a generator in state g (ARBITRARY).  On every branch the recursion limit is the old one
   and the generator is finished - because engine.py restores the limit BEFORE it closes the query. *)
Theorem C17_close_raises_restores : forall (A B : Type) (ans : nat -> res A) (gexc : nat -> exc)
  (proj : nat -> A -> nat -> pout B * nat) budget cur (cexc : gstate -> option exc) st limit,
  running cur st ->
  snd (evaluate_bounded_c ans gexc proj budget cur cexc st limit) = {| rl := rl st; gs := Done |}.
Proof. exact BoundedClose.close_raises_rlimit_restored_all. Qed.
Print Assumptions C17_close_raises_restores.

(* and what comes out is the exception of close(), or exactly the outcome of evaluate_bounded with a close() that returns
   (to which C17_no_depth_error_escapes, C17_result_is_prefix, ... apply) *)
Theorem C17_close_raises_outcome : forall (A B : Type) (ans : nat -> res A) (gexc : nat -> exc)
  (proj : nat -> A -> nat -> pout B * nat) budget cur (cexc : gstate -> option exc) st limit,
  running cur st ->
  (exists g e, cexc g = Some e /\ fst (evaluate_bounded_c ans gexc proj budget cur cexc st limit) = Propagate e) \/
  fst (evaluate_bounded_c ans gexc proj budget cur cexc st limit) = fst (evaluate_bounded ans gexc proj budget cur true st limit).
Proof. exact BoundedClose.close_raises_outcome_all. Qed.
Print Assumptions C17_close_raises_outcome.

(* non-vacuity, and the ORDER of the two statements is what the theorem is about: the projection raises at the first answer,
   close() of the suspended query raises; engine.py's finally gives the limit 1000 back, the swapped one leaves 150 *)
Example C17_close_order_matters :
  running 10 ex_st /\
  evaluate_bounded_c ex_ans (fun _ => ERuntime) ex_proj (fun l c => l - c) 10 ex_cexc ex_st 150
    = (Propagate (EOther 9), {| rl := 1000; gs := Done |}) /\
  evaluate_bounded_swapped ex_ans (fun _ => ERuntime) ex_proj (fun l c => l - c) 10 ex_cexc ex_st 150
    = (Propagate (EOther 9), {| rl := 150; gs := Done |}).
Proof. exact BoundedClose.swapped_order_leaks. Qed.
