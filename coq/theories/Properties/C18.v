(* C18 - Compilation is a deterministic function of the source text.
   Only statements; every proof is `exact <lemma>` to a lemma proved in Cli/Determinism.v.

   REMARK, not a theorem: every model of the compiler in this development is a closed Gallina
   function, so "the model returns the same text every time" holds by construction and is not
   claimed as a result.  That the IMPLEMENTATION returns byte-identical text in another process,
   under another string-hash seed and after other compilations (including failed ones) is what the
   correspondence check of C18 observes on every run; it cannot be proved about CPython here.
   What is proved is that the two places where the code could depend on something else than the
   source text - the order of a de-duplicated variable list, and the counters - do not. *)
From Coq Require Import String.
From Coq Require Import List NArith Bool Arith Permutation.
Import ListNotations.
From YP Require Import Base.Str Cli.Determinism.

(* filter_free_variables as it is now (list(dict.fromkeys(v for v in variables if v not in bound))):
   the declared variables are the unbound variables of the expression, each once, ordered by
   first occurrence in the text. *)
Theorem C18_dedup_keeps_first_occurrence_order : forall bound vars,
  let res := filter_free_variables bound vars in
  NoDup res
  /\ (forall v, In v res <-> In v vars /\ ~ In v bound)
  /\ (forall i j x y, nth_error res i = Some x -> nth_error res j = Some y -> i < j ->
        exists ix iy, first_index x vars = Some ix /\ first_index y vars = Some iy /\ ix < iy).
Proof. exact dedup_keeps_first_occurrence_order. Qed.
Print Assumptions C18_dedup_keeps_first_occurrence_order.

(* ... and these properties leave no freedom: two lists that have them are equal *)
Theorem C18_first_occurrence_order_unique : forall vars l1 l2,
  NoDup l1 -> NoDup l2 -> (forall v, In v l1 <-> In v l2) ->
  sorted_by_first vars l1 -> sorted_by_first vars l2 -> l1 = l2.
Proof. exact first_occurrence_order_unique. Qed.
Print Assumptions C18_first_occurrence_order_unique.

(* the OLD behaviour (list(set(...)), defect D18): with the set's iteration order as an arbitrary
   permutation parameter, two orders give different declaration orders and different emitted
   lines for a clause with two fresh variables.  "The declarations do not depend on the iteration
   order of the set" is refuted for that code. *)
Theorem C18_dedup_permutation_invariant_refuted :
  exists (order1 order2 : list str -> list str) (bound vars : list str),
    (forall l, Permutation (order1 l) l) /\ (forall l, Permutation (order2 l) l)
    /\ old_filter_free_variables order1 bound vars <> old_filter_free_variables order2 bound vars
    /\ declaration_lines (old_filter_free_variables order1 bound vars)
       <> declaration_lines (old_filter_free_variables order2 bound vars).
Proof. exact dedup_permutation_invariant_refuted. Qed.
Print Assumptions C18_dedup_permutation_invariant_refuted.

(* label and anonymous-variable counters start at their initial value in every compilation: the
   result for a source does not depend on what is compiled before or after it in the same process
   (compile_from = the compiler started from given counter values: arbitrary). *)
Theorem C18_counters_per_call : forall (A : Type) (compile_from : nat * nat -> str -> A * (nat * nat)) before after src,
  nth_error (compile_many A compile_from (before ++ src :: after)) (length before) = Some (compile_one A compile_from src)
  /\ compile_many A compile_from (before ++ src :: after)
     = map (compile_one A compile_from) before ++ compile_one A compile_from src :: map (compile_one A compile_from) after.
Proof. exact counters_per_call. Qed.
Print Assumptions C18_counters_per_call.

(* what that excludes: counters that survive a call make the second compilation of the same text differ *)
Theorem C18_shared_counters_refuted :
  exists (compile_from : nat * nat -> str -> str * (nat * nat)) (src : str),
    compile_many_shared str compile_from (0, 0) [src; src] <> compile_many str compile_from [src; src].
Proof. exact shared_counters_refuted. Qed.
Print Assumptions C18_shared_counters_refuted.

(* non-vacuity: the variables of  p(X, [H|T]) :- q(Fa, Fb, _), r(Fb, Fa, H, _)  with X aliased to
   the argument: declarations in the head H T, in the body Fa Fb x1 x2 *)
Local Open Scope string_scope.
Local Open Scope list_scope.
Example C18_nonvacuous :
  let head := [d "X"; d "H"; d "T"] in
  let body := [d "Fa"; d "Fb"; d "x1"; d "Fb"; d "Fa"; d "H"; d "x2"] in
  filter_free_variables [d "X"] head = [d "H"; d "T"]
  /\ filter_free_variables ([d "X"] ++ [d "H"; d "T"]) body = [d "Fa"; d "Fb"; d "x1"; d "x2"].
Proof. split; reflexivity. Qed.
