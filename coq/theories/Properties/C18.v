(* C18 - Compilation is a deterministic function of the source text.
   Only statements; every proof is `exact <lemma>` to a lemma proved in Cli/DetCompile.v.

   REMARK, not a theorem: the model of the compiler, Comp/CompileText.v
       compile_text : (N -> bool) -> str -> cresult
   is a closed Gallina function of the source text (and of the Unicode table consulted by repr), so
   "the model returns the same text every time" holds by construction and is not claimed as a result.
   That the IMPLEMENTATION returns byte-identical text in another process, under another string-hash
   seed and after other compilations (including failed ones), with fresh or reused options objects,
   AND that this text is compile_text of the source, is what the correspondence check of C18 observes
   on every run (harness/props/c18.py); it cannot be proved about CPython here.

   What is proved: the two places where the implementation could depend on something else than the
   source - the order of a de-duplicated variable list, and the two counters - are made explicit
   parameters of the model pipeline (compile_text_g ord (a,k)); compile_text is the instance
   (identity, (0,0)); the declaration order of the real model is the canonical one (a function of
   the clause syntax); and the pipeline is NOT invariant in either parameter (refutations with
   concrete sources, evaluated through lexer, parser, visitor, compiler and emitter), so both
   matter for the bytes. *)
From Coq Require Import String.
From Coq Require Import List NArith Bool Arith Permutation.
Import ListNotations.
From YP Require Import Base.Str Lang.Ast Comp.IR Comp.CompileBody Comp.CompileClause Comp.CompileText
  Comp.EmitLines Cli.Determinism Cli.DetCompile.

(* filter_free_variables as it is now (list(dict.fromkeys(v for v in variables if v not in bound))),
   i.e. the function CompileClause.filter_free that the model compiler calls: the result has no
   duplicates, contains exactly the variables of `vars` that are not bound, ordered by first
   occurrence in `vars` (the textual order). *)
Theorem C18_filter_free_canonical : forall bound vars,
  let res := filter_free bound vars in
  NoDup res
  /\ (forall v, In v res <-> In v vars /\ ~ In v bound)
  /\ (forall i j x y, nth_error res i = Some x -> nth_error res j = Some y -> i < j ->
        exists ix iy, first_index x vars = Some ix /\ first_index y vars = Some iy /\ ix < iy).
Proof. exact filter_free_canonical. Qed.
Print Assumptions C18_filter_free_canonical.

(* ... and these properties leave no freedom: two lists that have them are equal *)
Theorem C18_canonical_unique : forall bound vars l1 l2,
  canonical bound vars l1 -> canonical bound vars l2 -> l1 = l2.
Proof. exact canonical_unique. Qed.
Print Assumptions C18_canonical_unique.

(* DECL_ORDER_CANONICAL.  The code of a clause (compile_function_body) is: the aliases `V_X = argN`,
   then `V_v = variable()` for the canonical list of the head's variables that are not aliased, then
   the same for the canonical list of the body's variables not yet bound, then loops that contain no
   assignment at their top level.  Nothing but the clause's syntax determines these lines. *)
Theorem C18_decl_order_canonical : forall c cnt code cnt', compile_clause c cnt = Some (code, cnt') ->
  let pos := head_args_by_pos (c_args c) in
  let aliased := some_list pos in
  exists fv_head fv_body loops,
    code = head_aliases 0 pos ++ map declare fv_head ++ map declare fv_body ++ loops
    /\ canonical aliased (flat_map sterm_vars (c_args c)) fv_head
    /\ canonical (aliased ++ fv_head) (body_vars (c_body c)) fv_body
    /\ Forall not_assign loops.
Proof. exact decl_order_canonical. Qed.
Print Assumptions C18_decl_order_canonical.

(* the pipeline with the order function and the initial counters as parameters is, at (identity,
   (0,0)), the model compiler that the check compares with the implementation *)
Theorem C18_pipeline_is_compile_text : forall printable s,
  fst (compile_text_g printable keep gkeep (0, 0) s) = compile_text printable s.
Proof. exact compile_text_g_id. Qed.
Print Assumptions C18_pipeline_is_compile_text.

(* the OLD behaviour (list(set(...)), defect D18): the set's iteration order is some permutation
   chosen by the hash seed.  Two permutations, one source text, two different emitted texts:
   "the output does not depend on the iteration order" is refuted for that code. *)
Theorem C18_set_order_refuted :
  exists (ord1 ord2 : list str -> list str) (s : str) (t1 t2 : str),
    (forall l, Permutation (ord1 l) l) /\ (forall l, Permutation (ord2 l) l)
    /\ fst (compile_text_g no_unicode ord1 gkeep (0, 0) s) = CText t1
    /\ fst (compile_text_g no_unicode ord2 gkeep (0, 0) s) = CText t2
    /\ t1 <> t2.
Proof. exact set_order_refuted. Qed.
Print Assumptions C18_set_order_refuted.

(* the other container whose iteration order reaches the text: the dictionary (name, arity) -> clauses
   of visitProgram, iterated by compile_program.  The model (group_program) iterates in insertion
   order, as Python dicts do; if the order were anything else (a set of keys), two orders would give
   two different texts for `p(a). q(b).` *)
Theorem C18_group_order_refuted :
  exists (g1 g2 : list (key * list clause) -> list (key * list clause)) (s : str) (t1 t2 : str),
    (forall l, Permutation (g1 l) l) /\ (forall l, Permutation (g2 l) l)
    /\ fst (compile_text_g no_unicode keep g1 (0, 0) s) = CText t1
    /\ fst (compile_text_g no_unicode keep g2 (0, 0) s) = CText t2
    /\ t1 <> t2.
Proof. exact group_order_refuted. Qed.
Print Assumptions C18_group_order_refuted.

(* "after any other compilations in the same process": a process that creates its visitor and
   compiler (counters 0) in every call, as _compile_prolog_from_stream does, returns for each source
   compile_text of that source - whatever was compiled, or failed to compile, before and after.
   (By construction of `session`; the content is in the next theorem.) *)
Theorem C18_counters_per_call : forall printable before after src,
  session printable keep gkeep (before ++ src :: after)
  = map (compile_text printable) before ++ compile_text printable src :: map (compile_text printable) after.
Proof. exact counters_per_call. Qed.
Print Assumptions C18_counters_per_call.

(* what that excludes: if either counter survived a call (module-level, class-level, stored in the
   options object), compiling the same text twice in one process would give two different texts -
   shown for the anonymous-variable counter alone (`p(_).`) and for the label counter alone
   (`p :- ( a -> b ; c ).`); the per-call process gives the same text twice. *)
Theorem C18_shared_counters_refuted :
  (exists s t1 t2, session_shared no_unicode keep gkeep (0, 0) [s; s] = [CText t1; CText t2] /\ t1 <> t2
                   /\ session no_unicode keep gkeep [s; s] = [CText t1; CText t1])
  /\ (exists s t1 t2, session_shared no_unicode keep gkeep (0, 0) [s; s] = [CText t1; CText t2] /\ t1 <> t2
                   /\ session no_unicode keep gkeep [s; s] = [CText t1; CText t1]).
Proof. exact shared_counters_refuted. Qed.
Print Assumptions C18_shared_counters_refuted.

(* non-vacuity: the clause  p(X, [H|T]) :- q(Fa, Fb, _), r(Fb, Fa, H, _).  goes through the whole model
   compiler; X is aliased to arg1, the head declares H T, the body Fa Fb x1 x2, in this order *)
Local Open Scope string_scope.
Local Open Scope list_scope.
Example C18_nonvacuous :
  exists text, compile_text no_unicode (d "p(X, [H|T]) :- q(Fa, Fb, _), r(Fb, Fa, H, _).") = CText text
  /\ firstn 9 (skipn 7 (split_nl text)) =
     [d "    V_X = arg1"; d "    V_H = variable()"; d "    V_T = variable()"; d "    V_Fa = variable()";
      d "    V_Fb = variable()"; d "    V_x1 = variable()"; d "    V_x2 = variable()";
      d "    for l1 in unify(arg2,listpair(V_H,V_T)):"; d "      for l2 in query('q',[V_Fa,V_Fb,V_x1]):"].
Proof. eexists. split; vm_compute; reflexivity. Qed.
