(* C19 - The yldpc command line equals the library; debug options only add comments.
   Only statements; every proof is `exact <lemma>` to a lemma proved in Cli/.

   First group: the library compiler `compile : str -> cres` and the debug messages
   `trace : bool -> str -> str -> list (chan * str)` that the visitor and the compiler try to
   emit are ARBITRARY functions (universally quantified).
   Second group (`..._compiler`): the library compiler is the end-to-end model of
   compile_prolog_from_string, Comp/CompileText.v compile_text (the function that the C11/C12/C18
   checks compare byte for byte with the implementation); the debug messages stay arbitrary, and so
   does the one thing compile_text does not say: with which exception (CompilerError with position
   and message, or another one) a rejected source is refused (`failure`). *)
From Coq Require Import String.
From Coq Require Import List NArith Bool.
Import ListNotations.
From YP Require Import Base.Str Comp.CompileText Cli.Comment Cli.Cli Cli.CliCompile.
Local Open Scope string_scope.
Local Open Scope list_scope.
Local Open Scope N_scope.

(* "Debug options only add comment lines", the text level: for EVERY message (any code points,
   any of the line boundaries of str.splitlines: \n \r \r\n \v \f \x1c \x1d \x1e \x85 U+2028 U+2029)
   every physical line of comment_lines msg - physical line = line of Python's tokenizer, ended by
   \n, \r\n or \r - starts with #, there is at least one, and the text ends with a newline. *)
Theorem C19_comment_every_line : forall msg,
  Forall (fun l => starts_hash l = true) (plines (comment_lines msg))
  /\ plines (comment_lines msg) <> []
  /\ exists t, comment_lines msg = t ++ [10].
Proof. exact comment_every_line. Qed.
Print Assumptions C19_comment_every_line.

(* ... and the comment lines carry exactly the lines of the message, in order *)
Theorem C19_comment_lines_content : forall msg,
  plines (comment_lines msg) = map (fun l => 35 :: 32 :: l ++ [10]) (lines_or_empty (escape_nul msg))
  /\ Forall nobreak (lines_or_empty (escape_nul msg)).
Proof. exact comment_lines_content. Qed.
Print Assumptions C19_comment_lines_content.

(* D23.  Every line of the debug text is a comment line AS PYTHON READS LINES: "# ", then characters
   none of which is NUL, LF, CR or any other line boundary of str.splitlines, then the LF that ends
   it; and the whole text contains no NUL (Python 3.12 refuses a NUL anywhere in source text, also
   in a comment; comment_lines writes it as backslash-zero). *)
Theorem C19_comment_lines_clean : forall msg,
  Forall (fun l => exists body, l = 35 :: 32 :: body ++ [10] /\ Forall comment_char body) (plines (comment_lines msg))
  /\ Forall (fun c => c <> 0) (comment_lines msg).
Proof. exact comment_lines_clean. Qed.
Print Assumptions C19_comment_lines_clean.

(* removing the comment lines of a commented message leaves nothing *)
Theorem C19_strip_comment_lines : forall msg, strip (comment_lines msg) = [].
Proof. exact strip_comment_lines. Qed.
Print Assumptions C19_strip_comment_lines.

(* "with comment lines removed the output is identical for every combination of debug options and
   every input": stdout, the file written and the way the process ends.  Hypothesis on the library
   (checked on the implementation side for every compiled text): the generated code has no line
   that starts with # and is empty or ends with a newline. *)
Theorem C19_debug_only_comments : forall compile trace,
  (forall t body, compile t = COk body -> clean_body body) ->
  forall f outfile srcs fs stdin,
  strip_result (yldpc compile trace f outfile srcs fs stdin)
  = strip_result (yldpc compile trace no_flags outfile srcs fs stdin).
Proof. exact debug_only_comments. Qed.
Print Assumptions C19_debug_only_comments.

(* "writes, for each source in the order given (files, or standard input given as `-`), the same
   code the library function returns for that text - to standard output or to the file named with
   -o": no debug option, every source readable and compiling. *)
Theorem C19_cli_equals_library : forall compile trace outfile srcs fs stdin texts outs,
  all_exist fs srcs ->
  contents (fs_seen fs outfile) stdin srcs = map RText texts ->
  Forall2 (fun t o => lib_text compile t = Some o) texts outs ->
  yldpc compile trace no_flags outfile srcs fs stdin = placed outfile (concat outs) EOk.
Proof. exact cli_equals_library. Qed.
Print Assumptions C19_cli_equals_library.

(* sources other than the output file are read as they are in the file system *)
Theorem C19_sources_as_on_disk : forall fs outfile srcs stdin, ~ In outfile srcs ->
  contents (fs_seen fs outfile) stdin srcs = contents fs stdin srcs.
Proof. exact contents_fs_seen. Qed.
Print Assumptions C19_sources_as_on_disk.

(* "and exits non-zero when a file does not compile": what is written before the failure (the
   library texts of the sources before the first failing one, in the output file or on stdout;
   nothing of the failing source or of later ones), the message "<file>:<line>:<column>:<msg>" for a
   CompilerError (syntax errors are CompilerErrors), exit status 1. *)
Theorem C19_cli_first_failure : forall compile trace outfile srcs fs stdin pre it post outs e,
  all_exist fs srcs ->
  combine srcs (contents (fs_seen fs outfile) stdin srcs) = pre ++ it :: post ->
  Forall2 (fun it o => exists t, snd it = RText t /\ lib_text compile t = Some o) pre outs ->
  fails compile it e ->
  yldpc compile trace no_flags outfile srcs fs stdin = placed outfile (concat outs) e /\ status e = 1.
Proof. exact cli_first_failure. Qed.
Print Assumptions C19_cli_first_failure.

(* exit status 0 iff every source exists, is readable and compiles - for every option combination *)
Theorem C19_exit_status : forall compile trace f outfile srcs fs stdin,
  status (r_end (yldpc compile trace f outfile srcs fs stdin)) = 0 <->
  (all_exist fs srcs /\
   Forall (fun r => exists t body, r = RText t /\ compile t = COk body)
          (contents (fs_seen fs outfile) stdin srcs)).
Proof. exact exit_status. Qed.
Print Assumptions C19_exit_status.

(* a named source that does not exist: usage error, exit status 2, nothing written *)
Theorem C19_missing_source : forall compile trace f outfile srcs fs stdin,
  ~ all_exist fs srcs ->
  yldpc compile trace f outfile srcs fs stdin = Result [] None EUsage.
Proof. exact missing_source_usage_error. Qed.
Print Assumptions C19_missing_source.

(* ------------------------------------------------------------------ the real compiler *)

(* every text the compiler returns is the header, a newline and a body none of whose physical lines
   starts with # and which is empty or ends with a newline: the hypothesis of
   C19_debug_only_comments holds for compile_text (any Unicode table `printable`). *)
Theorem C19_library_text_clean : forall printable s text, compile_text printable s = CText text ->
  exists body, text = header ++ [10] ++ body /\ clean_body body.
Proof. exact compile_text_clean. Qed.
Print Assumptions C19_library_text_clean.

(* "with comment lines removed the output is identical for every combination of debug options and
   every input", no hypothesis left *)
Theorem C19_debug_only_comments_compiler : forall printable failure trace f outfile srcs fs stdin,
  strip_result (yldpc_lib printable failure trace f outfile srcs fs stdin)
  = strip_result (yldpc_lib printable failure trace no_flags outfile srcs fs stdin).
Proof. exact debug_only_comments_lib. Qed.
Print Assumptions C19_debug_only_comments_compiler.

(* "the same code the library function returns for that text": the texts are compile_text's *)
Theorem C19_cli_equals_compile_text : forall printable failure trace outfile srcs fs stdin texts outs,
  all_exist fs srcs ->
  contents (fs_seen fs outfile) stdin srcs = map RText texts ->
  Forall2 (fun t o => compile_text printable t = CText o) texts outs ->
  yldpc_lib printable failure trace no_flags outfile srcs fs stdin = placed outfile (concat outs) EOk.
Proof. exact cli_equals_compile_text. Qed.
Print Assumptions C19_cli_equals_compile_text.

(* ... and under any of the 16 option combinations the same up to comment lines *)
Theorem C19_cli_equals_compile_text_debug : forall printable failure trace f outfile srcs fs stdin texts outs,
  all_exist fs srcs ->
  contents (fs_seen fs outfile) stdin srcs = map RText texts ->
  Forall2 (fun t o => compile_text printable t = CText o) texts outs ->
  strip_result (yldpc_lib printable failure trace f outfile srcs fs stdin)
  = strip_result (placed outfile (concat outs) EOk).
Proof. exact cli_equals_compile_text_debug. Qed.
Print Assumptions C19_cli_equals_compile_text_debug.

(* "and exits non-zero when a file does not compile, reporting syntax errors with file name and
   position": the first source that is unreadable or that compile_text refuses ends the run with
   exit status 1; what was written is compile_text of the sources before it; a CompilerError (syntax
   errors are CompilerErrors) is reported as <file>:<line>:<column>:<message> *)
Theorem C19_cli_first_failure_compiler : forall printable failure trace outfile srcs fs stdin pre it post outs,
  all_exist fs srcs ->
  combine srcs (contents (fs_seen fs outfile) stdin srcs) = pre ++ it :: post ->
  Forall2 (fun it o => exists t, snd it = RText t /\ compile_text printable t = CText o) pre outs ->
  (snd it = RBad \/ exists t, snd it = RText t /\ forall o, compile_text printable t <> CText o) ->
  exists e, yldpc_lib printable failure trace no_flags outfile srcs fs stdin = placed outfile (concat outs) e /\ status e = 1
    /\ (e = ECrash \/ exists l c m, e = EError (err_msg (fst it) l c m)).
Proof. exact cli_first_failure_lib. Qed.
Print Assumptions C19_cli_first_failure_compiler.

(* exit status 0 iff every source exists, is readable and is accepted by the compiler *)
Theorem C19_exit_status_compiler : forall printable failure trace f outfile srcs fs stdin,
  status (r_end (yldpc_lib printable failure trace f outfile srcs fs stdin)) = 0 <->
  (all_exist fs srcs /\
   Forall (fun r => exists t text, r = RText t /\ compile_text printable t = CText text)
          (contents (fs_seen fs outfile) stdin srcs)).
Proof. exact exit_status_lib. Qed.
Print Assumptions C19_exit_status_compiler.

(* non-vacuity: a compiler that accepts "a." and rejects everything else, debug messages that try
   to smuggle code in with every kind of line break, three sources (a file, stdin, a file that does
   not compile), -d and -o: the hypotheses of the theorems hold and the output file contains the
   two library texts between comment lines only. *)
Example C19_nonvacuous :
  let compile := fun t => if str_eqb t (d "a.") then COk (d "def a_0():\10;  pass\10;") else CErr 1 0 (d "no") in
  let trace := fun (dfn : bool) (s t : str) =>
     [(ChParser, d "visit\10;import os\13;os.x()\8232;y"); (ChGenerator, []); (ChParser, d "z\12;")] in
  let fs := fun s => if str_eqb s (d "x.pl") then Some (RText (d "a.")) else
                     if str_eqb s (d "y.pl") then Some (RText (d "b.")) else None in
  let r := yldpc compile trace (Flags true false false false) (d "o.py") [d "x.pl"; d "-"; d "y.pl"] fs (RText (d "a.")) in
  (forall t body, compile t = COk body -> clean_body body)
  /\ r_end r = EError (d "y.pl:1:0:no")
  /\ strip_result r = Result [] (Some (d "o.py", d "\10;def a_0():\10;  pass\10;\10;def a_0():\10;  pass\10;")) (EError (d "y.pl:1:0:no"))
  /\ length (plines (output r)) = 34%nat.
Proof.
  cbv zeta. split; [|split; [|split]].
  - intros t body. destruct (str_eqb t (d "a.")); [|discriminate].
    intros H; inversion H; subst. split; [reflexivity|]. right. eexists (d "def a_0():\10;  pass"). reflexivity.
  - vm_compute. reflexivity.
  - vm_compute. reflexivity.
  - vm_compute. reflexivity.
Qed.

(* non-vacuity with the real compiler: `yldpc -d -o o.py x.pl - y.pl` where x.pl and stdin hold a
   clause with a quoted atom containing a line break and y.pl has a syntax error (reported by the
   implementation as 1:4); debug messages with every kind of line break.  The file holds the two
   texts of compile_text between comment lines only. *)
Example C19_nonvacuous_compiler :
  let printable := fun _ : N => false in
  let failure := fun _ : str => CErr 1 4 (d "mismatched input") in
  let trace := fun (dfn : bool) (s t : str) =>
     [(ChParser, d "visit\10;import os\13;os.x()\8232;y"); (ChGenerator, []); (ChParser, d "z\12;")] in
  let src := d "p('a\10;import os', X) :- q(X, _)." in
  let fs := fun s => if str_eqb s (d "x.pl") then Some (RText src) else
                     if str_eqb s (d "y.pl") then Some (RText (d "p(a) :- .")) else None in
  let r := yldpc_lib printable failure trace (Flags true false false false) (d "o.py") [d "x.pl"; d "-"; d "y.pl"] fs (RText src) in
  exists text, compile_text printable src = CText text
  /\ r_end r = EError (d "y.pl:1:4:mismatched input")
  /\ strip_result r = strip_result (Result [] (Some (d "o.py", text ++ text)) (EError (d "y.pl:1:4:mismatched input")))
  /\ length (plines (output r)) = 58%nat.
Proof.
  cbv zeta. eexists. split; [vm_compute; reflexivity|]. split; [vm_compute; reflexivity|].
  split; vm_compute; reflexivity.
Qed.
